(* Correspondence between the operational model extended by the gang fragment (Core/Model3.v, m_step3) and the
   implementation.  Same comparison and kinds as Oracles/CoreModelCheck.v (191 node ledgers / allocation lists,
   291 queue allocated / root maximum, 391 queue pending, 392 application ledgers / requests / allocations / state,
   393 partition total / allocation counter; coverage pseudo kinds 100000001 / 100000002).

   [model3_check_strict] additionally compares, for the steps the gang fragment handles, what the standard
   comparison does not look at: the released flag and the in-flight link of every allocation copy, the placeholder
   counter of the partition, the placeholder data, the timers and the completed list (kinds 394-397; development
   aid and regression check of the gang fragment, not part of the standard kinds). *)
From Coq Require Import List ZArith NArith Bool.
From YK Require Import Base.Res Core.Obs Core.Model Core.Model2 Core.Model3 Oracles.CoreModelCheck.
Import ListNotations.
Open Scope N_scope.

Definition model3_check_all := model_check_all_with m_step3.

(* the gang fragment alone (coverage of m_step_gang without m_step2) *)
Definition model3_gang_only := model_check_all_with m_step_gang.

(* ---- strict comparison of the fields the gang fragment maintains ---- *)
Definition alloc_flags_eq (a b : list oalloc) : bool :=
  forallb (fun x => match find_alloc b (oa_key x) with
                    | Some y => Bool.eqb (oa_released x) (oa_released y) && (oa_release x =? oa_release y)
                                && Bool.eqb (oa_ph x) (oa_ph y) && (oa_tg x =? oa_tg y) && (oa_app x =? oa_app y)
                    | None => false end) a.
Definition apps_flags_eq (m o : ostate) : bool :=
  forallb (fun a => match find_app o (ap_id a) with
                    | Some a' => alloc_flags_eq (ap_requests a) (ap_requests a') && alloc_flags_eq (ap_allocs a) (ap_allocs a')
                    | None => true end) (s_apps m).
Definition nodes_flags_eq (m o : ostate) : bool :=
  forallb (fun n => match find_node o (on_id n) with
                    | Some n' => alloc_flags_eq (on_allocs n) (on_allocs n')
                    | None => false end) (s_nodes m).
Definition phdata_eq (a b : list (N * (Z * (Z * Z)))) : bool :=
  forallb (fun e => existsb (fun e' => (fst e =? fst e') && Z.eqb (fst (snd e)) (fst (snd e')) &&
                                       Z.eqb (fst (snd (snd e))) (fst (snd (snd e'))) && Z.eqb (snd (snd (snd e))) (snd (snd (snd e')))) b) a
  && Nat.eqb (length a) (length b).
Definition apps_gang_eq (m o : ostate) : bool :=
  forallb (fun a => match find_app o (ap_id a) with
                    | Some a' => phdata_eq (ap_phdata a) (ap_phdata a') && Bool.eqb (ap_phtimer a) (ap_phtimer a')
                                 && Bool.eqb (ap_statetimer a) (ap_statetimer a') && Bool.eqb (ap_hasph a) (ap_hasph a')
                                 && res_eqz (ap_phask a) (ap_phask a')
                                 && forallb (fun p => existsb (N.eqb p) (ap_statelog a')) (ap_statelog a)
                                 && Nat.eqb (length (ap_statelog a)) (length (ap_statelog a'))
                    | None => true end) (s_apps m).
Definition live_sets_eq (m o : ostate) : bool :=
  forallb (fun a => match find_app o (ap_id a) with Some _ => true | None => false end) (s_apps m) &&
  forallb (fun a => match find_app m (ap_id a) with Some _ => true | None => false end) (s_apps o) &&
  forallb (fun a => existsb (fun b => ap_id b =? ap_id a) (s_completed o)) (s_completed m) &&
  forallb (fun a => existsb (fun b => ap_id b =? ap_id a) (s_completed m)) (s_completed o).

Definition strict_step_check (deny : list (N * N)) (pre : ostate) (st : ostep) : option (list N) :=
  match m_step2 deny pre st with
  | Some _ => None
  | None =>
      match m_step_gang deny pre st with
      | None => None
      | Some m =>
          let o := st_obs st in
          Some ((if apps_flags_eq m o && nodes_flags_eq m o then [] else [394]) ++
                (if Z.eqb (s_nph m) (s_nph o) then [] else [395]) ++
                (if apps_gang_eq m o then [] else [396]) ++
                (if live_sets_eq m o then [] else [397]))
      end
  end.

Fixpoint strict_steps (deny : list (N * N)) (pre : ostate) (i : N) (l : list ostep) : list (N * N) :=
  match l with
  | [] => []
  | st :: t =>
      (match strict_step_check deny pre st with None => [] | Some ks => map (fun k => (i, k)) ks end)
      ++ strict_steps deny (st_obs st) (i + 1) t
  end.
Fixpoint strict_all (i : N) (cs : list ohistory) : list (N * N) :=
  match cs with
  | [] => []
  | h :: t => map (fun p => (i * 1000 + fst p, snd p)) (strict_steps (h_preddeny h) (h_init h) 0 (h_steps h)) ++ strict_all (i + 1) t
  end.
Definition model3_check_strict (cs : list ohistory) : list (N * N) := model3_check_all cs ++ strict_all 0 cs.
