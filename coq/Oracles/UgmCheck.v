(* Checkers run by the correspondence run of engine "ugm" (property C05).
   A case is a history of Manager calls together with what the implementation did: the value it
   returned and its complete state after the call (read through the verif hook, sent as the
   difference to the previous state).  For every step
     kind 1  the model, started from the implementation's previous state, does not reach the
             implementation's next state / return value (under any map iteration order);
     kind 2  enforcement oracle: a scheduler-decided Increase pushed usage over a limit;
     kind 3  max-applications oracle;
     kind 4  conservation oracle: tracked usage <> sum of live allocations;
     kind 5  configuration oracle: limit in force <> limit of the latest configuration;
     kind 6  UpdateConfig panicked;
     kinds >= 10  an oracle failure inside the window of a recorded known finding. *)
From Coq Require Import List NArith ZArith Bool.
From YK Require Import Base.Int64 Base.Res Ugm.Tracker Ugm.Manager Ugm.UgmSpec Ugm.Known.
Import ListNotations.
Open Scope N_scope.

(* ---- constructors used by the generated cases files (values are non-negative unless RZ) ---- *)
Definition R (l : list (N * N)) : res := map (fun kv => (fst kv, Z.of_N (snd kv))) l.
Definition RN (l : list (N * N)) : res := map (fun kv => (fst kv, (- Z.of_N (snd kv))%Z)) l.
(* mixed signs: (type, negative?, magnitude) *)
Definition RZ (l : list (N * bool * N)) : res :=
  map (fun x : N * bool * N => let '(k, neg, v) := x in (k, if neg then (- Z.of_N v)%Z else Z.of_N v)) l.

(* ---- sorting ---- *)
Fixpoint insert_by {A} (leb : A -> A -> bool) (x : A) (l : list A) : list A :=
  match l with [] => [x] | y :: t => if leb x y then x :: l else y :: insert_by leb x t end.
Definition isort {A} (leb : A -> A -> bool) (l : list A) : list A := fold_right (insert_by leb) [] l.
Fixpoint path_leb (a b : path) : bool :=
  match a, b with
  | [], _ => true
  | _ :: _, [] => false
  | x :: a', y :: b' => if x <? y then true else if y <? x then false else path_leb a' b'
  end.
Definition sortN {A} (l : list (N * A)) := isort (fun a b => fst a <=? fst b) l.
Definition sortP {A} (l : list (path * A)) := isort (fun a b => path_leb (fst a) (fst b)) l.

Fixpoint list_eqb {A} (eq : A -> A -> bool) (l1 l2 : list A) : bool :=
  match l1, l2 with
  | [], [] => true
  | a :: t1, b :: t2 => eq a b && list_eqb eq t1 t2
  | _, _ => false
  end.
Definition opt_eqb {A} (eq : A -> A -> bool) (a b : option A) : bool :=
  match a, b with Some x, Some y => eq x y | None, None => true | _, _ => false end.

(* ---- normal form of a tracker tree: children sorted, lazily created empty trackers dropped ---- *)
Definition empty_node (q : qt) : bool :=
  match q_children q with [] => true | _ => false end && match q_apps q with [] => true | _ => false end &&
  IsZero (q_usage q) && (q_maxApps q =? 0) && IsZero (q_max q).
Fixpoint norm_qt (q : qt) : qt :=
  let 'QT n p u a m ma w ch := q in
  let ch' := (fix go (l : list (qname * qt)) : list (qname * qt) :=
                match l with
                | [] => []
                | (cn, cq) :: t => let cq' := norm_qt cq in if empty_node cq' then go t else (cn, cq') :: go t
                end) ch in
  QT n p u (isort N.leb a) m ma w (sortN ch').
Fixpoint qt_eqb (a b : qt) {struct a} : bool :=
  let 'QT n1 p1 u1 a1 m1 ma1 w1 c1 := a in
  let 'QT n2 p2 u2 a2 m2 ma2 w2 c2 := b in
  (n1 =? n2) && path_eqb p1 p2 && res_eqz (oget u1) (oget u2) && list_eqb N.eqb a1 a2 &&
  ores_eqb m1 m2 && (ma1 =? ma2) && Bool.eqb w1 w2 &&
  (fix go (l1 : list (qname * qt)) (l2 : list (qname * qt)) : bool :=
     match l1, l2 with
     | [], [] => true
     | (k1, x) :: t1, (k2, y) :: t2 => (k1 =? k2) && qt_eqb x y && go t1 t2
     | _, _ => false
     end) c1 c2.

Definition limitcfg_eqb (a b : limitcfg) : bool := ores_eqb (l_max a) (l_max b) && (l_apps a =? l_apps b).
Definition pmap_eqb {A} (eq : A -> A -> bool) (a b : list (path * A)) : bool :=
  list_eqb (fun x y => path_eqb (fst x) (fst y) && eq (snd x) (snd y)) (sortP a) (sortP b).
Definition nmap_eqb {A} (eq : A -> A -> bool) (a b : list (N * A)) : bool :=
  list_eqb (fun x y => (fst x =? fst y) && eq (snd x) (snd y)) (sortN a) (sortN b).

Definition ut_norm (ut : utracker) : utracker := mkUT (sortN (ut_links ut)) (norm_qt (ut_qt ut)).
Definition ut_droppable (ut : utracker) : bool :=
  match ut_links ut with [] => true | _ => false end && empty_node (norm_qt (ut_qt ut)).
Definition gt_droppable (gt : gtracker) : bool :=
  match gt_apps gt with [] => true | _ => false end && empty_node (norm_qt (gt_qt gt)).
Definition ut_eqb (a b : utracker) : bool :=
  nmap_eqb (opt_eqb N.eqb) (ut_links a) (ut_links b) && qt_eqb (norm_qt (ut_qt a)) (norm_qt (ut_qt b)).
Definition gt_eqb (a b : gtracker) : bool :=
  nmap_eqb N.eqb (gt_apps a) (gt_apps b) && qt_eqb (norm_qt (gt_qt a)) (norm_qt (gt_qt b)).

(* the compared projection of two states *)
Definition state_eqb (a b : ugm_state) : bool :=
  nmap_eqb ut_eqb (filter (fun x => negb (ut_droppable (snd x))) (users a))
                  (filter (fun x => negb (ut_droppable (snd x))) (users b)) &&
  nmap_eqb gt_eqb (filter (fun x => negb (gt_droppable (snd x))) (groups a))
                  (filter (fun x => negb (gt_droppable (snd x))) (groups b)) &&
  pmap_eqb limitcfg_eqb (userWild a) (userWild b) &&
  pmap_eqb limitcfg_eqb (groupWild a) (groupWild b) &&
  pmap_eqb (list_eqb N.eqb) (cfgGroups a) (cfgGroups b) &&
  pmap_eqb (nmap_eqb limitcfg_eqb) (userLimits a) (userLimits b) &&
  pmap_eqb (nmap_eqb limitcfg_eqb) (groupLimits a) (groupLimits b).

Definition ret_eqb (a b : ret) : bool :=
  match a, b with
  | RUnit, RUnit => true
  | RHead x, RHead y => ores_eqb x y
  | RCan x, RCan y => Bool.eqb x y
  | RConf x, RConf y => Bool.eqb x y
  | RCrash, RCrash => true
  | _, _ => false
  end.

(* ---- the implementation's state after a call, sent as a difference ---- *)
Record cfgmaps := mkCfg {
  m_uw : list (path * limitcfg); m_gw : list (path * limitcfg); m_cg : list (path * list gname);
  m_ul : list (path * list (uname * limitcfg)); m_gl : list (path * list (gname * limitcfg)) }.
Record delta := mkDelta {
  d_users : list (uname * option utracker);      (* Some: new or changed tracker, None: removed *)
  d_groups : list (gname * option gtracker);
  d_cfg : option cfgmaps }.
Definition apply_opt {A} (m : list (N * A)) (d : list (N * option A)) : list (N * A) :=
  fold_left (fun m kv => match snd kv with Some v => nset (fst kv) v m | None => ndel (fst kv) m end) d m.
Definition apply_delta (s : ugm_state) (d : delta) : ugm_state :=
  let us := apply_opt (users s) (d_users d) in
  let gs := apply_opt (groups s) (d_groups d) in
  match d_cfg d with
  | Some c => mkUgm us gs (m_uw c) (m_gw c) (m_cg c) (m_ul c) (m_gl c)
  | None => mkUgm us gs (userWild s) (groupWild s) (cfgGroups s) (userLimits s) (groupLimits s)
  end.

(* ---- a case ---- *)
Record ucase := mkCase {
  c_users : list uname; c_groups : list gname;
  c_paths : list path;          (* the queue paths of the partition (lower case), all levels *)
  c_tids : list tid;
  c_disciplined : bool;         (* removeApp is set exactly on the release of the last allocation *)
  c_fixed : bool;            (* false only for replays against the pinned code *)
  c_steps : list (op * ret * delta) }.

Definition whos (c : ucase) : list who := map User (c_users c) ++ map Group (WILD :: c_groups c).

(* all orders of a short list (the group resets of one reload) *)
Fixpoint inserts {A} (x : A) (l : list A) : list (list A) :=
  match l with
  | [] => [[x]]
  | y :: t => (x :: l) :: map (cons y) (inserts x t)
  end.
Fixpoint perms {A} (l : list A) : list (list A) :=
  match l with
  | [] => [[]]
  | x :: t => flat_map (inserts x) (perms t)
  end.

Definition step_agrees (fixed : bool) (pg : list (path * gname) -> list (path * gname)) (ord : bool)
           (s : ugm_state) (o : op) (r : ret) (s' : option ugm_state) : bool :=
  let '(ms, mr) := step_gen fixed pg ord s o in
  if ret_eqb mr r then
    match ms, s' with
    | Some a, Some b => state_eqb a b
    | None, None => true
    | _, _ => false
    end
  else false.
(* the implementation's step is the model's step for some iteration order of the maps *)
Definition step_matches (fixed : bool) (s : ugm_state) (o : op) (r : ret) (s' : option ugm_state) : bool :=
  if step_agrees fixed (fun l => l) false s o r s' then true else
  match o with
  | OConfig c rn =>
      if step_agrees fixed (@rev _) true s o r s' then true else
      let dg := dropped_groups fixed s c rn in
      if Nat.leb (length dg) 5
      then existsb (fun p => if step_agrees fixed (fun _ => p) false s o r s' then true
                             else step_agrees fixed (fun _ => p) true s o r s') (perms dg)
      else false
  | _ => false
  end.
Definition order_dependent (fixed : bool) (s : ugm_state) (o : op) : bool :=
  match o with
  | OConfig _ _ =>
      match step_gen fixed (fun l => l) false s o, step_gen fixed (@rev _) true s o with
      | (Some a, r1), (Some b, r2) => negb (state_eqb a b && ret_eqb r1 r2)
      | (None, _), (None, _) => false
      | _, _ => true
      end
  | _ => false
  end.

Definition limit_failures (c : ucase) (s : ugm_state) (conf : qconf) : list (who * path) :=
  flat_map (fun w => flat_map (fun h => if limit_exact s conf w h then [] else [(w, h)]) (c_paths c)) (whos c).
Definition usage_failures (c : ucase) (s : ugm_state) (l : ledger) : list (who * path) :=
  flat_map (fun w => flat_map (fun h => if forallb (usage_exact s l w h) (c_tids c) then [] else [(w, h)]) (c_paths c)) (whos c).

Record cstate := mkCS {
  cs_impl : ugm_state;
  cs_ledger : ledger;
  cs_conf : option qconf;       (* latest configuration that was loaded without error *)
  cs_prevconf : option qconf;
  cs_conf_ok : bool;            (* no UpdateConfig failed so far *)
  cs_taint : taint;
  cs_dead : bool;
  cs_kinds : list N }.

Definition check_step (c : ucase) (cs : cstate) (x : op * ret * delta) : cstate :=
  let '(o, r, d) := x in
  if cs_dead cs then cs else
  let s := cs_impl cs in
  let crashed := match r with RCrash => true | _ => false end in
  let s' := apply_delta s d in
  let k1 := if step_matches (c_fixed c) s o r (if crashed then None else Some s') then [] else [1] in
  let k7 := if order_dependent (c_fixed c) s o then [17] else [] in
  let k6 := if crashed then [if known_crash s o then 16 else 6] else [] in
  let l' := ledger_step (cs_ledger cs) o in
  let isreload := match o with OConfig _ _ => true | _ => false end in
  let '(conf', prev', ok') :=
    match o, r with
    | OConfig cf _, RConf true => (Some cf, cs_conf cs, cs_conf_ok cs)
    | OConfig _ _, _ => (cs_conf cs, cs_prevconf cs, false)
    | _, _ => (cs_conf cs, cs_prevconf cs, cs_conf_ok cs)
    end in
  let k23 :=
    match o with
    | OInc p a _ u true =>
        (if enforce_step s s' (fst u) a p then [] else [if known_enforce s s' (fst u) a p then 12 else 2]) ++
        (if canrun_step s s' (fst u) a p then [] else [if known_canrun s s' (fst u) a p then 13 else 3])
    | _ => []
    end in
  let failing :=
    if crashed || negb ok' then [] else
    match conf' with
    | Some cf =>
        map (fun wp => (wp, if isreload then limit_kind_at_reload (cs_taint cs) prev' cf s s' (fst wp) (snd wp)
                            else limit_kind_between (cs_taint cs) (fst wp) (snd wp)))
            (limit_failures c s' cf)
    | None => []
    end in
  let t' := taint_step (cs_taint cs) isreload prev' conf' (WILD :: c_groups c) (c_paths c) s s' l' failing in
  let k4 := if crashed || negb (c_disciplined c) then [] else
            map (fun wp => if known_usage t' s' l' (fst wp) (snd wp) then 14 else 4) (usage_failures c s' l') in
  let k5 := map snd failing in
  mkCS s' l' conf' prev' ok' t' crashed (cs_kinds cs ++ k1 ++ k7 ++ k6 ++ k23 ++ k4 ++ k5).

Fixpoint dedupN (l : list N) : list N :=
  match l with [] => [] | x :: t => if mem x t then dedupN t else x :: dedupN t end.
Definition cs_init : cstate := mkCS ugm_init [] None None true taint0 false [].
Definition check_case (c : ucase) : list N :=
  dedupN (cs_kinds (fold_left (check_step c) (c_steps c) cs_init)).

Fixpoint indexed {A} (i : N) (l : list A) : list (N * A) :=
  match l with [] => [] | a :: t => (i, a) :: indexed (i + 1) t end.
Definition ugm_check (cs : list ucase) : list (N * N) :=
  flat_map (fun '(i, ks) => map (fun k => (i, k)) ks) (indexed 0 (map check_case cs)).
