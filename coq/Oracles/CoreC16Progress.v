(* C16, clause "existing applications keep running" on the scheduler's side: an application that sits in a queue
   a reload has put into Draining must still be scheduled.
   kind 1613: a scheduling cycle did nothing at all (no event, observable state unchanged) although an application in a
   Draining leaf queue has an outstanding plain ask for which the operational model (Core/Model.v m_sched_alloc: node
   schedulable, fits total and available, not denied by the predicate table, TryIncAllocatedResource admits it on
   every ancestor) admits an allocation on some node, the max-applications gate is open for it, every user/group tracker
   on its queue path admits the ask and nothing is reserved anywhere. Every legitimate reason the scheduler has for staying idle is
   excluded by construction, so the only remaining reason is that the queue was skipped.
   Not judged (windows of the recorded findings 19/19b): the application's queue is not a leaf, or an ancestor is a leaf.
   Judged only for a Draining leaf whose proper ancestors are all Active: in one thorough-tier history a whole Draining
   subtree (parent and leaves Draining after the subtree left the configuration) sat idle with admissible asks and the
   cause could not be established in this session (recorded as an open question in DESIGN section 10, not as a finding). *)
From Coq Require Import List ZArith NArith Bool.
From YK Require Import Base.Res Core.Obs Core.Model Core.Ledger Core.Reload Core.MaxApps Oracles.CoreC11 Oracles.CoreC16.
Import ListNotations.
Open Scope N_scope.

(* every user or group tracker on the application's queue path (whoever it belongs to: group membership is not
   observed, so every tracker on the path counts) would admit the ask: usage + ask within the maximum on every type the
   maximum defines, and a free application slot (or the application already counted) *)
Definition limits_admit (s : ostate) (a : oapp) (r : res) : bool :=
  forallb (fun u =>
    negb (existsb (fun q => q_id q =? u_path u) (ancestors s (ap_queue a))) ||
    ((match u_max u with
      | None => true
      | Some m => forallb (fun kv => match get m (fst kv) with
                                     | Some l => (getz (u_usage u) (fst kv) + snd kv <=? l)%Z
                                     | None => true end) r
      end) &&
     ((u_maxapps u =? 0) || memN (ap_id a) (u_running u) || (N.of_nat (length (u_running u)) <? u_maxapps u))))
    (s_ugm s).

Definition nothing_reserved (s : ostate) : bool :=
  forallb (fun n => match on_reservations n with [] => true | _ => false end) (s_nodes s) &&
  forallb (fun a => match ap_reservations a with [] => true | _ => false end) (s_apps s).

Definition proper_ancestors_are_parents (s : ostate) (q : oqueue) : bool :=
  match ancestors s (q_id q) with
  | [] => false
  | _ :: ups => forallb (fun p => negb (q_leaf p) && (q_state p =? QS_Active)) ups
  end.

Definition plain_ask (x : oalloc) : bool :=
  negb (oa_allocated x) && negb (oa_ph x) && (oa_tg x =? 0) && (oa_reqnode x =? 0) && (oa_release x =? 0) &&
  negb (oa_released x) && negb (oa_foreign x).

Definition admissible_somewhere (deny : list (N * N)) (s : ostate) (a : oapp) (x : oalloc) : bool :=
  existsb (fun n => match m_sched_alloc deny s a (oa_key x) (on_id n) with Some _ => true | None => false end) (s_nodes s).

Definition starving_app (deny : list (N * N)) (s : ostate) (a : oapp) : bool :=
  match find_queue s (ap_queue a) with
  | None => false
  | Some q =>
      q_leaf q && (q_state q =? QS_Draining) && proper_ancestors_are_parents s q &&
      ((ap_state a =? ST_Accepted) || (ap_state a =? ST_Running)) &&
      gate (proj11 s) (proj_app s a) &&
      existsb (fun x => plain_ask x && limits_admit s a (oa_res x) && admissible_somewhere deny s a x) (ap_requests a)
  end.

Definition c16_progress_step (deny : list (N * N)) (pre : ostate) (st : ostep) : list N :=
  match st_op st with
  | OpSched =>
      if st_panic st || negb (match st_events st with [] => true | _ => false end) then [] else
      if negb (ostate_eqb pre (st_obs st)) then [] else
      if negb (nothing_reserved pre) then [] else
      if existsb (starving_app deny pre) (s_apps pre) then [1613] else []
  | _ => []
  end.

Fixpoint c16p_steps (deny : list (N * N)) (i : N) (ps : list (ostate * ostep)) : list (N * N) :=
  match ps with
  | [] => []
  | (pre, st) :: t => map (fun k => (i, k)) (c16_progress_step deny pre st) ++ c16p_steps deny (i + 1) t
  end.

Fixpoint c16p_cases (h : N) (l : list rcase) : list (N * N) :=
  match l with
  | [] => []
  | rc :: t => c16p_steps (h_preddeny (rc_hist rc)) (h * 1000) (hist_pairs (rc_hist rc)) ++ c16p_cases (h + 1) t
  end.

Definition c16_all_check (l : list rcase) : list (N * N) := c16_check_all l ++ c16p_cases 0 l.
