(* Checkers evaluated by the correspondence run of engine `res` (property C18).
   A case = (call with its inputs, what the implementation returned, mutation code from the harness).
   kinds: 1 = model and implementation disagree (correspondence)
          2 = the component-wise / arbitrary-precision specification (Base/ResSpec.v, Base/QuantitySpec.v:
              the right-hand sides of the theorems of Props/C18.v) disagrees with the observed result
          3 = specification failure inside the window of known finding C18-subelim-left-negative
              (SubEliminateNegative / SubErrorNegative keep a negative value of a type that only the left
              operand has; the documented behaviour resets every negative value): the result must still
              equal the code-level specification subElim_at / subNeg_at, anything else is kind 2
          4 = an argument was modified / the result aliases an argument / resources.Zero was modified
          5 = the implementation panicked *)
From Coq Require Import List ZArith NArith Bool Floats.SpecFloat.
From YK Require Import Base.Int64 Base.F64 Base.Res Base.ResMore Base.ResSpec Base.Quantity Base.QuantitySpec.
Import ListNotations.
Open Scope Z_scope.

Definition rvec := option (list (Z * Z)).            (* None = nil *Resource; keys are pool indices *)
Definition fraw := (Z * Z * Z * Z)%type.             (* kind (0 finite/zero,1 inf,2 nan), sign, mantissa, exponent *)

Inductive rcall :=
| KAddVal (a b : Z) | KSubVal (a b : Z) | KMulVal (a b : Z) | KMulValRatio (a : Z) (r : fraw)
| KParse (s : list Z) (milli : bool)
| K2 (fn : Z) (x y : rvec) (alias : bool)
| K1 (fn : Z) (x : rvec)
| KMultiply (x : rvec) (ratio : Z)
| KMultiplyBy (x : rvec) (r : fraw)
| KMultiplyTo (x : rvec) (r : fraw)
| K3 (fn : Z) (a b c : rvec)
| KCompSep (la lg lf ra rg rf : rvec)
| KCompareShares (l r : list fraw).

Inductive robs :=
| ORes (r : rvec) | OResB (r : rvec) (b : bool) | OBool (b : bool) | OInt (z : Z)
| OFlt (f : fraw) | OParse (ok : bool) (v : Z) | OKey (k : option Z) | OPanic.

Definition rcase := (rcall * robs * Z)%type.

(* function numbers *)
Definition fAdd := 1. Definition fSub := 2. Definition fAddTo := 3. Definition fSubFrom := 4.
Definition fSubOnlyExisting := 5. Definition fAddOnlyExisting := 6. Definition fSubEliminateNegative := 7.
Definition fSubErrorNegative := 8. Definition fFitIn := 9. Definition fFitInMaxUndef := 10.
Definition fFitInActual := 11. Definition fStrictlyGreaterThan := 12. Definition fStrictlyGreaterThanOrEquals := 13.
Definition fSGTOnlyExisting := 14. Definition fSGTOrEqualsOnlyExisting := 15. Definition fComponentWiseMin := 16.
Definition fComponentWiseMinOnlyExisting := 17. Definition fComponentWiseMax := 18. Definition fMergeIfNotPresent := 19.
Definition fEquals := 20. Definition fDeepEquals := 21. Definition fEqualsOrEmpty := 22. Definition fMatchAny := 23.
Definition fFitInScore := 24. Definition fCalculateAbsUsedCapacity := 25. Definition fDominantResourceType := 26.
Definition fTypeMatching := 27.
Definition fIsZero := 1. Definition fIsEmpty := 2. Definition fHasNegativeValue := 3.
Definition fStrictlyGreaterThanZero := 4. Definition fPrune := 5. Definition fClone := 6.
Definition fGetFairShare := 1. Definition fCompUsageRatio := 2. Definition fFairnessRatio := 3.

(* ---- decoding of the raw encodings ---- *)
Definition cv (l : list (Z * Z)) : res := map (fun kv => (Z.to_N (fst kv), snd kv)) l.
Definition cvo (o : rvec) : ores := match o with None => None | Some l => Some (cv l) end.
Definition cf (f : fraw) : f64 := let '(k, s, m, e) := f in f_make k (negb (s =? 0)) m e.
Definition cbytes (l : list Z) : list N := map Z.to_N l.
Definition fraw_nan (f : fraw) : bool := let '(k, _, _, _) := f in k =? 2.

(* ---- comparison of observations ---- *)
Inductive mres :=          (* what the model computes *)
| MRes (o : ores) | MResB (o : ores) (b : bool) | MBool (b : bool) | MInt (z : Z)
| MFlt (fs : list f64)     (* any of these (one per iteration order) *)
| MParse (p : presult) | MKey (ks : list (option tid)) | MPanic | MNone.

Definition okey_eqb (a b : option tid) : bool :=
  match a, b with Some x, Some y => N.eqb x y | None, None => true | _, _ => false end.

Definition agrees (m : mres) (o : robs) : bool :=
  match m, o with
  | MRes a, ORes b => ores_eqb a (cvo b)
  | MResB a x, OResB b y => ores_eqb a (cvo b) && Bool.eqb x y
  | MBool x, OBool y => Bool.eqb x y
  | MInt x, OInt y => x =? y
  | MFlt fs, OFlt f => existsb (fun x => f_same x (cf f)) fs
  | MParse (POk v), OParse true w => v =? w
  | MParse (PErr _), OParse false _ => true   (* which of the three errors is reported is not compared *)
  | MKey ks, OKey k => existsb (okey_eqb (match k with Some z => Some (Z.to_N z) | None => None end)) ks
  | MPanic, OPanic => true
  | _, _ => false
  end.

(* ---- the model on a call ---- *)
Definition model2 (fn : Z) (x y : ores) (alias : bool) : mres :=
  if fn =? fAdd then MRes (Some (Add x y)) else
  if fn =? fSub then MRes (Some (Sub x y)) else
  if fn =? fAddTo then MRes (AddTo x y) else
  if fn =? fSubFrom then MRes (SubFrom x y) else
  if fn =? fSubOnlyExisting then MRes (SubOnlyExisting x y) else
  if fn =? fAddOnlyExisting then MRes (AddOnlyExisting x y) else
  if fn =? fSubEliminateNegative then MRes (Some (SubEliminateNegative x y)) else
  if fn =? fSubErrorNegative then (let '(r, e) := SubErrorNegative x y in MResB (Some r) e) else
  if fn =? fFitIn then MBool (FitIn x y) else
  if fn =? fFitInMaxUndef then MBool (FitInMaxUndef x y) else
  if fn =? fFitInActual then MBool (FitInActual x y) else
  if fn =? fStrictlyGreaterThan then MBool (StrictlyGreaterThan x y) else
  if fn =? fStrictlyGreaterThanOrEquals then MBool (StrictlyGreaterThanOrEquals x y) else
  if fn =? fSGTOnlyExisting then MBool (StrictlyGreaterThanOnlyExisting x y) else
  if fn =? fSGTOrEqualsOnlyExisting then MBool (StrictlyGreaterThanOrEqualsOnlyExisting x y) else
  if fn =? fComponentWiseMin then MRes (ComponentWiseMin x y) else
  if fn =? fComponentWiseMinOnlyExisting then MRes (ComponentWiseMinOnlyExisting x y) else
  if fn =? fComponentWiseMax then MRes (Some (ComponentWiseMax x y)) else
  if fn =? fMergeIfNotPresent then MRes (MergeIfNotPresent x y) else
  if fn =? fEquals then MBool (if alias then EqualsSame x else Equals x y) else
  if fn =? fDeepEquals then MBool (if alias then DeepEqualsSame x else DeepEquals x y) else
  if fn =? fEqualsOrEmpty then MBool (EqualsOrEmpty x y) else
  if fn =? fMatchAny then MBool (if alias then MatchAnySame x else MatchAny x y) else
  if fn =? fFitInScore then
    MFlt (match y with None => [FitInScore x None] | Some f => map (fun p => FitInScore x (Some p)) (perms f) end) else
  if fn =? fCalculateAbsUsedCapacity then MRes (Some (CalculateAbsUsedCapacity x y)) else
  if fn =? fDominantResourceType then
    MKey (match x with None => [None] | Some r => map (fun p => DominantResourceType (Some p) y) (perms r) end) else
  if fn =? fTypeMatching then (match TypeMatching x y with Val z => MInt z | Crash => MPanic end) else
  MNone.

Definition model1 (fn : Z) (x : ores) : mres :=
  if fn =? fIsZero then MBool (IsZero x) else
  if fn =? fIsEmpty then MBool (IsEmpty x) else
  if fn =? fHasNegativeValue then MBool (HasNegativeValue x) else
  if fn =? fStrictlyGreaterThanZero then MBool (StrictlyGreaterThanZero x) else
  if fn =? fPrune then MRes (match x with None => None | Some r => Some (Prune r) end) else
  if fn =? fClone then MRes (Clone x) else MNone.

Definition model3 (fn : Z) (a b c : ores) : mres :=
  if fn =? fGetFairShare then MFlt [getFairShare a b c] else
  if fn =? fCompUsageRatio then MInt (CompUsageRatio a b c) else
  if fn =? fFairnessRatio then MFlt [FairnessRatio a b c] else MNone.

Definition model (c : rcall) : mres :=
  match c with
  | KAddVal a b => MInt (addVal a b)
  | KSubVal a b => MInt (subVal a b)
  | KMulVal a b => MInt (mulVal a b)
  | KMulValRatio a r => MInt (mulValRatio a (cf r))
  | KParse s milli => MParse (parse (cbytes s) milli)
  | K2 fn x y alias => model2 fn (cvo x) (cvo y) alias
  | K1 fn x => model1 fn (cvo x)
  | KMultiply x ratio => MRes (Some (Multiply (cvo x) ratio))
  | KMultiplyBy x r => MRes (Some (MultiplyBy (cvo x) (cf r)))
  | KMultiplyTo x r => MRes (MultiplyTo (cvo x) (cf r))
  | K3 fn a b c => model3 fn (cvo a) (cvo b) (cvo c)
  | KCompSep la lg lf ra rg rf => MInt (CompUsageRatioSeparately (cvo la) (cvo lg) (cvo lf) (cvo ra) (cvo rg) (cvo rf))
  | KCompareShares l r => MInt (compareShares (map cf l) (map cf r))
  end.

(* ---- the specification on an observation ---- *)
Definition out_is (nil_expected : bool) (chk : res -> bool) (o : robs) : bool :=
  match o with
  | ORes None => nil_expected
  | ORes (Some out) => negb nil_expected && chk (cv out)
  | _ => false
  end.
Definition bool_is (b : bool) (o : robs) : bool := match o with OBool c => Bool.eqb b c | _ => false end.
Definition int_is (z : Z) (o : robs) : bool := match o with OInt c => z =? c | _ => false end.

Definition absUsed_ok (c u out : res) : bool :=
  forallb (fun k => match get out k with
                    | Some v => has c k && has u k && (0 <=? v) && (v <=? maxInt32) &&
                                (if getz u k <=? 0 then v =? 0 else if getz c k <=? 0 then v =? 100 else true)
                    | None => negb (has c k && has u k)
                    end) (keys c ++ keys u ++ keys out).

Definition oracle2 (fn : Z) (x y : ores) (alias : bool) (o : robs) : bool :=
  let a := oget x in let b := oget y in
  if fn =? fAdd then out_is false (pw_ok add_at a b) o else
  if fn =? fSub then out_is false (pw_ok sub_at a b) o else
  if fn =? fAddTo then out_is (is_nil x) (pw_ok add_at a b) o else
  if fn =? fSubFrom then out_is (is_nil x) (pw_ok sub_at a b) o else
  if fn =? fSubOnlyExisting then out_is (is_nil x) (pw_ok subOnly_at a b) o else
  if fn =? fAddOnlyExisting then out_is (is_nil x) (pw_ok addOnly_at a b) o else
  if fn =? fSubEliminateNegative then out_is false (pw_ok subElim_at a b) o else
  if fn =? fSubErrorNegative then
    (match o with
     | OResB (Some out) e => pw_ok subElim_at a b (cv out) && Bool.eqb e (some_key subNeg_at a b)
     | _ => false end) else
  if fn =? fFitIn then bool_is (fitIn_spec x y false false) o else
  if fn =? fFitInMaxUndef then bool_is (fitIn_spec x y true false) o else
  if fn =? fFitInActual then bool_is (fitIn_spec x y true true) o else
  if fn =? fStrictlyGreaterThan then bool_is (sgt_spec x y) o else
  if fn =? fStrictlyGreaterThanOrEquals then bool_is (sgte_spec x y) o else
  if fn =? fSGTOnlyExisting then bool_is (sgtOnly_spec x y false) o else
  if fn =? fSGTOrEqualsOnlyExisting then bool_is (sgtOnly_spec x y true) o else
  if fn =? fComponentWiseMin then out_is (is_nil x && is_nil y) (pw_ok cwmin_at a b) o else
  if fn =? fComponentWiseMinOnlyExisting then out_is (is_nil x) (pw_ok cwminOnly_at a b) o else
  if fn =? fComponentWiseMax then
    out_is false (if is_nil x || is_nil y then (fun out => match out with [] => true | _ => false end)
                  else pw_ok cwmax_at a b) o else
  if fn =? fMergeIfNotPresent then out_is (is_nil x && is_nil y) (pw_ok merge_at a b) o else
  if fn =? fEquals then bool_is (equals_spec x y) o else
  if fn =? fDeepEquals then bool_is (deepEquals_spec x y) o else
  if fn =? fEqualsOrEmpty then bool_is (equalsOrEmpty_spec x y) o else
  if fn =? fMatchAny then bool_is (matchAny_spec x y) o else
  if fn =? fCalculateAbsUsedCapacity then
    out_is false (if is_nil x || is_nil y then (fun out => match out with [] => true | _ => false end)
                  else absUsed_ok a b) o else
  if fn =? fDominantResourceType then
    (match o with OKey None => true | OKey (Some k) => has a (Z.to_N k) && has b (Z.to_N k) | _ => false end) else
  if fn =? fTypeMatching then (match o with OInt z => (0 <=? z) && (z <=? 100) | _ => false end) else
  match o with OPanic => false | _ => true end.

Definition oracle1 (fn : Z) (x : ores) (o : robs) : bool :=
  if fn =? fIsZero then bool_is (isZero_spec x) o else
  if fn =? fIsEmpty then bool_is (match oget x with [] => true | _ => false end) o else
  if fn =? fHasNegativeValue then bool_is (hasNegative_spec x) o else
  if fn =? fStrictlyGreaterThanZero then bool_is (sgtZero_spec x) o else
  if fn =? fPrune then out_is (is_nil x) (pw1_ok prune_at (oget x)) o else
  if fn =? fClone then out_is (is_nil x) (pw1_ok (fun a => a) (oget x)) o else
  match o with OPanic => false | _ => true end.

Definition oracle (c : rcall) (o : robs) : bool :=
  match c with
  | KAddVal a b => int_is (clamp (a + b)) o
  | KSubVal a b => int_is (clamp (a - b)) o
  | KMulVal a b => int_is (clamp (a * b)) o
  | KMulValRatio a r => if fraw_nan r then (match o with OInt z => in_rangeb z | _ => false end)
                        else if a =? 0 then int_is 0 o   (* 0 * inf: the zero shortcut of the code *)
                        else f_valid (f_mul (f_of_Z a) (cf r)) && int_is (mulValRatio_spec a (cf r)) o
  | KParse s milli =>
      let t := trim_space (cbytes s) in
      match o with
      | OParse true v => is_quantity_b t milli v
      | OParse false _ => no_quantity_b t milli
      | _ => false
      end
  | K2 fn x y alias => oracle2 fn (cvo x) (cvo y) alias o
  | K1 fn x => oracle1 fn (cvo x) o
  | KMultiply x ratio => out_is false (pw1_ok (mul_at ratio) (oget (cvo x))) o
  | KMultiplyBy x r =>
      if fraw_nan r then (match o with ORes (Some _) => true | _ => false end)
      else out_is false (pw1_ok (mulBy_at (cf r)) (oget (cvo x))) o
  | KMultiplyTo x r =>
      if fraw_nan r then (match o with ORes _ => true | _ => false end)
      else out_is (is_nil (cvo x)) (pw1_ok (mulTo_at (cf r)) (oget (cvo x))) o
  | KCompSep _ _ _ _ _ _ | KCompareShares _ _ => match o with OInt z => (-1 <=? z) && (z <=? 1) | _ => false end
  | K3 fn _ _ _ => if fn =? fCompUsageRatio then (match o with OInt z => (-1 <=? z) && (z <=? 1) | _ => false end)
                   else (match o with OPanic => false | _ => true end)
  end.

(* documented behaviour of SubEliminateNegative / SubErrorNegative, with the known-finding window *)
Definition subElim_doc_ok (x y : ores) (o : robs) : bool :=
  let a := oget x in let b := oget y in
  match o with
  | ORes (Some out) => pw_ok subElimDoc_at a b (cv out)
  | OResB (Some out) e => pw_ok subElimDoc_at a b (cv out) && Bool.eqb e (some_key subNegDoc_at a b)
  | _ => false
  end.
Definition oracle_kind (c : rcall) (o : robs) : list N :=
  match c with
  | K2 fn x y _ =>
      if (fn =? fSubEliminateNegative) || (fn =? fSubErrorNegative) then
        if subElim_doc_ok (cvo x) (cvo y) o then []
        else if subElim_known_window (oget (cvo x)) (oget (cvo y)) && oracle c o then [3%N] else [2%N]
      else if oracle c o then [] else [2%N]
  | _ => if oracle c o then [] else [2%N]
  end.

Definition res_check1 (c : rcase) : list N :=
  let '(call, o, mut) := c in
  (if agrees (model call) o then [] else [1%N]) ++
  (match o with OPanic => [5%N] | _ => oracle_kind call o end) ++
  (if mut =? 0 then [] else [4%N]).

Fixpoint indexed {A} (i : N) (l : list A) : list (N * A) :=
  match l with [] => [] | a :: t => (i, a) :: indexed (i + 1) t end.
Definition tag (l : list (N * list N)) : list (N * N) :=
  flat_map (fun '(i, ks) => map (fun k => (i, k)) ks) l.
Definition res_check (cs : list rcase) : list (N * N) := tag (indexed 0 (map res_check1 cs)).
