(* Correspondence between the operational model extended by the reservation / required-node / preemption fragment
   (Core/Model4.v, [m_step4]) and the implementation.
   [model4_check_all] = the ledger comparison of Oracles/CoreModelCheck.v run with [m_step4] (kinds 191 291 391 392 393,
   coverage pseudo kinds 100000001/2) plus, computed with the fold below on every step the fragment's own step function
   [m_step_resv] accepts (and, where it does not, on the steps [m_step2] accepts):
     991 the reservation views differ: Application.reservations, Node.reservations, Queue.reservedApps of some
         application / node / queue, or the partition's reservation counter;
     992 the preempting ledger of some queue or the preempted mark of some allocation differs;
     993 [m_step_resv] accepts a step and one of the ledger comparisons (191 ... 393) fails for ITS result (on steps
         [m_step2] rejects this repeats the 191 ... 393 entry; on steps both accept it cross-checks the generalised
         functions of Model4.v against the implementation as well). *)
From Coq Require Import List ZArith NArith Bool.
From YK Require Import Base.Res Core.Obs Core.Model Core.Model2 Core.Model4 Oracles.CoreModelCheck.
Import ListNotations.
Open Scope N_scope.

Definition pair_eqb (p q : N * N) : bool := (fst p =? fst q) && (snd p =? snd q).
Definition pairs_eq (a b : list (N * N)) : bool :=
  forallb (fun p => existsb (pair_eqb p) b) a && forallb (fun p => existsb (pair_eqb p) a) b
  && Nat.eqb (length a) (length b).

(* applications that left the live list are not compared (as in CoreModelCheck) *)
Definition res_views_eq (m o : ostate) : bool :=
  forallb (fun a => match find_app o (ap_id a) with Some a' => pairs_eq (ap_reservations a) (ap_reservations a') | None => true end) (s_apps m)
  && forallb (fun n => match find_node o (on_id n) with Some n' => pairs_eq (on_reservations n) (on_reservations n') | None => false end) (s_nodes m)
  && forallb (fun q => match find_queue o (q_id q) with Some q' => pairs_eq (q_reserved q) (q_reserved q') | None => false end) (s_queues m)
  && Z.eqb (s_nres m) (s_nres o).

Definition marks_eq (a b : list oalloc) : bool :=
  forallb (fun x => match find_alloc b (oa_key x) with Some y => Bool.eqb (oa_preempted x) (oa_preempted y) | None => true end) a.
Definition preempt_eq (m o : ostate) : bool :=
  forallb (fun q => match find_queue o (q_id q) with Some q' => res_eqz (q_preempting q) (q_preempting q') | None => false end) (s_queues m)
  && forallb (fun a => match find_app o (ap_id a) with
                       | Some a' => marks_eq (ap_allocs a) (ap_allocs a') && marks_eq (ap_requests a) (ap_requests a')
                       | None => true end) (s_apps m)
  && forallb (fun n => match find_node o (on_id n) with Some n' => marks_eq (on_allocs n) (on_allocs n') | None => true end) (s_nodes m).

Definition ledgers_eq (m o : ostate) : bool :=
  nodes_eq m o && queues_alloc_eq m o && queues_pending_eq m o && apps_eq m o && part_eq m o.

(* the fragment's own step function first, the earlier fragments where it does not apply *)
Definition m_step4r (deny : list (N * N)) (s : ostate) (st : ostep) : option ostate :=
  match m_step_resv deny s st with
  | Some r => Some r
  | None => m_step2 deny s st
  end.

Definition resv_step_check (deny : list (N * N)) (pre : ostate) (st : ostep) : list N :=
  let o := st_obs st in
  match m_step_resv deny pre st with
  | Some m => (if res_views_eq m o then [] else [991]) ++ (if preempt_eq m o then [] else [992]) ++ (if ledgers_eq m o then [] else [993])
  | None =>
      match m_step2 deny pre st with
      | Some m => (if res_views_eq m o then [] else [991]) ++ (if preempt_eq m o then [] else [992])
      | None => []
      end
  end.

Fixpoint rsteps (deny : list (N * N)) (pre : ostate) (i : N) (l : list ostep) : list (N * N) :=
  match l with
  | [] => []
  | st :: t => map (fun k => (i, k)) (resv_step_check deny pre st) ++ rsteps deny (st_obs st) (i + 1) t
  end.
Fixpoint rall (i : N) (cs : list ohistory) : list (N * N) :=
  match cs with
  | [] => []
  | h :: t => map (fun p => (i * 1000 + fst p, snd p)) (rsteps (h_preddeny h) (h_init h) 0 (h_steps h)) ++ rall (i + 1) t
  end.

Definition model4_check_all (cs : list ohistory) : list (N * N) := rall 0 cs ++ model_check_all_with m_step4 cs.
