(* Property C04 - allocation protocol seen by the shim: oracle on the recorded SI traffic of the real scheduler.
   The judge is Core/ShimMonitor.mon_run (the automaton the theorems of Props/C04.v are about), run on
   trace_of (history). Kinds (index = history*1000 + step; after the first monitor error of a history the monitor
   state is meaningless, so one monitor error at most is reported per history):
     401 new allocation for a key that is not an outstanding ask of that application (never submitted, released,
         rejected, other application, release already announced, being released by the shim)
     402 new allocation for an application that was not accepted or has been removed by the shim
     403 new allocation on a node the shim has not registered or has removed
     404 new allocation for a key that is already bound (bound twice without a release)
     405 echo of a shim-bound allocation names another node than the shim did
     406 release names nothing the shim holds (unknown/released key, wrong application, echo repeated)
     407 application answer without pending submission (second or unsolicited answer)
     408 node answer without pending submission
     409 submitted application or node got no answer
     410 allocation rejection that does not answer the current request (or repeated)
     411 allocation sent with a node was neither confirmed (echo) nor rejected
     412 a rejected application / node / allocation left a trace in the observed accounting
   correspondence of the monitor state with the observed core state (the simulation obligation, checked per step):
     491 an allocation the core holds is not bound (same application, same node) from the shim's side
     492 a pending ask the core holds is not an outstanding ask from the shim's side
     493 a key bound from the shim's side is unknown to the core (lost without a release message)
     494 an ask outstanding from the shim's side is unknown to the core (dropped without a message)
     495 the messages of the step differ from the announcement model (Core/Announce.v)
   known windows:
     450 = 401/402 inside the window of finding C04-newalloc-after-completed (DESIGN 7 #13 seen from the shim)
     451 = 494 inside the window of finding C04-timeout-drops-inflight-ask
     454 = 401 / 495 inside the window of finding C04-released-ask-bound-by-swap
     456 = 411 inside the window of finding C04-stale-request-after-timeout-release
     455 = protocol / correspondence failure after the duplicate-key state of finding C04-update-after-timeout-duplicates-key
     453 = 412 inside the window of finding C04-rejected-app-sets-queue-limits *)
From Coq Require Import List ZArith NArith Bool.
From YK Require Import Base.Res Core.Obs Core.Proj Core.ShimMonitor Core.Announce.
Import ListNotations.
Open Scope N_scope.

(* ---- 412: a rejected item leaves no trace ---- *)
Definition has_rejection (st : ostep) : bool :=
  existsb (fun e => match e with EAppRejected _ | ENodeRejected _ | EAllocRejected _ _ => true | _ => false end) (st_events st).
Definition single_item_op (op : oop) : bool :=
  match op with OpAppAdd _ _ _ _ _ _ _ _ _ | OpNodeAdd _ _ _ | OpAlloc _ => true | _ => false end.
Definition rejected_no_trace (pre : ostate) (st : ostep) : bool :=
  negb (has_rejection st && single_item_op (st_op st)) || acct_eqb true false pre (st_obs st).

(* ---- simulation between the observed core state and the monitor state (after a complete request) ---- *)
Definition core_allocs (s : ostate) : list oalloc := filter (fun a => negb (oa_foreign a)) (all_allocs s).
Definition core_pending (s : ostate) : list oalloc := filter (fun a => negb (oa_allocated a)) (all_requests s).
Definition core_request_keys (s : ostate) : list N := map oa_key (all_requests s).

Definition sim_allocs_bound (s : ostate) (m : mstate) : bool :=
  forallb (fun a => let i := kget m (oa_key a) in (k_st i =? K_Bound) && (k_app i =? oa_app a) && (k_node i =? oa_node a)) (core_allocs s).
Definition sim_pending_out (s : ostate) (m : mstate) : bool :=
  forallb (fun a => let i := kget m (oa_key a) in (k_st i =? K_Out) && (k_app i =? oa_app a)) (core_pending s).
(* shim side -> core side. A bound key whose release the core has announced may already be gone in the core. *)
Definition shim_bound_lost (s : ostate) (m : mstate) : list N :=
  map fst (filter (fun p => (k_st (snd p) =? K_Bound) && match k_ann (snd p) with [] => true | _ => false end &&
                            negb (memN (fst p) (map oa_key (core_allocs s)))) (m_keys m)).
Definition shim_out_lost (s : ostate) (m : mstate) : list N :=
  map fst (filter (fun p => (k_st (snd p) =? K_Out) && match k_ann (snd p) with [] => true | _ => false end &&
                            negb (memN (fst p) (core_request_keys s))) (m_keys m)).

(* windows of recorded findings for 494 (an outstanding ask the core forgot) *)
(* placeholder timeout (New/Accepted application): removeAsksInternal("") drops every ask, but only the ones that are
   not allocated are announced; the real half of a swap in flight is allocated and is dropped silently *)
Definition window_timeout_inflight (pre : ostate) (st : ostep) (lost : list N) : bool :=
  match st_op st with
  | OpFirePh app =>
      match find_app pre app with
      | Some a => ap_phtimer a &&
                  forallb (fun k => match find_alloc (ap_requests a) k with
                                    | Some r => oa_allocated r &&
                                                ((negb (oa_ph r) && negb (oa_release r =? 0)) ||
                                                 (* or a stale allocated request (placeholder or real): flagged allocated, no
                                                    allocation behind it (left by a TIMEOUT release / node removal), which the
                                                    shim may have re-submitted under the same key: dropped silently as well *)
                                                 negb (memN k (map oa_key (ap_allocs a))))
                                    | None => false end) lost
      | None => false
      end
  | _ => false
  end.
(* #13 from the shim's side: the shim confirms (PLACEHOLDER_REPLACED) a placeholder with a swap in flight while the
   application is Completing with its timer cleared; the core reports the application Completed and THEN announces the
   real allocation of that application *)
Definition window_13 (pre : ostate) (st : ostep) : bool :=
  match st_op st with
  | OpRelease app key ty =>
      (ty =? TT_PlaceholderReplaced) &&
      match find_app pre app with
      | Some a => (ap_state a =? ST_Completing) && negb (ap_statetimer a) &&
                  match find_alloc (ap_allocs a) key with Some p => oa_ph p && negb (oa_release p =? 0) | None => false end
      | None => false
      end
  | _ => false
  end.
(* a placeholder with a swap in flight whose linked real ask is no longer a request of the application (the shim
   released that ask while the swap was in flight: removeAsksInternal forgets the ask but leaves the placeholder's
   release pointer). When the swap is completed - the shim confirms the placeholder (ReplaceAllocation) or the
   placeholder's node is removed while the real half sits on another node (removeNodeAllocations) - the code follows the
   pointer and binds and announces the released ask *)
Definition dangling_targets (pre : ostate) : list N :=
  flat_map (fun a => map oa_release (filter (fun p => oa_ph p && negb (oa_release p =? 0) &&
                                                      negb (memN (oa_release p) (map oa_key (ap_requests a)))) (ap_allocs a))) (s_apps pre).
Definition window_dangling_swap (pre : ostate) (st : ostep) : bool :=
  match st_op st with
  | OpRelease _ _ _ | OpNodeRemove _ =>
      existsb (fun e => match e with ENewAlloc k _ _ _ _ => memN k (dangling_targets pre) | _ => false end) (st_events st)
  | _ => false
  end.
(* after a placeholder timeout (New/Accepted branch) removeAsksInternal("") has dropped the requests of the ALLOCATED
   placeholders too; an update the shim sends for such a still-bound key finds no request, is taken for a new ask and
   is scheduled: the application then holds one key twice (allocation list and pending request; two nodes list it).
   The state predicate below never holds in a healthy state (an unallocated request is never in the allocation list);
   once it has been observed every later protocol / correspondence failure of the history is attributed to it *)
Definition dup_key (s : ostate) : bool :=
  existsb (fun a => existsb (fun r => negb (oa_allocated r) && memN (oa_key r) (map oa_key (ap_allocs a))) (ap_requests a)) (s_apps s).
Definition taint_kind (c : N) : bool :=
  (c =? 401) || (c =? 404) || (c =? 406) || (c =? 491) || (c =? 492) || (c =? 493) || (c =? 494) || (c =? 495).

(* a rejected application carrying namespace quota tags was placed in an existing unmanaged queue: AddApplication
   applies the tags to the queue (SetMaxRunningApps / SetResources) before the gang checks reject the application;
   the only trace is the changed queue limits *)
(* the rejected application may also leave behind the dynamic queue(s) the placement rule created for it (empty,
   unmanaged, no usage): the post-state without them is compared *)
Definition without_new_dynamic (pre post : ostate) : option ostate :=
  let known (q : oqueue) := existsb (fun p => q_id p =? q_id q) (s_queues pre) in
  let newq := filter (fun q => negb (known q)) (s_queues post) in
  if forallb (fun q => negb (q_managed q) && forallb (fun kv => Z.eqb (snd kv) 0) (q_alloc q) &&
                       forallb (fun kv => Z.eqb (snd kv) 0) (q_pending q) &&
                       match q_apps q with [] => true | _ => false end) newq
  then Some (mkOS (s_nodes post) (s_apps post) (filter known (s_queues post)) (s_total post) (s_nallocs post) (s_nph post)
                  (s_nres post) (s_foreign post) (s_completed post) (s_rejected post) (s_ugm post))
  else None.
Definition window_rejected_limits (pre : ostate) (st : ostep) : bool :=
  match st_op st with
  | OpAppAdd _ _ _ _ _ phask _ tagmaxapps tagmax =>
      negb (is_nil phask) &&
      match without_new_dynamic pre (st_obs st) with
      | Some post' =>
          (* with quota tags the limits of the dynamic queue may have been rewritten; without tags only the created
             queue(s) may be left behind *)
          acct_eqb_gen true false (negb (negb (tagmaxapps =? 0) || negb (is_nil tagmax))) pre post'
      | None => false
      end
  | _ => false
  end.

Definition flag (idx kind : N) (ok : bool) : list (N * N) := if ok then [] else [(idx, kind)].

(* run the monitor over the items of one step *)
Fixpoint run_items (m : mstate) (t : list item) : mres :=
  match t with [] => MOk m | it :: r => match mon_step m it with MOk m' => run_items m' r | MErr c => MErr c end end.

(* a release with TIMEOUT removes the allocation but keeps its request, marked allocated, for ever (removeAllocation skips
   RemoveAllocationAsk for TIMEOUT). If the shim later sends that key again WITH a node (it holds the pod again),
   UpdateAllocation finds the stale request, treats the message as an update of an existing allocation and answers
   nothing: the allocation the shim reports is neither echoed nor rejected, and is not accounted *)
Definition window_stale_request (pre : ostate) (st : ostep) : bool :=
  match st_op st with
  | OpAlloc r =>
      negb (rq_foreign r) && negb (rq_node r =? 0) &&
      match find_app pre (rq_app r) with
      | Some a => match find_alloc (ap_requests a) (rq_key r) with
                  | Some x => oa_allocated x && (oa_release x =? 0) && negb (memN (rq_key r) (map oa_key (ap_allocs a)))
                  | None => false end
      | None => false
      end
  | _ => false
  end.

(* a release with an EMPTY allocation key and termination type PLACEHOLDER_REPLACED: removeAllocation treats every
   placeholder of the application that has a replacement in flight as confirmed and announces the real allocation,
   although the same request releases every ask of the application (finding C04-release-all-replaced) *)
Definition window_release_all_replaced (pre : ostate) (st : ostep) : bool :=
  match st_op st with
  | OpRelease app key ty =>
      (key =? 0) && (ty =? 4) &&
      match find_app pre app with
      | Some a =>
          forallb (fun e => match e with
                            | ENewAlloc k ap _ _ _ =>
                                (ap =? app) && existsb (fun p => oa_ph p && (oa_release p =? k)) (ap_allocs a)
                            | _ => true end) (st_events st)
      | None => false
      end
  | _ => false
  end.

(* same finding as the duplicate-key taint (C04-update-after-timeout-duplicates-key), seen at the step itself: the shim
   sends an allocation WITH a node for a key that the application still lists as a bound allocation but whose request
   was dropped by the placeholder timeout (removeAsksInternal("") removes the requests of allocated placeholders too);
   the core finds no request, takes it for a recovered allocation and echoes a new allocation for a key that is bound *)
Definition window_bound_without_request (pre : ostate) (st : ostep) : bool :=
  match st_op st with
  | OpAlloc r =>
      negb (rq_foreign r) && negb (rq_node r =? 0) &&
      match find_app pre (rq_app r) with
      | Some a => memN (rq_key r) (map oa_key (ap_allocs a)) && negb (memN (rq_key r) (map oa_key (ap_requests a)))
      | None => false
      end
  | _ => false
  end.

Definition classify (pre : ostate) (st : ostep) (taint : bool) (c : N) : N :=
  if (c =? 411) && window_stale_request pre st then 456 else
  if ((c =? 401) || (c =? 402)) && window_13 pre st then 450 else
  if ((c =? 401) || (c =? 495)) && window_dangling_swap pre st then 454 else
  if ((c =? 401) || (c =? 402) || (c =? 495)) && window_release_all_replaced pre st then 457 else
  if (c =? 404) && window_bound_without_request pre st then 455 else
  if taint && taint_kind c then 455 else c.

Fixpoint c04_steps (base i : N) (pre : ostate) (m : option mstate) (lost0 : list N) (taint0 : bool) (l : list ostep) : list (N * N) :=
  match l with
  | [] => []
  | st :: t =>
      let idx := base + i in
      let post := st_obs st in
      let taint := taint0 || dup_key post in
      let cl := classify pre st taint in
      let here := (if rejected_no_trace pre st then [] else [(idx, if window_rejected_limits pre st then 453 else 412)]) ++
                  (if announce_ok pre st then [] else [(idx, cl 495)]) in
      match m with
      | None => here ++ c04_steps base (i + 1) post None lost0 taint t
      | Some m0 =>
          match run_items m0 (trace_of_step st) with
          | MErr c => here ++ [(idx, cl c)] ++ c04_steps base (i + 1) post None lost0 taint t
          | MOk m1 =>
              let lost := shim_out_lost post m1 in
              let newlost := filter (fun k => negb (memN k lost0)) lost in
              here ++
              (if sim_allocs_bound post m1 then [] else [(idx, cl 491)]) ++
              (if sim_pending_out post m1 then [] else [(idx, cl 492)]) ++
              (match filter (fun k => negb (memN k (shim_bound_lost pre m0))) (shim_bound_lost post m1) with [] => [] | _ => [(idx, cl 493)] end) ++
              (match newlost with
               | [] => []
               | _ => [(idx, if window_timeout_inflight pre st newlost then 451 else cl 494)]
               end) ++
              c04_steps base (i + 1) post (Some m1) lost taint t
          end
      end
  end.

Definition c04_history (hi : N) (h : ohistory) : list (N * N) :=
  c04_steps (hi * 1000) 0 (h_init h) (Some mon_init) [] false (h_steps h).

Fixpoint c04_all (hi : N) (cs : list ohistory) : list (N * N) :=
  match cs with [] => [] | h :: t => c04_history hi h ++ c04_all (hi + 1) t end.

Definition c04_check_all (cs : list ohistory) : list (N * N) := c04_all 0 cs.

(* run_items is mon_run: the oracle judges with the automaton of the theorems *)
Lemma run_items_mon_run : forall t m, run_items m t = mon_run m t.
Proof. induction t as [|it r IH]; intros m; cbn; [reflexivity|]. destruct (mon_step m it); [apply IH|reflexivity]. Qed.
