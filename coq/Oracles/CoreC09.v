(* C09 oracle on implementation observations (core engine) + correspondence of the component model
   Core/Reserve.v.  kinds:
   901 application view and node view of the reservations differ
   902 queue reservedApps count differs from the number of reservations of the application
   903 partition reservation counter below 1 while a reservation exists
   904 an ask holds more than one reservation
   905 reservation for an ask that is not outstanding (not registered, or already allocated)
   906 node with several reservations that are not all for asks requiring that node
   907 scheduling step allocated on a node that was reserved for a different ask
   908 reservation refers to an application that is not live or a node that is not registered
   950 known window: reservation survives for one or more steps on an ask that became allocated outside tryNode
   990 observed change of the four views is not the one the model's writers produce
   991 partition counter below the number of reservations (model invariant, not demanded by the property) *)
From Coq Require Import List ZArith NArith Bool.
From YK Require Import Base.Res Core.Obs Core.Reserve.
Import ListNotations.
Open Scope N_scope.

(* ---- projection ---- *)
Definition proj09 (s : ostate) : rview :=
  mkRV (flat_map (fun a => map (fun r => mkRA (ap_id a) (oa_key r) (oa_allocated r) (oa_reqnode r)) (ap_requests a)) (s_apps s))
       (map on_id (s_nodes s))
       (map ap_id (s_apps s))
       (flat_map (fun a => map (fun p => mkR (ap_id a) (snd p) (fst p)) (ap_reservations a)) (s_apps s ++ s_completed s))
       (flat_map (fun n => map (fun p => mkR (fst p) (snd p) (on_id n)) (on_reservations n)) (s_nodes s))
       (flat_map q_reserved (s_queues s))
       (s_nres s).

Definition c09_state (s : ostate) : list N :=
  let v := proj09 s in
  (if views_app_node v then [] else [901]) ++
  (if views_queue v then [] else [902]) ++
  (if views_counter v then [] else [903]) ++
  (if one_per_ask v then [] else [904]) ++
  (if only_outstanding v then [] else [905]) ++
  (if one_per_node_unless_required v then [] else [906]) ++
  (if cleanup v then [] else [908]) ++
  (if counter_ge_card v then [] else [991]).

Definition is_sched (o : oop) : bool := match o with OpSched => true | _ => false end.

(* bindings decided by a scheduling step: (app, key, node) *)
Definition sched_bindings (st : ostep) : list (N * (N * N)) :=
  flat_map (fun e =>
    match e with
    | ENewAlloc k a n _ _ => [(a, (k, n))]
    | ERelease phk a ty =>
        if ty =? TT_PlaceholderReplaced then
          match find_app (st_obs st) a with
          | Some ap =>
              match find_alloc (ap_allocs ap) phk with
              | Some ph =>
                  match find_alloc (ap_requests ap) (oa_release ph) with
                  | Some real => if oa_node real =? oa_node ph then [] else [(a, (oa_key real, oa_node real))]
                  | None => [] end
              | None => [] end
          | None => [] end
        else []
    | _ => []
    end) (st_events st).

(* 907: the node was reserved (pre-state) for other asks only.  It is a violation when one of those
   reservations is still there after the step, or when they vanished without a legitimate cancellation in the
   same cycle: cancelReservations on behalf of an ask that requires this node, or the wait timeout (only when
   the history crosses the wait timeout) *)
Definition c09_given_away (reswait : bool) (pre : ostate) (st : ostep) : list N :=
  if negb (is_sched (st_op st)) then [] else
  let v := proj09 pre in let v' := proj09 (st_obs st) in
  flat_map (fun b =>
    let '(a, (k, n)) := b in
    if reserved_for_other v n a k then
      if existsb (fun e => memR e (rv_node v')) (node_entries v n) then [907]
      else if (ask_req v a k =? n) || reswait then []
      else [907]
    else []) (sched_bindings st).

(* ---- correspondence: rebuild the step from the model's writers and compare the four views ---- *)
Definition opt_bind {A B} (o : option A) (f : A -> option B) : option B :=
  match o with Some x => f x | None => None end.
Fixpoint run_ops (v : option rview) (ops : list rop) : option rview :=
  match ops with [] => v | o :: t => run_ops (opt_bind v (fun x => rstep x o)) t end.

Definition has_ask (v : rview) (a k : N) : bool := match find_ask v a k with Some _ => true | None => false end.
Definition ask_alloc (v : rview) (a k : N) : bool := match find_ask v a k with Some x => ra_allocated x | None => false end.

(* scheduling decisions of the step: normal / reserved allocations and decided swaps *)
Definition sched_allocs (st : ostep) : list rres :=
  flat_map (fun e => match e with ENewAlloc k a n _ _ => [mkR a k n] | _ => [] end) (st_events st).
Definition sched_swaps (st : ostep) : list (N * N) :=
  flat_map (fun e =>
    match e with
    | ERelease phk a ty =>
        if ty =? TT_PlaceholderReplaced then
          match find_app (st_obs st) a with
          | Some ap => match find_alloc (ap_allocs ap) phk with
                       | Some ph => if oa_release ph =? 0 then [] else [(a, oa_release ph)]
                       | None => [] end
          | None => [] end
        else []
    | _ => []
    end) (st_events st).

Definition c09_sched_ops (V V' : rview) (st : ostep) : list rop :=
  let allocs := sched_allocs st in
  let swaps := sched_swaps st in
  let removed := filter (fun x => negb (memR x (rv_app V'))) (rv_app V) in
  let added := filter (fun x => negb (memR x (rv_app V))) (rv_app V') in
  let bound (x : rres) := existsb (is_res (r_app x) (r_key x)) allocs ||
                          existsb (fun p => (fst p =? r_app x) && (snd p =? r_key x)) swaps in
  (* a required-node ask acted on node n in this cycle *)
  (* ... or tried to: tryRequiredNode cancels the other reservations of its node BEFORE it finds out that it can neither
     allocate nor reserve there (e.g. the node is unschedulable); whether that happened is read off the partition counter,
     which only this cancellation path decrements *)
  let req_on (n : N) := existsb (fun b => ask_req V (r_app b) (r_key b) =? n) allocs ||
                        existsb (fun b => ask_req V' (r_app b) (r_key b) =? n) added ||
                        ((rv_part V' <? rv_part V)%Z &&
                         existsb (fun x => (ra_req x =? n) && negb (n =? 0) && negb (ra_allocated x)) (rv_asks V)) in
  (* PartitionContext.reserve for an ask that already holds a reservation on another node ("fixing" path, reached when
     the preemptor returns a Reserved result for an ask reserved elsewhere): the old reservation is given up inside
     part_reserve itself (RReserve), it is not a cancellation of its own *)
  let moved (x : rres) := existsb (is_res (r_app x) (r_key x)) added in
  let cancelled := filter (fun x => negb (bound x) && negb (moved x) && outstanding V (r_app x) (r_key x)) removed in
  let stale := filter (fun x => negb (bound x) && negb (moved x) && negb (outstanding V (r_app x) (r_key x))) removed in
  (* cancelReservations only gives up reservations whose own ask has NO required node; a vanished reservation of a
     required-node ask was cancelled by the wait timeout (not counted) *)
  let by_required (x : rres) := req_on (r_node x) && (ask_req V (r_app x) (r_key x) =? 0) in
  let req_nodes := nodup N.eq_dec (map r_node (filter by_required cancelled)) in
  (* a reservation given up by the wait timeout and taken again for the same ask on the same node within the cycle: the
     views do not change (the partition counter grows, the cancellation does not decrement it); the reserve-time
     predicate call (allocate = false, answered yes) for a pair that is reserved before and after tells it *)
  let again := filter (fun x => memR x (rv_app V') &&
                                existsb (fun p => match p with (k, n, alloc, ok) =>
                                                    (k =? r_key x) && (n =? r_node x) && negb alloc && ok end) (st_preds st))
                      (rv_app V) in
  flat_map (fun x => [RCancel (r_app x) (r_key x); RReserve (r_app x) (r_key x) (r_node x) true]) again ++
  map (fun n => RCancelRequired n true) req_nodes ++
  map (fun x => RCancel (r_app x) (r_key x)) (filter (fun x => negb (by_required x)) cancelled) ++
  map (fun x => RUnreserve (r_app x) (r_key x)) stale ++
  map (fun x => RAllocate (r_app x) (r_key x) (r_node x)) allocs ++
  map (fun p => RAllocateKeep (fst p) (snd p)) swaps ++
  map (fun x => RReserve (r_app x) (r_key x) (r_node x) true) added.

Definition c09_ops (pre : ostate) (st : ostep) : list rop :=
  let V := proj09 pre in let V' := proj09 (st_obs st) in
  let sched := is_sched (st_op st) in
  let new_asks := filter (fun y => negb (has_ask V (ra_app y) (ra_key y))) (rv_asks V') in
  let gone_asks := filter (fun y => negb (has_ask V' (ra_app y) (ra_key y))) (rv_asks V) in
  let decided (y : rask) := sched && (existsb (is_res (ra_app y) (ra_key y)) (sched_allocs st) ||
                                      existsb (fun p => (fst p =? ra_app y) && (snd p =? ra_key y)) (sched_swaps st)) in
  map RAddNode (filter (fun n => negb (memN n (rv_nodes V))) (rv_nodes V')) ++
  map RAddApp (filter (fun a => negb (memN a (rv_apps V))) (rv_apps V')) ++
  flat_map (fun y => RAddAsk (ra_app y) (ra_key y) (ra_req y) ::
                     (if ra_allocated y then [RAllocateKeep (ra_app y) (ra_key y)] else [])) new_asks ++
  (if sched then c09_sched_ops V V' st else []) ++
  (match st_op st with OpNodeRemove n => if memN n (rv_nodes V') then [] else [RRemoveNode n] | _ => [] end) ++
  flat_map (fun y =>
     if has_ask V (ra_app y) (ra_key y) && negb (decided y) then
       if ra_allocated y && negb (ask_alloc V (ra_app y) (ra_key y)) then [RAllocateKeep (ra_app y) (ra_key y)]
       else if negb (ra_allocated y) && ask_alloc V (ra_app y) (ra_key y) then [RDeallocate (ra_app y) (ra_key y)]
       else []
     else []) (rv_asks V') ++
  map (fun y => RRemoveAsk (ra_app y) (ra_key y)) gone_asks ++
  map RTerminate (filter (fun a => negb (memN a (rv_apps V'))) (rv_apps V)).

Definition sub_q (a b : list (N * N)) : bool :=
  forallb (fun x => existsb (fun y => (fst x =? fst y) && (snd x =? snd y)) b) a.
Definition views_same (M V' : rview) : bool :=
  subR (rv_app M) (rv_app V') && subR (rv_app V') (rv_app M) &&
  subR (rv_node M) (rv_node V') && subR (rv_node V') (rv_node M) &&
  sub_q (rv_queue M) (rv_queue V') && sub_q (rv_queue V') (rv_queue M) &&
  (rv_part M =? rv_part V')%Z.

Definition c09_corr (pre : ostate) (st : ostep) : list N :=
  match run_ops (Some (proj09 pre)) (c09_ops pre st) with
  | None => [990]
  | Some M => if views_same M (proj09 (st_obs st)) then [] else [990]
  end.

Definition c09_step (reswait : bool) (pre : ostate) (st : ostep) : list N :=
  c09_state (st_obs st) ++ c09_given_away reswait pre st ++ c09_corr pre st.

Fixpoint indexed {A} (i : N) (l : list A) : list (N * A) :=
  match l with [] => [] | a :: t => (i, a) :: indexed (i + 1) t end.

Definition c09_history (h : ohistory) : list (N * N) :=
  flat_map (fun '(i, (pre, st)) => map (fun k => (i, k)) (c09_step (h_reswait h) pre st)) (indexed 0 (hist_pairs h)).

Definition c09_check_all (cs : list ohistory) : list (N * N) :=
  flat_map (fun '(hi, h) =>
    map (fun '(i, k) => (hi * 1000 + i, k)) (map (fun k => (0, k)) (c09_state (h_init h)) ++ c09_history h))
    (indexed 0 cs).
