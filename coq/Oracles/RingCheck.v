(* Checkers evaluated by the correspondence run on implementation observations (C20).
   kind 1 = model/implementation mismatch (correspondence), 2 = specification oracle failure,
   3 = oracle failure inside a known-finding window. *)
From Coq Require Import List NArith Bool.
From YK Require Import Events.Ring Events.RingSpec.
Import ListNotations.
Open Scope N_scope.

Definition optN_eqb (a b : option N) : bool :=
  match a, b with Some x, Some y => x =? y | None, None => true | _, _ => false end.
Fixpoint list_eqb {A} (eq : A -> A -> bool) (l1 l2 : list A) : bool :=
  match l1, l2 with
  | [], [] => true
  | a :: t1, b :: t2 => eq a b && list_eqb eq t1 t2
  | _, _ => false
  end.
Definition rout_eqb (a b : rout) : bool :=
  match a, b with
  | OUnit, OUnit => true
  | OQuery e1 l1 h1, OQuery e2 l2 h2 => list_eqb optN_eqb e1 e2 && (l1 =? l2) && (h1 =? h2)
  | ORecent e1, ORecent e2 => list_eqb optN_eqb e1 e2
  | OCrash, OCrash => true
  | _, _ => false
  end.

Definition ring_case := (N * list (rop * rout))%type.
Definition store_case := (N * list sop * list (list (option N)))%type.
Definition stream_case := (stream_case_t * list N)%type.

Fixpoint indexed {A} (i : N) (l : list A) : list (N * A) :=
  match l with [] => [] | a :: t => (i, a) :: indexed (i + 1) t end.

Definition ring_check1 (c : ring_case) : list N :=
  let '(cap, l) := c in
  let ops := map fst l in let obs := map snd l in
  (if list_eqb rout_eqb (ring_run cap ops) obs then [] else [1]) ++
  (if forallb op_ok ops && (0 <? cap) then
     if list_eqb rout_eqb (spec_run (spec_init cap) ops) obs then [] else [2]
   else []).

Definition tag (base : N) (l : list (N * list N)) : list (N * N) :=
  flat_map (fun '(i, ks) => map (fun k => (base + i, k)) ks) l.

Definition ring_check (cs : list ring_case) : list (N * N) :=
  tag 0 (indexed 0 (map ring_check1 cs)).

Definition store_check1 (c : store_case) : list N :=
  let '(size, ops, obs) := c in
  (if list_eqb (list_eqb optN_eqb) (srun (newStore size) 0 ops) obs then [] else [1]) ++
  (if list_eqb (list_eqb optN_eqb) (store_spec [] size size 0 ops) obs then [] else [2]).
Definition store_check (cs : list store_case) : list (N * N) :=
  tag 100000 (indexed 0 (map store_check1 cs)).

Definition stream_check1 (c : stream_case) : list N :=
  let '(sc, obs) := c in
  (match stream_model sc with
   | Some l => if list_eqb N.eqb l obs then [] else [1]
   | None => [1] end) ++
  (if list_eqb N.eqb (stream_spec sc) obs then []
   else if stream_known_window sc then [3] else [2]).
Definition stream_check (cs : list stream_case) : list (N * N) :=
  tag 200000 (indexed 0 (map stream_check1 cs)).
