(* Property C13 - no SI request can crash the core or corrupt its state: oracle on implementation observations.
   `invalid` (Core/Guard.v) is the specification of an invalid request, decided on the OBSERVED pre-state; the
   generator's st_malformed flag only says what the generator intended (an id it picked may have disappeared).
   Kinds (index = history*1000 + step):
     1301 a step panicked (recover() around the request caught a panic)
     1302 an invalid request left a trace: the projected accounting of pre- and post-state differs
          (nodes' ledgers and allocation lists, queues' ledgers, applications' ledgers / requests / allocations /
          state, user and group usage, reservations, partition counters, foreign allocations)
     1303 an invalid request for which the protocol has a rejection was not answered with it
     1304 a request answered with a rejection left a trace
     1305 a request the generator built as malformed was neither invalid on the pre-state nor rejected, and changed the
          accounting although its target did not exist (sanity of the malformed stream; never expected)
     1350 = 1302 inside the window of finding C13-foreign-update-other-node (DESIGN 7 #12)
     1351 = 1303 inside the same window (the moved foreign allocation is not rejected)
     1353 = 1304 inside the window of finding C04-rejected-app-sets-queue-limits
   correspondence (model Core/Guard.guard against the implementation, every allocation / node / application request):
     1391 the guards refuse the request but the implementation did not reject it
     1392 the guards accept the request but the implementation rejected it *)
From Coq Require Import List ZArith NArith Bool.
From YK Require Import Base.Res Core.Obs Core.Proj Core.Guard.
Import ListNotations.
Open Scope N_scope.

Definition flag (idx kind : N) (ok : bool) : list (N * N) := if ok then [] else [(idx, kind)].

Definition unchanged (pre : ostate) (st : ostep) : bool := acct_eqb true false pre (st_obs st).

(* #12: a foreign allocation that exists is sent again naming another node, and nothing else is wrong with it *)
Definition window_foreign_move (pre : ostate) (st : ostep) : bool :=
  foreign_moved pre (st_op st) && negb (invalid_core pre (st_op st)).
(* the rejected application also left behind the dynamic queue(s) the placement rule created for it (empty, unmanaged,
   no usage): the post-state without them is compared *)
Definition without_new_dynamic (pre post : ostate) : option ostate :=
  let known (q : oqueue) := existsb (fun p => q_id p =? q_id q) (s_queues pre) in
  let newq := filter (fun q => negb (known q)) (s_queues post) in
  if forallb (fun q => negb (q_managed q) && forallb (fun kv => Z.eqb (snd kv) 0) (q_alloc q) &&
                       forallb (fun kv => Z.eqb (snd kv) 0) (q_pending q) &&
                       match q_apps q with [] => true | _ => false end) newq
  then Some (mkOS (s_nodes post) (s_apps post) (filter known (s_queues post)) (s_total post) (s_nallocs post) (s_nph post)
                  (s_nres post) (s_foreign post) (s_completed post) (s_rejected post) (s_ugm post))
  else None.
Definition window_rejected_limits (pre : ostate) (st : ostep) : bool :=
  match st_op st with
  | OpAppAdd _ _ _ _ _ phask _ tagmaxapps tagmax =>
      negb (is_nil phask) &&
      match without_new_dynamic pre (st_obs st) with
      | Some post' =>
          (* with quota tags the limits of the dynamic queue may have been rewritten; without tags only the created
             queue(s) may be left behind *)
          acct_eqb_gen true false (negb (negb (tagmaxapps =? 0) || negb (is_nil tagmax))) pre post'
      | None => false
      end
  | _ => false
  end.

Definition has_answer (op : oop) : bool := match answer_of op with Some _ => true | None => false end.

Definition c13_step (idx : N) (pre : ostate) (st : ostep) : list (N * N) :=
  let op := st_op st in
  let inv := invalid pre op in
  let rej := impl_rejected st in
  let same := unchanged pre st in
  flag idx 1301 (negb (st_panic st)) ++
  (if st_panic st then [] else
   (if negb inv || same then [] else [(idx, if window_foreign_move pre st then 1350 else 1302)]) ++
   (if negb (inv && has_answer op) || rej then [] else [(idx, if window_foreign_move pre st then 1351 else 1303)]) ++
   (if negb rej || inv || same then [] else [(idx, if window_rejected_limits pre st then 1353 else 1304)]) ++
   flag idx 1305 (negb (st_malformed st) || inv || rej || same ||
                  match op with OpAppAdd _ _ _ _ _ _ _ _ _ | OpNodeAdd _ _ _ => true | _ => false end) ++
   match guard pre op with
   | VReject => flag idx 1391 rej
   | VAccept => flag idx 1392 (negb rej)
   | _ => []
   end).

Fixpoint c13_steps (base i : N) (pre : ostate) (l : list ostep) : list (N * N) :=
  match l with
  | [] => []
  | st :: t => c13_step (base + i) pre st ++ c13_steps base (i + 1) (st_obs st) t
  end.

Fixpoint c13_all (hi : N) (cs : list ohistory) : list (N * N) :=
  match cs with [] => [] | h :: t => c13_steps (hi * 1000) 0 (h_init h) (h_steps h) ++ c13_all (hi + 1) t end.

Definition c13_check_all (cs : list ohistory) : list (N * N) := c13_all 0 cs.
