(* Oracle of property C16 (configuration reload is atomic and preserves running state), evaluated on the
   observations of the reload engine. Kinds (index = history*1000 + step):
     1601 rejected reload changed the observable state
     1602 accepted reload changed an application / allocation / reservation / node / user usage
     1603 accepted reload changed a queue's ledger, position or application set (P_preserve)
     1604 accepted reload: a configured queue lacks the configured limits / inherited properties (P_applies)
     1605 accepted reload: a managed queue missing from the configuration is not Draining, or an unmanaged one changed (P_drains)
     1606 a Draining leaf took a new application
     1607 queue cleaning removed a queue that held applications / was active and managed, or changed a survivor (P_clean)
     1608 an application the scheduler could reach before the reload cannot be reached after it (P_reach)
     1609 panic during reload or cleaning
     1610 accepted a configuration that does not load
     1611 queue cleaning changed something other than the queue list
     1612 an operation other than a reload (or an application submit) changed a queue's configuration
     1650 P_reach fails inside the window of finding 19 (leaf holding applications configured as parent)
     1651 P_reach fails inside the window of finding 19b (parent with application-holding children configured as leaf)
     1690 the model's queue tree after the reload differs from the observed one
     1691 the model's queue tree after cleaning differs from the observed one
     1692 an application was placed in an existing queue the model's placement guard excludes
     1693 the observed queue list is not a tree below root *)
From Coq Require Import List ZArith NArith Bool.
From YK Require Import Base.Res Core.Obs Core.Reload Core.ReloadSpec.
Import ListNotations.
Open Scope N_scope.

(* ---- structural equality of observations ---- *)
Definition oalloc_eqb (a b : oalloc) : bool :=
  (oa_key a =? oa_key b) && (oa_app a =? oa_app b) && (oa_node a =? oa_node b) && rs_eqb (oa_res a) (oa_res b) &&
  Bool.eqb (oa_ph a) (oa_ph b) && (oa_tg a =? oa_tg b) && Bool.eqb (oa_allocated a) (oa_allocated b) &&
  Bool.eqb (oa_released a) (oa_released b) && Bool.eqb (oa_preempted a) (oa_preempted b) && (oa_release a =? oa_release b) &&
  (oa_reqnode a =? oa_reqnode b) && (oa_prio a =? oa_prio b)%Z && Bool.eqb (oa_foreign a) (oa_foreign b) &&
  Bool.eqb (oa_orig a) (oa_orig b) && Bool.eqb (oa_preemptself a) (oa_preemptself b) && Bool.eqb (oa_preemptother a) (oa_preemptother b).
Definition allocs_eqb := list_eqb oalloc_eqb.
Definition npairs_eqb := list_eqb npair_eqb.
Definition onode_eqb (a b : onode) : bool :=
  (on_id a =? on_id b) && rs_eqb (on_total a) (on_total b) && rs_eqb (on_occupied a) (on_occupied b) &&
  rs_eqb (on_allocated a) (on_allocated b) && rs_eqb (on_available a) (on_available b) && Bool.eqb (on_sched a) (on_sched b) &&
  allocs_eqb (on_allocs a) (on_allocs b) && allocs_eqb (on_foreign a) (on_foreign b) && npairs_eqb (on_reservations a) (on_reservations b).
Definition phdata_eqb (a b : N * (Z * (Z * Z))) : bool :=
  (fst a =? fst b) && (fst (snd a) =? fst (snd b))%Z && (fst (snd (snd a)) =? fst (snd (snd b)))%Z && (snd (snd (snd a)) =? snd (snd (snd b)))%Z.
Definition oapp_eqb (a b : oapp) : bool :=
  (ap_id a =? ap_id b) && (ap_queue a =? ap_queue b) && (ap_state a =? ap_state b) && (ap_user a =? ap_user b) &&
  rs_eqb (ap_pending a) (ap_pending b) && rs_eqb (ap_allocated a) (ap_allocated b) && rs_eqb (ap_phalloc a) (ap_phalloc b) &&
  rs_eqb (ap_phask a) (ap_phask b) && allocs_eqb (ap_requests a) (ap_requests b) && allocs_eqb (ap_allocs a) (ap_allocs b) &&
  npairs_eqb (ap_reservations a) (ap_reservations b) && list_eqb phdata_eqb (ap_phdata a) (ap_phdata b) &&
  nlist_eqb (ap_statelog a) (ap_statelog b) && Bool.eqb (ap_phtimer a) (ap_phtimer b) && Bool.eqb (ap_statetimer a) (ap_statetimer b) &&
  Bool.eqb (ap_forced a) (ap_forced b) && Bool.eqb (ap_hasph a) (ap_hasph b).
Definition oqueue_eqb (a b : oqueue) : bool :=
  (q_id a =? q_id b) && (q_parent a =? q_parent b) && Bool.eqb (q_leaf a) (q_leaf b) && Bool.eqb (q_managed a) (q_managed b) &&
  (q_state a =? q_state b) && ors_eqb (q_max a) (q_max b) && ors_eqb (q_guar a) (q_guar b) && rs_eqb (q_alloc a) (q_alloc b) &&
  rs_eqb (q_pending a) (q_pending b) && rs_eqb (q_preempting a) (q_preempting b) && (q_running a =? q_running b) &&
  (q_maxrunning a =? q_maxrunning b) && nlist_eqb (q_allocating a) (q_allocating b) && npairs_eqb (q_reserved a) (q_reserved b) &&
  nlist_eqb (q_apps a) (q_apps b).
Definition ougm_eqb (a b : ougm) : bool :=
  (u_who a =? u_who b) && Bool.eqb (u_group a) (u_group b) && (u_path a =? u_path b) && rs_eqb (u_usage a) (u_usage b) &&
  ors_eqb (u_max a) (u_max b) && (u_maxapps a =? u_maxapps b) && nlist_eqb (u_running a) (u_running b).
(* usage part of the user/group trackers; entries without usage and without running applications are invisible *)
Definition ugm_usage (s : ostate) : list ougm :=
  map (fun u => mkOU (u_who u) (u_group u) (u_path u) (Prune (u_usage u)) None 0 (u_running u))
      (filter (fun u => negb (IsZero (Some (u_usage u))) || negb (match u_running u with [] => true | _ => false end)) (s_ugm s)).
(* everything except the queues and the limits of the user/group trackers *)
Definition frame_eqb (a b : ostate) : bool :=
  list_eqb onode_eqb (s_nodes a) (s_nodes b) && list_eqb oapp_eqb (s_apps a) (s_apps b) &&
  ors_eqb (s_total a) (s_total b) && (s_nallocs a =? s_nallocs b)%Z && (s_nph a =? s_nph b)%Z && (s_nres a =? s_nres b)%Z &&
  allocs_eqb (s_foreign a) (s_foreign b) && list_eqb oapp_eqb (s_completed a) (s_completed b) &&
  nlist_eqb (s_rejected a) (s_rejected b) && list_eqb ougm_eqb (ugm_usage a) (ugm_usage b).
Definition ostate_eqb (a b : ostate) : bool :=
  frame_eqb a b && list_eqb oqueue_eqb (s_queues a) (s_queues b) && list_eqb ougm_eqb (s_ugm a) (s_ugm b).
Definition qextra_eqb (a b : qextra) : bool :=
  (qx_id a =? qx_id b) && props_eqb (qx_props a) (qx_props b) && (qx_sort a =? qx_sort b) && Bool.eqb (qx_priosort a) (qx_priosort b) &&
  (qx_preempt a =? qx_preempt b) && (qx_priopol a =? qx_priopol b) && (qx_priooff a =? qx_priooff b)%Z.

Definition flag (b : bool) (k : N) : list N := if b then [] else [k].

Definition find_mq (qs : list mq) (id : N) : option mq := find (fun q => m_id q =? id) qs.

(* an accepted reload *)
Definition check_accept (c : conf_tree) (pre post : ostate) (xpre xpost : list qextra) : list N :=
  let qpre := mqs_of xpre pre in
  let qpost := mqs_of xpost post in
  flag (frame_eqb pre post) 1602 ++
  match build_tree qpre, build_tree qpost with
  | Some t, Some t' =>
      flag ((N.of_nat (length (flatten t)) =? N.of_nat (length qpre)) && (N.of_nat (length (flatten t')) =? N.of_nat (length qpost))) 1693 ++
      flag (P_preserve (flatten t) qpost) 1603 ++
      flag (P_applies c qpost) 1604 ++
      flag (P_drains c t qpost) 1605 ++
      (if P_reach t t' then []
       else if forallb (fun a => in_window19 c t a || in_window19b c t a) (lost_apps t t')
            then (if existsb (in_window19 c t) (lost_apps t t') then [1650] else []) ++
                 (if existsb (fun a => negb (in_window19 c t a)) (lost_apps t t') then [1651] else [])
            else [1608]) ++
      flag (set_eqb (flatten (reload_tree c t)) qpost) 1690
  | _, _ => [1693]
  end.

Definition check_clean (st : ostep) (pre post : ostate) (xpre xpost : list qextra) : list N :=
  let qpre := mqs_of xpre pre in
  let qpost := mqs_of xpost post in
  flag (frame_eqb pre post) 1611 ++
  match build_tree qpre with
  | Some t =>
      flag (P_clean t qpost) 1607 ++
      match clean_root t with
      | Ok t' => flag (set_eqb (flatten t') qpost && negb (st_panic st)) 1691
      | Crash => flag (st_panic st) 1691
      end
  | None => [1693]
  end.

Definition app_queue_after (post : ostate) (app : N) : N :=
  match find_app post app with Some a => ap_queue a | None => 0 end.

Definition check_appadd (app queue : N) (pre post : ostate) (xpre xpost : list qextra) : list N :=
  let qpre := mqs_of xpre pre in
  match find_mq qpre queue, find_app pre app with
  | Some q, None =>
      let placed_here := app_queue_after post app =? queue in
      let p := if placed_here then PlQueue queue else PlRejected in
      flag (P_no_new_app q p) 1606 ++
      (* the application sets of existing queues only grow by this application *)
      flag (forallb (fun x => match find_mq (mqs_of xpost post) (m_id x) with
                              | Some y => forallb (fun a => memN a (l_apps (m_ledger y))) (l_apps (m_ledger x))
                              | None => no_apps x end) qpre) 1606 ++
      flag (negb placed_here || (m_leaf q && negb (m_state q =? QS_Draining))) 1692
  | _, _ => []
  end.

Definition check_other (pre post : ostate) (xpre xpost : list qextra) : list N :=
  let qpost := mqs_of xpost post in
  (* the root's max follows the registered node capacity *)
  flag (forallb (fun x => is_rootq x || match find_mq qpost (m_id x) with Some y => conf_part_eqb x y | None => true end) (mqs_of xpre pre)) 1612.

Definition c16_check_step (confs : list (option conf_tree)) (pre : ostate) (st : ostep) (xpre xpost : list qextra) : list N :=
  let post := st_obs st in
  match st_op st with
  | OpReload ci =>
      flag (negb (st_panic st)) 1609 ++
      if st_err st then flag (ostate_eqb pre post && list_eqb qextra_eqb xpre xpost) 1601
      else match nth (N.to_nat ci) confs None with
           | Some c => check_accept c pre post xpre xpost
           | None => [1610]
           end
  | OpClean => check_clean st pre post xpre xpost
  | OpAppAdd app queue _ _ _ _ _ _ _ => check_appadd app queue pre post xpre xpost
  | _ => check_other pre post xpre xpost
  end.

Fixpoint c16_steps (confs : list (option conf_tree)) (i : N) (ps : list (ostate * ostep)) (xs : list (list qextra)) : list (N * N) :=
  match ps, xs with
  | (pre, st) :: pt, xpre :: ((xpost :: _) as xt) =>
      map (fun k => (i, k)) (c16_check_step confs pre st xpre xpost) ++ c16_steps confs (i + 1) pt xt
  | _, _ => []
  end.

Definition c16_check_case (h : N) (rc : rcase) : list (N * N) :=
  c16_steps (rc_confs rc) (h * 1000) (hist_pairs (rc_hist rc)) (rc_extras rc).

Fixpoint c16_cases (h : N) (l : list rcase) : list (N * N) :=
  match l with [] => [] | rc :: t => c16_check_case h rc ++ c16_cases (h + 1) t end.
Definition c16_check_all (l : list rcase) : list (N * N) := c16_cases 0 l.
