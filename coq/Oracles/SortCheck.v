(* Checkers evaluated by the correspondence run of engine "sort" (C19) on implementation outputs.
   kinds: 1 model/implementation mismatch (correspondence)
          2 order oracle fails: an output of a sorter has a pair in the wrong order / is not a
            permutation of the candidates
          3 order oracle fails inside the window of known finding C19-pending-tiebreak
          4 node oracle fails: iteration does not visit every registered node once / unreserved view
            wrong / order or cached score not current
          5 node oracle fails inside the window of known finding C19-foreign-stale
          6 sorted ask list oracle fails (not sorted / wrong content) *)
From Coq Require Import List ZArith NArith Bool.
From YK Require Import Base.Int64 Base.F64 Base.Res Sort.Sort Sort.Cmp Sort.Nodes Sort.Score Sort.Spec.
Import ListNotations.
Open Scope Z_scope.

Fixpoint indexed {A} (i : N) (l : list A) : list (N * A) :=
  match l with [] => [] | a :: t => (i, a) :: indexed (i + 1) t end.
Definition tag (base : N) (l : list (N * list N)) : list (N * N) :=
  flat_map (fun '(i, ks) => map (fun k => ((base + i)%N, k)) ks) l.
Fixpoint dedup (l : list N) : list N :=
  match l with [] => [] | x :: t => if memN x t then dedup t else x :: dedup t end.

Definition find_by {A} (id : A -> N) (d : A) (l : list A) (k : N) : A :=
  match find (fun x => N.eqb (id x) k) l with Some x => x | None => d end.
Definition all_pairs {A} (f : A -> A -> bool) (l : list A) : bool :=
  forallb (fun a => forallb (f a) l) l.

(* the comparator tabulated once per candidate set (candidate ids are unique): same function on
   the candidates, evaluated n^2 times instead of once per comparison of every permutation *)
Definition memo_lt {A} (id : A -> N) (lt : A -> A -> bool) (l : list A) : A -> A -> bool :=
  let tab := map (fun a => (id a, map (fun b => (id b, lt a b)) l)) l in
  fun a b => match alookup (id a) tab with
             | Some row => match alookup (id b) row with Some v => v | None => lt a b end
             | None => lt a b
             end.
Fixpoint nodupN (l : list N) : bool :=
  match l with [] => true | x :: t => negb (memN x t) && nodupN t end.

(* ---------------------------------------------------------------- queue slices *)
Definition qsort_case := (N * bool * list queue * list (list N * list N))%type.

Definition qsort_check1 (c : qsort_case) : list N :=
  let '(st, cp, qs, perms) := c in
  if negb (nodupN (map q_id qs)) then [1%N] else
  let lt := memo_lt q_id (queue_lt st cp) qs in
  let klt := memo_lt q_id (queue_keys_lt st cp) qs in
  (* the pending tie-break never decides on this candidate set: the order is a strict weak order *)
  let plain := all_pairs (fun a b => Bool.eqb (lt a b) (klt a b)) qs in
  dedup (flat_map (fun '(inp, out) =>
    let li := map (find_by q_id dummyQ qs) inp in
    let lo := map (find_by q_id dummyQ qs) out in
    (* = sortQueue st cp li (C19Proofs.sortQueue_unfold) *)
    (if ids_eqb (map q_id (if N.eqb st 1 || cp then go_isort lt li else li)) out then [] else [1%N]) ++
    (if plain && negb (ids_eqb (map q_id (ssort klt li)) out) then [1%N] else []) ++
    (if same_ids inp out then
       if respects lt lo then [] else if pending_window lt klt lo then [3%N] else [2%N]
     else [2%N])) perms).
Definition qsort_check (cs : list qsort_case) : list (N * N) :=
  tag 0 (indexed 0 (map qsort_check1 cs)).

(* ---------------------------------------------------------------- application slices *)
Definition asort_case := (N * ores * list app * list (list N * list N))%type.
Definition dummyA : app := mkA 0 None None 0 0.

Definition asort_check1 (c : asort_case) : list N :=
  let '(which, g, apps, perms) := c in
  if negb (nodupN (map a_id apps)) then [1%N] else
  let lt := memo_lt a_id (app_lt which g) apps in
  let dom := forallb (app_ok which g) apps in      (* inside the domain of swo_app_* *)
  dedup (flat_map (fun '(inp, out) =>
    let li := map (find_by a_id dummyA apps) inp in
    let lo := map (find_by a_id dummyA apps) out in
    (* = sortApps which g li *)
    (if ids_eqb (map a_id (if (which <? 4)%N then go_isort lt li else li)) out then [] else [1%N]) ++
    (if dom && negb (ids_eqb (map a_id (ssort lt li)) out) then [1%N] else []) ++
    (if same_ids inp out then
       if dom then (if respects lt lo then [] else [2%N]) else []
     else [2%N])) perms).
Definition asort_check (cs : list asort_case) : list (N * N) :=
  tag 100000 (indexed 0 (map asort_check1 cs)).

(* ---------------------------------------------------------------- families (runtime map order) *)
Inductive fam_case :=
| FamQ (st : N) (cp : bool) (rootMax parentMax : ores) (qs : list (queue * ores * bool)) (outs : list (list N))
| FamA (st : N) (cp : bool) (g : ores) (apps : list app) (outs : list (list N)).

Definition fam_check1 (c : fam_case) : list N :=
  match c with
  | FamQ st cp rootMax parentMax qs outs =>
      let pfm := fairMaxOf rootMax parentMax in
      (* GetFairMaxResource of every child as observed = model *)
      (if forallb (fun '(q, mx, _) => ores_eqb (q_fmax q) (fairMaxOf pfm mx)) qs then [] else [1%N]) ++
      let cands := map (fun x => fst (fst x)) (filter (fun '(q, _, stopped) => queueCandidate stopped q) qs) in
      let lt := queue_lt st cp in let klt := queue_keys_lt st cp in
      dedup (flat_map (fun out =>
        let lo := map (find_by q_id dummyQ cands) out in
        (if same_ids (map q_id cands) out then [] else [1%N]) ++
        (if respects lt lo then [] else if pending_window lt klt lo then [3%N] else [2%N])) outs)
  | FamA st cp g apps outs =>
      let which := app_which st cp in
      let cands := filter appCandidate apps in
      let lt := app_lt which g in
      let dom := forallb (app_ok which g) cands in
      dedup (flat_map (fun out =>
        let lo := map (find_by a_id dummyA cands) out in
        (if same_ids (map a_id cands) out then [] else [1%N]) ++
        (if dom && negb (respects lt lo) then [2%N] else [])) outs)
  end.
Definition fam_check (cs : list fam_case) : list (N * N) :=
  tag 200000 (indexed 0 (map fam_check1 cs)).

(* ---------------------------------------------------------------- asks *)
Definition req_case := (list (req_op * list N) * list (ask * ask * bool))%type.

(* position by position the same keys (priority, creation time): where the code puts an ask among asks
   with identical keys is not part of the policy, so it is not compared *)
Fixpoint asks_equiv (l1 l2 : list ask) : bool :=
  match l1, l2 with
  | [], [] => true
  | a :: s, b :: t => negb (askBefore a b) && negb (askBefore b a) && asks_equiv s t
  | _, _ => false
  end.
(* every step is checked from the state the implementation was observed in *)
Fixpoint req_steps (s sp : list ask) (all : list ask) (l : list (req_op * list N)) : list N :=
  match l with
  | [] => []
  | (o, obs) :: t =>
      let s' := req_step s o in
      let sp' := spec_step sp o in
      let all' := match o with RIns a => a :: all | _ => all end in
      let lo := map (find_by k_id dummyAsk all') obs in
      (if asks_equiv s' lo && same_ids (map k_id s') obs then [] else [1%N]) ++
      (if req_sorted lo && same_ids (map k_id sp') obs then [] else [6%N]) ++
      req_steps lo sp' all' t
  end.
Definition req_check1 (c : req_case) : list N :=
  let '(ops, probes) := c in
  dedup ((if wf_req [] (map fst ops) then req_steps [] [] [] ops else [1%N]) ++
         flat_map (fun '(a, b, o) => if Bool.eqb (LessThan a b) o then [] else [1%N]) probes).
Definition req_check (cs : list req_case) : list (N * N) :=
  tag 300000 (indexed 0 (map req_check1 cs)).

(* ---------------------------------------------------------------- node collection *)
Record nobs := mkObs {
  o_full : list N; o_unres : list N;
  o_cached : list (N * Z);       (* nc.nodes: id -> cached score, ascending id *)
  o_tree : list (Z * N);         (* nc.sortedNodes in Ascend order *)
  o_current : list (N * Z);      (* scoreNode(node) recomputed now, ascending id *)
  o_resset : list N;             (* registered nodes with IsReserved() *)
  o_cap : ores; o_avail : ores;  (* capacity / available of the node the operation touched (None: none) *)
  o_touched : bool }.
Definition node_case := (nat * list (cop * nobs))%type.

Fixpoint kv_eqb (a b : list (N * Z)) : bool :=
  match a, b with
  | [], [] => true
  | (k1, v1) :: s, (k2, v2) :: t => N.eqb k1 k2 && Z.eqb v1 v2 && kv_eqb s t
  | _, _ => false
  end.
Fixpoint tree_eqb (a b : list (Z * N)) : bool :=
  match a, b with
  | [], [] => true
  | (v1, k1) :: s, (v2, k2) :: t => N.eqb k1 k2 && Z.eqb v1 v2 && tree_eqb s t
  | _, _ => false
  end.
(* association list sorted by id *)
Fixpoint kv_insert (k : N) (v : Z) (l : list (N * Z)) : list (N * Z) :=
  match l with
  | [] => [(k, v)]
  | (k', v') :: t => if (k <? k')%N then (k, v) :: l else (k', v') :: kv_insert k v t
  end.
Definition kv_sort (l : list (N * Z)) : list (N * Z) := fold_right (fun kv acc => kv_insert (fst kv) (snd kv) acc) [] l.
Definition kv_get (l : list (N * Z)) (k : N) : Z := match alookup k l with Some v => v | None => 0 end.

Definition node_obs_check (c : coll) (dirty : list N) (o : nobs) : list N :=
  (* correspondence *)
  (if ids_eqb (full_iter c) (o_full o) && ids_eqb (unreserved_iter c) (o_unres o) &&
      tree_eqb (c_tree c) (o_tree o) && kv_eqb (kv_sort (c_refs c)) (o_cached o) then [] else [1%N]) ++
  (* oracle on the observation alone *)
  (if visits_once (map fst (o_cached o)) (o_full o) &&
      unreserved_ok (fun id => memN id (o_resset o)) (o_full o) (o_unres o) then [] else [4%N]) ++
  (if order_by (kv_get (o_current o)) (o_full o) && kv_eqb (o_cached o) (o_current o) then []
   else
     (* known window: the stale nodes are exactly ones whose last score-changing method does not
        notify the listeners, and the order still follows the cached scores *)
     let stale := filter (fun id => negb (kv_get (o_cached o) id =? kv_get (o_current o) id)) (map fst (o_cached o)) in
     if forallb (fun id => memN id dirty) stale && order_by (kv_get (o_cached o)) (o_full o) &&
        ids_eqb (map fst (o_cached o)) (map fst (o_current o))
     then [5%N] else [4%N]).

(* the score table handed to the node model = ScoreNode model on the node's capacity / available *)
Fixpoint optZ_eqb (a : list (option Z)) (b : list Z) : bool :=
  match a, b with
  | [], [] => true
  | Some x :: s, y :: t => Z.eqb x y && optZ_eqb s t
  | _, _ => false
  end.
Definition score_check (pols : list policy) (op : cop) (o : nobs) : list N :=
  if negb (o_touched o) then [] else
  let scores := match op with OAdd _ n => Some (n_scores n) | ONode _ _ sc _ => Some sc | _ => None end in
  match scores with
  | None => []
  | Some sc => if optZ_eqb (map (fun p => score_key (scoreNode p (o_cap o) (o_avail o))) pols) sc then [] else [1%N]
  end.

(* "reflects current utilisation": the scores the implementation computes order the registered nodes
   exactly like the documented score (nodesorting.go formula evaluated on capacity / available as last
   observed for each node) does.  Only the order is compared, not the float values. *)
Definition util_order_ok (pol : option policy) (world : list (N * (ores * ores))) (o : nobs) : bool :=
  match pol with
  | None => true
  | Some p =>
      let ms := map (fun '(id, cur) =>
                       (cur, match alookup id world with
                             | Some (cap, avail) => score_key (scoreNode p cap avail)
                             | None => None end)) (o_current o) in
      forallb (fun a => forallb (fun b =>
                 match snd a, snd b with
                 | Some ma, Some mb =>
                     match Z.compare (fst a) (fst b), Z.compare ma mb with
                     | Lt, Lt | Eq, Eq | Gt, Gt => true
                     | _, _ => false
                     end
                 | _, _ => true
                 end) ms) ms
  end.
Definition touched_id (op : cop) : option N :=
  match op with OAdd id _ => Some id | ONode id _ _ _ => Some id | _ => None end.

Fixpoint node_steps (pols : list policy) (cd : coll * list N) (world : list (N * (ores * ores)))
         (l : list (cop * nobs)) : list N :=
  match l with
  | [] => []
  | (op, o) :: t =>
      let cd' := step_g cd op in
      let world' := match touched_id op with
                    | Some id => if o_touched o then aset id (o_cap o, o_avail o) world else world
                    | None => world end in
      node_obs_check (fst cd') (snd cd') o ++ score_check pols op o ++
      (if util_order_ok (nth_error pols (c_pol (fst cd'))) world' o then [] else [4%N]) ++
      node_steps pols cd' world' t
  end.
Definition node_check1 (pols : list policy) (c : node_case) : list N :=
  let '(p, l) := c in dedup (node_steps pols (init p, []) [] l).
Definition node_check (pols : list policy) (cs : list node_case) : list (N * N) :=
  tag 400000 (indexed 0 (map (node_check1 pols) cs)).
