(* Checkers evaluated by the correspondence run of engine conf (property C15) on what the implementation did.
   kinds:
     1  correspondence: model Validate and configs.LoadSchedulerConfigFromByteArray disagree (verdict, error class or
        the validated configuration written back)
     5  correspondence: model Load and the observed load (new scheduler / reload of a running one) disagree
     2  ORACLE accepted => WF: a configuration the implementation accepted violates a documented rule (Conf/WF.v)
     3  ORACLE accepted => loadable: loading an accepted configuration failed, panicked, hung or left the placement
        manager without rules
     4  ORACLE determinism: the verdict changed under permutation of map entries / rendering order / repeated runs
     11 known window of 2: user/group limit above an ancestor's WILDCARD limit while another ancestor names the user
     12 known window of 2: fixed rule whose queue starts with "root" but not with the component root (rootx...)
     13 known window of 3: placement rules the placement manager cannot build (unknown rule name, recovery, fixed/tag
        without value, invalid queue name in a fixed rule, qualified fixed rule with a parent rule)
     14 known window of 3: reload that drops a partition of the running scheduler never returns *)
From Coq Require Import List NArith ZArith Bool.
From YK Require Import Base.Res Conf.Str Conf.Config Conf.Validate Conf.Load Conf.WF.
Import ListNotations.
Open Scope N_scope.

Record conf_case := mkCase {
  cc_decoded : bool;                 (* the YAML document decoded (outside the model) *)
  cc_input : sconfig;                (* the decoded configuration = argument of configs.Validate *)
  cc_retab : list (str * bool);      (* regexp.Compile(s) succeeded, for the filter entries of the input *)
  cc_accept : bool;                  (* LoadSchedulerConfigFromByteArray returned no error *)
  cc_vpanic : bool;                  (* ... panicked *)
  cc_err : option verr;              (* error class of the rejection (None: accepted or not classified) *)
  cc_out : sconfig;                  (* validated configuration returned by the implementation when accepted *)
  cc_new : option lres;              (* scheduler.NewClusterContext with the document (None = not run) *)
  cc_base : list str;                (* partition names of the running scheduler used for the reload *)
  cc_reload : option lres;           (* UpdateRMSchedulerConfig on the running scheduler (None = not run) *)
  cc_perm : list bool                (* verdicts for permuted renderings and repeated runs of the same document *)
}.

Definition verr_eqb (a b : verr) : bool :=
  match a, b with
  | EDupPartition, EDupPartition | EQueuesNotSet, EQueuesNotSet | ERootLimits, ERootLimits | ETopNotRoot, ETopNotRoot
  | ELimitsNotEquiv, ELimitsNotEquiv | EACL, EACL | ELimitEmpty, ELimitEmpty | ELimitName, ELimitName
  | ELimitDup, ELimitDup | ELimitWildOrder, ELimitWildOrder | ELimitOnlyWildGroup, ELimitOnlyWildGroup
  | ELimitZero, ELimitZero | ELimitNull, ELimitNull | ELimitQApps, ELimitQApps | ELimitQRes, ELimitQRes
  | EQuantity, EQuantity | EQueueName, EQueueName | ERootReserved, ERootReserved | EDupQueue, EDupQueue | EGuaMax, EGuaMax | EMaxParent, EMaxParent
  | ESumGua, ESumGua | ESumMax, ESumMax | ERuleName, ERuleName | EFilter, EFilter | ERuleFixed, ERuleFixed
  | ERuleNotLeaf, ERuleNotLeaf | ERuleNoQueue, ERuleNoQueue | ERuleLastLeaf, ERuleLastLeaf
  | ESortPolicy, ESortPolicy | ESortWeight, ESortWeight | EMaxAppsParent, EMaxAppsParent | EMaxAppsZero, EMaxAppsZero
  | ELimResNamed, ELimResNamed | ELimResWild, ELimResWild | ELimAppsNamed, ELimAppsNamed | ELimAppsWild, ELimAppsWild => true
  | _, _ => false
  end.
Definition lerr_eqb (a b : lerr) : bool :=
  match a, b with
  | LERoot, LERoot | LEACL, LEACL | LEQuantity, LEQuantity | LERule, LERule | LELeafParent, LELeafParent
  | LENoPartitions, LENoPartitions => true
  | _, _ => false
  end.
Definition lres_eqb (a b : lres) : bool :=
  match a, b with
  | LOk x, LOk y => Bool.eqb x y
  | LErr x, LErr y => lerr_eqb x y
  | LCrash, LCrash | LHang, LHang => true
  | _, _ => false
  end.

Definition compiles_of (tab : list (str * bool)) (s : str) : bool :=
  match sl_get tab s with Some b => b | None => false end.

(* ---- known-finding windows (narrow signatures) ---- *)
(* W9/W10 fail although the parts the validator guarantees hold: limit above an ancestor's wildcard limit with a
   named limit for the same user/group on another ancestor *)
Definition limit_wild_window (p : partition) : bool :=
  wf_limit_named_res (rootq p) && wf_limit_wild_res (rootq p) &&
  wf_limit_named_apps (rootq p) && wf_limit_wild_apps (rootq p).
(* every unresolvable rule has a static path that starts with the letters root but not with the component root *)
Definition rule_offroot_window (p : partition) : bool :=
  forallb (fun r => resolvable (rootq p) r || rule_offroot r) (p_rules p).
Definition rules_unbuildable (c : sconfig) : bool := existsb (fun p => negb (buildRules_ok (p_rules p))) c.
Definition drops_partition (base : list str) (c : sconfig) : bool :=
  negb (forallb (fun b => mem_str b (map p_name c)) base).

(* ---- oracle: accepted => WF (evaluated on the implementation's validated configuration) ---- *)
Definition wf_oracle (c : conf_case) : list N :=
  if negb (cc_accept c) then [] else
  flat_map (fun p : partition =>
              flat_map (fun nb : N * bool =>
                          if snd nb then [] else
                          if ((fst nb =? 9) || (fst nb =? 10)) && limit_wild_window p then [11]
                          else if (fst nb =? 11) && rule_offroot_window p then [12]
                          else [2]) (wf_conjuncts p)) (cc_out c).

(* ---- oracle: accepted => loaded (new scheduler and running scheduler) ---- *)
Definition load_oracle (c : conf_case) : list N :=
  if negb (cc_accept c) then [] else
  (match cc_new c with
   | None => []
   | Some r =>
       if loaded_ok r then []
       else if rules_unbuildable (cc_out c) && lres_eqb r (LOk false) then [13] else [3]
   end) ++
  (match cc_reload c with
   | None => []
   | Some r =>
       if loaded_ok r then []
       else if rules_unbuildable (cc_out c) && lres_eqb r (LErr LERule) then [13]
       else if drops_partition (cc_base c) (cc_out c) && lres_eqb r LHang then [14]
       else [3]
   end).

(* ---- oracle: determinism ---- *)
Definition perm_oracle (c : conf_case) : list N :=
  if forallb (Bool.eqb (cc_accept c)) (cc_perm c) then [] else [4].

(* ---- correspondence ---- *)
Definition validate_corr (c : conf_case) : list N :=
  match Validate (compiles_of (cc_retab c)) (cc_input c) with
  | VOk c' =>
      if cc_accept c && negb (cc_vpanic c) && sconfig_eqb c' (cc_out c) then [] else [1]
  | VErr e =>
      if negb (cc_accept c) && negb (cc_vpanic c) &&
         match cc_err c with Some e' => verr_eqb e e' | None => false end then [] else [1]
  | VCrash => if cc_vpanic c then [] else [1]
  end.
Definition load_corr (c : conf_case) : list N :=
  if negb (cc_accept c) then [] else
  (match cc_new c with
   | Some r => if lres_eqb (LoadNew (cc_out c)) r then [] else [5]
   | None => []
   end) ++
  (match cc_reload c with
   | Some r => if lres_eqb (LoadReload (cc_base c) (cc_out c)) r then [] else [5]
   | None => []
   end).

Definition conf_check1 (c : conf_case) : list N :=
  if negb (cc_decoded c) then (if cc_accept c then [1] else [])
  else validate_corr c ++ load_corr c ++ wf_oracle c ++ load_oracle c ++ perm_oracle c.

Fixpoint indexed {A} (i : N) (l : list A) : list (N * A) :=
  match l with [] => [] | a :: t => (i, a) :: indexed (i + 1) t end.
Definition conf_check (cs : list conf_case) : list (N * N) :=
  flat_map (fun ic => map (fun k => (fst ic, k)) (conf_check1 (snd ic))) (indexed 0 cs).
