(* Correspondence of the whole operational model (Core/ModelAll.v m_step_all) with the implementation.
   kinds: 191 291 391 392 393 (ledgers, as CoreModelCheck.v), the strict gang comparison 394-397 (CoreModel3Check.v),
   and the reservation fragment's own comparison (CoreModel4Check.v rall) renumbered per property:
     991 -> 991 (C09: reservation views and partition counter), 992 -> 398 (C03: preempting ledgers and preempted marks),
     993 -> 399 (C03: ledgers of the generalised release / removal / update functions). Coverage pseudo-kinds 100000001/2. *)
From Coq Require Import List ZArith NArith Bool.
From YK Require Import Base.Res Core.Obs Core.Model Core.Model2 Core.Model3 Core.Model4 Core.ModelAll
  Oracles.CoreModelCheck Oracles.CoreModel3Check Oracles.CoreModel4Check.
Import ListNotations.
Open Scope N_scope.

Definition renumber4 (p : N * N) : N * N :=
  (fst p, if snd p =? 992 then 398 else if snd p =? 993 then 399 else snd p).

Definition modelall_check_all (cs : list ohistory) : list (N * N) :=
  strict_all 0 cs ++ map renumber4 (rall 0 cs) ++ model_check_all_with m_step_all cs.

Definition in_kinds (ks : list N) (l : list (N * N)) : list (N * N) :=
  filter (fun p => existsb (N.eqb (snd p)) ks || (100000000 <? snd p)) l.
