(* Correspondence between the operational model (Core/Model.v) and the implementation: for every observed
   step the model's step function is applied to the observed pre-state and the observed decision, and the
   projected ledgers of the result are compared with the observed post-state.
   kinds: 191 node ledgers / allocation lists, 291 queue allocated / root maximum, 391 queue pending,
          392 application ledgers, requests, allocations or state, 393 partition total / counters.
   Coverage is reported as two pseudo entries (steps validated, 100000001) and (steps total, 100000002). *)
From Coq Require Import List ZArith NArith Bool.
From YK Require Import Base.Res Core.Obs Core.Model Core.Model2.
Import ListNotations.
Open Scope N_scope.

Definition alloc_list_eq (a b : list oalloc) : bool :=
  forallb (fun x => match find_alloc b (oa_key x) with
                    | Some y => res_eqz (oa_res x) (oa_res y) && Bool.eqb (oa_allocated x) (oa_allocated y)
                                && ((oa_node x =? oa_node y) || negb (oa_allocated x))
                    | None => false end) a &&
  forallb (fun y => match find_alloc a (oa_key y) with Some _ => true | None => false end) b.

Definition node_eq (a b : onode) : bool :=
  res_eqz (on_total a) (on_total b) && res_eqz (on_occupied a) (on_occupied b) && res_eqz (on_allocated a) (on_allocated b)
  && res_eqz (on_available a) (on_available b) && Bool.eqb (on_sched a) (on_sched b)
  && alloc_list_eq (on_allocs a) (on_allocs b) && alloc_list_eq (on_foreign a) (on_foreign b).

Definition nodes_eq (m o : ostate) : bool :=
  forallb (fun n => match find_node o (on_id n) with Some n' => node_eq n n' | None => false end) (s_nodes m) &&
  forallb (fun n => match find_node m (on_id n) with Some _ => true | None => false end) (s_nodes o).

Definition ores_eqz (a b : ores) : bool :=
  match a, b with
  | None, None => true
  | Some x, Some y => res_eqz x y
  | None, Some y => res_eqz [] y      (* nil and empty are the same limit for the root *)
  | Some x, None => res_eqz x []
  end.

Definition queues_alloc_eq (m o : ostate) : bool :=
  forallb (fun q => match find_queue o (q_id q) with
                    | Some q' => res_eqz (q_alloc q) (q_alloc q') &&
                                 (negb (q_parent q =? 0) || ores_eqz (q_max q) (q_max q'))
                    | None => false end) (s_queues m).
Definition queues_pending_eq (m o : ostate) : bool :=
  forallb (fun q => match find_queue o (q_id q) with
                    | Some q' => res_eqz (q_pending q) (q_pending q')
                    | None => false end) (s_queues m).

Definition app_eq (a b : oapp) : bool :=
  res_eqz (ap_pending a) (ap_pending b) && res_eqz (ap_allocated a) (ap_allocated b) && res_eqz (ap_phalloc a) (ap_phalloc b)
  && alloc_list_eq (ap_requests a) (ap_requests b) && alloc_list_eq (ap_allocs a) (ap_allocs b)
  && (ap_state a =? ap_state b).

(* applications that left the live list (Completed/Failed moved to the completed list) are not compared *)
Definition apps_eq (m o : ostate) : bool :=
  forallb (fun a => match find_app o (ap_id a) with Some a' => app_eq a a' | None => true end) (s_apps m).

Definition part_eq (m o : ostate) : bool :=
  ores_eqz (s_total m) (s_total o) && Z.eqb (s_nallocs m) (s_nallocs o).

(* [F] is the step function of the operational model that is validated (m_step2, or a later extension) *)
Definition stepfn := list (N * N) -> ostate -> ostep -> option ostate.
Definition model_step_check_with (F : stepfn) (deny : list (N * N)) (pre : ostate) (st : ostep) : option (list N) :=
  match F deny pre st with
  | None => None
  | Some m =>
      let o := st_obs st in
      Some ((if nodes_eq m o then [] else [191]) ++
            (if queues_alloc_eq m o then [] else [291]) ++
            (if queues_pending_eq m o then [] else [391]) ++
            (if apps_eq m o then [] else [392]) ++
            (if part_eq m o then [] else [393]))
  end.

Definition model_step_check := model_step_check_with m_step2.

Fixpoint msteps_with (F : stepfn) (deny : list (N * N)) (pre : ostate) (i : N) (l : list ostep) : list (N * N) * (N * N) :=
  match l with
  | [] => ([], (0, 0))
  | st :: t =>
      let '(rest, (cov, tot)) := msteps_with F deny (st_obs st) (i + 1) t in
      match model_step_check_with F deny pre st with
      | None => (rest, (cov, tot + 1))
      | Some ks => (map (fun k => (i, k)) ks ++ rest, (cov + 1, tot + 1))
      end
  end.

Fixpoint mall_with (F : stepfn) (i : N) (cs : list ohistory) : list (N * N) * (N * N) :=
  match cs with
  | [] => ([], (0, 0))
  | h :: t =>
      let '(r1, (c1, t1)) := msteps_with F (h_preddeny h) (h_init h) 0 (h_steps h) in
      let '(r2, (c2, t2)) := mall_with F (i + 1) t in
      (map (fun p => (i * 1000 + fst p, snd p)) r1 ++ r2, (c1 + c2, t1 + t2))
  end.

Definition model_check_all_with (F : stepfn) (cs : list ohistory) : list (N * N) :=
  let '(r, (c, t)) := mall_with F 0 cs in r ++ [(c, 100000001); (t, 100000002)].
Definition model_check_all (cs : list ohistory) : list (N * N) := model_check_all_with m_step2 cs.
Definition only_kinds (lo hi : N) (l : list (N * N)) : list (N * N) :=
  filter (fun p => ((lo <=? snd p) && (snd p <=? hi)) || (100000000 <? snd p)) l.
