(* Checkers of C01 / C02 / C03 on the core engine: the property's oracle on the implementation's observations
   (Oracles/CoreC01.v) ++ the correspondence of the WHOLE operational model (Core/ModelAll.v: frozen fragments, gang
   fragment, reservation / preemption fragment) restricted to the ledgers the property is about. *)
From Coq Require Import List ZArith NArith Bool.
From YK Require Import Base.Res Core.Obs Core.Ledger2 Oracles.CoreC01 Oracles.CoreModelAllCheck.
Import ListNotations.
Open Scope N_scope.

(* The operational model does not describe states corrupted by a recorded accounting defect (e.g. its frozen q_dec
   guards with FitInActual where the code uses FitIn: they agree only while the ledgers are sound): a model
   disagreement at or after the first accounting trigger of its history (Core/Ledger.v known_trigger, Core/Ledger2.v)
   is not judged - the oracle reports those histories under the trigger's known kind. *)
Fixpoint first_trigger (pre : ostate) (i : N) (l : list ostep) : option N :=
  match l with
  | [] => None
  | st :: t => match known_trigger_ext pre st with
               | Some _ => Some i
               | None => first_trigger (st_obs st) (i + 1) t
               end
  end.
Definition trigger_steps (cs : list ohistory) : list (option N) :=
  map (fun h => first_trigger (h_init h) 0 (h_steps h)) cs.
Definition sound_part (cs : list ohistory) (l : list (N * N)) : list (N * N) :=
  let ts := trigger_steps cs in
  filter (fun p => (100000000 <? snd p) ||
                   match nth (N.to_nat (fst p / 1000)) ts None with
                   | Some t => (fst p mod 1000) <? t
                   | None => true
                   end) l.

Definition c01_all_check (cs : list ohistory) : list (N * N) := c01_oracle_all cs ++ in_kinds [191] (sound_part cs (modelall_check_all cs)).
Definition c02_all_check (cs : list ohistory) : list (N * N) := c02_oracle_all cs ++ in_kinds [291] (sound_part cs (modelall_check_all cs)).
Definition c03_all_check (cs : list ohistory) : list (N * N) :=
  c03_oracle_all cs ++ in_kinds [391; 392; 393; 394; 395; 396; 397; 398; 399] (sound_part cs (modelall_check_all cs)).
