(* Checkers of C01 / C02 / C03 on the core engine: the property's oracle on the implementation's observations
   (Oracles/CoreC01.v) ++ the correspondence of the WHOLE operational model (Core/ModelAll.v: frozen fragments, gang
   fragment, reservation / preemption fragment) restricted to the ledgers the property is about. *)
From Coq Require Import List ZArith NArith Bool.
From YK Require Import Base.Res Core.Obs Oracles.CoreC01 Oracles.CoreModelAllCheck.
Import ListNotations.
Open Scope N_scope.

Definition c01_all_check (cs : list ohistory) : list (N * N) := c01_oracle_all cs ++ in_kinds [191] (modelall_check_all cs).
Definition c02_all_check (cs : list ohistory) : list (N * N) := c02_oracle_all cs ++ in_kinds [291] (modelall_check_all cs).
Definition c03_all_check (cs : list ohistory) : list (N * N) :=
  c03_oracle_all cs ++ in_kinds [391; 392; 393; 394; 395; 396; 397; 398; 399] (modelall_check_all cs).
