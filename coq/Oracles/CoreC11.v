(* C11 oracle on implementation observations (core engine) + correspondence of the component model
   Core/MaxApps.v.  kinds:
   1101 scheduler allocated to an Accepted application although leaf/ancestor maximum leaves no room
   1106 same for an application in another not-Running state (the code does not gate those states)
   1102 running count above the maximum (maximum unchanged by the step, count not already above)
   1103 running count above the number of Running applications below the queue
   1104 allocating set lists an id that is not a live application of the subtree
   1105 queue without applications below it reports running / allocating
   1190 observed change of the counters is not the one the model's writers produce *)
From Coq Require Import List ZArith NArith Bool.
From YK Require Import Base.Res Core.Obs Core.MaxApps.
Import ListNotations.
Open Scope N_scope.

(* ---- projection of an observed state ---- *)
Fixpoint chain_fuel (fuel : nat) (s : ostate) (q : N) : list N :=
  match fuel with
  | O => []
  | S f => if q =? 0 then [] else
           match find_queue s q with
           | None => []
           | Some x => q :: chain_fuel f s (q_parent x)
           end
  end.
Definition q_chain (s : ostate) (leaf : N) : list N := chain_fuel (S (length (s_queues s))) s leaf.

Definition proj_q (q : oqueue) : mq := mkMQ (q_id q) (q_maxrunning q) (q_running q) (q_allocating q).
Definition proj_app (s : ostate) (a : oapp) : mapp := mkMA (ap_id a) (q_chain s (ap_queue a)) (ap_state a).
Definition proj11 (s : ostate) : mst := mkMS (map proj_q (s_queues s)) (map (proj_app s) (s_apps s)).

(* ---- oracle ---- *)
Definition is_sched (o : oop) : bool := match o with OpSched => true | _ => false end.
Definition newalloc_apps (evs : list oevent) : list N :=
  flat_map (fun e => match e with ENewAlloc _ a _ _ _ => [a] | _ => [] end) evs.

Definition c11_gate_step (pre : ostate) (st : ostep) : list N :=
  if negb (is_sched (st_op st)) then [] else
  let S := proj11 pre in
  flat_map (fun id =>
    match m_find_app S id with
    | None => []
    | Some a =>
        if ma_state a =? ST_Running then []
        else if gate S a then []
        else if ma_state a =? ST_Accepted then [1101] else [1106]
    end) (newalloc_apps (st_events st)).

Definition c11_state (s : ostate) : list N :=
  let S := proj11 s in
  (if running_le_actual S then [] else [1103]) ++
  (if allocating_live S then [] else [1104]) ++
  (if empty_zero S then [] else [1105]).

Definition c11_max_step (pre : ostate) (st : ostep) : list N :=
  if max_step_pred (proj11 pre) (proj11 (st_obs st)) then [] else [1102].

(* ---- correspondence: rebuild the step from model operations ---- *)
Definition opt_bind {A B} (o : option A) (f : A -> option B) : option B :=
  match o with Some x => f x | None => None end.
Fixpoint run_ops (s : option mst) (ops : list mop) : option mst :=
  match ops with [] => s | o :: t => run_ops (opt_bind s (fun x => step x o)) t end.

Definition has_q (s : ostate) (id : N) : bool := existsb (fun q => q_id q =? id) (s_queues s).
Definition find_oapp (l : list oapp) (id : N) : option oapp := find (fun a => ap_id a =? id) l.

Definition queue_ops (pre post : ostate) : list mop :=
  flat_map (fun q => if has_q pre (q_id q) then [] else [MAddQueue (q_id q) (q_maxrunning q)]) (s_queues post) ++
  flat_map (fun q => match find_queue pre (q_id q) with
                     | Some q0 => if q_maxrunning q0 =? q_maxrunning q then [] else [MSetMax (q_id q) (q_maxrunning q)]
                     | None => [] end) (s_queues post).
Definition queue_del_ops (pre post : ostate) : list mop :=
  flat_map (fun q => if has_q post (q_id q) then [] else [MDelQueue (q_id q)]) (s_queues pre).

(* the application the scheduling cycle produced a result for: the one announced, else the one that
   was added to an allocating set *)
Definition added_allocating (pre post : ostate) : list N :=
  flat_map (fun q => match find_queue pre (q_id q) with
                     | Some q0 => filter (fun x => negb (memN x (q_allocating q0))) (q_allocating q)
                     | None => q_allocating q end) (s_queues post).
Definition sched_app (pre : ostate) (st : ostep) : N :=
  if negb (is_sched (st_op st)) then 0 else
  match newalloc_apps (st_events st) with
  | a :: _ => a
  | [] => match added_allocating pre (st_obs st) with a :: _ => a | [] => 0 end
  end.

Definition tos (id : N) (l : list N) : list mop := map (MTo id) l.
Definition app_ops (pre : ostate) (st : ostep) : list mop :=
  let post := st_obs st in
  let sa := sched_app pre st in
  flat_map (fun a =>
    let id := ap_id a in
    match find_oapp (s_apps post) id with
    | Some a' =>
        let news := skipn (length (ap_statelog a)) (ap_statelog a') in
        if id =? sa then
          match news with
          | [] => [MSched id None]
          | x :: rest => MSched id (Some x) :: tos id rest
          end
        else tos id news
    | None =>
        match find_oapp (s_completed post) id with
        | Some a' => tos id (skipn (length (ap_statelog a)) (ap_statelog a')) ++ [MTerminated id]
        | None => [MRemoveApp id false]
        end
    end) (s_apps pre) ++
  flat_map (fun a' =>
    match find_oapp (s_apps pre) (ap_id a') with
    | Some _ => []
    | None => MAddApp (ap_id a') (q_chain post (ap_queue a')) :: tos (ap_id a') (ap_statelog a')
    end) (s_apps post).

Definition subset (a b : list N) : bool := forallb (fun x => memN x b) a.
Definition mq_same (a b : mq) : bool :=
  (mq_max a =? mq_max b) && (mq_running a =? mq_running b) &&
  subset (mq_allocating a) (mq_allocating b) && subset (mq_allocating b) (mq_allocating a).

Definition c11_corr (pre : ostate) (st : ostep) : list N :=
  let post := st_obs st in
  let ops := queue_ops pre post ++ app_ops pre st ++ queue_del_ops pre post in
  match run_ops (Some (proj11 pre)) ops with
  | None => [1190]
  | Some M =>
      if forallb (fun q' => match m_find_q M (mq_id q') with Some q => mq_same q q' | None => false end)
                 (m_queues (proj11 post))
      then [] else [1190]
  end.

Definition c11_step (pre : ostate) (st : ostep) : list N :=
  c11_gate_step pre st ++ c11_max_step pre st ++ c11_state (st_obs st) ++ c11_corr pre st.

Fixpoint indexed {A} (i : N) (l : list A) : list (N * A) :=
  match l with [] => [] | a :: t => (i, a) :: indexed (i + 1) t end.

Definition c11_history (h : ohistory) : list (N * N) :=
  flat_map (fun '(i, (pre, st)) => map (fun k => (i, k)) (c11_step pre st)) (indexed 0 (hist_pairs h)).

Definition c11_check_all (cs : list ohistory) : list (N * N) :=
  flat_map (fun '(hi, h) =>
    map (fun '(i, k) => (hi * 1000 + i, k)) (map (fun k => (0, k)) (c11_state (h_init h)) ++ c11_history h))
    (indexed 0 cs).
