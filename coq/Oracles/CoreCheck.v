(* Checkers evaluated on implementation observations of the core engine. (index, kind) pairs. *)
From Coq Require Import List ZArith NArith Bool.
From YK Require Import Base.Res Core.Obs.
Import ListNotations.
Open Scope N_scope.

Definition core_check (cs : list ohistory) : list (N * N) := [].
