(* Checkers evaluated by the correspondence run of engine "preempt" (C07, C08).
   kinds: 1 = model and implementation disagree on who may be a victim / who may ask (correspondence for C07:
              preconditions, potential victim sets, required node and quota candidate filters)
          4 = model and implementation disagree on what is done with the candidates the implementation found
              (correspondence for C08: guarantee check, chosen victims, ledger, quota shares and timing)
          2 = C07 oracle: a victim (or the asker) is not eligible / announced more or less than once
          3 = C08 oracle: guarantee, coverage, "nothing happens otherwise", quota bounds
          5 = the implementation panicked or the world could not be built
          6 = the generated world is not well formed (harness problem)
          900.. = coverage counters (class info: the first component is a COUNT, not a case index), computed with the
                  model on the generated cases: how often the additional-victims pass is entered / adds a victim, which
                  branches of setPreemptionTime / tryAcquirePreemption / IncAllocatedResource the histories reach *)
From Coq Require Import List ZArith NArith Bool.
From YK Require Import Base.Int64 Base.Res Preempt.Snapshot Preempt.Victims Preempt.ReqNode Preempt.Quota Preempt.Timing Preempt.Spec.
Import ListNotations.
Open Scope Z_scope.

Fixpoint indexedP {A} (i : N) (l : list A) : list (N * A) :=
  match l with [] => [] | a :: t => (i, a) :: indexedP (i + 1)%N t end.
Definition tagP (base : N) (l : list (N * list N)) : list (N * N) :=
  flat_map (fun '(i, ks) => map (fun k => ((base + i)%N, k)) ks) l.
Definition kind (b : bool) (k : N) : list N := if b then [] else [k].

Fixpoint insN (x : N) (l : list N) : list N :=
  match l with [] => [x] | y :: t => if (x <=? y)%N then x :: l else y :: insN x t end.
Definition sortN (l : list N) : list N := fold_right insN [] l.
Definition same_set (a b : list N) : bool := listN_eqb (sortN a) (sortN b).
Fixpoint listlistN_eqb (a b : list (list N)) : bool :=
  match a, b with
  | [], [] => true
  | x :: a', y :: b' => listN_eqb x y && listlistN_eqb a' b'
  | _, _ => false
  end.

(* ---------------- queue preemption ---------------- *)
Record qobs := mkQObs {
  ob_pre : bool; ob_find : option (list (N * list N)); ob_guar : option bool; ob_try : option outcome;
  ob_marked : list N; ob_announced : list (list N); ob_preempting : list (N * ores);
  ob_triggered : bool; ob_pre2 : bool }.
Inductive queue_case := QC (w : world) (o : qobs) | QCCrash.

Fixpoint ins_pv (x : N * list N) (l : list (N * list N)) : list (N * list N) :=
  match l with [] => [x] | y :: t => if (fst x <=? fst y)%N then x :: l else y :: ins_pv x t end.
Definition pv_keys (pv : pvs) : list (N * list N) :=
  fold_right ins_pv [] (map (fun qv => (fst qv, sortN (map a_key (snd qv)))) pv).
Fixpoint pvk_eqb (a b : list (N * list N)) : bool :=
  match a, b with
  | [], [] => true
  | (q1, l1) :: a', (q2, l2) :: b' => N.eqb q1 q2 && listN_eqb l1 l2 && pvk_eqb a' b'
  | _, _ => false
  end.
Definition find_eqb (m : option pvs) (o : option (list (N * list N))) : bool :=
  match m, o with
  | None, None => true
  | Some pv, Some l => pvk_eqb (pv_keys pv) l
  | _, _ => false
  end.

Fixpoint nodupZ (l : list Z) : bool :=
  match l with [] => true | x :: t => negb (existsb (Z.eqb x) t) && nodupZ t end.
(* the outcome is predicted exactly only when no two allocations have the same creation time
   (otherwise the sort order depends on the map iteration) *)
Definition exact_world (w : world) : bool := nodupZ (map a_age (w_allocs w)).

Definition preempting_agree (qs : list queue) (obs : list (N * ores)) : bool :=
  forallb (fun q => res_eqz (oget (q_preempting q)) (oget (snap_get obs (q_id q)))) qs &&
  Nat.eqb (length qs) (length obs).

Definition obs_outcome (o : qobs) : outcome := match ob_try o with Some x => x | None => failed end.
Definition obs_pv (w : world) (o : qobs) : pvs :=
  match ob_find o with
  | Some l => map (fun ql => (fst ql, victims_of w (snd ql))) l
  | None => []
  end.

Definition queue_corr07 (w : world) (o : qobs) : bool :=
  Bool.eqb (ob_pre o) (checkPreconditions w) && find_eqb (findVictims w) (ob_find o) &&
  Bool.eqb (ob_pre2 o) (checkPreconditionsNoFreq (apply_outcome w (obs_outcome o))).

(* everything downstream is computed from the potential victims the implementation reported *)
Definition queue_corr08 (w : world) (o : qobs) : bool :=
  let pv := obs_pv w o in
  (if ob_pre o then
     match ob_guar o, ob_try o with
     | Some g, Some t =>
         Bool.eqb g (match ob_find o with Some _ => checkGuarantees w pv | None => false end) &&
         (if exact_world w then
            existsb (outcome_eqb t) (match ob_find o with Some _ => tryPreemptionPV true w pv | None => [failed] end)
          else true)
     | _, _ => false
     end
   else match ob_guar o, ob_try o with None, None => true | _, _ => false end) &&
  let oc := obs_outcome o in
  let w' := apply_outcome w oc in
  same_set (ob_marked o) (if o_ok oc then o_victims oc else []) &&
  listlistN_eqb (ob_announced o) (announced oc) &&
  preempting_agree (w_queues w') (ob_preempting o) &&
  Bool.eqb (ob_triggered o) (k_triggered (w_ask w')).

Definition obs_victims (o : qobs) : list N := ob_marked o ++ concat (ob_announced o) ++ o_victims (obs_outcome o).
Definition committed (o : qobs) : bool :=
  o_ok (obs_outcome o) || negb (match obs_victims o with [] => true | _ => false end).

Definition c07_queue_ok (w : world) (o : qobs) : bool :=
  all_victims w (queue_victim_eligible w) (obs_victims o) &&
  (if committed o then asker_ok w && negb (ob_pre2 o) else true) &&       (* allowed; triggers at most once *)
  announced_once (ob_marked o) (ob_announced o).

Definition unchanged (w : world) (o : qobs) : bool :=
  match ob_marked o, ob_announced o with
  | [], [] => preempting_agree (w_queues w) (ob_preempting o) && Bool.eqb (ob_triggered o) (k_triggered (w_ask w))
  | _, _ => false
  end.
Definition c08_queue_ok (w : world) (o : qobs) : bool :=
  if committed o then
    let oc := obs_outcome o in
    let vs := victims_of w (o_victims oc) in
    o_ok oc &&
    under_guarantee w (obs_pv w o) &&
    taken_over_guarantee w (init_snaps w) vs &&
    covers_ask w (o_node oc) vs
  else unchanged w o.

Definition queue_check1 (c : queue_case) : list N :=
  match c with
  | QCCrash => [5%N]
  | QC w o =>
      if negb (wf_world w) then [6%N] else
      kind (queue_corr07 w o) 1 ++ kind (queue_corr08 w o) 4 ++ kind (c07_queue_ok w o) 2 ++ kind (c08_queue_ok w o) 3
  end.
Definition queue_check (cs : list queue_case) : list (N * N) := tagP 0 (indexedP 0 (map queue_check1 cs)).

(* ---------------- required node preemption ---------------- *)
Record robs := mkRObs { ro_marked : list N; ro_announced : list (list N); ro_preempting : list (N * ores); ro_triggered : bool }.
Inductive reqnode_case := RC (w : world) (nid : N) (order : list N) (o : robs) | RCCrash.

Definition reqnode_corr07 (w : world) (nid : N) (order : list N) : bool := rn_order_ok w nid order.
Definition reqnode_corr08 (w : world) (nid : N) (order : list N) (o : robs) : bool :=
  let oc := rn_try_order w nid order in
  let w' := apply_outcome w oc in
  same_set (ro_marked o) (o_victims oc) && listlistN_eqb (ro_announced o) (announced oc) &&
  preempting_agree (w_queues w') (ro_preempting o) &&
  Bool.eqb (ro_triggered o) (k_triggered (w_ask w')).
Definition c07_reqnode_ok (w : world) (nid : N) (o : robs) : bool :=
  all_victims w (reqnode_victim_eligible w nid) (ro_marked o ++ concat (ro_announced o)) &&
  announced_once (ro_marked o) (ro_announced o).
(* the victims together with the free space of the node cover the ask (as GetVictims measures it), else nothing *)
Definition c08_reqnode_ok (w : world) (nid : N) (o : robs) : bool :=
  match ro_marked o ++ concat (ro_announced o) with
  | [] => preempting_agree (w_queues w) (ro_preempting o) && Bool.eqb (ro_triggered o) (k_triggered (w_ask w))
  | _ => StrictlyGreaterThanOrEquals
           (Some (Add (fold_left (fun acc a => AddTo acc (a_res a)) (victims_of w (ro_marked o)) (Some [])) (node_avail w nid)))
           (ask_res w)
  end.
Definition reqnode_check1 (c : reqnode_case) : list N :=
  match c with
  | RCCrash => [5%N]
  | RC w nid order o =>
      if negb (wf_world w) then [6%N] else
      kind (reqnode_corr07 w nid order) 1 ++ kind (reqnode_corr08 w nid order o) 4 ++ kind (c07_reqnode_ok w nid o) 2 ++ kind (c08_reqnode_ok w nid o) 3
  end.
Definition reqnode_check (cs : list reqnode_case) : list (N * N) := tagP 100000 (indexedP 0 (map reqnode_check1 cs)).

(* ---------------- quota preemption histories ---------------- *)
Inductive qop :=
| QReconf (q : N) (mx gr : ores) (delay : Z)
| QAdvance (d : Z)
| QUsage (q : N) (r : ores) (enabled : bool)
| QTrigger (q : N) (whole : bool)
| QHold (q : N)       (* tryAcquirePreemption without running the preemptor and without finishing *)
| QDone (q : N).      (* setQuotaPreemptionState(false) *)
Record lobs := mkLObs { lb_queue : N; lb_pre : ores; lb_sorted : list N; lb_claimed : ores }.
(* observed times: delay, start relative to now, running *)
Definition otimes := list (N * (Z * option Z * bool)).
Record qsobs := mkQSObs {
  so_times : otimes; so_acquired : bool; so_crash : bool; so_top : ores; so_leaves : list lobs;
  so_marked : list N; so_announced : list (list N); so_alloc : list (N * ores); so_preempting : list (N * ores) }.
Inductive quota_case := UC (w : world) (t0 : otimes) (steps : list (qop * qsobs)) | UCCrash.

Definition times := list (N * qtime).
Fixpoint time_get (ts : times) (id : N) : qtime :=
  match ts with [] => mkQT 0 None false | (i, t) :: r => if N.eqb i id then t else time_get r id end.
Definition time_set (ts : times) (id : N) (t : qtime) : times :=
  map (fun it => if N.eqb (fst it) id then (id, t) else it) ts.
Definition times_of (now : Z) (o : otimes) : times :=
  map (fun x => let '(i, (d, s, r)) := x in (i, mkQT d (match s with Some rel => Some (now + rel) | None => None end) r)) o.
Definition optZ_eqb (a b : option Z) : bool :=
  match a, b with Some x, Some y => Z.eqb x y | None, None => true | _, _ => false end.
Definition times_agree (now : Z) (ts : times) (o : otimes) : bool :=
  forallb (fun x => let '(i, (d, s, r)) := x in
                    let t := time_get ts i in
                    Z.eqb d (qt_delay t) && Bool.eqb r (qt_running t) &&
                    optZ_eqb s (match qt_start t with Some a => Some (a - now) | None => None end)) o.

Definition upd_queue (f : queue -> queue) (id : N) (qs : list queue) : list queue :=
  map (fun q => if N.eqb (q_id q) id then f q else q) qs.
Definition set_limits (mx gr : ores) (q : queue) : queue :=
  mkQ (q_id q) (q_parent q) (q_path q) (q_leaf q) true gr mx (q_alloc q) (q_preempting q) (q_ppol q) (q_prpol q) (q_offset q) (q_delay q).
Definition set_alloc (r : ores) (q : queue) : queue :=
  mkQ (q_id q) (q_parent q) (q_path q) (q_leaf q) (q_managed q) (q_guar q) (q_max q) r (q_preempting q) (q_ppol q) (q_prpol q) (q_offset q) (q_delay q).
Definition with_queues (w : world) (qs : list queue) : world :=
  mkW qs (w_allocs w) (w_ask w) (w_nodes w) (w_freq w) (w_plugin w) (w_tried w).
Definition with_allocs (w : world) (l : list alloc) : world :=
  mkW (w_queues w) l (w_ask w) (w_nodes w) (w_freq w) (w_plugin w) (w_tried w).

Record ustate := mkUS { us_w : world; us_t : times; us_now : Z }.

Definition alloc_agree (qs : list queue) (obs : list (N * ores)) : bool :=
  forallb (fun q => res_eqz (oget (q_alloc q)) (oget (snap_get obs (q_id q)))) qs.

Definition leaf_obs_for (ls : list lobs) (id : N) : option lobs :=
  match filter (fun l => N.eqb (lb_queue l) id) ls with l :: _ => Some l | [] => None end.

(* one trigger on queue q: returns the new state, whether model and observation agree on what was done (C08 side)
   and whether the observed candidate lists are rearrangements of the filtered sets (C07 side) *)
Definition trigger_step (st : ustate) (qid : N) (whole : bool) (o : qsobs) : ustate * bool * bool :=
  let w := us_w st in
  match find_queue (w_queues w) qid with
  | None => (st, false, true)
  | Some q =>
      let '(acq, t1) := tryAcquire (us_now st) q (time_get (us_t st) qid) in
      if negb acq then (mkUS w (time_set (us_t st) qid t1) (us_now st), negb (so_acquired o) && negb (so_crash o), true)
      else
        let ts_done := time_set (us_t st) qid (quotaDone t1) in
        match quota_contexts w q with
        | QCrash => (mkUS w ts_done (us_now st), so_acquired o && so_crash o, true)
        | QVal ctxs =>
            let top := setPreemptable w q in
            if whole && negb (q_leaf q) then
              (* per leaf details are not visible: the marks must be allowed by the filters of the contexts *)
              let allowed := flat_map (fun c => match find_queue (w_queues w) (fst c) with
                                                | Some lq => map a_key (quota_filter w lq (snd c))
                                                | None => [] end) ctxs in
              let ok := so_acquired o && negb (so_crash o) && ores_eqb top (so_top o) in
              let ok07 := forallb (fun k => existsb (N.eqb k) allowed) (so_marked o) in
              let vs := victims_of w (so_marked o) in
              let w1 := with_allocs (with_queues w (fold_left (inc_preempting w) vs (w_queues w))) (map (mark (so_marked o)) (w_allocs w)) in
              (mkUS w1 ts_done (us_now st), ok, ok07)
            else
              let outs := map (fun c => match find_queue (w_queues w) (fst c), leaf_obs_for (so_leaves o) (fst c) with
                                        | Some lq, Some lo =>
                                            let out := quota_leaf_order w lq (snd c) (lb_sorted lo) in
                                            Some (out, ores_eqb (snd c) (lb_pre lo) && ores_eqb (lo_claimed out) (lb_claimed lo),
                                                  quota_order_ok w lq (lb_pre lo) (lb_sorted lo))
                                        | _, _ => None
                                        end) ctxs in
              let good := forallb (fun x => match x with Some (_, b, _) => b | None => false end) outs in
              let ok07 := forallb (fun x => match x with Some (_, _, b) => b | None => true end) outs in
              let victims := flat_map (fun x => match x with Some (out, _, _) => lo_victims out | None => [] end) outs in
              let ok := so_acquired o && negb (so_crash o) && ores_eqb top (so_top o) && good &&
                        Nat.eqb (length ctxs) (length (so_leaves o)) && same_set victims (so_marked o) in
              let vs := victims_of w victims in
              let w1 := with_allocs (with_queues w (fold_left (inc_preempting w) vs (w_queues w))) (map (mark victims) (w_allocs w)) in
              (mkUS w1 ts_done (us_now st), ok, ok07)
        end
  end.

Definition quota_step_model (st : ustate) (op : qop) (o : qsobs) : ustate * bool * bool :=
  let w := us_w st in
  match op with
  | QReconf qid mx gr delay =>
      match find_queue (w_queues w) qid with
      | None => (st, false, true)
      | Some q =>
          let t := time_get (us_t st) qid in
          let q' := set_limits mx gr q in
          let t' := setPreemptionTime (us_now st) q' (q_max q) (qt_delay t) (mkQT delay (qt_start t) (qt_running t)) in
          (mkUS (with_queues w (upd_queue (fun _ => q') qid (w_queues w))) (time_set (us_t st) qid t') (us_now st), negb (so_crash o), true)
      end
  | QAdvance d => (mkUS w (us_t st) (us_now st + d), true, true)
  | QUsage qid r enabled =>
      let ids := chain_ids w qid in
      let qs := map (fun q => if existsb (N.eqb (q_id q)) ids then set_alloc (Some (Add (q_alloc q) r)) q else q) (w_queues w) in
      let ts := map (fun it => if existsb (N.eqb (fst it)) ids then
                                 match find_queue qs (fst it) with
                                 | Some q => (fst it, incAllocatedTime (us_now st) enabled q (snd it))
                                 | None => it end
                               else it) (us_t st) in
      (mkUS (with_queues w qs) ts (us_now st), true, true)
  | QTrigger qid whole => trigger_step st qid whole o
  | QHold qid =>
      match find_queue (w_queues w) qid with
      | None => (st, false, true)
      | Some q =>
          let '(acq, t1) := tryAcquire (us_now st) q (time_get (us_t st) qid) in
          (mkUS w (time_set (us_t st) qid t1) (us_now st), Bool.eqb acq (so_acquired o) && negb (so_crash o), true)
      end
  | QDone qid => (mkUS w (time_set (us_t st) qid (quotaDone (time_get (us_t st) qid))) (us_now st), negb (so_crash o), true)
  end.

(* C07 on a quota step: victims are bound, not released, not preempted before, no required node; announced once *)
Definition c07_quota_ok (w : world) (o : qsobs) : bool :=
  all_victims w victim_base_ok (so_marked o ++ concat (so_announced o)) &&
  announced_once (so_marked o) (so_announced o).

Definition sum_res (vs : list alloc) : ores := fold_left (fun acc a => AddTo acc (a_res a)) vs (Some []).
Definition sum_ores (l : list ores) : ores := fold_left (fun acc r => AddTo acc r) l (Some []).

(* C08 on a quota step, evaluated on the state before the step and the observation *)
Definition c08_quota_ok (st : ustate) (op : qop) (o : qsobs) : bool :=
  let w := us_w st in
  match op with
  | QTrigger qid whole =>
      match find_queue (w_queues w) qid with
      | None => false
      | Some q =>
          let victims := so_marked o ++ concat (so_announced o) in
          (* runs only when allowed *)
          (if so_acquired o || negb (match victims with [] => true | _ => false end)
           then quota_may_run (us_now st) q (time_get (us_t st) qid) && (0 <? qt_delay (time_get (us_t st) qid))
           else true) &&
          (* never more than the excess over the lowered maximum *)
          within_excess q (so_top o) &&
          claimed_within (so_top o) (sum_res (victims_of w (so_marked o))) &&
          claimed_within (so_top o) (sum_ores (map lb_pre (so_leaves o))) &&
          forallb (fun l => claimed_within (lb_pre l) (lb_claimed l)) (so_leaves o) &&
          (* never from a child queue at or below its guaranteed share; the queue itself must be above its maximum *)
          forallb (fun k => match find_alloc (w_allocs w) k with
                            | Some a => match find_queue (w_queues w) (a_queue a) with
                                        | Some lq => if N.eqb (q_id lq) qid then above_max lq else negb (at_or_below_guarantee lq)
                                        | None => false end
                            | None => false end) (so_marked o)
      end
  | _ => match so_marked o, so_announced o with [], [] => true | _, _ => false end
  end.

Fixpoint quota_run (st : ustate) (steps : list (qop * qsobs)) : list N :=
  match steps with
  | [] => []
  | (op, o) :: rest =>
      let '(st', ok, ok07) := quota_step_model st op o in
      let corr := ok && times_agree (us_now st') (us_t st') (so_times o) &&
                  alloc_agree (w_queues (us_w st')) (so_alloc o) &&
                  preempting_agree (w_queues (us_w st')) (so_preempting o) in
      kind ok07 1 ++ kind corr 4 ++ kind (c07_quota_ok (us_w st) o) 2 ++ kind (c08_quota_ok st op o) 3 ++ kind (negb (so_crash o)) 5 ++
      (if corr then quota_run st' rest else [])
  end.

(* ---- the timing clause of C08 evaluated on observations only (independent of the model run above, so that it keeps
   judging after a correspondence failure): the queues as configured/observed, the start times the implementation
   shows after every step, and the ghost arming time maintained with arm_upd (Preempt/Timing.v) ---- *)
Record otstate := mkOTS { ot_qs : list queue; ot_t : times; ot_now : Z; ot_arm : list (N * option Z) }.
Fixpoint arm_get (l : list (N * option Z)) (id : N) : option Z :=
  match l with [] => None | (i, a) :: r => if N.eqb i id then a else arm_get r id end.
Definition obs_queues (qs : list queue) (op : qop) (o : qsobs) : list queue :=
  let qs1 := match op with QReconf qid mx gr _ => upd_queue (set_limits mx gr) qid qs | _ => qs end in
  map (fun q => set_alloc (snap_get (so_alloc o) (q_id q)) q) qs1.
Definition acted (o : qsobs) : bool :=
  so_acquired o || negb (match so_marked o ++ concat (so_announced o) with [] => true | _ => false end).
(* quota preemption acts only for a managed queue above its maximum that is not running, whose start time is armed and
   reached, with a delay configured (0 switches the feature off for the queue), and only when the delay in force has
   elapsed since the change that armed it (Props/C08.v: only_managed_enabled_elapsed, acquired_only_after_delay) *)
Definition time_ok_step (st : otstate) (op : qop) (o : qsobs) : bool :=
  let chk := fun qid =>
    if acted o then
      match find_queue (ot_qs st) qid with
      | Some q => let t := time_get (ot_t st) qid in
                  quota_may_run (ot_now st) q t && negb (qt_delay t =? 0) &&
                  delay_elapsed (arm_get (ot_arm st) qid) (qt_delay t) (ot_now st)
      | None => false
      end
    else true in
  match op with
  | QTrigger qid _ => chk qid
  | QHold qid => chk qid
  | _ => true
  end.
Definition time_next (st : otstate) (op : qop) (o : qsobs) : otstate :=
  let now' := match op with QAdvance d => ot_now st + d | _ => ot_now st end in
  let t' := times_of now' (so_times o) in
  mkOTS (obs_queues (ot_qs st) op o) t' now'
        (map (fun it => (fst it, arm_upd now' (qt_start (time_get (ot_t st) (fst it))) (qt_start (snd it)) (arm_get (ot_arm st) (fst it)))) t').
Fixpoint quota_time_run (st : otstate) (steps : list (qop * qsobs)) : list N :=
  match steps with
  | [] => []
  | (op, o) :: rest => kind (time_ok_step st op o) 3 ++ quota_time_run (time_next st op o) rest
  end.

Fixpoint dedupN (l : list N) : list N :=
  match l with [] => [] | x :: t => if existsb (N.eqb x) t then dedupN t else x :: dedupN t end.
Definition quota_check1 (c : quota_case) : list N :=
  match c with
  | UCCrash => [5%N]
  | UC w t0 steps =>
      if negb (wf_world w) then [6%N] else
      dedupN (quota_run (mkUS w (times_of 0 t0) 0) steps ++ quota_time_run (mkOTS (w_queues w) (times_of 0 t0) 0 []) steps)
  end.
Definition quota_check (cs : list quota_case) : list (N * N) := tagP 200000 (indexedP 0 (map quota_check1 cs)).

(* ---------------- coverage counters (class info) ---------------- *)
Definition is_nil {A} (l : list A) : bool := match l with [] => true | _ => false end.
(* the additional-victims pass with a trace: 0 victim kept, 1 rejected by the queue test, 2 break (the ask queue cannot
   absorb the victim), 3 put back (no effect on the ask queue) *)
Definition add_step_tr (w : world) (st : apass * list N) (v : alloc) : apass * list N :=
  let s := fst st in
  if ap_stop s then st else
  let code :=
    let '(ok, sn1) := victim_check w (ap_sn s) v in
    if ok then
      if fits_ask_queue w sn1 v then
        if negb (EqualsOrEmpty (remainingOf w sn1 (ask_qid w)) (remainingOf w (AddAllocation w sn1 (ask_qid w) (a_res v)) (ask_qid w))) then 0%N else 3%N
      else 2%N
    else 1%N in
  (add_step w s v, snd st ++ [code]).
Definition add_trace (w : world) (pv : pvs) (nodeVictims : list alloc) : list N :=
  let sn := fold_left (fun sn v => RemoveAllocation w sn (a_queue v) (a_res v)) nodeVictims (Duplicate (init_snaps w)) in
  let seen := map a_key nodeVictims in
  let potential := sort_by lessA (filter (fun v => negb (existsb (N.eqb (a_key v)) seen)) (flat_pv pv)) in
  snd (fold_left (add_step_tr w) potential (mkAP sn [] false, [])).
(* the second pass of calculateVictimsByNode rejects a candidate of the first pass on some usable node *)
Definition second_pass_rejects (w : world) (pv : pvs) : bool :=
  existsb (fun n =>
             if FitIn (n_avail n) (ask_res w) then false else
             let fp := fold_left (first_step w) (by_node pv (n_id n)) (mkFP (Duplicate (init_snaps w)) (n_avail n) [] [] false) in
             let head := fp_head fp ++ fp_tail fp in
             negb (Nat.eqb (length head) (length (sp_res (second_pass w (n_avail n) head))))) (usable_nodes w).
(* entered, a victim added, an added victim committed, second pass rejection, pass rejection / break / put back, final
   ask-queue check of the pass failed *)
Definition add_info1 (c : queue_case) : list bool :=
  let none := [false; false; false; false; false; false; false; false] in
  match c with
  | QCCrash => none
  | QC w o =>
      if negb (wf_world w) || negb (ob_pre o) then none else
      match ob_find o with
      | None => none
      | Some _ =>
          let pv := obs_pv w o in
          if negb (checkGuarantees w pv) then none else
          let cs := filter (fun c => fst (answer w c)) (node_checks w pv) in
          let sc := fun c => solutionScore pv c (snd (answer w c)) in
          let m := zmin_list (map sc cs) scoreUnfit in
          let best := filter (fun c => sc c =? m) cs in
          let best := match ob_try o with
                      | Some t => if o_ok t then filter (fun c => N.eqb (pc_node c) (o_node t)) best else best
                      | None => best end in
          let runs := flat_map (fun c => let idx := snd (answer w c) in
                                         if Z.of_nat (length (pc_victims c)) <=? idx then [] else
                                         let nv := firstn (Z.to_nat (idx + 1)) (pc_victims c) in
                                         [(additionalVictims w pv nv, add_trace w pv nv)]) best in
          let has := fun code => existsb (fun r => existsb (N.eqb code) (snd r)) runs in
          [negb (is_nil runs);
           existsb (fun r => negb (is_nil (fst (fst r)))) runs;
           existsb (fun r => existsb (fun v => existsb (N.eqb (a_key v)) (o_victims (obs_outcome o))) (fst (fst r))) runs;
           second_pass_rejects w pv; has 1%N; has 2%N; has 3%N;
           existsb (fun r => negb (snd (fst r))) runs]
      end
  end.
Fixpoint select {A} (flags : list bool) (l : list A) (want : bool) : list A :=
  match flags, l with
  | f :: fs, x :: xs => if Bool.eqb f want then x :: select fs xs want else select fs xs want
  | [], xs => if want then [] else xs
  | _, [] => []
  end.
Definition count_col (rows : list (list bool)) (i : nat) : N :=
  N.of_nat (length (filter (fun r => nth i r false) rows)).
Definition info_rows (base : N) (rows : list (list bool)) : list (N * N) :=
  (N.of_nat (length rows), base) ::
  map (fun i => (count_col rows i, (base + 1 + N.of_nat i)%N)) (seq 0 8).
(* 900.. the general queue streams, 910.. the stream "extra" *)
Definition queue_info (extra : list bool) (cs : list queue_case) : list (N * N) :=
  info_rows 900 (map add_info1 (select extra cs false)) ++ info_rows 910 (map add_info1 (select extra cs true)).

(* which branch of setPreemptionTime a reload takes (offsets from 920, see lib/engines/preempt.py) *)
Definition spt_branch (now : Z) (q : queue) (oldMax : ores) (oldDelay : Z) (t : qtime) : N :=
  if qt_running t then 0 else
  if qt_delay t =? 0 then 1 else
  if IsZero (q_max q) then 2 else
  if StrictlyGreaterThanOrEqualsOnlyExisting (q_max q) (q_alloc q) then 3 else
  let armed := fun base : N =>
    if oldDelay <? qt_delay t then base else if qt_delay t <? oldDelay then (base + 1)%N else (base + 2)%N in
  if Equals oldMax (q_max q) then
    match qt_start t with
    | None => if (oldDelay =? 0) && (0 <? qt_delay t) then 4 else 5
    | Some _ => armed 6%N
    end
  else if StrictlyGreaterThan oldMax (q_max q) then
    match qt_start t with None => 9 | Some _ => armed 10%N end
  else if StrictlyGreaterThan (q_max q) oldMax then
    match qt_start t with None => 13 | Some _ => armed 14%N end
  else match qt_start t with None => 17 | Some _ => armed 18%N end.
(* tryAcquirePreemption: 0 unmanaged, 1 running, 2 usage within the max, 3 not armed, 4 too early, 5 acquired *)
Definition acq_branch (now : Z) (q : queue) (t : qtime) : N :=
  if negb (q_managed q) then 0 else if qt_running t then 1 else
  if StrictlyGreaterThanOrEqualsOnlyExisting (q_max q) (q_alloc q) then 2 else
  match qt_start t with None => 3 | Some s => if now <? s then 4 else 5 end.
(* the re-arming in IncAllocatedResource: 0 armed, 1 feature off, 2 already armed, 3 unmanaged, 4 delay zero, 5 max unset, 6 within the max *)
Definition inc_branch (enabled : bool) (q : queue) (t : qtime) : N :=
  if negb enabled then 1 else
  match qt_start t with Some _ => 2 | None =>
    if negb (q_managed q) then 3 else if qt_delay t =? 0 then 4 else if IsZero (q_max q) then 5 else
    if StrictlyGreaterThanOrEqualsOnlyExisting (q_max q) (q_alloc q) then 6 else 0
  end.
Definition step_codes (st : ustate) (op : qop) : list N :=
  let w := us_w st in
  let acq := fun qid =>
    match find_queue (w_queues w) qid with
    | None => []
    | Some q => let t := time_get (us_t st) qid in
                (945 + acq_branch (us_now st) q t)%N ::
                match qt_start t with
                | Some s => if s - us_now st =? 1000 then [951%N] else if s =? us_now st then [952%N] else []
                | None => []
                end
    end in
  match op with
  | QReconf qid mx gr delay =>
      match find_queue (w_queues w) qid with
      | None => []
      | Some q => let t := time_get (us_t st) qid in
                  [(920 + spt_branch (us_now st) (set_limits mx gr q) (q_max q) (qt_delay t) (mkQT delay (qt_start t) (qt_running t)))%N]
      end
  | QUsage qid r enabled =>
      flat_map (fun q => [(955 + inc_branch enabled (set_alloc (Some (Add (q_alloc q) r)) q) (time_get (us_t st) (q_id q)))%N]) (chain w qid)
  | QTrigger qid _ => acq qid
  | QHold qid => acq qid
  | _ => []
  end.
Fixpoint quota_cov (st : ustate) (steps : list (qop * qsobs)) : list N :=
  match steps with
  | [] => []
  | (op, o) :: rest =>
      let '(st', ok, _) := quota_step_model st op o in
      step_codes st op ++ (if ok && times_agree (us_now st') (us_t st') (so_times o) then quota_cov st' rest else [])
  end.
Definition quota_cov1 (c : quota_case) : list N :=
  match c with
  | UCCrash => []
  | UC w t0 steps => if negb (wf_world w) then [] else quota_cov (mkUS w (times_of 0 t0) 0) steps
  end.
Definition count_code (codes : list N) (k : N) : N := N.of_nat (length (filter (N.eqb k) codes)).
(* 919 = histories of the stream "qtime"; the branch counters are taken over that stream only *)
Definition cov_codes : list N := map N.of_nat (seq 920 21 ++ seq 945 8 ++ seq 955 7).
Definition quota_info (qtime : list bool) (cs : list quota_case) : list (N * N) :=
  let sel := select qtime cs true in
  let codes := flat_map quota_cov1 sel in
  (N.of_nat (length sel), 919%N) :: map (fun k => (count_code codes k, k)) cov_codes.
