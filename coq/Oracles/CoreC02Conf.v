(* C02, judged against the CONFIGURED maximum (not against what the queue object reports): evaluated on the
   observations of the reload engine, whose cases carry the queue trees of all configurations of the world.
   The configuration in force is configuration 0 until a reload is accepted, then the accepted one.
   kind 204: a scheduling decision (ENewAlloc in a scheduling cycle) raised the usage of the application's leaf
             queue or of an ancestor, on a type the ask requests, above the maximum the configuration in force
             gives that (managed, non-root) queue. A configured maximum without a positive quantity is "no
             maximum" (Queue.setResources ignores it), as in the code and in the documentation. *)
From Coq Require Import List ZArith NArith Bool.
From YK Require Import Base.Res Core.Obs Core.Ledger Core.Reload Core.ReloadSpec Oracles.CoreC01.
Import ListNotations.
Open Scope N_scope.

Definition conf_lookup (c : conf_tree) (id : N) : option conf_tree :=
  find (fun n => ct_id n =? id) (conf_nodes c).

Definition conf_max_defines (m : res) : bool := StrictlyGreaterThanZero (Some m).

(* usage of q after the step is above the configured maximum on type k although the step raised it *)
Definition over_confmax_at (cur : conf_tree) (pre : ostate) (q : oqueue) (k : tid) : bool :=
  if (q_parent q =? 0) || negb (q_managed q) then false else
  match conf_lookup cur (q_id q) with
  | None => false
  | Some c =>
      if negb (conf_max_defines (ct_max c)) then false else
      match get (ct_max c) k with
      | None => false
      | Some v =>
          (v <? getz (q_alloc q) k)%Z &&
          match find_queue pre (q_id q) with
          | Some q0 => (getz (q_alloc q0) k <? getz (q_alloc q) k)%Z
          | None => true
          end
      end
  end.

Definition queue_confmax_ok_after (cur : conf_tree) (pre post : ostate) (qid : N) (r : res) : bool :=
  forallb (fun q => forallb (fun kv => negb ((0 <? snd kv)%Z && over_confmax_at cur pre q (fst kv))) r) (ancestors post qid).

Definition c02conf_step (cur : conf_tree) (pre : ostate) (st : ostep) : list N :=
  if negb (is_sched (st_op st)) then [] else
  flat_map (fun e =>
    match e with
    | ENewAlloc k a nid r _ =>
        let r' := match find_ask pre a k with Some x => oa_res x | None => r end in
        if queue_confmax_ok_after cur pre (st_obs st) (app_queue pre a) r' then [] else [204]
    | _ => []
    end) (st_events st).

Definition conf_after (confs : list (option conf_tree)) (cur : option conf_tree) (st : ostep) : option conf_tree :=
  match st_op st with
  | OpReload ci => if st_err st || st_panic st then cur else
                   match nth (N.to_nat ci) confs None with Some c => Some c | None => cur end
  | _ => cur
  end.

Fixpoint c02conf_steps (confs : list (option conf_tree)) (cur : option conf_tree) (i : N) (ps : list (ostate * ostep)) : list (N * N) :=
  match ps with
  | [] => []
  | (pre, st) :: t =>
      (match cur with Some c => map (fun k => (i, k)) (c02conf_step c pre st) | None => [] end)
      ++ c02conf_steps confs (conf_after confs cur st) (i + 1) t
  end.

Definition c02conf_case (h : N) (rc : rcase) : list (N * N) :=
  c02conf_steps (rc_confs rc) (nth 0 (rc_confs rc) None) (h * 1000) (hist_pairs (rc_hist rc)).

Fixpoint c02conf_cases (h : N) (l : list rcase) : list (N * N) :=
  match l with [] => [] | rc :: t => c02conf_case h rc ++ c02conf_cases (h + 1) t end.

(* the configured-maximum clause together with the C02 oracle on the queue objects, on the same histories *)
Definition c02conf_check_all (l : list rcase) : list (N * N) :=
  c02conf_cases 0 l ++ c02_oracle_all (map rc_hist l).
