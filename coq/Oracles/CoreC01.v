(* Oracles of C01, C02, C03 on implementation observations (core engine).
   kinds: 101 node ledger, 102.. bind (100 + why), 150 known: reserved/required-node path binds on a drained node,
          108 negative available without forced change;
          201 scheduling decision above a queue maximum, 202 usage above maximum appeared without forced change;
          301 application books, 302 queue books, 303 node allocation not owned by a live application,
          304 application allocation not on its node, 305 root vs nodes, 306 leak after drain. *)
From Coq Require Import List ZArith NArith Bool.
From YK Require Import Base.Res Core.Obs Core.Ledger Core.Ledger2 Oracles.CoreModelCheck.
Import ListNotations.
Open Scope N_scope.

Definition is_sched (o : oop) : bool := match o with OpSched => true | _ => false end.

(* ---- C01 ---- *)
Definition verdict_kinds (v : bind_verdict) : list N :=
  match v with BindOk => [] | BindBad w => [100 + w] | BindKnown w => [100 + w] end.

(* bindings decided by the scheduler in a scheduling step:
   - ENewAlloc key app node: a normal / reserved / placeholder allocation
   - ERelease ph app PLACEHOLDER_REPLACED: a swap decision; when the real ask was bound on another node
     than the placeholder's it is checked like a normal binding *)
(* A reservation the same scheduling cycle gave up before it bound (wait timeout crossed in tryReservedAllocate, the
   preemptor's cancellation of an aged reservation, cancelReservations for a required-node ask) does not block the
   node: the pre-state is judged without the reservations of that node that are gone in the post-state *)
Definition drop_cancelled (evs : list oevent) (pre post : ostate) : ostate :=
  mkOS (map (fun n => match find_node post (on_id n) with
                      | Some n' => mkON (on_id n) (on_total n) (on_occupied n) (on_allocated n) (on_available n) (on_sched n)
                                        (on_allocs n) (on_foreign n)
                                        (filter (fun p => existsb (fun q => (fst q =? fst p) && (snd q =? snd p)) (on_reservations n') ||
                                                          (* the reservation of the ask this cycle binds goes with the binding *)
                                                          existsb (fun e => match e with ENewAlloc k a _ _ _ => (a =? fst p) && (k =? snd p) | _ => false end) evs)
                                                (on_reservations n))
                      | None => n end) (s_nodes pre))
       (s_apps pre) (s_queues pre) (s_total pre) (s_nallocs pre) (s_nph pre) (s_nres pre) (s_foreign pre) (s_completed pre)
       (s_rejected pre) (s_ugm pre).

Definition c01_bind_step (deny : list (N * N)) (pre0 : ostate) (st : ostep) : list N :=
  let pre := drop_cancelled (st_events st) pre0 (st_obs st) in
  if negb (is_sched (st_op st)) then [] else
  flat_map (fun e =>
    match e with
    | ENewAlloc k a nid r _ =>
        let reqnode := match find_ask pre a k with Some x => oa_reqnode x | None => 0 end in
        let r' := match find_ask pre a k with Some x => oa_res x | None => r end in
        verdict_kinds (bind_check deny pre a k nid r' reqnode)
    | ERelease phk a ttyp =>
        if ttyp =? TT_PlaceholderReplaced then
          match find_app (st_obs st) a with
          | Some ap =>
              match find_alloc (ap_allocs ap) phk with
              | Some ph =>
                  match find_alloc (ap_requests ap) (oa_release ph) with
                  | Some real =>
                      if oa_node real =? oa_node ph then []
                      else verdict_kinds (bind_check deny pre a (oa_key real) (oa_node real) (oa_res real) (oa_reqnode real))
                  | None => []
                  end
              | None => []
              end
          | None => []
          end
        else []
    | _ => []
    end) (st_events st).

Definition forced_node_change (o : oop) : bool :=
  match o with OpAlloc _ | OpNodeUpdate _ _ => true | _ => false end.

Definition c01_negative_step (pre : ostate) (st : ostep) : list N :=
  if forced_node_change (st_op st) then [] else
  if existsb (fun n => node_has_negative n &&
                       match find_node pre (on_id n) with
                       | Some n0 => negb (node_has_negative n0)
                       | None => true end) (s_nodes (st_obs st))
  then [108] else [].

Definition c01_step (deny : list (N * N)) (pre : ostate) (st : ostep) : list N :=
  (if nodes_ledger_ok (st_obs st) then []
   else if forallb (fun n => node_ledger_ok n || node_ledger_ok_known (st_obs st) n) (s_nodes (st_obs st)) then [151] else [101]) ++ c01_bind_step deny pre st ++ c01_negative_step pre st.

(* ---- C02 ---- *)
Definition app_queue (s : ostate) (a : N) : N := match find_app s a with Some ap => ap_queue ap | None => 0 end.

Definition c02_sched_step (pre : ostate) (st : ostep) : list N :=
  if negb (is_sched (st_op st)) then [] else
  flat_map (fun e =>
    match e with
    | ENewAlloc k a nid r _ =>
        let r' := match find_ask pre a k with Some x => oa_res x | None => r end in
        if queue_max_ok_after (st_obs st) (app_queue pre a) r' then [] else [201]
    | _ => []
    end) (st_events st).

(* forced changes: RM-placed or updated allocations, reloads, tag based quota on a dynamic queue; for the root
   also every node change (its maximum is the cluster size) *)
Definition forced_queue_change (root : bool) (o : oop) : bool :=
  match o with
  | OpAlloc _ | OpReload _ | OpAppAdd _ _ _ _ _ _ _ _ _ => true
  | OpNodeUpdate _ _ | OpNodeRemove _ | OpNodeAdd _ _ _ => root
  | _ => false
  end.

Definition c02_forced_step (pre : ostate) (st : ostep) : list N :=
  if existsb (fun q =>
       negb (forced_queue_change (q_parent q =? 0) (st_op st)) &&
       existsb (fun k => match find_queue pre (q_id q) with
                         | Some q0 => negb (over_max_at q0 k)
                         | None => true end) (over_max_types q)) (s_queues (st_obs st))
  then [202] else [].

(* the same on what the applications hold: kind 203 *)
Definition c02_held_step (pre : ostate) (st : ostep) : list N :=
  if existsb (fun q =>
       negb (forced_queue_change (q_parent q =? 0) (st_op st)) &&
       existsb (fun k => over_max_held_at (st_obs st) q k &&
                         match find_queue pre (q_id q) with
                         | Some q0 => negb (over_max_held_at pre q0 k)
                         | None => true end) (held_keys (st_obs st) (q_id q))) (s_queues (st_obs st))
  then [203] else [].

Definition c02_step (pre : ostate) (st : ostep) : list N := c02_sched_step pre st ++ c02_forced_step pre st ++ c02_held_step pre st.

(* ---- C03 ---- *)
Definition c03_state (s : ostate) : list N :=
  (if forallb app_books_ok (s_apps s) then [] else [301]) ++
  (if forallb (queue_books_ok s) (s_queues s) then [] else [302]) ++
  (if forallb (fun n => forallb (node_alloc_owned s) (on_allocs n)) (s_nodes s) then [] else [303]) ++
  (if forallb (fun a => forallb (app_alloc_on_node s) (ap_allocs a)) (s_apps s) then [] else [304]) ++
  (if root_matches_nodes s then [] else [305]) ++
  (if drained_ok s then [] else [306]).

(* ---- drivers ---- *)
Fixpoint steps_check (f : ostate -> ostep -> list N) (pre : ostate) (i : N) (l : list ostep) : list (N * N) :=
  match l with
  | [] => []
  | st :: t => map (fun k => (i, k)) (f pre st) ++ steps_check f (st_obs st) (i + 1) t
  end.

Definition hist_check (f : ohistory -> ostate -> ostep -> list N) (h : ohistory) : list (N * N) :=
  steps_check (f h) (h_init h) 0 (h_steps h).

(* as steps_check, but failures at or after a known-finding trigger (Core/Ledger.v known_trigger, Core/Ledger2.v known_trigger_ext) are reported
   with the known kind base + 60 + trigger number *)
Fixpoint steps_check_poison (base : N) (f : ostate -> ostep -> list N) (poison : option N) (pre : ostate) (i : N) (l : list ostep) : list (N * N) :=
  match l with
  | [] => []
  | st :: t =>
      let poison' := match poison with Some p => Some p | None => known_trigger_ext pre st end in
      let ks := f pre st in
      let ks' := match poison' with
                 | Some p => match ks with [] => [] | _ => [base + 60 + p] end
                 | None => ks end in
      map (fun k => (i, k)) ks' ++ steps_check_poison base f poison' (st_obs st) (i + 1) t
  end.
Definition hist_check_poison (base : N) (f : ohistory -> ostate -> ostep -> list N) (h : ohistory) : list (N * N) :=
  steps_check_poison base (f h) None (h_init h) 0 (h_steps h).

Fixpoint all_check (f : ohistory -> list (N * N)) (i : N) (cs : list ohistory) : list (N * N) :=
  match cs with
  | [] => []
  | h :: t => map (fun p => (i * 1000 + fst p, snd p)) (f h) ++ all_check f (i + 1) t
  end.

(* report only the first failing step of each kind per history: later ones are usually consequences *)
Fixpoint first_of_kind (seen : list N) (l : list (N * N)) : list (N * N) :=
  match l with
  | [] => []
  | (i, k) :: t => if memN k seen then first_of_kind seen t else (i, k) :: first_of_kind (k :: seen) t
  end.

Definition c01_oracle_all (cs : list ohistory) : list (N * N) :=
  all_check (fun h => first_of_kind [] (hist_check_poison 100 (fun h pre st => c01_step (h_preddeny h) pre st) h)) 0 cs.
Definition c02_oracle_all (cs : list ohistory) : list (N * N) :=
  all_check (fun h => first_of_kind [] (hist_check_poison 200 (fun _ pre st => c02_step pre st) h)) 0 cs.
Definition c03_oracle_all (cs : list ohistory) : list (N * N) :=
  all_check (fun h => first_of_kind [] (hist_check_poison 300 (fun _ _ st => c03_state (st_obs st)) h)) 0 cs.
(* oracle on the implementation's observations ++ correspondence of the operational model on the ledgers
   the property is about (191 nodes; 291 queue allocated; 391-393 pending, applications, partition) *)
Definition c01_check_all (cs : list ohistory) : list (N * N) := c01_oracle_all cs ++ only_kinds 191 191 (model_check_all cs).
Definition c02_check_all (cs : list ohistory) : list (N * N) := c02_oracle_all cs ++ only_kinds 291 291 (model_check_all cs).
Definition c03_check_all (cs : list ohistory) : list (N * N) := c03_oracle_all cs ++ only_kinds 391 393 (model_check_all cs).
Definition c123_check_all (cs : list ohistory) : list (N * N) :=
  c01_oracle_all cs ++ c02_oracle_all cs ++ c03_oracle_all cs ++ model_check_all cs.
