(* Property C10 - applications follow the documented life cycle: oracle on implementation observations
   of the core engine. The relation is Core/AppLife.documented, the one the theorems of Props/C10.v are
   stated with. Kinds (index = history*1000 + step):
     1001 state log of an application is not a chain of documented moves from New / reported state is not its last entry
     1002 UpdatedApplication stream of an application id makes an undocumented move
     1003 an application in Completed has an outstanding ask or a live real allocation (own lists or a node's list)
     1004 an application became Completed while the shim still had an outstanding ask of it
     1005 an application lost its last ask/allocation by a release and is neither Completing nor terminated
     1006 completing timer fired on an idle Completing application and it did not become Completed
     1007 a terminated application is still listed by a queue
     1008 an ask for a terminated application was not rejected
     1091 correspondence: state / ledgers of an application after a single-key release differ from the release-path
          model Core/AppEvents.release_key
     1050 = 1003 inside the window of finding C10-completed-live-alloc (DESIGN 7 #13)
     1052 = 1004 inside the same window (the outstanding ask is the real half of the swap being confirmed)
     1051 = 1004 inside the window of finding C10-completed-outstanding-swap (DESIGN 7 #17)
     1053 = 1003 where the applications' own lists are clean and every allocation a node still lists belongs to an
            application that was hit earlier in the history by accounting trigger 5 (Core/Ledger.v xnode_removal_trigger:
            a cross-node in-flight real allocation orphaned on its node by application / all-allocations / ask removal):
            the orphan outlives the application (finding C10-orphaned-inflight-real, same defect as C03 trigger 5);
            also after trigger 9 (placeholder timeout), trigger 2 (placeholder with in-flight swap released by the shim)
            and trigger 10 (release-all with type PLACEHOLDER_REPLACED)
     1054 = 1004 where every outstanding ask left behind was handed back to the scheduler (allocated -> pending, reversal
            of an in-flight swap) while the application was Completing: DeallocateAsk does not move it back to Running
            (finding C10-completing-with-returned-ask)
     1055 = 1005 for a release with an empty allocation key that empties a Resuming application which stays Resuming
            (finding C10-release-all-resuming) *)
From Coq Require Import List ZArith NArith Bool.
From YK Require Import Base.Res Core.Obs Core.AppLife Core.AppEvents Core.Ledger Core.Ledger2.
Import ListNotations.
Open Scope N_scope.

Definition live_ids (s : ostate) : list N := map ap_id (s_apps s).
Definition keys_of (l : list oalloc) : list N := map oa_key l.

(* --- 1001: state log --- *)
Definition statelog_ok (a : oapp) : bool :=
  chain_strict ST_New (ap_statelog a) && (ap_state a =? last (ap_statelog a) ST_New).
Definition statelogs_ok (s : ostate) : bool := forallb statelog_ok (s_apps s ++ s_completed s).

(* --- 1002: update stream. tracked : app id -> last state the shim was told (accepted = New, rejected = Rejected) --- *)
Fixpoint aget (m : list (N * N)) (k : N) : option N :=
  match m with [] => None | (k', v) :: t => if k' =? k then Some v else aget t k end.
Definition aset (m : list (N * N)) (k v : N) : list (N * N) := (k, v) :: filter (fun p => negb (fst p =? k)) m.

(* marker "a duplicate of this live id was rejected and has not expired yet" (kept in the same map under a shifted key) *)
Definition dup_key (a : N) : N := a + 1099511627776.
Definition stream_event (pre : ostate) (acc : list (N * N) * bool) (e : oevent) : list (N * N) * bool :=
  let '(m, ok) := acc in
  match e with
  | EAppAccepted a => (aset m a ST_New, ok)
  | EAppRejected a => if memN a (live_ids pre) then (aset m (dup_key a) 1, ok) else (aset m a ST_Rejected, ok)
  | EAppUpdated a s =>
      let cur := match aget m a with Some c => c | None => ST_New end in
      (* a duplicate submission under a live id was rejected earlier: the rejected OBJECT (same id) expires on its own
         (Rejected -> Expired is documented); that update is not a move of the accepted application *)
      if (s =? ST_Expired) && negb (documented cur s) && match aget m (dup_key a) with Some _ => true | None => false end
      then (filter (fun p => negb (fst p =? dup_key a)) m, ok)
      else (aset m a s, ok && documented cur s)
  | _ => (m, ok)
  end.
Definition stream_step (pre : ostate) (m : list (N * N)) (st : ostep) : list (N * N) * bool :=
  fold_left (stream_event pre) (st_events st) (m, true).
(* the last update of a step for a live application names the state it is in *)
Definition updates_match_state (st : ostep) : bool :=
  forallb (fun a =>
    match filter (fun e => match e with EAppUpdated x _ => x =? ap_id a | _ => false end) (st_events st) with
    | [] => true
    | l => match last l (EAppAccepted 0) with EAppUpdated _ s => s =? ap_state a | _ => true end
    end) (s_apps (st_obs st)).

(* --- 1003: Completed is clean --- *)
Definition was_completed (a : oapp) : bool := memN ST_Completed (ap_statelog a).
Definition completed_self_clean (a : oapp) : bool :=
  negb (was_completed a) ||
  (forallb (fun r => oa_allocated r) (ap_requests a) && forallb (fun x => oa_ph x) (ap_allocs a)).
(* allocations a node lists for an application that is Completed (and whose id is not live again) *)
Definition completed_node_allocs (s : ostate) : list oalloc :=
  let done := map ap_id (filter was_completed (s_completed s)) in
  flat_map (fun n => filter (fun x => memN (oa_app x) done && negb (memN (oa_app x) (live_ids s))) (on_allocs n)) (s_nodes s).
Definition completed_clean (s : ostate) : bool :=
  forallb completed_self_clean (s_apps s ++ s_completed s) &&
  match completed_node_allocs s with [] => true | _ => false end.

(* --- 1004: outstanding asks at the moment an application becomes Completed --- *)
(* an ask of the application the shim still waits for: not allocated, or allocated as the real half of a swap that
   has not been confirmed (it is in no allocation list yet) *)
Definition outstanding (a : oapp) (r : oalloc) : bool :=
  negb (oa_allocated r) ||
  (negb (oa_ph r) && negb (oa_release r =? 0) && negb (memN (oa_key r) (keys_of (ap_allocs a)))).
Definition excused (op : oop) (app : N) (r : oalloc) : bool :=
  match op with
  | OpAppRemove a => a =? app
  | OpRelease a k _ => (a =? app) && ((k =? 0) || (k =? oa_key r))
  | _ => false
  end.
Definition find_any_app (s : ostate) (id : N) : option oapp :=
  match find_app s id with Some a => Some a | None => find (fun a => ap_id a =? id) (s_completed s) end.
Fixpoint is_prefix (a b : list N) : bool :=
  match a, b with
  | [], _ => true
  | x :: t, y :: u => (x =? y) && is_prefix t u
  | _, [] => false
  end.
(* the application object a of the pre-state is Completed in the post-state (same object: its state log is extended) *)
Definition became_completed (pre post : ostate) (a : oapp) : bool :=
  negb (ap_state a =? ST_Completed) &&
  existsb (fun a' => (ap_id a' =? ap_id a) && (ap_state a' =? ST_Completed) && is_prefix (ap_statelog a) (ap_statelog a'))
          (s_apps post ++ s_completed post).
Definition left_outstanding (op : oop) (a : oapp) : list oalloc :=
  filter (fun r => outstanding a r && negb (excused op (ap_id a) r)) (ap_requests a).
Definition completed_no_outstanding (pre : ostate) (st : ostep) : bool :=
  forallb (fun a => negb (became_completed pre (st_obs st) a) ||
                    match left_outstanding (st_op st) a with [] => true | _ => false end) (s_apps pre).

(* --- 1005: losing the last ask/allocation by a release makes the application Completing (or further) --- *)
Definition app_empty (a : oapp) : bool :=
  match ap_requests a, ap_allocs a with [], [] => true | _, _ => false end.
Definition completing_or_further (s : N) : bool :=
  (s =? ST_Completing) || (s =? ST_Completed) || (s =? ST_Failing) || (s =? ST_Failed) || (s =? ST_Expired) || (s =? ST_Rejected).
Definition idle_completing (pre : ostate) (st : ostep) : bool :=
  match st_op st with
  | OpRelease app _ _ =>
      match find_app pre app, find_app (st_obs st) app with
      | Some a, Some a' => negb (negb (app_empty a) && app_empty a') || completing_or_further (ap_state a') ||
                           (* soft gang restart: the last timed-out placeholder of a Resuming application is confirmed and the
                              application is handed back to Accepted to wait for its real asks, like a freshly accepted one *)
                           ((ap_state a =? ST_Resuming) && (ap_state a' =? ST_Accepted))
      | _, _ => true
      end
  | _ => true
  end.

(* window of finding C10-release-all-resuming (kind 1055): a release with an empty allocation key empties a Resuming
   application (soft gang style, placeholder timeout passed); RemoveAllAllocations fires CompleteApplication only, and
   only when nothing is pending, while the removal of the last placeholder BY KEY fires RunApplication for a Resuming
   application: the application stays Resuming with nothing left *)
Definition window_release_all_resuming (pre : ostate) (st : ostep) : bool :=
  match st_op st with
  | OpRelease app key _ =>
      (key =? 0) &&
      match find_app pre app, find_app (st_obs st) app with
      | Some a, Some a' => (ap_state a =? ST_Resuming) && (ap_state a' =? ST_Resuming)
      | _, _ => false
      end
  | _ => false
  end.

(* --- 1006: undisturbed, a Completing application becomes Completed --- *)
Definition idle_completes (pre : ostate) (st : ostep) : bool :=
  match st_op st with
  | OpFireState app =>
      match find_app pre app with
      | Some a =>
          negb ((ap_state a =? ST_Completing) && ap_statetimer a && IsZero (Some (ap_phalloc a))) ||
          match find_any_app (st_obs st) app with Some a' => ap_state a' =? ST_Completed | None => false end
      | None => true
      end
  | _ => true
  end.

(* --- 1007: terminated applications are in no queue --- *)
Definition terminated_ids (s : ostate) : list N :=
  filter (fun id => negb (memN id (live_ids s))) (map ap_id (s_completed s)).
Definition terminated_unqueued (s : ostate) : bool :=
  forallb (fun id => forallb (fun q => negb (memN id (q_apps q))) (s_queues s)) (terminated_ids s) &&
  forallb (fun a => negb (is_terminal (ap_state a)) || forallb (fun q => negb (memN (ap_id a) (q_apps q))) (s_queues s)) (s_apps s).

(* --- 1008: a later ask for a terminated application is rejected --- *)
Definition terminated_rejects (pre : ostate) (st : ostep) : bool :=
  match st_op st with
  | OpAlloc r =>
      negb (negb (rq_foreign r) && rq_partition_ok r && memN (rq_app r) (terminated_ids pre ++ s_rejected pre) && negb (memN (rq_app r) (live_ids pre))) ||
      (existsb (fun e => match e with EAllocRejected k a => (k =? rq_key r) && (a =? rq_app r) | _ => false end) (st_events st) &&
       negb (memN (rq_app r) (live_ids (st_obs st))))
  | _ => true
  end.

(* --- 1091: release-path model against the implementation --- *)
Definition same_object (post : ostate) (a : oapp) : option oapp :=
  find (fun a' => (ap_id a' =? ap_id a) && is_prefix (ap_statelog a) (ap_statelog a')) (s_apps post ++ s_completed post).
Definition release_model_ok (pre : ostate) (st : ostep) : bool :=
  match st_op st with
  | OpRelease app key ty =>
      if (app =? 0) || (key =? 0) || st_panic st then true else
      match find_app pre app with
      | None => true
      | Some a =>
          (* the real half of the swap is reached through a pointer in the code; when it is no longer a request of the
             application (dropped by a placeholder timeout or released by the shim while in flight: findings
             C04-timeout-drops-inflight-ask / C04-released-ask-bound-by-swap) its resources are not observable and the
             step cannot be recomputed *)
          (* one-sided link: the placeholder points to a key under which the shim has submitted a NEW request after the
             linked real ask was removed (key reuse); the code follows the pointer to the old object, the observation
             only has the key: same family, not recomputed *)
          if match find_alloc (ap_allocs a) key with
             | Some p => oa_ph p && negb (oa_release p =? 0) &&
                         match find_alloc (ap_requests a) (oa_release p) with
                         | Some r => negb (oa_allocated r && (oa_release r =? key))
                         | None => false end
             | None => false end then true else
          if negb (release_modelled (rs_of a) key ty) then true else
          let r := release_key (rs_of a) key ty in
          match same_object (st_obs st) a with
          | Some a' =>
              (ap_state a' =? rs_state r) &&
              (is_terminal (ap_state a') ||
               (res_eqz (ap_pending a') (rs_pending r) && res_eqz (ap_allocated a') (rs_allocated r) && res_eqz (ap_phalloc a') (rs_phalloc r) &&
                Bool.eqb (ap_statetimer a') (rs_timer r)))
          | None => true
          end
      end
  | _ => true
  end.

(* ---- windows of the recorded findings ---- *)
(* #13: the shim confirms (PLACEHOLDER_REPLACED) a placeholder whose swap is in flight while the application is
   Completing and its completing timer has already been cleared: removeAllocationInternal takes the
   `IsCompleting && stateTimer == nil` branch to Completed before ReplaceAllocation adds the real allocation. *)
(* second way into the same branch of removeAllocationInternal (`(IsCompleting && stateTimer == nil) || ... ||
   hasZeroAllocations()`): with the completing timer still armed, hasZeroAllocations (no real usage, nothing pending:
   placeholders are not counted) lets the confirmation of the last placeholder complete the application before
   ReplaceAllocation adds the real allocation *)
Definition zero_real_and_pending (a : oapp) : bool := IsZero (Some (ap_allocated a)) && IsZero (Some (ap_pending a)).
Definition window_13 (pre : ostate) (st : ostep) : bool :=
  match st_op st with
  | OpRelease app key ty =>
      (ty =? TT_PlaceholderReplaced) &&
      match find_app pre app with
      | Some a =>
          (ap_state a =? ST_Completing) && (negb (ap_statetimer a) || zero_real_and_pending a) &&
          match find_alloc (ap_allocs a) key with
          | Some p => oa_ph p && negb (oa_release p =? 0) &&
                      forallb (fun x => oa_key x =? oa_release p) (completed_node_allocs (st_obs st))
          | None => false
          end
      | None => false
      end
  | _ => false
  end.
(* #13 seen by clause 1004: the same confirmation; the ask left outstanding is the real half of the swap being confirmed *)
Definition window_13b (pre : ostate) (st : ostep) : bool :=
  match st_op st with
  | OpRelease app key ty =>
      (ty =? TT_PlaceholderReplaced) &&
      match find_app pre app with
      | Some a =>
          (ap_state a =? ST_Completing) && (negb (ap_statetimer a) || zero_real_and_pending a) && became_completed pre (st_obs st) a &&
          forallb (fun r => oa_release r =? key) (left_outstanding (st_op st) a) &&
          forallb (fun b => (ap_id b =? app) || negb (became_completed pre (st_obs st) b) ||
                            match left_outstanding (st_op st) b with [] => true | _ => false end) (s_apps pre)
      | None => false
      end
  | _ => false
  end.
(* #17: every ask left outstanding is the real half of a swap whose placeholder is gone
   (the shim stopped the placeholder with a swap in flight; the real ask stays allocated=true and linked) *)
Definition window_17 (pre : ostate) (st : ostep) : bool :=
  forallb (fun a => negb (became_completed pre (st_obs st) a) ||
     forallb (fun r => oa_allocated r && negb (oa_ph r) && negb (oa_release r =? 0) &&
                       negb (memN (oa_release r) (keys_of (ap_allocs a)))) (left_outstanding (st_op st) a)) (s_apps pre).

(* ---- per step ---- *)
Definition flag (idx kind : N) (ok : bool) : list (N * N) := if ok then [] else [(idx, kind)].
(* a state clause is reported at the step that breaks it (pre-state fine, post-state not) *)
Definition newly (f : ostate -> bool) (pre post : ostate) : bool := negb (f pre) || f post.

(* applications hit by trigger 5 so far: the application the removing operation addresses *)
Definition orphaned_app (pre : ostate) (st : ostep) : list N :=
  if xnode_removal_trigger pre st || xnode_timeout_trigger pre st || release_all_replaced_trigger pre st ||
     match known_trigger pre st with Some 2 => true | _ => false end then
    match st_op st with OpAppRemove id => [id] | OpRelease app _ _ => [app] | OpFirePh id => [id] | _ => [] end
  else [].

(* asks handed back to the scheduler (allocated true -> false under the same key) while their application is Completing
   after the step: DeallocateAsk (reversal of an in-flight swap by node removal or by the release of its placeholder)
   raises pending again but, unlike AddAllocationAsk, does not move a Completing application back to Running *)
Definition returned_asks (pre : ostate) (st : ostep) : list (N * N) :=
  flat_map (fun a' =>
    if ap_state a' =? ST_Completing then
      match find_app pre (ap_id a') with
      | Some a =>
          flat_map (fun r' => match find_alloc (ap_requests a) (oa_key r') with
                              | Some r => if oa_allocated r && negb (oa_allocated r') then [(ap_id a', oa_key r')] else []
                              | None => [] end) (ap_requests a')
      | None => []
      end
    else []) (s_apps (st_obs st)).
(* the in-flight real ask whose placeholder sits on the node this very step removes: handed back inside the step *)
Definition returned_by_this_step (op : oop) (a : oapp) (r : oalloc) : bool :=
  match op with
  | OpNodeRemove n =>
      oa_allocated r && negb (oa_release r =? 0) &&
      match find_alloc (ap_allocs a) (oa_release r) with Some ph => oa_node ph =? n | None => false end
  | _ => false
  end.
Definition window_returned (ret : list (N * N)) (pre : ostate) (st : ostep) : bool :=
  forallb (fun a => negb (became_completed pre (st_obs st) a) ||
                    forallb (fun r => existsb (fun p => (fst p =? ap_id a) && (snd p =? oa_key r)) ret ||
                                      returned_by_this_step (st_op st) a r)
                            (left_outstanding (st_op st) a)) (s_apps pre).
Definition window_orphan (orph : list N) (post : ostate) : bool :=
  forallb completed_self_clean (s_apps post ++ s_completed post) &&
  forallb (fun x => memN (oa_app x) orph) (completed_node_allocs post).

Definition c10_step (idx : N) (pre : ostate) (m : list (N * N)) (orph : list N) (ret : list (N * N)) (pois : bool) (st : ostep) : list (N * N) * list (N * N) :=
  let post := st_obs st in
  let '(m', sok) := stream_step pre m st in
  (m',
   flag idx 1001 (newly statelogs_ok pre post) ++
   flag idx 1002 (sok && updates_match_state st) ++
   (if newly completed_clean pre post then []
    else [(idx, if window_13 pre st then 1050 else if window_orphan orph post then 1053 else 1003)]) ++
   (if completed_no_outstanding pre st then []
    else [(idx, if window_13b pre st then 1052 else if window_17 pre st then 1051
                else if window_returned ret pre st then 1054 else 1004)]) ++
   (if idle_completing pre st then [] else [(idx, if window_release_all_resuming pre st then 1055 else 1005)]) ++
   flag idx 1006 (idle_completes pre st) ++
   flag idx 1007 (newly terminated_unqueued pre post) ++
   flag idx 1008 (terminated_rejects pre st) ++
   (* the release-path model does not describe states corrupted by a recorded accounting defect: after a trigger
      (Core/Ledger.v known_trigger, Core/Ledger2.v) the correspondence is not judged in that history *)
   (if pois then [] else flag idx 1091 (release_model_ok pre st))).

Fixpoint c10_steps (base : N) (i : N) (pre : ostate) (m : list (N * N)) (orph : list N) (ret : list (N * N)) (pois : bool) (l : list ostep) : list (N * N) :=
  match l with
  | [] => []
  | st :: t =>
      let orph' := orphaned_app pre st ++ orph in
      let ret' := returned_asks pre st ++ ret in
      let pois' := pois || match known_trigger_ext pre st with Some _ => true | None => false end in
      let '(m', out) := c10_step (base + i) pre m orph' ret' pois' st in out ++ c10_steps base (i + 1) (st_obs st) m' orph' ret' pois' t
  end.

Definition c10_history (hi : N) (h : ohistory) : list (N * N) :=
  flag (hi * 1000) 1001 (statelogs_ok (h_init h)) ++ c10_steps (hi * 1000) 0 (h_init h) [] [] [] false (h_steps h).

Fixpoint c10_all (hi : N) (cs : list ohistory) : list (N * N) :=
  match cs with [] => [] | h :: t => c10_history hi h ++ c10_all (hi + 1) t end.

Definition c10_check_all (cs : list ohistory) : list (N * N) := c10_all 0 cs.
