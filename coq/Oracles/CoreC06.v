(* C06 oracle on implementation observations (core engine).  kinds:
   601 swap announced without a proper double link placeholder <-> real ask (or outside a scheduling step)
   602 swap links a real ask and a placeholder of different task groups
   603 swap although the real ask is larger than the placeholder
   604 after the shim confirmed a swap the placeholder is still listed, or the real allocation is not in place
   605 after the confirmation node / queue / user usage is not (before - placeholder + real)
   606 after the confirmation node / queue / user usage is larger than before
   607 in-flight link real <-> placeholder is dangling
   608 replaced > count for a task group
   609 hard gang style: state path after the placeholder timeout is not Failing ... Failed
   610 soft gang style: state path after the placeholder timeout is not Resuming -> Accepted
   611 placeholder timeout did not announce / mark released an allocated, not yet released placeholder
   612 placeholder timeout did not announce / remove a pending placeholder ask
   613 placeholder allocation on a node whose application is not live
   614 timer firing panicked
   650 known (C06-swap-released-otherwise): dangling real ask after its in-flight placeholder was released by the shim with another termination type
   651 known (C06-confirm-after-completing): swap confirmed while the application is Failing, or Completing after the completing
       timeout cleaned up: removing the last placeholder terminates the application before the real allocation is added
   652 known (C06-swap-real-removed): placeholder keeps the link to a real ask the shim removed while the swap was in flight
   653 known (C06-inflight-resized): resources of the real ask raised above the placeholder while the swap was in flight; usage grows at the confirmation
   690 placeholder counters do not change the way the model's writers change them
   691 timer firing / release / swap decision: the observed post-state or announcements differ from what the
       component model Core/Gang.v computes from the observed pre-state *)
From Coq Require Import List ZArith NArith Bool.
From YK Require Import Base.Res Core.Obs Core.GangPred Core.MaxApps Core.Gang Core.Ledger2.
Import ListNotations.
Open Scope N_scope.

Definition is_sched (o : oop) : bool := match o with OpSched => true | _ => false end.

Definition has_release_event (evs : list oevent) (k a ty : N) : bool :=
  existsb (fun e => match e with ERelease k' a' t' => (k' =? k) && (a' =? a) && (t' =? ty) | _ => false end) evs.
Definition has_newalloc_event (evs : list oevent) (k a n : N) : bool :=
  existsb (fun e => match e with ENewAlloc k' a' n' _ _ => (k' =? k) && (a' =? a) && (n' =? n) | _ => false end) evs.

(* ---- swap decisions ---- *)
Definition swap_check (post : ostate) (a phk : N) : list N :=
  match find_app post a with
  | None => [601]
  | Some ap =>
      match find_alloc (ap_allocs ap) phk with
      | None => [601]
      | Some ph =>
          match find_alloc (ap_requests ap) (oa_release ph) with
          | None => [601]
          | Some real =>
              (if oa_ph ph && oa_released ph && negb (oa_ph real) && oa_allocated real &&
                  (oa_release real =? phk) && negb (oa_release ph =? 0) && (oa_app ph =? a) && (oa_app real =? a)
               then [] else [601]) ++
              (if (oa_tg real =? oa_tg ph) && negb (oa_tg ph =? 0) then [] else [602]) ++
              (if res_le (oa_res real) (oa_res ph) then [] else [603])
          end
      end
  end.

Definition c06_swap_step (st : ostep) : list N :=
  flat_map (fun e =>
    match e with
    | ERelease phk a ty =>
        if ty =? TT_PlaceholderReplaced then
          if is_sched (st_op st) then swap_check (st_obs st) a phk else [601]
        else []
    | _ => []
    end) (st_events st).

(* ---- confirmation ---- *)
Definition fz (r : res) : tid -> Z := getz r.
Definition node_alloc (s : ostate) (n : N) : res := match find_node s n with Some x => on_allocated x | None => [] end.
Definition node_lists (s : ostate) (n k : N) : bool :=
  match find_node s n with Some x => existsb (fun al => oa_key al =? k) (on_allocs x) | None => false end.
Fixpoint chain_fuel (fuel : nat) (s : ostate) (q : N) : list N :=
  match fuel with
  | O => []
  | S f => if q =? 0 then [] else
           match find_queue s q with None => [] | Some x => q :: chain_fuel f s (q_parent x) end
  end.
Definition q_chain (s : ostate) (leaf : N) : list N := chain_fuel (S (length (s_queues s))) s leaf.
Definition queue_alloc (s : ostate) (q : N) : res := match find_queue s q with Some x => q_alloc x | None => [] end.
Definition user_usage (s : ostate) (u q : N) : res :=
  match find (fun x => (u_who x =? u) && negb (u_group x) && (u_path x =? q)) (s_ugm s) with
  | Some x => u_usage x | None => [] end.

(* expected = before - placeholder + real on the types that occur *)
Definition delta_ok (before after ph real : res) : bool :=
  eq_on (keys before ++ keys after ++ keys ph ++ keys real)
        (fz after) (fun k => (fz before k - fz ph k + fz real k)%Z).
Definition not_more (before after : res) : bool := le_on (keys before ++ keys after) (fz after) (fz before).

Definition confirm_check (pre : ostate) (st : ostep) (a phk : N) : list N :=
  let post := st_obs st in
  match find_app pre a with
  | None => []
  | Some ap0 =>
      match find_alloc (ap_allocs ap0) phk with
      | None => []
      | Some ph =>
          if negb (oa_ph ph) || (oa_release ph =? 0) then [] else
          match find_alloc (ap_requests ap0) (oa_release ph) with
          | None => []          (* dangling link: kind 607 *)
          | Some real =>
              if negb (oa_release real =? phk) then [] else
              let rk := oa_key real in
              let gone := negb (node_lists post (oa_node ph) phk) &&
                          match find_app post a with
                          | Some ap => negb (existsb (fun al => oa_key al =? phk) (ap_allocs ap))
                          | None => true end in
              let placed := match find_app post a with
                            | Some ap => match find_alloc (ap_allocs ap) rk with
                                         | Some r => (oa_release r =? 0) && oa_allocated r
                                         | None => false end
                            | None => false end
                            && node_lists post (oa_node real) rk
                            && has_newalloc_event (st_events st) rk a (oa_node real) in
              let chain := q_chain pre (ap_queue ap0) in
              let eqs :=
                forallb (fun q => delta_ok (queue_alloc pre q) (queue_alloc post q) (oa_res ph) (oa_res real)) chain &&
                forallb (fun q => delta_ok (user_usage pre (ap_user ap0) q) (user_usage post (ap_user ap0) q) (oa_res ph) (oa_res real)) chain &&
                (if oa_node real =? oa_node ph
                 then delta_ok (node_alloc pre (oa_node ph)) (node_alloc post (oa_node ph)) (oa_res ph) (oa_res real)
                 else delta_ok (node_alloc pre (oa_node ph)) (node_alloc post (oa_node ph)) (oa_res ph) [] &&
                      delta_ok (node_alloc pre (oa_node real)) (node_alloc post (oa_node real)) [] []) in
              let les :=
                forallb (fun q => not_more (queue_alloc pre q) (queue_alloc post q)) chain &&
                forallb (fun q => not_more (user_usage pre (ap_user ap0) q) (user_usage post (ap_user ap0) q)) chain &&
                not_more (node_alloc pre (oa_node ph)) (node_alloc post (oa_node ph)) &&
                not_more (node_alloc pre (oa_node real)) (node_alloc post (oa_node real)) in
              let raw := (if gone && placed then [] else [604]) ++ (if eqs then [] else [605]) ++ (if les then [] else [606]) in
              match raw with
              | [] => []
              | _ => if ((ap_state ap0 =? ST_Completing) && negb (ap_statetimer ap0)) || (ap_state ap0 =? ST_Failing) then [651]
                     else if negb (res_le (oa_res real) (oa_res ph)) then [653]
                     else raw
              end
          end
      end
  end.

Definition c06_confirm_step (pre : ostate) (st : ostep) : list N :=
  match st_op st with
  | OpRelease a k ty => if (ty =? TT_PlaceholderReplaced) && negb st.(st_malformed) then confirm_check pre st a k else []
  | _ => []
  end.

(* ---- state invariants ---- *)
Definition links_ok_app (ap : oapp) : bool :=
  forallb (fun ph => (oa_release ph =? 0) || negb (oa_ph ph) ||
                     match find_alloc (ap_requests ap) (oa_release ph) with
                     | Some r => oa_release r =? oa_key ph | None => false end) (ap_allocs ap) &&
  forallb (fun r => (oa_release r =? 0) || oa_ph r ||
                    match find_alloc (ap_allocs ap) (oa_release r) with
                    | Some ph => oa_release ph =? oa_key r | None => false end) (ap_requests ap).
(* the real asks whose link is dangling *)
Definition dangling (ap : oapp) : list (N * N) :=
  flat_map (fun r => if (oa_release r =? 0) || oa_ph r then [] else
                     match find_alloc (ap_allocs ap) (oa_release r) with
                     | Some ph => if oa_release ph =? oa_key r then [] else [(ap_id ap, oa_key r)]
                     | None => [(ap_id ap, oa_key r)] end) (ap_requests ap) ++
  flat_map (fun ph => if (oa_release ph =? 0) || negb (oa_ph ph) then [] else
                      match find_alloc (ap_requests ap) (oa_release ph) with
                      | Some r => if oa_release r =? oa_key ph then [] else [(ap_id ap, oa_key ph)]
                      | None => [(ap_id ap, oa_key ph)] end) (ap_allocs ap).

Definition ph_live (s : ostate) : bool :=
  forallb (fun n => forallb (fun al => negb (oa_ph al) || match find_app s (oa_app al) with Some _ => true | None => false end)
                            (on_allocs n)) (s_nodes s).

(* poisoned (application, allocation key) pairs with the kind of the known finding that explains them *)
Definition poison_kind (p : N * N) (l : list (N * N * N)) : N :=
  match find (fun q => (fst p =? fst (fst q)) && (snd p =? snd (fst q))) l with Some q => snd q | None => 0 end.

Definition c06_state (poison : list (N * N * N)) (s : ostate) : list N :=
  let dang := flat_map dangling (s_apps s) in
  let kinds := map (fun p => poison_kind p poison) dang in
  (if existsb (N.eqb 0) kinds then [607] else nodup N.eq_dec kinds) ++
  (if forallb (fun ap => replaced_le_count (ap_phdata ap)) (s_apps s ++ s_completed s) then [] else [608]) ++
  (if ph_live s then [] else [613]).

(* ---- placeholder timeout ---- *)
Definition newlog (ap0 ap : oapp) : list N := skipn (length (ap_statelog ap0)) (ap_statelog ap).
Definition find_anyapp (s : ostate) (a : N) : option oapp :=
  match find_app s a with Some x => Some x | None => find (fun x => ap_id x =? a) (s_completed s) end.

Definition timeout_check (hard : bool) (pre : ostate) (st : ostep) (a : N) : list N :=
  match find_app pre a with
  | None => []
  | Some ap0 =>
      if negb (ap_phtimer ap0) then [] else
      let post := st_obs st in
      let evs := st_events st in
      let phs := filter (fun al => oa_ph al && negb (oa_released al) && negb (oa_preempted al)) (ap_allocs ap0) in
      let announced_allocs :=
        forallb (fun al => has_release_event evs (oa_key al) a TT_Timeout &&
                           match find_anyapp post a with
                           | Some ap => match find_alloc (ap_allocs ap) (oa_key al) with Some x => oa_released x | None => true end
                           | None => true end) phs in
      if ((ap_state ap0 =? ST_Running) || (ap_state ap0 =? ST_Completing)) && negb (IsZero (Some (ap_phalloc ap0))) then
        (* case 1: the application keeps going, the remaining placeholders are released *)
        (if announced_allocs then [] else [611]) ++
        (match find_anyapp post a with
         | Some ap => if (ap_state ap =? ap_state ap0) && negb (ap_phtimer ap) then [] else [if hard then 609 else 610]
         | None => [if hard then 609 else 610] end)
      else if negb ((ap_state ap0 =? ST_New) || (ap_state ap0 =? ST_Accepted)) || negb (IsZero (Some (ap_allocated ap0))) then []
      else
        (* case 2, before any real allocation *)
        let pend := filter (fun r => oa_ph r && negb (oa_allocated r)) (ap_requests ap0) in
        let announced_asks :=
          forallb (fun r => has_release_event evs (oa_key r) a TT_Timeout &&
                            match find_anyapp post a with
                            | Some ap => negb (existsb (fun x => oa_key x =? oa_key r) (ap_requests ap))
                            | None => true end) pend in
        let want := if hard then ST_Failing else ST_Resuming in
        (match find_anyapp post a with
         | Some ap => if (match newlog ap0 ap with x :: _ => x =? want | [] => false end) && negb (ap_phtimer ap) then []
                      else [if hard then 609 else 610]
         | None => [if hard then 609 else 610] end) ++
        (if announced_allocs then [] else [611]) ++ (if announced_asks then [] else [612])
  end.

(* Failing ... Failed / Resuming -> Accepted once the last placeholder is gone *)
Definition path_check (pre : ostate) (st : ostep) : list N :=
  match st_op st with
  | OpAppRemove _ => []
  | _ =>
    flat_map (fun ap0 =>
      if negb (IsZero (Some (ap_phalloc ap0))) && ((ap_state ap0 =? ST_Failing) || (ap_state ap0 =? ST_Resuming)) then
        match find_anyapp (st_obs st) (ap_id ap0) with
        | None => [if ap_state ap0 =? ST_Failing then 609 else 610]
        | Some ap =>
            if IsZero (Some (ap_phalloc ap)) then
              if ap_state ap0 =? ST_Failing
              then (if memN ST_Failed (newlog ap0 ap) then [] else [609])
              else (if memN ST_Accepted (newlog ap0 ap) then [] else [610])
            else []
        end
      else []) (s_apps pre)
  end.

Definition c06_timer_step (hards : list (N * bool)) (pre : ostate) (st : ostep) : list N :=
  match st_op st with
  | OpFirePh a =>
      (if st_panic st then [614] else []) ++
      timeout_check (match find (fun p => fst p =? a) hards with Some p => snd p | None => false end) pre st a
  | OpFireState _ => if st_panic st then [614] else []
  | _ => []
  end.

(* ---- known-finding windows ---- *)
(* 650: a placeholder with an in-flight swap released by the shim with another termination type: the real ask
   keeps a link to a placeholder that is gone.
   652: the real ask of an in-flight swap removed by the shim: the placeholder keeps a link to an ask that is gone *)
Definition inflight_reals (ap : oapp) (kind : N) : list (N * N * N) :=
  flat_map (fun r => if negb (oa_ph r) && negb (oa_release r =? 0) then [(ap_id ap, oa_release r, kind); (ap_id ap, oa_key r, kind)] else []) (ap_requests ap).
Definition inflight_phs (ap : oapp) (kind : N) : list (N * N * N) :=
  flat_map (fun ph => if oa_ph ph && negb (oa_release ph =? 0) then [(ap_id ap, oa_release ph, kind); (ap_id ap, oa_key ph, kind)] else []) (ap_allocs ap).

(* finding C06-cancelled-placeholder-swapped (654): in ONE scheduling cycle a placeholder is cancelled (TIMEOUT
   announced, because a pending real ask of its task group is larger) and then used for the replacement on another node
   (PLACEHOLDER_REPLACED announced): tryPlaceholderAllocate remembers the first fitting pair (phFit, reqFit) for its
   second loop and does not look at the released flag again after a later request of the first loop cancelled phFit *)
Definition both_announced (a : N) (evs : list oevent) : list N :=
  flat_map (fun e => match e with
                     | ERelease k a' ty =>
                         if (a' =? a) && (ty =? TT_PlaceholderReplaced) &&
                            existsb (fun e2 => match e2 with ERelease k2 a2 ty2 => (k2 =? k) && (a2 =? a) && (ty2 =? TT_Timeout) | _ => false end) evs
                         then [k] else []
                     | _ => [] end) evs.

Definition new_poison (pre : ostate) (st : ostep) : list (N * N * N) :=
  (match st_op st with
   | OpSched =>
       flat_map (fun ap => flat_map (fun k =>
                   (ap_id ap, k, 654) ::
                   match find_alloc (ap_allocs (match find_app (st_obs st) (ap_id ap) with Some x => x | None => ap end)) k with
                   | Some ph => [(ap_id ap, oa_release ph, 654)]
                   | None => [] end) (both_announced (ap_id ap) (st_events st))) (s_apps pre)
   | _ => []
   end) ++
  match st_op st with
  | OpRelease a k ty =>
      match find_app pre a with
      | Some ap =>
          if k =? 0 then
            (* all allocations removed; with TIMEOUT the asks stay *)
            (if ty =? TT_Timeout then inflight_phs ap 650 else [])
          else
          (if ty =? TT_PlaceholderReplaced then [] else
           match find_alloc (ap_allocs ap) k with
           | Some ph => if oa_ph ph && negb (oa_release ph =? 0) then [(a, oa_release ph, 650); (a, k, 650)] else []
           | None => []
           end) ++
          (match find_alloc (ap_allocs ap) k with
           | Some _ => []
           | None =>
               match find_alloc (ap_requests ap) k with
               | Some r => if negb (oa_ph r) && negb (oa_release r =? 0) then [(a, oa_release r, 652); (a, k, 652)] else []
               | None => []
               end
           end)
      | None => []
      end
  | OpFirePh a =>
      (* timeout case 2 removes every ask, the real asks of in-flight swaps included *)
      match find_app pre a with
      | Some ap => if ap_phtimer ap then inflight_reals ap 652 else []
      | None => []
      end
  | _ => []
  end.

(* ---- correspondence of the counters: count grows by the placeholder asks added, replaced by the
   placeholders removed by a confirmed replacement; nothing else changes them ---- *)
Definition pd_find (d : phdata) (tg : N) : Z * (Z * Z) :=
  match find (fun e => fst e =? tg) d with Some e => snd e | None => (0, (0, 0))%Z end.
Definition count_if {A} (p : A -> bool) (l : list A) : Z := Z.of_nat (length (filter p l)).

(* a removed placeholder counts as replaced when the shim confirmed a replacement, or when its node was
   removed while its swap to another node was in flight (removeNodeAllocations confirms that swap) *)
Definition counted_replaced (st : ostep) (ap0 : oapp) (ph : oalloc) : bool :=
  match st_op st with
  | OpRelease _ k ty => (ty =? TT_PlaceholderReplaced) && negb (k =? 0)
  | OpNodeRemove _ =>
      negb (oa_release ph =? 0) &&
      match find_alloc (ap_requests ap0) (oa_release ph) with
      | Some r => negb (oa_node r =? oa_node ph)
      | None => false end
  | _ => false
  end.

Definition counters_step (pre : ostate) (st : ostep) : list N :=
  flat_map (fun ap =>
    match find_app pre (ap_id ap) with
    | None => []
    | Some ap0 =>
        let tgs := map fst (ap_phdata ap) ++ map fst (ap_phdata ap0) in
        let case2 := match st_op st with
                     | OpFirePh a => (a =? ap_id ap0) && ap_phtimer ap0 &&
                                     negb (((ap_state ap0 =? ST_Running) || (ap_state ap0 =? ST_Completing)) &&
                                           negb (IsZero (Some (ap_phalloc ap0))))
                     | _ => false end in
        let ok := forallb (fun tg =>
          let '(c0, (r0, t0)) := pd_find (ap_phdata ap0) tg in
          let '(c1, (r1, t1)) := pd_find (ap_phdata ap) tg in
          let added := count_if (fun r => oa_ph r && (oa_tg r =? tg) &&
                                          negb (existsb (fun x => oa_key x =? oa_key r) (ap_requests ap0))) (ap_requests ap) in
          let removed := filter (fun al => oa_ph al && (oa_tg al =? tg) &&
                                           negb (existsb (fun x => oa_key x =? oa_key al) (ap_allocs ap))) (ap_allocs ap0) in
          let repl := count_if (counted_replaced st ap0) removed in
          let pending := if case2 then count_if (fun r => negb (oa_allocated r) && (oa_tg r =? tg) && negb (oa_preempted r))
                                                (ap_requests ap0) else 0%Z in
          (c1 =? c0 + added)%Z && (r1 =? r0 + repl)%Z &&
          (t1 =? t0 + (Z.of_nat (length removed) - repl) + pending)%Z) tgs in
        if ok then [] else [690]
    end) (s_apps (st_obs st)).

(* ---- correspondence with the component model Core/Gang.v ---- *)
Definition proj_obj (inreq inalloc : bool) (o : oalloc) : gal :=
  mkG (oa_key o) (oa_tg o) (oa_res o) (oa_node o) (oa_ph o) (oa_allocated o) (oa_released o) (oa_preempted o)
      (oa_release o) inreq inalloc.
Definition has_key (l : list oalloc) (k : N) : bool := existsb (fun x => oa_key x =? k) l.
Definition proj06 (s : ostate) (ap : oapp) (hard : bool) : gst :=
  mkGS (ap_state ap) hard (ap_phdata ap)
       (map (fun o => proj_obj true (has_key (ap_allocs ap) (oa_key o)) o) (ap_requests ap) ++
        map (proj_obj false true) (filter (fun o => negb (has_key (ap_requests ap) (oa_key o))) (ap_allocs ap)))
       (ap_phtimer ap) (ap_statetimer ap)
       (flat_map (fun n => map (fun al => (on_id n, oa_key al)) (filter (fun al => oa_app al =? ap_id ap) (on_allocs n))) (s_nodes s))
       (fz (queue_alloc s (ap_queue ap))) (fz (user_usage s (ap_user ap) (ap_queue ap))) (fun n => fz (node_alloc s n)).

Definition live_obj (o : gal) : bool := g_req o || g_alloc o.
Definition obj_same (a b : gal) : bool :=
  (g_key a =? g_key b) && Bool.eqb (g_alloc a) (g_alloc b) && Bool.eqb (g_req a) (g_req b) &&
  Bool.eqb (g_allocated a) (g_allocated b) && Bool.eqb (g_released a) (g_released b) && (g_link a =? g_link b) &&
  (negb (g_alloc a) || (g_node a =? g_node b)).
Definition objs_sub (a b : list gal) : bool :=
  forallb (fun o => negb (live_obj o) || existsb (obj_same o) b) a.
Definition pd_sub (a b : phdata) : bool :=
  forallb (fun e => existsb (fun f => (fst e =? fst f) && (pd_count e =? pd_count f)%Z && (pd_replaced e =? pd_replaced f)%Z &&
                                      (pd_timedout e =? pd_timedout f)%Z) b) a.
Definition pairs_sub (a b : list (N * N)) : bool := forallb (fun p => existsb (fun q => (fst p =? fst q) && (snd p =? snd q)) b) a.
Definition types3 : list tid := [1; 2; 3].
Definition gst_same (live ledgers : bool) (nodes : list N) (M V : gst) : bool :=
  (gs_state M =? gs_state V) && Bool.eqb (gs_phtimer M) (gs_phtimer V) && Bool.eqb (gs_statetimer M) (gs_statetimer V) &&
  pd_sub (gs_pd M) (gs_pd V) && pd_sub (gs_pd V) (gs_pd M) &&
  objs_sub (gs_objs M) (gs_objs V) && objs_sub (gs_objs V) (gs_objs M) &&
  pairs_sub (gs_nodes M) (gs_nodes V) && pairs_sub (gs_nodes V) (gs_nodes M) &&
  (negb ledgers ||
   ((negb live || eq_on types3 (gs_queue M) (gs_queue V)) && eq_on types3 (gs_user M) (gs_user V) &&
    forallb (fun n => eq_on types3 (gs_nodeuse M n) (gs_nodeuse V n)) nodes)).

(* announcements of the step that concern the application *)
(* releases announced by the preemptor (PREEMPTED_BY_SCHEDULER) are outside the gang model *)
Definition obs_rel (a : N) (evs : list oevent) : list (N * N) :=
  flat_map (fun e => match e with ERelease k a' ty => if (a' =? a) && negb (ty =? TT_Preempted) then [(k, ty)] else [] | _ => [] end) evs.
Definition obs_new (a : N) (evs : list oevent) : list (N * N) :=
  flat_map (fun e => match e with ENewAlloc k a' n _ _ => if a' =? a then [(k, n)] else [] | _ => [] end) evs.
Definition mod_rel (evs : list gout) : list (N * N) := flat_map (fun e => match e with GRel k ty => [(k, ty)] | _ => [] end) evs.
Definition mod_new (evs : list gout) : list (N * N) := flat_map (fun e => match e with GNew k n => [(k, n)] | _ => [] end) evs.

Definition model_ops (pre : ostate) (st : ostep) (a : N) : option (list gop) :=
  match find_app pre a with
  | None => None
  | Some ap0 =>
      match st_op st with
      | OpFirePh a' => if (a' =? a) && ap_phtimer ap0 then Some [GTimeout] else None
      | OpFireState a' => if (a' =? a) && ap_statetimer ap0 && (ap_state ap0 =? ST_Completing) then Some [GStateTimeout] else None
      | OpRelease a' k ty => if (a' =? a) && negb (k =? 0) && negb (st_malformed st) then Some [GRelease k ty] else None
      | OpSched =>
          (* placeholders cancelled because a pending real ask of their task group is larger (validated: such an
             ask must exist), then at most one swap decision *)
          let cancels := flat_map (fun e => match e with
                                   | ERelease phk a' ty => if (a' =? a) && (ty =? TT_Timeout) then [phk] else []
                                   | _ => [] end) (st_events st) in
          let cancel_ops := map (fun phk =>
             match find_alloc (ap_allocs ap0) phk with
             | Some ph =>
                 match find (fun r => negb (oa_ph r) && negb (oa_allocated r) && (oa_tg r =? oa_tg ph) && negb (oa_tg r =? 0) &&
                                      negb (swap_size_ok (oa_res ph) (oa_res r))) (ap_requests ap0) with
                 | Some r => GCancelLarger (oa_key r) phk
                 | None => GCancelLarger 0 phk
                 end
             | None => GCancelLarger 0 phk
             end) cancels in
          let swaps := flat_map (fun e => match e with
                                   | ERelease phk a' ty => if (a' =? a) && (ty =? TT_PlaceholderReplaced) then [phk] else []
                                   | _ => [] end) (st_events st) in
          (* a normal allocation (placeholder or real ask) of this application *)
          let alloc_ops := flat_map (fun e => match e with
                                   | ENewAlloc k a' n _ ph =>
                                       if a' =? a then
                                         (* full: the allocated placeholders now equal the placeholder ask of the
                                            application, visible as a state change caused by runApplication *)
                                         [GAllocate k n (ph && match find_anyapp (st_obs st) a with
                                                               | Some ap => negb (ap_state ap =? ap_state ap0) | None => false end)]
                                       else []
                                   | _ => [] end) (st_events st) in
          let swap_ops := flat_map (fun phk =>
              match find_anyapp (st_obs st) a with
              | Some ap => match find_alloc (ap_allocs ap) phk with
                           | Some ph => match find_alloc (ap_requests ap) (oa_release ph) with
                                        | Some r => [GSwap (oa_key r) phk (if oa_node r =? oa_node ph then None else Some (oa_node r))]
                                        | None => [GSwap 0 phk None] end
                           | None => [GSwap 0 phk None] end
              | None => [GSwap 0 phk None] end) swaps in
          match cancel_ops ++ swap_ops ++ alloc_ops with [] => None | l => Some l end
      | _ => None
      end
  end.

Fixpoint grun_ev (s : gst) (ops : list gop) : option (gst * list gout) :=
  match ops with
  | [] => Some (s, [])
  | o :: t => match gstep s o with
              | GOk s1 ev => match grun_ev s1 t with Some (s2, l) => Some (s2, ev ++ l) | None => None end
              | _ => None end
  end.

(* a mismatch inside the window of a recorded finding is reported under that finding *)
Definition model_known (poison : list (N * N * N)) (pre : ostate) (st : ostep) (ap0 : oapp) : N :=
  match st_op st with
  | OpRelease a k ty =>
      let linked := match find_alloc (ap_allocs ap0 ++ ap_requests ap0) k with Some o => oa_release o | None => 0 end in
      let pk := poison_kind (a, k) poison in
      let pl := poison_kind (a, linked) poison in
      if negb (pk =? 0) then pk else if negb (pl =? 0) then pl
      else if (ty =? TT_PlaceholderReplaced) && (((ap_state ap0 =? ST_Completing) && negb (ap_statetimer ap0)) || (ap_state ap0 =? ST_Failing)) then 651
      else if (ty =? TT_PlaceholderReplaced) &&
              match find_alloc (ap_allocs ap0) k, find_alloc (ap_requests ap0) linked with
              | Some ph, Some r => negb (res_le (oa_res r) (oa_res ph))
              | _, _ => false end then 653
      else 0
  | OpSched => match both_announced (ap_id ap0) (st_events st) with [] => 0 | _ => 654 end
  | _ => 0
  end.

Definition c06_model_step (hards : list (N * bool)) (poison : list (N * N * N)) (pre : ostate) (st : ostep) : list N :=
  flat_map (fun ap0 =>
    let bad := let k := model_known poison pre st ap0 in if k =? 0 then [691] else [k] in
    let a := ap_id ap0 in
    match model_ops pre st a with
    | None => []
    | Some ops =>
        let hard := match find (fun p => fst p =? a) hards with Some p => snd p | None => false end in
        match grun_ev (proj06 pre ap0 hard) ops with
        | None => bad
        | Some (M, evs) =>
            match find_anyapp (st_obs st) a with
            | None => []        (* the application left the partition in this step *)
            | Some ap =>
                let V := proj06 (st_obs st) ap hard in
                (* the ledgers are shared with other applications: in a scheduling cycle they are compared only when the
                   cycle's single result is this application's swap decision *)
                let ledgers := negb (is_sched (st_op st)) || existsb (fun o => match o with GSwap _ _ _ | GAllocate _ _ _ => true | _ => false end) ops in
                if gst_same (match find_app (st_obs st) a with Some _ => true | None => false end) ledgers
                            (map on_id (s_nodes (st_obs st))) M V &&
                   pairs_sub (mod_rel evs) (obs_rel a (st_events st)) && pairs_sub (obs_rel a (st_events st)) (mod_rel evs) &&
                   pairs_sub (mod_new evs) (obs_new a (st_events st)) && pairs_sub (obs_new a (st_events st)) (mod_new evs)
                then [] else bad
            end
        end
    end) (s_apps pre).

Fixpoint indexed {A} (i : N) (l : list A) : list (N * A) :=
  match l with [] => [] | a :: t => (i, a) :: indexed (i + 1) t end.

Definition hard_of (st : ostep) : list (N * bool) :=
  match st_op st with OpAppAdd id _ _ _ _ _ hard _ _ => [(id, hard)] | _ => [] end.

(* one key held twice by an application (unallocated request + entry of the allocation list): the state of finding
   C04-update-after-timeout-duplicates-key (a key still bound as a timed-out placeholder re-submitted as a new ask); the
   component model identifies asks by key and does not describe it *)
Definition dup_key_state (s : ostate) : bool :=
  existsb (fun a => existsb (fun r => negb (oa_allocated r) && memN (oa_key r) (map oa_key (ap_allocs a))) (ap_requests a)) (s_apps s).

(* [acct]: an accounting trigger (Core/Ledger.v known_trigger, Core/Ledger2.v) has happened in this history: the ledgers
   the component model recomputes are corrupted by a recorded defect, its correspondence (691) is not judged any more *)
Fixpoint c06_steps (i : N) (hards : list (N * bool)) (poison : list (N * N * N)) (acct : bool) (l : list (ostate * ostep)) : list (N * N) :=
  match l with
  | [] => []
  | (pre, st) :: t =>
      let hards' := hard_of st ++ hards in
      let poison' := new_poison pre st ++ poison in
      let acct' := acct || match known_trigger_ext pre st with Some _ => true | None => false end ||
                   dup_key_state pre || dup_key_state (st_obs st) in
      map (fun k => (i, k))
          (c06_swap_step st ++ c06_confirm_step pre st ++ c06_state poison' (st_obs st) ++
           c06_timer_step hards' pre st ++ path_check pre st ++ counters_step pre st ++
           (if acct' then filter (fun k => negb (k =? 691)) (c06_model_step hards' poison' pre st) else c06_model_step hards' poison' pre st)) ++
      c06_steps (i + 1) hards' poison' acct' t
  end.

Definition c06_history (h : ohistory) : list (N * N) :=
  map (fun k => (0, k)) (c06_state [] (h_init h)) ++ c06_steps 0 [] [] false (hist_pairs h).

Definition c06_check_all (cs : list ohistory) : list (N * N) :=
  flat_map (fun '(hi, h) => map (fun '(i, k) => (hi * 1000 + i, k)) (c06_history h)) (indexed 0 cs).
