(* Checkers evaluated by the correspondence run of engine place (C17) on implementation observations.
   kinds: 1 = model and implementation disagree (correspondence)
          2 = placed_ok oracle fails on the observed placement
          3 = recovery_only_forced oracle fails
          4 = unmatched_rejected oracle fails
   [pinned] = true checks the model of the code before the fix: commits (used against a worktree of
   the pinned commit to reproduce the repaired findings). *)
From Coq Require Import List NArith Bool.
From YK Require Import Place.Str Place.Acl Place.Rules Place.Placement Place.Spec.
Import ListNotations.
Open Scope N_scope.

Record qsnap := mkSnap {
  sn_path : list str; sn_leaf : bool; sn_managed : bool; sn_state : N; sn_tmpl : N; sn_max : N }.
Inductive oobs := OAcc (p : list str) | ORej (cls : N) | OCrash.
Record pstep := mkStep { st_app : app; st_obs : oobs; st_after : list qsnap; st_acls : list (bool * bool) }.
Record pcase := mkCase {
  c_root : qconf; c_ops : list setop; c_rules : list rconf; c_via : bool; c_re : retab;
  c_loaded : bool; c_snap0 : list qsnap; c_steps : list pstep }.

Definition state_num (s : qstate) : N := match s with QActive => 0 | QDraining => 1 | QStopped => 2 end.
Definition state_of (n : N) : qstate := if n =? 1 then QDraining else if n =? 2 then QStopped else QActive.

Definition reason_class (r : reason) : N :=
  match r with
  | NoMatch => 0 | RuleFailed EInvalidName => 1 | RuleFailed EParentLeaf => 2 | UserRejected => 3
  | IllegalName => 4 | CreateDenied => 5 | CreateParentLeaf => 6 | CreateFailed => 7 | NotLeaf => 8
  end.

(* the observed hierarchy as a model tree; ACLs (not observable) are those of the loaded configuration,
   dynamic queues have none *)
Definition tree_of_snap (t0 : tree) (sn : list qsnap) : tree :=
  map (fun s => let '(sa, aa) := match find_q t0 (sn_path s) with
                                 | Some q => (q_submit q, q_admin q)
                                 | None => (acl_zero, acl_zero)
                                 end in
                mkQ (sn_path s) (sn_leaf s) (sn_managed s) (state_of (sn_state s)) sa aa (sn_tmpl s) (sn_max s)) sn.

Definition snap_matches (t : tree) (sn : list qsnap) : bool :=
  (N.of_nat (length t) =? N.of_nat (length sn)) &&
  forallb (fun s => match find_q t (sn_path s) with
                    | Some q => Bool.eqb (q_leaf q) (sn_leaf s) && Bool.eqb (q_managed q) (sn_managed s)
                                && (state_num (q_state q) =? sn_state s) && (q_template q =? sn_tmpl s)
                                && (q_maxapps q =? sn_max s)
                    | None => false
                    end) sn.

Definition obs_eqb (o : outcome) (b : oobs) : bool :=
  match o, b with
  | Accepted p, OAcc p' => path_eqb p p'
  | Rejected r, ORej c => reason_class r =? c
  | Crashed, OCrash => true
  | _, _ => false
  end.

Fixpoint prefixes_from (pre : list str) (rest : list str) : list (list str) :=
  match rest with
  | [] => []
  | x :: r => (pre ++ [x]) :: prefixes_from (pre ++ [x]) r
  end.

(* observed CheckSubmitAccess / CheckAdminAccess answers on every ancestor of the accepted queue *)
Definition acls_match (t : tree) (a : app) (p : list str) (obs : list (bool * bool)) : bool :=
  list_eqb (fun x y => Bool.eqb (fst x) (fst y) && Bool.eqb (snd x) (snd y))
           (map (fun pre => (check_submit_rev t (ap_user a) (ap_groups a) (rev pre),
                             check_admin_rev t (ap_user a) (ap_groups a) (rev pre))) (prefixes_from [] p))
           obs.

(* the observed hierarchy after a step, in the order "queues that existed before, then the new ones
   from the top down" (snapshots are sorted by path, parents before children) *)
Definition reorder (t t' : tree) : tree :=
  flat_map (fun q => match find_q t' (q_path q) with Some q' => [q'] | None => [] end) t
  ++ filter (fun q' => match find_q t (q_path q') with Some _ => false | None => true end) t'.

(* one application: model step from the OBSERVED state before it, oracles on the observed result.
   [rules] are the rules of the model under test, [srules] those of the specification (always the
   repaired semantics). *)
Definition step_check (pinned : bool) (t0 : tree) (rules srules : list rule) (before : list qsnap) (s : pstep) : list N :=
  let w := mkW (tree_of_snap t0 before) rules in
  let '(o, w') := submit pinned w (st_app s) in
  let corr := obs_eqb o (st_obs s) && snap_matches (w_tree w') (st_after s) && wf_tree (w_tree w)
              && match st_obs s, convert_ugi (st_app s) with
                 | OAcc p, Some a' => acls_match (tree_of_snap t0 (st_after s)) a' p (st_acls s)
                 | _, _ => true
                 end in
  let tb := tree_of_snap t0 before in
  let ws := mkW tb srules in
  let wa := mkW (reorder tb (tree_of_snap t0 (st_after s))) srules in
  (if corr then [] else [1]) ++
  match convert_ugi (st_app s) with
  | None => match st_obs s with OCrash => [4] | _ => [] end
  | Some a' =>
      match st_obs s with
      | OAcc p =>
          (if placed_ok_b ws a' p wa then [] else [2]) ++
          (if recovery_only_forced_b a' p then [] else [3]) ++
          (if unmatched_b ws a' then [4] else [])
      | ORej c =>
          if unmatched_b ws a' then (if (c =? 0) && snap_matches (w_tree ws) (st_after s) then [] else [4]) else []
      | OCrash => [4]      (* neither accepted nor rejected with a reason *)
      end
  end.

Fixpoint steps_check (pinned : bool) (t0 : tree) (rules srules : list rule) (before : list qsnap) (l : list pstep) : list N :=
  match l with
  | [] => []
  | s :: r => step_check pinned t0 rules srules before s ++ steps_check pinned t0 rules srules (st_after s) r
  end.

Definition case_check (pinned : bool) (c : pcase) : list N :=
  match init_world pinned (c_re c) (c_root c) (c_ops c) (c_rules c) (c_via c),
        init_world false (c_re c) (c_root c) (c_ops c) (c_rules c) (c_via c) with
  | Some w, Some ws =>
      if negb (c_loaded c) then [1]
      else
        (* ACLs come from the hierarchy as loaded (set-up operations do not touch them) *)
        (if snap_matches (w_tree w) (c_snap0 c) then [] else [1]) ++
        steps_check pinned (w_tree w) (w_rules w) (w_rules ws) (c_snap0 c) (c_steps c)
  | _, _ => if c_loaded c then [1] else []
  end.

Fixpoint indexed {A} (i : N) (l : list A) : list (N * A) :=
  match l with [] => [] | a :: t => (i, a) :: indexed (i + 1) t end.

Fixpoint dedup (l : list N) : list N :=
  match l with [] => [] | x :: t => if existsb (N.eqb x) t then dedup t else x :: dedup t end.

Definition place_check (pinned : bool) (cs : list pcase) : list (N * N) :=
  flat_map (fun '(i, c) => map (fun k => (i, k)) (dedup (case_check pinned c))) (indexed 0 cs).
