(* C05 at the level of the whole core: the usage the user/group manager tracks for a user on a queue path
   equals the sum of the live allocations (real and placeholder) of that user's applications below that path.
   kinds: 501 tracked usage of a user on a leaf queue differs from the sum over the applications,
          502 tracked usage on a parent path differs from the sum over the tracked children,
          561.. failures after a known trigger (see Core/Ledger.v known_trigger). *)
From Coq Require Import List ZArith NArith Bool.
From YK Require Import Base.Res Core.Obs Core.Ledger Oracles.CoreC01.
Import ListNotations.
Open Scope N_scope.

Definition user_entries (s : ostate) : list ougm := filter (fun u => negb (u_group u)) (s_ugm s).

Definition user_apps_in (s : ostate) (user q : N) : list oapp :=
  filter (fun a => (ap_user a =? user) && (ap_queue a =? q)) (s_apps s).

Definition is_leaf_path (s : ostate) (q : N) : bool :=
  match find_queue s q with Some oq => q_leaf oq | None => false end.

Definition ugm_leaf_ok (s : ostate) (u : ougm) : bool :=
  negb (is_leaf_path s (u_path u)) ||
  let apps := user_apps_in s (u_who u) (u_path u) in
  res_is_sum (u_usage u) (map ap_allocated apps ++ map ap_phalloc apps).

(* every application with usage is tracked *)
Definition app_tracked (s : ostate) (a : oapp) : bool :=
  (all_zero (ap_allocated a) && all_zero (ap_phalloc a)) ||
  existsb (fun u => (u_who u =? ap_user a) && (u_path u =? ap_queue a)) (user_entries s).

Definition ugm_parent_ok (s : ostate) (u : ougm) : bool :=
  is_leaf_path s (u_path u) ||
  match find_queue s (u_path u) with
  | None => true
  | Some _ =>
      let kids := filter (fun c => (u_who c =? u_who u) &&
                                    match find_queue s (u_path c) with Some qc => q_parent qc =? u_path u | None => false end)
                         (user_entries s) in
      res_is_sum (u_usage u) (map u_usage kids)
  end.

Definition c05_state (s : ostate) : list N :=
  (if forallb (ugm_leaf_ok s) (user_entries s) && forallb (app_tracked s) (s_apps s) then [] else [501]) ++
  (if forallb (ugm_parent_ok s) (user_entries s) then [] else [502]).

(* enforcement (kind 503): a scheduling decision for application a never takes the tracked usage of a's user, or of a
   group tracker that lists a, above a configured maximum on a queue of a's path, on a type that maximum defines.
   Judged on the step: the entry is above its maximum after the step on a type where the step increased its usage. *)
Definition entry_of (s : ostate) (e : ougm) : option ougm :=
  find (fun x => (u_who x =? u_who e) && Bool.eqb (u_group x) (u_group e) && (u_path x =? u_path e)) (s_ugm s).

Definition entry_over (pre : ostate) (e : ougm) : bool :=
  match u_max e with
  | None => false
  | Some m =>
      existsb (fun kv =>
                 (snd kv <? getz (u_usage e) (fst kv))%Z &&
                 (match entry_of pre e with
                  | Some e0 => (getz (u_usage e0) (fst kv) <? getz (u_usage e) (fst kv))%Z
                  | None => true end)) m
  end.

Definition concerns (s : ostate) (a : oapp) (e : ougm) : bool :=
  (if u_group e then memN (ap_id a) (u_running e) else u_who e =? ap_user a) &&
  existsb (fun q => q_id q =? u_path e) (ancestors s (ap_queue a)).

Definition sched_apps (st : ostep) : list N :=
  flat_map (fun e => match e with ENewAlloc _ a _ _ _ => [a] | _ => [] end) (st_events st).

Definition c05_enforce_step (pre : ostate) (st : ostep) : list N :=
  if negb (is_sched (st_op st)) then [] else
  if existsb (fun aid => match find_app (st_obs st) aid with
                         | Some a => existsb (fun e => concerns (st_obs st) a e && entry_over pre e) (s_ugm (st_obs st))
                         | None => false end) (sched_apps st)
  then [503] else [].

Definition c05_core_check_all (cs : list ohistory) : list (N * N) :=
  all_check (fun h => first_of_kind [] (hist_check_poison 500 (fun _ pre st => c05_state (st_obs st) ++ c05_enforce_step pre st) h)) 0 cs.
