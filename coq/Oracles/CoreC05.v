(* C05 at the level of the whole core: the usage the user/group manager tracks for a user on a queue path
   equals the sum of the live allocations (real and placeholder) of that user's applications below that path.
   kinds: 501 tracked usage of a user on a leaf queue differs from the sum over the applications,
          502 tracked usage on a parent path differs from the sum over the tracked children,
          561.. failures after a known trigger (see Core/Ledger.v known_trigger). *)
From Coq Require Import List ZArith NArith Bool.
From YK Require Import Base.Res Core.Obs Core.Ledger Oracles.CoreC01.
Import ListNotations.
Open Scope N_scope.

Definition user_entries (s : ostate) : list ougm := filter (fun u => negb (u_group u)) (s_ugm s).

Definition user_apps_in (s : ostate) (user q : N) : list oapp :=
  filter (fun a => (ap_user a =? user) && (ap_queue a =? q)) (s_apps s).

Definition is_leaf_path (s : ostate) (q : N) : bool :=
  match find_queue s q with Some oq => q_leaf oq | None => false end.

Definition ugm_leaf_ok (s : ostate) (u : ougm) : bool :=
  negb (is_leaf_path s (u_path u)) ||
  let apps := user_apps_in s (u_who u) (u_path u) in
  res_is_sum (u_usage u) (map ap_allocated apps ++ map ap_phalloc apps).

(* every application with usage is tracked *)
Definition app_tracked (s : ostate) (a : oapp) : bool :=
  (all_zero (ap_allocated a) && all_zero (ap_phalloc a)) ||
  existsb (fun u => (u_who u =? ap_user a) && (u_path u =? ap_queue a)) (user_entries s).

Definition ugm_parent_ok (s : ostate) (u : ougm) : bool :=
  is_leaf_path s (u_path u) ||
  match find_queue s (u_path u) with
  | None => true
  | Some _ =>
      let kids := filter (fun c => (u_who c =? u_who u) &&
                                    match find_queue s (u_path c) with Some qc => q_parent qc =? u_path u | None => false end)
                         (user_entries s) in
      res_is_sum (u_usage u) (map u_usage kids)
  end.

Definition c05_state (s : ostate) : list N :=
  (if forallb (ugm_leaf_ok s) (user_entries s) && forallb (app_tracked s) (s_apps s) then [] else [501]) ++
  (if forallb (ugm_parent_ok s) (user_entries s) then [] else [502]).

Definition c05_core_check_all (cs : list ohistory) : list (N * N) :=
  all_check (fun h => first_of_kind [] (hist_check_poison 500 (fun _ _ st => c05_state (st_obs st)) h)) 0 cs.
