(* Oracle of property C12 (restart recovery rebuilds the same accounting), evaluated on the observations of the
   recover engine: A's state at the crash point, the replay steps on the fresh core B, the continued scheduling on B.
   Index = case*1000 + step (replay step j -> j, final comparison -> 499, continued step j -> 500+j).
   Kinds:
     1201 B rejected a replayed item (rejection event) or panicked
     1202 per-node allocated/occupied of B differ from A's
     1203 per-queue allocated/pending of B differ from A's (pending, and per-node allocated: from the shim's knowledge when a swap was in flight)
     1204 per-application allocated/placeholder/pending of B differ from A's (pending: as above)
     1205 per-user usage of B differs from A's
     1206 an application of A is missing in B, sits in another queue (other than the recovery-queue exception) or has another user
     1207 B's books disagree with B's own allocations and asks (after the replay or after a scheduling cycle)
     1208 a scheduling cycle on B allocated beyond the node's available resources
     1209 a scheduling cycle on B allocated beyond a queue maximum
     1290 the model rejects a replayed item
     1291 the model's totals after the replay differ from B's observed totals
     1292 the model's totals differ from totals_from_knowledge
     1294 the case does not satisfy the hypotheses of recover_totals (distinct ids/keys, acceptable resources, admissible
          order, totals within int64) - the harness built an inadmissible replay
     1210 an application's set of allocations or of unbound asks in B differs from A's, or a recovered allocation is missing from B's requests map
     1251 finding C12-gang-app-rejected-on-recovery: a force-created (recovering) gang application is rejected because its
          placeholder ask does not fit the CURRENT queue maximum (AddApplication applies the task-group check to
          recovering applications); its allocations and asks are then rejected too. For such a case the totals are not
          compared; every other rejection is still reported (1201)
     1211 B's node ledger is inconsistent (Core/Ledger.v nodes_ledger_ok: allocated = sum of the listed allocations,
          occupied = sum of the foreign ones, available = total - allocated - occupied as functions), after the replay or
          after a continued step; per-node AVAILABLE of B vs A is part of 1202 (an over-committed node stays over-committed)
     1250 crash point inside the window of finding 12 (a foreign allocation re-sent with another node id is listed on
          two nodes of A; the replay reproduces the orphan on B) - nothing else is evaluated for the case
   The comparison with A (1202-1205) is made when A's own books agree (hypothesis books_agree of recover_matches_old:
   a disagreement inside A is a violation of the conservation property C03/C05, not of recovery); B is compared with
   the totals computed from the shim's knowledge in every case (1291). *)
From Coq Require Import List ZArith NArith Bool.
From YK Require Import Base.Res Core.Obs Core.Recover Core.Ledger.
Import ListNotations.
Open Scope N_scope.

Record rccase := mkRC { rc_a : ostate; rc_replay : ohistory; rc_cont : ohistory; rc_recq : N }.

Definition flag (b : bool) (k : N) : list N := if b then [] else [k].

Definition rejected_event (e : oevent) : bool :=
  match e with EAppRejected _ | ENodeRejected _ | EAllocRejected _ _ => true | _ => false end.

Definition rop_of (K : knowledge) (op : oop) : option rop :=
  match op with
  | OpNodeAdd id _ _ => Some (RNode id)
  | OpAppAdd id _ _ _ _ _ _ _ _ => match find_kapp (k_apps K) id with Some a => Some (RApp a) | None => None end
  | OpAlloc r =>
      match rq_res r with
      | None => None
      | Some rs => if rq_foreign r then Some (RForeign (rq_key r) (rq_node r) rs)
                   else if rq_node r =? 0 then Some (RAsk (rq_key r) (rq_app r) rs)
                   else Some (RBound (rq_key r) (rq_app r) (rq_node r) rs (rq_ph r))
      end
  | _ => None
  end.
Fixpoint rops_of (K : knowledge) (l : list ostep) : option (list rop) :=
  match l with
  | [] => Some []
  | st :: t => match rop_of K (st_op st), rops_of K t with Some o, Some r => Some (o :: r) | _, _ => None end
  end.

Definition last_obs (h : ohistory) : ostate := fold_left (fun _ st => st_obs st) (h_steps h) (h_init h).

Definition key_kind (k : key) : N := fst k.
(* totals an in-flight placeholder swap can touch: the pending totals (the real ask is unbound for the shim) and the
   allocated total of the node the real allocation is going to (the old core books it on that node at once when it
   differs from the placeholder's node) *)
Definition is_pending_kind (k : key) : bool := (key_kind k =? K_QUEUE_PEND) || (key_kind k =? K_APP_PEND) || (key_kind k =? K_NODE_ALLOC).
(* a core's books agree with its own allocations and asks; with a swap in flight the node totals are not compared *)
Definition books_ok (s : ostate) : bool :=
  if no_inflight s then books_agree_on types123 s
  else forallb (fun k => (key_kind k =? K_NODE_ALLOC) ||
                         forallb (fun ty => Z.eqb (obs_total s k ty) (totals_from_knowledge (own_view s) k ty)) types123) (obs_keys s).
Definition kind_of_key (k : key) : N :=
  let kd := key_kind k in
  if (kd =? K_NODE_ALLOC) || (kd =? K_NODE_OCC) then 1202
  else if (kd =? K_QUEUE_ALLOC) || (kd =? K_QUEUE_PEND) then 1203
  else if kd =? K_USER then 1205 else 1204.
Fixpoint nodupb_keys (l : list N) : bool := match l with [] => true | x :: t => negb (memN x t) && nodupb_keys t end.
Fixpoint dedup (l : list N) : list N := match l with [] => [] | x :: t => if memN x t then dedup t else x :: dedup t end.

(* the property's comparison: B against A, key by key *)
Definition same_totals (A B : ostate) : list N :=
  let K := shim_knowledge A in
  let inflight := negb (no_inflight A) in
  dedup (flat_map (fun k =>
           flat_map (fun ty =>
              let expected := if inflight && is_pending_kind k then totals_from_knowledge K k ty else obs_total A k ty in
              flag (Z.eqb (obs_total B k ty) expected) (kind_of_key k)) types123)
         (obs_keys A ++ obs_keys B)).

(* per-node available (negative on an over-committed node) is the same; not compared with a swap in flight *)
Definition same_available (A B : ostate) : list N :=
  if negb (no_inflight A) then [] else
  dedup (flat_map (fun a => match find_node B (on_id a) with
                            | Some b => flag (forallb (fun ty => Z.eqb (getz (on_available a) ty) (getz (on_available b) ty)) types123) 1202
                            | None => [1202]
                            end) (s_nodes A)).

Definition same_apps (A B : ostate) (recq : N) : list N :=
  dedup (flat_map (fun a => match find_app B (ap_id a) with
                            | None => [1206]
                            | Some b => flag (((ap_queue b =? ap_queue a) ||
                                               ((ap_queue b =? recq) && negb (existsb (fun q => q_id q =? ap_queue a) (s_queues B)))) &&
                                              (ap_user b =? ap_user a)) 1206
                            end) (s_apps A)).

(* same asks and allocations, by key *)
Definition same_keys (a b : list N) : bool := forallb (fun x => memN x b) a && forallb (fun x => memN x a) b.
Definition same_items (A B : ostate) : list N :=
  dedup (flat_map (fun a => match find_app B (ap_id a) with
                            | None => []
                            | Some b =>
                                let unbound x := filter (fun k => negb (memN k (map oa_key (ap_allocs x)))) (map oa_key (ap_requests x)) in
                                (* same allocations, same unbound asks, and every recovered allocation is also in B's requests
                                   map (RecoverAllocationAsk) *)
                                flag (same_keys (map oa_key (ap_allocs a)) (map oa_key (ap_allocs b)) &&
                                      same_keys (unbound a) (unbound b) &&
                                      forallb (fun k => memN k (map oa_key (ap_requests b))) (map oa_key (ap_allocs b))) 1210
                            end) (s_apps A)).

Definition model_check (A B : ostate) (steps : list ostep) : list N :=
  let K := shim_knowledge A in
  match rops_of K steps with
  | None => [1290]
  | Some ops =>
      flag (replay_wfb (replay_ops K) && boundedb (replay_ops K) && admissibleb ops) 1294 ++
      match run rinit ops with
      | None => [1290]
      | Some s' =>
          dedup (flat_map (fun k => flat_map (fun ty =>
                     flag (Z.eqb (lookup (rs_tot s') k ty) (obs_total B k ty)) 1291 ++
                     flag (Z.eqb (lookup (rs_tot s') k ty) (totals_from_knowledge K k ty)) 1292) types123)
                 (obs_keys A ++ obs_keys B))
      end
  end.

(* continued scheduling *)
Definition new_alloc_fits (s : ostate) (e : oevent) : list N :=
  match e with
  | ENewAlloc _ app node r _ =>
      flag (match find_node s node with
            | Some n => forallb (fun kv => negb (0 <? snd kv)%Z || ((0 <=? getz (on_available n) (fst kv))%Z && (0 <=? node_free n (fst kv))%Z)) r
            | None => false end) 1208 ++
      flag (match find_app s app with
            | Some a => forallb (fun q => match find_queue s q with
                                          | Some x => match q_max x with
                                                      | Some m => forallb (fun kv => negb (0 <? snd kv)%Z || negb (has m (fst kv)) ||
                                                                                     (getz (q_alloc x) (fst kv) <=? getz m (fst kv))%Z) r
                                                      | None => true end
                                          | None => false end)
                                 (chain_of (S (length (s_queues s))) (s_queues s) (ap_queue a))
            | None => false end) 1209
  | _ => []
  end.

Fixpoint cont_steps (i : N) (l : list ostep) : list (N * N) :=
  match l with
  | [] => []
  | st :: t =>
      map (fun k => (i, k)) (flag (negb (st_panic st)) 1201 ++ flag (books_ok (st_obs st)) 1207 ++ flag (nodes_ledger_ok (st_obs st)) 1211 ++
                             flat_map (new_alloc_fits (st_obs st)) (st_events st))
      ++ cont_steps (i + 1) t
  end.
(* window of finding C12-gang-app-rejected-on-recovery: the applications rejected because the placeholder ask does not
   fit a queue maximum of the restarted core *)
Definition gang_rejected (qsA : list oqueue) (pre : ostate) (st : ostep) : list N :=
  match st_op st with
  | OpAppAdd app q _ true _ (Some ph) _ _ _ =>
      if existsb (fun e => match e with EAppRejected a => a =? app | _ => false end) (st_events st) &&
         existsb (fun x => match find_queue pre x with
                           | Some qq => match q_max qq with Some m => negb (FitInMaxUndef (Some m) (Some ph)) | None => false end
                           | None => false end)
                 (* the chain of the application's queue; a dynamic queue that the restarted core has not created yet is
                    found through the old core's queue table (same names, same parents) *)
                 (chain_of (S (length (s_queues pre))) (s_queues pre) q ++ chain_of (S (length qsA)) qsA q)
      then [app] else []
  | _ => []
  end.
Definition gang_window (qsA : list oqueue) (h : ohistory) : list N := flat_map (fun p => gang_rejected qsA (fst p) (snd p)) (hist_pairs h).
Definition step_app (st : ostep) : N :=
  match st_op st with OpAppAdd app _ _ _ _ _ _ _ _ => app | OpAlloc r => rq_app r | _ => 0 end.
Fixpoint replay_steps (W : list N) (i : N) (l : list ostep) : list (N * N) :=
  match l with
  | [] => []
  | st :: t => map (fun k => (i, k))
                   (flag (negb (st_panic st) && (negb (existsb rejected_event (st_events st)) || memN (step_app st) W)) 1201)
               ++ replay_steps W (i + 1) t
  end.

(* window of finding 12: some foreign allocation key is listed by two nodes *)
Definition dup_foreign (A : ostate) : bool :=
  negb (nodupb_keys (flat_map (fun n => map oa_key (on_foreign n)) (s_nodes A))).

Definition c12_check_case (h : N) (c : rccase) : list (N * N) :=
  let A := rc_a c in
  let B := last_obs (rc_replay c) in
  if dup_foreign A then [(h * 1000 + 499, 1250)] else
  let W := gang_window (s_queues A) (rc_replay c) in
  let A' := mkOS (s_nodes A) (filter (fun a => negb (memN (ap_id a) W)) (s_apps A)) (s_queues A) (s_total A) (s_nallocs A) (s_nph A)
                 (s_nres A) (s_foreign A) (s_completed A) (s_rejected A) (s_ugm A) in
  replay_steps W (h * 1000) (h_steps (rc_replay c)) ++
  map (fun k => (h * 1000 + 499, k))
      (match W with
       | [] => (if books_ok A then same_totals A B ++ same_available A B else []) ++ model_check A B (h_steps (rc_replay c))
       | _ => [1251]
       end ++ same_apps A' B (rc_recq c) ++ same_items A' B ++ flag (books_ok B) 1207 ++ flag (nodes_ledger_ok B) 1211) ++
  cont_steps (h * 1000 + 500) (h_steps (rc_cont c)).

Fixpoint c12_cases (h : N) (l : list rccase) : list (N * N) :=
  match l with [] => [] | c :: t => c12_check_case h c ++ c12_cases (h + 1) t end.
Definition c12_check_all (l : list rccase) : list (N * N) := c12_cases 0 l.
