(* Checker of engine conc (C14).  One case = one concurrent run of the real scheduler core:
   the lock nesting relation traced during the run (instance level, locks interned to N), and what was seen
   after the input stopped and the system settled.
   kinds:
     1401 the traced nesting relation has a cycle (potential deadlock) that is not confined to one
          single-goroutine role: acyclic (untag E) = false and order_ok singles rank E = false
     1402 final state: a node ledger disagrees with the allocations the node lists (C01 predicate)
     1403 a driver goroutine had not finished when the watchdog deadline passed
     1404 go-deadlock reported a potential deadlock (runs with detection enabled)
     1405 a goroutine panicked or the run died with a fatal runtime error
     1406 the Go race detector reported a data race (thorough tier only)
     1411 application books, 1412 queue books, 1413 node allocation not owned / root vs nodes / leak after drain,
     1414 application allocation not on its node   (C03 predicates; which are strict depends on the workload class)
     1450 (known finding C14-alloc-leak-app-removed) a node lists an allocation whose own node id is still unset
          and that no live application lists; the final-state predicates are then judged without these allocations
     1451 (known finding C14-concurrent-ledger-drift) queue ledger / node allocation list / root-vs-nodes / drained
          disagreement (1412, 1413, 1415, 1416 are folded into this kind)
     1490 (correspondence) the harness' own cycle search and the Coq check disagree
   The predicates on the final state are the ones the sequential theorems C01/C03 are stated with
   (Core/Ledger.v); here they are validation only. *)
From Coq Require Import List ZArith NArith Bool FMapPositive.
From YK Require Import Base.Res Core.Obs Core.Ledger Conc.LockOrder.
Import ListNotations.
Open Scope N_scope.

Record conc_case := mkConc {
  cc_edges : list tedge;       (* (role of the goroutine, (held lock, requested lock)) *)
  cc_singles : list role;      (* roles that are ONE goroutine in the service (scheduling loop, the three event handlers) *)
  cc_rank : list (lock * nat); (* rank certificate from the harness (levels of the condensation), used when cyclic *)
  cc_gocycle : list lock;      (* the offending cycle found by the harness, [] = none *)
  cc_class : N;                (* input fact: workload class, 0 full, 1 calm, 2 ledger (harness/conc_emit.go) *)
  cc_trigger : bool;           (* input fact: the workload contains an operation of the kinds behind the recorded drift
                                  findings (full: application / node removal, reload, cleaning, timer, resource update;
                                  calm: a release not sent in answer to an allocation event) *)
  cc_observed : bool;          (* the final state could be observed (false: goroutines stayed blocked / run died) *)
  cc_final : ostate;
  cc_blocked : N;              (* driver goroutines still running at the watchdog deadline *)
  cc_godeadlock : N;           (* go-deadlock reports *)
  cc_panics : N;               (* recovered panics + fatal errors *)
  cc_races : N }.              (* race detector reports *)

Definition is_single (c : conc_case) (r : role) : bool := existsb (N.eqb r) (cc_singles c).
Definition cert_table (l : list (lock * nat)) : PositiveMap.t nat :=
  fold_left (fun m p => PositiveMap.add (key (fst p)) (snd p) m) l (PositiveMap.empty nat).
Definition cert_rank (c : conc_case) : lock -> nat := rank_in (cert_table (cc_rank c)) 0.

(* the plain check first (roles ignored); only when it fails the refined check with the harness' certificate *)
Definition lock_order_ok (c : conc_case) : bool :=
  if acyclic (untag (cc_edges c)) then true
  else order_ok (is_single c) (cert_rank c) (cc_edges c).

Definition final_state_kinds (s : ostate) : list N :=
  (if nodes_ledger_ok s then [] else [1402]) ++
  (if forallb app_books_ok (s_apps s) then [] else [1411]) ++
  (if forallb (queue_books_ok s) (s_queues s) then [] else [1412]) ++
  (if forallb (fun n => forallb (node_alloc_owned s) (on_allocs n)) (s_nodes s) then [] else [1413]) ++
  (if forallb (fun a => forallb (app_alloc_on_node s) (ap_allocs a)) (s_apps s) then [] else [1414]) ++
  (if root_matches_nodes s then [] else [1415]) ++
  (if drained_ok s then [] else [1416]).

(* window of known finding C14-alloc-leak-app-removed: the scheduler books an allocation on the node inside
   Application.tryAllocate, the allocation's node id is only set afterwards in PartitionContext.allocate; an
   application removal in between cannot find the node of that allocation and leaves it on the node for ever.
   Signature: allocation listed by a node, node id of the allocation unset (0), not owned by a live application.
   The state is judged again with these allocations taken off the node books. *)
Definition unbound_orphan (s : ostate) (x : oalloc) : bool := (oa_node x =? 0) && negb (node_alloc_owned s x).
Definition strip_node (s : ostate) (n : onode) : onode :=
  let orphans := filter (unbound_orphan s) (on_allocs n) in
  mkON (on_id n) (on_total n) (on_occupied n)
       (fold_left (fun acc x => subFrom acc (oa_res x)) orphans (on_allocated n))
       (fold_left (fun acc x => addTo acc (oa_res x)) orphans (on_available n))
       (on_sched n) (filter (fun x => negb (unbound_orphan s x)) (on_allocs n)) (on_foreign n) (on_reservations n).
Definition has_unbound_orphan (s : ostate) : bool :=
  existsb (fun n => existsb (unbound_orphan s) (on_allocs n)) (s_nodes s).
Definition strip_state (s : ostate) : ostate :=
  mkOS (map (strip_node s) (s_nodes s)) (s_apps s) (s_queues s) (s_total s)
       (s_nallocs s) (s_nph s) (s_nres s) (s_foreign s) (s_completed s) (s_rejected s) (s_ugm s).
(* the same window seen from the application: it lists an allocation whose node id is unset and that no node lists
   (the node was removed, or the allocation was unwound, between tryAllocate and PartitionContext.allocate) *)
Definition app_unbound (s : ostate) (x : oalloc) : bool := (oa_node x =? 0) && negb (app_alloc_on_node s x).
Definition has_unbound (s : ostate) : bool :=
  has_unbound_orphan s || existsb (fun a => existsb (app_unbound s) (ap_allocs a)) (s_apps s).

(* drift: a queue ledger, the node -> application direction of the cross reference, root vs nodes, drained *)
Definition drift (s : ostate) : bool :=
  negb (forallb (queue_books_ok s) (s_queues s)) ||
  negb (forallb (fun n => forallb (node_alloc_owned s) (on_allocs n)) (s_nodes s)) ||
  negb (root_matches_nodes s) || negb (drained_ok s).

(* Final-state judgement.  Strict kinds:
     1402 node ledgers (unbound orphans taken off the books)      1411 application books
     1412 queue books: leaf = sum over its applications, parent = sum over its children (allocated and pending)
     1413 node lists an allocation no live application lists, root allocated differs from the sum of the node
          totals, ledgers not back to zero with no application left
     1414 application allocation with a node id missing on that node
   LEDGER workloads (class 2: concurrent scheduling and RM-side releases / registrations on leaves sharing a parent,
   releases sent only in answer to an allocation event; nothing removed, reloaded, cleaned, updated, timed out) are
   judged strictly on all of them: a lost update on any ledger is a violation.
   Known windows (narrow on purpose; a plain lost update must not be excused):
     1450 C14-alloc-leak-app-removed: an allocation with UNSET node id listed on one side only (any class);
          it excuses 1413 and the queue excess it causes ONLY in runs that have the trigger.
     1451 C14-concurrent-ledger-drift: ONLY in runs whose workload contains a trigger operation (cc_trigger):
          calm workloads: excuses 1412 / 1413 (1402, 1411, 1414 stay strict);
          full workloads: excuses all five kinds.
   A run without trigger operation is judged strictly whatever its class. *)
Definition strict_kinds (s : ostate) : list N :=
  (if nodes_ledger_ok (strip_state s) then [] else [1402]) ++
  (if forallb app_books_ok (s_apps s) then [] else [1411]) ++
  (if forallb (queue_books_ok s) (s_queues s) then [] else [1412]) ++
  (if forallb (fun n => forallb (fun x => unbound_orphan s x || node_alloc_owned s x) (on_allocs n)) (s_nodes s)
      && (has_unbound s || (root_matches_nodes s && drained_ok s)) then [] else [1413]) ++
  (if forallb (fun a => forallb (fun x => app_unbound s x || app_alloc_on_node s x) (ap_allocs a)) (s_apps s) then [] else [1414]).

Definition excused (class : N) (k : N) : bool :=
  if class =? 0 then true
  else if class =? 1 then (k =? 1412) || (k =? 1413)
  else false.

Definition final_state_check (class : N) (trigger : bool) (s : ostate) : list N :=
  let ks := strict_kinds s in
  (if has_unbound s then [1450] else []) ++
  (if trigger
   then (if existsb (excused class) ks then [1451] else []) ++ filter (fun k => negb (excused class k)) ks
   else ks).

Definition cycle_report_ok (c : conc_case) : bool :=
  match cc_gocycle c with
  | [] => lock_order_ok c
  | cyc => is_cycle (untag (cc_edges c)) cyc && negb (lock_order_ok c)
  end.

Definition conc_check_case (c : conc_case) : list N :=
  (if lock_order_ok c then [] else [1401]) ++
  (if cycle_report_ok c then [] else [1490]) ++
  (if cc_observed c then final_state_check (cc_class c) (cc_trigger c) (cc_final c) else []) ++
  (if 0 <? cc_blocked c then [1403] else []) ++
  (if 0 <? cc_godeadlock c then [1404] else []) ++
  (if 0 <? cc_panics c then [1405] else []) ++
  (if 0 <? cc_races c then [1406] else []).

Fixpoint conc_check_from (i : N) (cs : list conc_case) : list (N * N) :=
  match cs with
  | [] => []
  | c :: t => map (fun k => (i, k)) (conc_check_case c) ++ conc_check_from (i + 1) t
  end.
Definition conc_check_all (cs : list conc_case) : list (N * N) := conc_check_from 0 cs.

Definition empty_state : ostate := mkOS [] [] [] None 0%Z 0%Z 0%Z [] [] [] [].
