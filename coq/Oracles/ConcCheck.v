(* Checker of engine conc (C14).  One case = one concurrent run of the real scheduler core:
   the lock nesting relation traced during the run (instance level, locks interned to N), and what was seen
   after the input stopped and the system settled.
   kinds:
     1401 the traced nesting relation has a cycle (potential deadlock) that is not confined to one
          single-goroutine role: acyclic (untag E) = false and order_ok singles rank E = false
     1402 final state: a node ledger disagrees with the allocations the node lists (C01 predicate)
     1403 a driver goroutine had not finished when the watchdog deadline passed
     1404 go-deadlock reported a potential deadlock (runs with detection enabled)
     1405 a goroutine panicked or the run died with a fatal runtime error
     1406 the Go race detector reported a data race (thorough tier only)
     1411 application books, 1412 queue books, 1413 node allocation not owned / root vs nodes / leak after drain,
     1414 application allocation not on its node   (C03 predicates; which are strict depends on the workload class)
     1450 (known finding C14-alloc-leak-app-removed) a node lists an allocation whose own node id is still unset
          and that no live application lists; the final-state predicates are then judged without these allocations
     1451 (known finding C14-concurrent-ledger-drift) queue ledger / node allocation list / root-vs-nodes / drained
          disagreement (1412, 1413, 1415, 1416 are folded into this kind)
     1420 (correspondence) a SPLIT critical section that is not in the reviewed baseline (corpus/conc_split_baseline.json):
          inside one invocation of a function the lock of an object was released and taken again in write mode; the
          hypothesis of the atomicity theorem (Conc/AtomicProofs.v: no split section => serialisable) is not established
          for that function.  The targeted workloads (ledger, first use) run with the window between the two sections
          widened; a failing input shows up as 1412 / 1421.. of the same or another case.
     1421 tracked usage of a user on a leaf queue differs from the sum over the user's applications there, or an
          application with usage is not tracked (predicate of C05 at core level, Oracles/CoreC05.v kind 501)
     1422 tracked usage of a user on a parent path differs from the sum over the tracked children (kind 502)
     1423 negative tracked usage, running-application set of a user on a leaf queue wrong, or (first-use workload)
          tracked usage of a group differs from the sum over the applications of its users
     1424 a queue that only grows through the scheduler's limit check is above its configured maximum
     1452 (known finding C14-ugm-tracker-removed-in-use) a run in which a user tracker can become empty (cc_stable_users =
          false): tracked usage disagrees with the applications (1421-1423) and no tracked usage is ABOVE the sum over the
          applications (usage was lost, not invented): the release of a user's last allocation removed the tracker while
          another goroutine was booking an allocation of the same user on it
     1490 (correspondence) the harness' own cycle search and the Coq check disagree
     1491 (correspondence) the critical-section monitor of the lock wrapper was not available in the run
   The predicates on the final state are the ones the sequential theorems C01/C03 are stated with
   (Core/Ledger.v); here they are validation only. *)
From Coq Require Import List ZArith NArith Bool FMapPositive.
From YK Require Import Base.Res Core.Obs Core.Ledger Conc.LockOrder.
Import ListNotations.
Open Scope N_scope.

Record conc_case := mkConc {
  cc_edges : list tedge;       (* (role of the goroutine, (held lock, requested lock)) *)
  cc_singles : list role;      (* roles that are ONE goroutine in the service (scheduling loop, the three event handlers) *)
  cc_rank : list (lock * nat); (* rank certificate from the harness (levels of the condensation), used when cyclic *)
  cc_gocycle : list lock;      (* the offending cycle found by the harness, [] = none *)
  cc_class : N;                (* input fact: workload class, 0 full, 1 calm, 2 ledger (harness/conc_emit.go) *)
  cc_trigger : bool;           (* input fact: the workload contains an operation of the kinds behind the recorded drift
                                  findings (full: application / node removal, reload, cleaning, timer, resource update;
                                  calm: a release not sent in answer to an allocation event) *)
  cc_observed : bool;          (* the final state could be observed (false: goroutines stayed blocked / run died) *)
  cc_final : ostate;
  cc_blocked : N;              (* driver goroutines still running at the watchdog deadline *)
  cc_godeadlock : N;           (* go-deadlock reports *)
  cc_panics : N;               (* recovered panics + fatal errors *)
  cc_races : N;                (* race detector reports *)
  cc_splits : list N;          (* split critical sections seen in the run: id of the baseline entry, >= 1000 = not in the baseline *)
  cc_baseline : list N;        (* input fact: ids of the reviewed split sections (corpus/conc_split_baseline.json) *)
  cc_splitmon : bool;          (* the critical-section monitor was available *)
  cc_usergroups : list (N * N);(* input fact (first-use workload): (user, group every application of the user is tracked under) *)
  cc_maxstrict : list N;       (* input fact: queues whose usage only grows through the scheduler's limit check *)
  cc_stable_users : bool }.    (* input fact: no user tracker can become empty during the run (nothing is released, or every
                                  user holds an allocation that is never released) *)

(* the hypothesis of the atomicity theorem as far as the run can establish it: no split critical section beyond the
   reviewed ones *)
Definition split_ok (c : conc_case) : bool := forallb (fun s => memN s (cc_baseline c)) (cc_splits c).

(* ---- user / group manager after quiescence ----
   user_entries .. ugm_parent_ok are the predicates of the core-level C05 oracle (Oracles/CoreC05.v, kinds 501 / 502),
   repeated here word for word so that this checker does not depend on the core model files *)
Definition user_entries (s : ostate) : list ougm := filter (fun u => negb (u_group u)) (s_ugm s).
Definition user_apps_in (s : ostate) (user q : N) : list oapp :=
  filter (fun a => (ap_user a =? user) && (ap_queue a =? q)) (s_apps s).
Definition is_leaf_path (s : ostate) (q : N) : bool :=
  match find_queue s q with Some oq => q_leaf oq | None => false end.
Definition ugm_leaf_ok (s : ostate) (u : ougm) : bool :=
  negb (is_leaf_path s (u_path u)) ||
  let apps := user_apps_in s (u_who u) (u_path u) in
  res_is_sum (u_usage u) (map ap_allocated apps ++ map ap_phalloc apps).
Definition app_tracked (s : ostate) (a : oapp) : bool :=
  (all_zero (ap_allocated a) && all_zero (ap_phalloc a)) ||
  existsb (fun u => (u_who u =? ap_user a) && (u_path u =? ap_queue a)) (user_entries s).
Definition ugm_parent_ok (s : ostate) (u : ougm) : bool :=
  is_leaf_path s (u_path u) ||
  match find_queue s (u_path u) with
  | None => true
  | Some _ =>
      let kids := filter (fun c => (u_who c =? u_who u) &&
                                    match find_queue s (u_path c) with Some qc => q_parent qc =? u_path u | None => false end)
                         (user_entries s) in
      res_is_sum (u_usage u) (map u_usage kids)
  end.

Definition app_usage (a : oapp) : list res := [ap_allocated a; ap_phalloc a].
Definition app_has_usage (a : oapp) : bool := negb (all_zero (ap_allocated a) && all_zero (ap_phalloc a)).

(* running-application set of a user entry on a leaf queue: every application of the user in the queue that has usage
   is listed, everything listed is a live application of the user in that queue *)
Definition ugm_running_ok (s : ostate) (u : ougm) : bool :=
  negb (is_leaf_path s (u_path u)) ||
  let apps := user_apps_in s (u_who u) (u_path u) in
  forallb (fun a => negb (app_has_usage a) || memN (ap_id a) (u_running u)) apps &&
  forallb (fun id => existsb (fun a => ap_id a =? id) apps) (u_running u).

Definition group_of (ug : list (N * N)) (user : N) : N :=
  match find (fun p => fst p =? user) ug with Some p => snd p | None => 0 end.
Definition group_entries (s : ostate) : list ougm := filter u_group (s_ugm s).
Definition group_apps_in (s : ostate) (ug : list (N * N)) (g q : N) : list oapp :=
  filter (fun a => (group_of ug (ap_user a) =? g) && (ap_queue a =? q)) (s_apps s).
Definition group_leaf_ok (s : ostate) (ug : list (N * N)) (e : ougm) : bool :=
  negb (is_leaf_path s (u_path e)) ||
  res_is_sum (u_usage e) (flat_map app_usage (group_apps_in s ug (u_who e) (u_path e))).
Definition group_tracked (s : ostate) (ug : list (N * N)) (a : oapp) : bool :=
  negb (app_has_usage a) || (group_of ug (ap_user a) =? 0) ||
  existsb (fun e => (u_who e =? group_of ug (ap_user a)) && (u_path e =? ap_queue a)) (group_entries s).
Definition group_parent_ok (s : ostate) (e : ougm) : bool :=
  is_leaf_path s (u_path e) ||
  match find_queue s (u_path e) with
  | None => true
  | Some _ =>
      let kids := filter (fun c => (u_who c =? u_who e) &&
                                    match find_queue s (u_path c) with Some qc => q_parent qc =? u_path e | None => false end)
                         (group_entries s) in
      res_is_sum (u_usage e) (map u_usage kids)
  end.
Definition groups_ok (s : ostate) (ug : list (N * N)) : bool :=
  match ug with
  | [] => true
  | _ => forallb (group_leaf_ok s ug) (group_entries s) && forallb (group_tracked s ug) (s_apps s) &&
         forallb (group_parent_ok s) (group_entries s)
  end.

Definition ugm_kinds (s : ostate) (ug : list (N * N)) : list N :=
  (if forallb (ugm_leaf_ok s) (user_entries s) && forallb (app_tracked s) (s_apps s) then [] else [1421]) ++
  (if forallb (ugm_parent_ok s) (user_entries s) then [] else [1422]) ++
  (if forallb (fun u => res_nonneg (u_usage u)) (s_ugm s) && forallb (ugm_running_ok s) (user_entries s) && groups_ok s ug
   then [] else [1423]).

(* window of known finding C14-ugm-tracker-removed-in-use: usage was lost, never invented: on every leaf queue the
   tracked usage of a user (of a group, when the mapping is known) is at most the sum over the applications, per type *)
Definition res_le_sum (r : res) (l : list res) : bool :=
  forallb (fun k => (getz r k <=? sumz l k)%Z) (keys r ++ res_keys l).
Definition ugm_not_above (s : ostate) (ug : list (N * N)) : bool :=
  forallb (fun u => negb (is_leaf_path s (u_path u)) ||
                    let apps := user_apps_in s (u_who u) (u_path u) in
                    res_le_sum (u_usage u) (map ap_allocated apps ++ map ap_phalloc apps)) (user_entries s) &&
  match ug with
  | [] => true
  | _ => forallb (fun e => negb (is_leaf_path s (u_path e)) ||
                           res_le_sum (u_usage e) (flat_map app_usage (group_apps_in s ug (u_who e) (u_path e)))) (group_entries s)
  end.

(* a queue whose usage only grows through TryIncAllocatedResource stays within its maximum (types the maximum defines) *)
Definition within_max (q : oqueue) : bool :=
  match q_max q with
  | None => true
  | Some m => forallb (fun kv => (getz (q_alloc q) (fst kv) <=? snd kv)%Z) m
  end.
Definition max_kinds (s : ostate) (strict : list N) : list N :=
  if forallb (fun q => negb (memN (q_id q) strict) || within_max q) (s_queues s) then [] else [1424].

Definition is_single (c : conc_case) (r : role) : bool := existsb (N.eqb r) (cc_singles c).
Definition cert_table (l : list (lock * nat)) : PositiveMap.t nat :=
  fold_left (fun m p => PositiveMap.add (key (fst p)) (snd p) m) l (PositiveMap.empty nat).
Definition cert_rank (c : conc_case) : lock -> nat := rank_in (cert_table (cc_rank c)) 0.

(* the plain check first (roles ignored); only when it fails the refined check with the harness' certificate *)
Definition lock_order_ok (c : conc_case) : bool :=
  if acyclic (untag (cc_edges c)) then true
  else order_ok (is_single c) (cert_rank c) (cc_edges c).

Definition final_state_kinds (s : ostate) : list N :=
  (if nodes_ledger_ok s then [] else [1402]) ++
  (if forallb app_books_ok (s_apps s) then [] else [1411]) ++
  (if forallb (queue_books_ok s) (s_queues s) then [] else [1412]) ++
  (if forallb (fun n => forallb (node_alloc_owned s) (on_allocs n)) (s_nodes s) then [] else [1413]) ++
  (if forallb (fun a => forallb (app_alloc_on_node s) (ap_allocs a)) (s_apps s) then [] else [1414]) ++
  (if root_matches_nodes s then [] else [1415]) ++
  (if drained_ok s then [] else [1416]).

(* window of known finding C14-alloc-leak-app-removed: the scheduler books an allocation on the node inside
   Application.tryAllocate, the allocation's node id is only set afterwards in PartitionContext.allocate; an
   application removal in between cannot find the node of that allocation and leaves it on the node for ever.
   Signature: allocation listed by a node, node id of the allocation unset (0), not owned by a live application.
   The state is judged again with these allocations taken off the node books. *)
Definition unbound_orphan (s : ostate) (x : oalloc) : bool := (oa_node x =? 0) && negb (node_alloc_owned s x).
Definition strip_node (s : ostate) (n : onode) : onode :=
  let orphans := filter (unbound_orphan s) (on_allocs n) in
  mkON (on_id n) (on_total n) (on_occupied n)
       (fold_left (fun acc x => subFrom acc (oa_res x)) orphans (on_allocated n))
       (fold_left (fun acc x => addTo acc (oa_res x)) orphans (on_available n))
       (on_sched n) (filter (fun x => negb (unbound_orphan s x)) (on_allocs n)) (on_foreign n) (on_reservations n).
Definition has_unbound_orphan (s : ostate) : bool :=
  existsb (fun n => existsb (unbound_orphan s) (on_allocs n)) (s_nodes s).
Definition strip_state (s : ostate) : ostate :=
  mkOS (map (strip_node s) (s_nodes s)) (s_apps s) (s_queues s) (s_total s)
       (s_nallocs s) (s_nph s) (s_nres s) (s_foreign s) (s_completed s) (s_rejected s) (s_ugm s).
(* the same window seen from the application: it lists an allocation whose node id is unset and that no node lists
   (the node was removed, or the allocation was unwound, between tryAllocate and PartitionContext.allocate) *)
Definition app_unbound (s : ostate) (x : oalloc) : bool := (oa_node x =? 0) && negb (app_alloc_on_node s x).
Definition has_unbound (s : ostate) : bool :=
  has_unbound_orphan s || existsb (fun a => existsb (app_unbound s) (ap_allocs a)) (s_apps s).

(* drift: a queue ledger, the node -> application direction of the cross reference, root vs nodes, drained *)
Definition drift (s : ostate) : bool :=
  negb (forallb (queue_books_ok s) (s_queues s)) ||
  negb (forallb (fun n => forallb (node_alloc_owned s) (on_allocs n)) (s_nodes s)) ||
  negb (root_matches_nodes s) || negb (drained_ok s).

(* Final-state judgement.  Strict kinds:
     1402 node ledgers (unbound orphans taken off the books)      1411 application books
     1412 queue books: leaf = sum over its applications, parent = sum over its children (allocated and pending)
     1413 node lists an allocation no live application lists, root allocated differs from the sum of the node
          totals, ledgers not back to zero with no application left
     1414 application allocation with a node id missing on that node
   LEDGER workloads (class 2: concurrent scheduling and RM-side releases / registrations on leaves sharing a parent,
   releases sent only in answer to an allocation event; nothing removed, reloaded, cleaned, updated, timed out) are
   judged strictly on all of them: a lost update on any ledger is a violation.
   Known windows (narrow on purpose; a plain lost update must not be excused):
     1450 C14-alloc-leak-app-removed: an allocation with UNSET node id listed on one side only (any class);
          it excuses 1413 and the queue excess it causes ONLY in runs that have the trigger.
     1451 C14-concurrent-ledger-drift: ONLY in runs whose workload contains a trigger operation (cc_trigger):
          calm workloads: excuses 1412 / 1413 (1402, 1411, 1414 stay strict);
          full workloads: excuses all five kinds.
   A run without trigger operation is judged strictly whatever its class. *)
Definition ugm_strict (stable : bool) (s : ostate) (ug : list (N * N)) : list N :=
  if stable then ugm_kinds s ug else if ugm_not_above s ug then [] else ugm_kinds s ug.
Definition ugm_known (stable : bool) (s : ostate) (ug : list (N * N)) : list N :=
  if stable then [] else
  match ugm_kinds s ug with [] => [] | _ => if ugm_not_above s ug then [1452] else [] end.

Definition strict_kinds (s : ostate) (ug : list (N * N)) (mx : list N) (stable : bool) : list N :=
  ugm_strict stable s ug ++ max_kinds s mx ++
  (if nodes_ledger_ok (strip_state s) then [] else [1402]) ++
  (if forallb app_books_ok (s_apps s) then [] else [1411]) ++
  (if forallb (queue_books_ok s) (s_queues s) then [] else [1412]) ++
  (if forallb (fun n => forallb (fun x => unbound_orphan s x || node_alloc_owned s x) (on_allocs n)) (s_nodes s)
      && (has_unbound s || (root_matches_nodes s && drained_ok s)) then [] else [1413]) ++
  (if forallb (fun a => forallb (fun x => app_unbound s x || app_alloc_on_node s x) (ap_allocs a)) (s_apps s) then [] else [1414]).

Definition excused (class : N) (k : N) : bool :=
  if class =? 0 then true
  else if class =? 1 then (k =? 1412) || (k =? 1413)
  else false.

Definition final_state_check (class : N) (trigger : bool) (s : ostate) (ug : list (N * N)) (mx : list N) (stable : bool) : list N :=
  let ks := strict_kinds s ug mx stable in
  (if has_unbound s then [1450] else []) ++ ugm_known stable s ug ++
  (if trigger
   then (if existsb (excused class) ks then [1451] else []) ++ filter (fun k => negb (excused class k)) ks
   else ks).

Definition cycle_report_ok (c : conc_case) : bool :=
  match cc_gocycle c with
  | [] => lock_order_ok c
  | cyc => is_cycle (untag (cc_edges c)) cyc && negb (lock_order_ok c)
  end.

Definition conc_check_case (c : conc_case) : list N :=
  (if lock_order_ok c then [] else [1401]) ++
  (if cycle_report_ok c then [] else [1490]) ++
  (if split_ok c then [] else [1420]) ++
  (if cc_splitmon c then [] else [1491]) ++
  (if cc_observed c then final_state_check (cc_class c) (cc_trigger c) (cc_final c) (cc_usergroups c) (cc_maxstrict c) (cc_stable_users c) else []) ++
  (if 0 <? cc_blocked c then [1403] else []) ++
  (if 0 <? cc_godeadlock c then [1404] else []) ++
  (if 0 <? cc_panics c then [1405] else []) ++
  (if 0 <? cc_races c then [1406] else []).

Fixpoint conc_check_from (i : N) (cs : list conc_case) : list (N * N) :=
  match cs with
  | [] => []
  | c :: t => map (fun k => (i, k)) (conc_check_case c) ++ conc_check_from (i + 1) t
  end.
Definition conc_check_all (cs : list conc_case) : list (N * N) := conc_check_from 0 cs.

Definition empty_state : ostate := mkOS [] [] [] None 0%Z 0%Z 0%Z [] [] [] [].
