(* Preemption model, part 1: the world as the preemption code reads it and the what-if copy of the queue
   tree (QueuePreemptionSnapshot, pkg/scheduler/objects/preemption.go).

   A snapshot in the Go code is a node of a linked structure (Parent pointer).  Every method recurses to the
   parent first, so the model passes the CHAIN of a queue: the list of snapshots from the queue itself up to
   the root; the empty chain is the nil receiver.  The mutable part of a snapshot (AllocatedResource) lives in
   an association list [snaps] (queue id -> allocated); duplicateQueueSnapshots is the identity on it because
   the model is purely functional (the original is never updated in place).
   The AskQueue pointer always refers to the undisturbed ORIGINAL snapshot of the ask queue (Duplicate copies
   the pointer), so its fields are static data [askq]. Definitions only; proofs are in *Proofs.v. *)
From Coq Require Import List ZArith NArith Bool.
From YK Require Import Base.Int64 Base.Res.
Import ListNotations.
Open Scope Z_scope.

Definition bytes := list N.

Fixpoint bytes_eqb (a b : bytes) : bool :=
  match a, b with
  | [], [] => true
  | x :: a', y :: b' => N.eqb x y && bytes_eqb a' b'
  | _, _ => false
  end.
(* strings.HasPrefix(s, p) *)
Fixpoint has_prefix (s p : bytes) : bool :=
  match p, s with
  | [], _ => true
  | y :: p', x :: s' => N.eqb x y && has_prefix s' p'
  | _ :: _, [] => false
  end.

(* ---------------- the world ---------------- *)
(* preemption policy: 0 default, 1 fence, 2 disabled; priority policy: 0 default, 1 fence *)
Record queue := mkQ {
  q_id : N; q_parent : option N; q_path : bytes; q_leaf : bool; q_managed : bool;
  q_guar : ores; q_max : ores; q_alloc : ores; q_preempting : ores;
  q_ppol : N; q_prpol : N; q_offset : Z; q_delay : Z }.

(* a_age: age of the allocation (now - createTime); a larger age is an older allocation *)
Record alloc := mkA {
  a_key : N; a_app : N; a_queue : N; a_node : N; a_res : ores; a_prio : Z;
  a_self : bool; a_orig : bool; a_req : bool; a_released : bool; a_preempted : bool; a_age : Z }.

Record askT := mkK {
  k_key : N; k_app : N; k_queue : N; k_res : ores; k_prio : Z; k_other : bool; k_req : option N;
  k_triggered : bool; k_age : Z; k_checkage : option Z }.

Record node := mkNd { n_id : N; n_avail : ores; n_total : ores; n_sched : bool }.

(* answers of the shim's predicate plugin for the ask on a node: plain predicate, preemption predicate
   success, and the distance between the returned index and the start index *)
Record plugin_ans := mkPA { pa_node : N; pa_pred : bool; pa_ok : bool; pa_delta : Z }.

Record world := mkW {
  w_queues : list queue; w_allocs : list alloc; w_ask : askT; w_nodes : list node;
  w_freq : Z; w_plugin : list plugin_ans; w_tried : bool }.

Fixpoint find_queue (qs : list queue) (id : N) : option queue :=
  match qs with
  | [] => None
  | q :: t => if N.eqb (q_id q) id then Some q else find_queue t id
  end.

(* the queue and its ancestors, nearest first *)
Fixpoint upq (qs : list queue) (fuel : nat) (id : N) : list queue :=
  match fuel with
  | O => []
  | S f => match find_queue qs id with
           | None => []
           | Some q => q :: match q_parent q with None => [] | Some p => upq qs f p end
           end
  end.
Definition chain (w : world) (id : N) : list queue := upq (w_queues w) (length (w_queues w)) id.
Definition children (w : world) (q : queue) : list queue :=
  filter (fun c => match q_parent c with Some p => N.eqb p (q_id q) | None => false end) (w_queues w).
Definition allocs_of (w : world) (q : queue) : list alloc :=
  filter (fun a => N.eqb (a_queue a) (q_id q)) (w_allocs w).

(* ---------------- snapshots ---------------- *)
Record snap := mkSnap {
  s_id : N; s_path : bytes; s_alloc : ores; s_preempting : ores; s_guar : ores; s_hasask : bool }.
Record askq := mkAskq { aq_path : bytes; aq_guar : ores; aq_alloc : ores; aq_preempting : ores }.

Definition snaps := list (N * ores).
Fixpoint snap_get (sn : snaps) (id : N) : ores :=
  match sn with
  | [] => None
  | (i, r) :: t => if N.eqb i id then r else snap_get t id
  end.
(* createPreemptionSnapshot: AskQueue is set for every queue but the root (see Queue.FindEligiblePreemptionVictims) *)
Definition snap_of (sn : snaps) (q : queue) : snap :=
  mkSnap (q_id q) (q_path q) (snap_get sn (q_id q)) (q_preempting q) (q_guar q)
         (match q_parent q with Some _ => true | None => false end).
Definition init_snaps (w : world) : snaps := map (fun q => (q_id q, q_alloc q)) (w_queues w).
Definition snap_chain (w : world) (sn : snaps) (id : N) : list snap := map (snap_of sn) (chain w id).
Definition askq_of (w : world) : askq :=
  match find_queue (w_queues w) (k_queue (w_ask w)) with
  | Some q => mkAskq (q_path q) (q_guar q) (q_alloc q) (q_preempting q)
  | None => mkAskq [] None None None
  end.

(* AddAllocation / RemoveAllocation: the queue and all its ancestors *)
Definition snaps_upd (f : ores -> ores) (ids : list N) (sn : snaps) : snaps :=
  map (fun ir => if existsb (N.eqb (fst ir)) ids then (fst ir, f (snd ir)) else ir) sn.
Definition chain_ids (w : world) (id : N) : list N := map q_id (chain w id).
Definition AddAllocation (w : world) (sn : snaps) (id : N) (r : ores) : snaps :=
  snaps_upd (fun a => AddTo a r) (chain_ids w id) sn.
Definition RemoveAllocation (w : world) (sn : snaps) (id : N) (r : ores) : snaps :=
  snaps_upd (fun a => SubFrom a r) (chain_ids w id) sn.
Definition Duplicate (sn : snaps) : snaps := sn.

(* GetRemainingGuaranteedResource *)
Fixpoint remainingGuaranteed (aq : askq) (ch : list snap) : ores :=
  match ch with
  | [] => None
  | s :: up =>
      let parent := remainingGuaranteed aq up in
      if IsEmpty parent && IsEmpty (s_guar s) then None else
      let used := SubOnlyExisting (s_alloc s) (s_preempting s) in
      let rg := SubOnlyExisting (s_guar s) used in
      if s_hasask s then
        if bytes_eqb (aq_path aq) (s_path s) && negb (IsEmpty rg) then MergeIfNotPresent rg parent
        else
          let aqUsed := SubOnlyExisting (aq_alloc aq) (aq_preempting aq) in
          let aqRem := SubOnlyExisting (aq_guar aq) aqUsed in
          if negb (IsEmpty rg) && has_prefix (aq_path aq) (s_path s) && negb (IsEmpty aqRem) then None
          else ComponentWiseMin rg parent
      else ComponentWiseMin rg parent
  end.

(* GetPreemptableResource *)
Definition keep_positive (o : ores) : ores :=
  match o with None => None | Some r => Some (filter (fun kv => 0 <? snd kv) r) end.
Fixpoint preemptableResource (ch : list snap) : ores :=
  match ch with
  | [] => None
  | s :: up =>
      if IsEmpty (s_alloc s) then None else
      let parent := preemptableResource up in
      let actual := SubOnlyExisting (SubOnlyExisting (s_alloc s) (s_preempting s)) (s_guar s) in
      let pre := keep_positive actual in
      if IsEmpty pre then pre else ComponentWiseMinOnlyExisting pre parent
  end.

Definition remainingOf (w : world) (sn : snaps) (id : N) : ores :=
  remainingGuaranteed (askq_of w) (snap_chain w sn id).
Definition preemptableOf (w : world) (sn : snaps) (id : N) : ores := preemptableResource (snap_chain w sn id).

(* isAskQueueUnderGuaranteed / isVictimQueueOverGuaranteed *)
Definition isAskQueueUnderGuaranteed (ask rem : ores) : bool :=
  forallb (fun kv => match get (oget rem) (fst kv) with Some v => negb (v <? 0) | None => true end) (oget ask).
Definition isVictimQueueOverGuaranteed (ask rem : ores) : bool :=
  existsb (fun kv => match get (oget rem) (fst kv) with Some v => v <? 0 | None => false end) (oget ask).

(* "the queue is above its guaranteed share for a type the ask needs" as the second pass tests it *)
Definition over_guaranteed_at (w : world) (sn : snaps) (id : N) : bool :=
  match remainingOf w sn id with
  | None => true
  | Some r => isVictimQueueOverGuaranteed (k_res (w_ask w)) (Some r)
  end.

(* ---------------- well-formedness of a world (checked on every generated case) ---------------- *)
Fixpoint nodupN (l : list N) : bool :=
  match l with [] => true | x :: t => negb (existsb (N.eqb x) t) && nodupN t end.
Definition is_root (q : queue) : bool := match q_parent q with None => true | Some _ => false end.
Definition wf_world (w : world) : bool :=
  nodupN (map q_id (w_queues w)) && nodupN (map a_key (w_allocs w)) && nodupN (map n_id (w_nodes w)) &&
  forallb (fun q => match rev (chain w (q_id q)) with r :: _ => is_root r | [] => false end) (w_queues w) &&
  forallb (fun a => match find_queue (w_queues w) (a_queue a) with Some q => q_leaf q | None => false end) (w_allocs w) &&
  match find_queue (w_queues w) (k_queue (w_ask w)) with Some q => q_leaf q && negb (is_root q) | None => false end.
