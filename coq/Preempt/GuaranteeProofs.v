(* C08 for queue preemption: the attempt is made only under the guarantee check, every victim of the second pass
   passed the over-guarantee test on the running snapshot, a committed outcome covers the ask on the chosen node
   (fixed code; refuted for the pinned code), a failed attempt changes nothing. *)
From Coq Require Import List ZArith NArith Bool Lia.
From YK Require Import Base.Int64 Base.Res Preempt.Snapshot Preempt.Victims Preempt.ReqNode Preempt.Quota Preempt.Spec
  Preempt.TreeLemmas Preempt.VictimsProofs.
Import ListNotations.
Open Scope Z_scope.

(* ---- attempt_only_under_guarantee ---- *)
Theorem attempt_only_under_guarantee_tp : forall fixed w o, In o (tryPreemptionF fixed w) -> o_ok o = true ->
  exists pv, findVictims w = Some pv /\ under_guarantee w pv = true.
Proof.
  intros fixed w o Hin Hok. destruct (tryPreemption_cases fixed w o Hin Hok) as (pv & c & Hf & Hg & _).
  exists pv. split; assumption.
Qed.

Lemma admits_In : forall w o, admits w o = true -> o_ok o = true ->
  checkPreconditions w = true /\ exists o', In o' (tryPreemption w) /\ o_ok o' = true /\ o_node o' = o_node o /\ o_victims o' = o_victims o.
Proof.
  intros w o Hadm Hok. unfold admits, attempt in Hadm. apply existsb_exists in Hadm as (o' & Hin & Heq).
  unfold outcome_eqb in Heq. rewrite Hok in Heq. apply andb_true_iff in Heq as [Heq Hv]. apply andb_true_iff in Heq as [Hb Hn].
  apply eqb_prop in Hb. apply listN_eqb_eq in Hv. apply N.eqb_eq in Hn.
  destruct (checkPreconditions w); [|destruct Hin as [<-|[]]; discriminate].
  split; [reflexivity|]. exists o'. repeat split; auto.
Qed.

Theorem attempt_only_under_guarantee_adm : forall w o, admits w o = true -> o_ok o = true ->
  exists pv, findVictims w = Some pv /\ under_guarantee w pv = true.
Proof.
  intros w o Hadm Hok. destruct (admits_In w o Hadm Hok) as (_ & o' & Hin & Hok' & _).
  exact (attempt_only_under_guarantee_tp true w o' Hin Hok').
Qed.

(* what the check means: the path of the ask queue has guaranteed resources (the remaining guaranteed resource is
   defined) and either the ask fits in what remains, or it does once the ask is added and some of the potential
   victims are gone *)
Lemma guar_loop_meaning : forall w l sn, guar_loop w sn l = true ->
  exists pre r, (exists post, l = pre ++ post) /\ pre <> [] /\
    remainingOf w (fold_left (fun s a => RemoveAllocation w s (a_queue a) (a_res a)) pre sn) (ask_qid w) = Some r /\
    isAskQueueUnderGuaranteed (ask_res w) (Some r) = true.
Proof.
  intros w l. induction l as [|a t IH]; cbn [guar_loop]; intros sn H; [discriminate|].
  destruct (remainingOf w (RemoveAllocation w sn (a_queue a) (a_res a)) (ask_qid w)) as [r|] eqn:Er.
  - destruct (isAskQueueUnderGuaranteed (ask_res w) (Some r)) eqn:Eu.
    + exists [a], r. cbn. repeat split; auto; [now exists t|discriminate].
    + destruct (IH _ H) as (pre & r' & (post & ->) & _ & Hr & Hu). exists (a :: pre), r'. cbn. repeat split; auto; [now exists post|discriminate].
  - destruct (IH _ H) as (pre & r' & (post & ->) & _ & Hr & Hu). exists (a :: pre), r'. cbn. repeat split; auto; [now exists post|discriminate].
Qed.

Theorem under_guarantee_meaning : forall w pv, under_guarantee w pv = true ->
  (exists r, remainingOf w (init_snaps w) (ask_qid w) = Some r /\ FitInActual (Some r) (ask_res w) = true) \/
  (exists pre r, (exists post, flat_pv pv = pre ++ post) /\
     remainingOf w (fold_left (fun s a => RemoveAllocation w s (a_queue a) (a_res a)) pre
                              (AddAllocation w (init_snaps w) (ask_qid w) (ask_res w))) (ask_qid w) = Some r /\
     isAskQueueUnderGuaranteed (ask_res w) (Some r) = true).
Proof.
  intros w pv H. unfold under_guarantee, checkGuarantees in H.
  destruct (ask_fits_remaining w) eqn:Ef.
  - left. unfold ask_fits_remaining in Ef. destruct (remainingOf w (init_snaps w) (ask_qid w)) as [r|]; [|discriminate]. now exists r.
  - right. destruct (guar_loop_meaning _ _ _ H) as (pre & r & Hp & _ & Hr & Hu). exists pre, r. auto.
Qed.

(* ---- victim_queue_over_guarantee_when_taken (running snapshot of the second pass) ---- *)
Lemma second_pass_tr_inv : forall w head st tr,
  (forall v sn, In (v, sn) tr -> over_guaranteed_at w sn (a_queue v) = true) ->
  map fst tr = sp_res st ->
  let r := fold_left (second_step_tr w) head (st, tr) in
  (forall v sn, In (v, sn) (snd r) -> over_guaranteed_at w sn (a_queue v) = true) /\ map fst (snd r) = sp_res (fst r) /\
  fst r = fold_left (second_step w) head st.
Proof.
  intros w head. induction head as [|x head IH]; intros st tr Hinv Hmap; cbn [fold_left]; [auto|].
  apply IH.
  - unfold second_step_tr. cbn [fst snd]. destruct (victim_check w (sp_sn st) x) as [ok sn1] eqn:Ec. cbn [fst].
    destruct ok; [|assumption]. intros v sn Hin. apply in_app_or in Hin as [Hin|[Hin|[]]]; [auto|]. inversion Hin; subst v sn.
    unfold victim_check in Ec. injection Ec as Hok Hsn. apply andb_true_iff in Hok as [_ Hov].
    unfold over_guaranteed_at, ask_res in *. destruct (remainingOf w (sp_sn st) (a_queue x)); exact Hov.
  - unfold second_step_tr, second_step. cbn [fst snd]. destruct (victim_check w (sp_sn st) x) as [ok sn1]. cbn [fst].
    destruct ok; cbn [sp_res]; [|assumption]. rewrite map_app. cbn. now rewrite Hmap.
Qed.

Theorem second_pass_over_guarantee : forall w avail head,
  let r := second_pass_tr w avail head in
  fst r = second_pass w avail head /\ map fst (snd r) = sp_res (second_pass w avail head) /\
  forall v sn, In (v, sn) (snd r) -> over_guaranteed_at w sn (a_queue v) = true.
Proof.
  intros w avail head. unfold second_pass_tr, second_pass.
  destruct (second_pass_tr_inv w head (mkSP (Duplicate (init_snaps w)) avail [] (-1)) []) as (H1 & H2 & H3); [intros ? ? []|reflexivity|].
  cbv zeta. rewrite <- H3. auto.
Qed.

(* ---- commit_covers_ask ---- *)
Lemma fin_freed_inv : forall w b nid vs st,
  fin_freed st = freed_on_node nid (fin_freed (mkFin [] (Some []) (fin_freed st))) [] ->
  forall avail, fin_freed st = freed_on_node nid avail (fin_victims st) ->
  fin_freed (fold_left (fin_step w b nid) vs st) = freed_on_node nid avail (fin_victims (fold_left (fin_step w b nid) vs st)).
Proof.
  intros w b nid vs. induction vs as [|v vs IH]; intros st _ avail Hinv; cbn [fold_left]; [assumption|].
  apply IH; [reflexivity|]. unfold fin_step. destruct (negb b && negb (N.eqb (a_node v) nid)); [assumption|].
  cbn [fin_freed fin_victims]. destruct (StrictlyGreaterThanOnlyExisting (ask_res w) (fin_total st)); cbn [andb]; [|assumption].
  unfold freed_on_node in *. rewrite fold_left_app. cbn [fold_left]. rewrite <- Hinv. reflexivity.
Qed.

Lemma finalize_covers : forall w nid avail vs final, finalize true w nid avail vs = Some final ->
  FitIn avail (ask_res w) || FitIn (freed_on_node nid avail final) (ask_res w) = true.
Proof.
  intros w nid avail vs final H. unfold finalize in H.
  set (st := fold_left _ vs _) in H.
  destruct (StrictlyGreaterThanOnlyExisting (ask_res w) (fin_total st)); [discriminate|].
  destruct (FitIn avail (ask_res w)) eqn:Efit; [reflexivity|]. cbn [negb andb orb] in *.
  destruct (FitIn (fin_freed st) (ask_res w)) eqn:Ef; cbn [negb] in H; [|discriminate]. inversion H; subst final.
  subst st. rewrite <- (fin_freed_inv w false nid vs (mkFin [] (Some []) avail) eq_refl avail eq_refl). exact Ef.
Qed.

Lemma node_avail_of : forall w n, nodupN (map n_id (w_nodes w)) = true -> In n (w_nodes w) -> node_avail w (n_id n) = n_avail n.
Proof.
  intros w n. unfold node_avail. induction (w_nodes w) as [|x t IH]; cbn; intros Hn Hin; [contradiction|].
  apply andb_true_iff in Hn as [Hx Ht]. apply negb_true_iff in Hx.
  destruct Hin as [->|Hin]; [now rewrite N.eqb_refl|].
  destruct (N.eqb (n_id x) (n_id n)) eqn:E.
  - apply N.eqb_eq in E. exfalso. apply (existsb_eqb_false _ _ Hx). rewrite E. now apply in_map.
  - now apply IH.
Qed.

Lemma wf_nodes : forall w, wf_world w = true -> nodupN (map n_id (w_nodes w)) = true.
Proof. intros w H. unfold wf_world in H. repeat (apply andb_true_iff in H as [H ?]). assumption. Qed.

Lemma node_checks_avail : forall w pv c, wf_world w = true -> In c (node_checks w pv) -> node_avail w (pc_node c) = pc_avail c.
Proof.
  intros w pv c Hwf Hc. unfold node_checks in Hc. apply in_flat_map in Hc as (n & Hn & Hc).
  unfold usable_nodes in Hn. apply filter_In in Hn as [Hn _].
  destruct (calcVictimsByNode w (n_avail n) (by_node pv (n_id n))) as [idx [vs|]]; [|contradiction].
  assert (c = mkPC (n_id n) (n_avail n) idx vs) as ->.
  { destruct vs; [destruct (w_tried w); [contradiction|]|]; destruct Hc as [Hc|[]]; now symmetry. }
  cbn. apply node_avail_of; [now apply wf_nodes|assumption].
Qed.

Lemma victims_of_keys : forall w l, nodupN (map a_key (w_allocs w)) = true -> (forall a, In a l -> In a (w_allocs w)) ->
  victims_of w (map a_key l) = l.
Proof.
  intros w l Hn. induction l as [|a l IH]; intro Hin; [reflexivity|].
  cbn [map victims_of flat_map]. rewrite (find_alloc_nodup _ a Hn (Hin a (or_introl eq_refl))). cbn [app].
  f_equal. apply IH. intros b Hb. apply Hin. now right.
Qed.

Lemma tryWith_inv : forall fixed w pv c, In c (node_checks w pv) -> o_ok (tryWith fixed w pv c) = true ->
  exists vs final, finalize fixed w (pc_node c) (pc_avail c) vs = Some final /\
                   tryWith fixed w pv c = mkO true (pc_node c) (map a_key final) /\
                   forall a, In a final -> In a (flat_pv pv).
Proof.
  intros fixed w pv c Hc Hok. unfold tryWith in *. destruct (answer w c) as [s idx].
  destruct (Z.of_nat (length (pc_victims c)) <=? idx); [discriminate|].
  destruct (additionalVictims w pv _) as [extra ok] eqn:Ea. destruct (negb ok); [discriminate|].
  remember (firstn (Z.to_nat (idx + 1)) (pc_victims c) ++ extra) as vs eqn:Ev.
  destruct vs as [|v0 vt]; [discriminate|].
  destruct (finalize fixed w (pc_node c) (pc_avail c) (v0 :: vt)) as [final|] eqn:Ef; [|discriminate].
  exists (v0 :: vt), final. split; [assumption|]. split; [reflexivity|].
  intros a Ha. apply (finalize_sub _ _ _ _ _ _ _ Ef) in Ha. rewrite Ev in Ha.
  apply in_app_or in Ha as [Ha|Ha]; [apply firstn_In in Ha; eapply node_checks_sub; eassumption|eapply additional_sub; eassumption].
Qed.

Theorem commit_covers_ask_tp : forall w o, wf_world w = true -> In o (tryPreemption w) -> o_ok o = true ->
  covers_ask w (o_node o) (victims_of w (o_victims o)) = true.
Proof.
  intros w o Hwf Hin Hok. destruct (tryPreemption_cases true w o Hin Hok) as (pv & c & Hf & _ & Hc & ->).
  destruct (tryWith_inv true w pv c Hc Hok) as (vs & final & Hfin & Heq & Hfl).
  assert (forall a, In a final -> In a (w_allocs w)) as Hsub.
  { intros a Ha. destruct (flat_pv_In _ _ (Hfl a Ha)) as (qid & vs' & Hq & Hbv).
    now destruct (potential_victim_eligible w pv qid vs' a Hwf Hf Hq Hbv) as (Hbw & _ & _). }
  rewrite Heq. cbn [o_node o_victims]. rewrite (victims_of_keys w final (wf_keys w Hwf) Hsub).
  unfold covers_ask. rewrite (node_checks_avail w pv c Hwf Hc). eapply finalize_covers. eassumption.
Qed.

Theorem commit_covers_ask_adm : forall w o, wf_world w = true -> admits w o = true -> o_ok o = true ->
  covers_ask w (o_node o) (victims_of w (o_victims o)) = true.
Proof.
  intros w o Hwf Hadm Hok. destruct (admits_In w o Hadm Hok) as (_ & o' & Hin & Hok' & Hn & Hv).
  rewrite <- Hn, <- Hv. now apply commit_covers_ask_tp.
Qed.

(* ... else nothing is marked or announced: a failed outcome leaves the world alone and sends nothing *)
Theorem failed_changes_nothing : forall w o, o_ok o = false -> apply_outcome w o = w /\ announced o = [].
Proof. intros w o H. unfold apply_outcome, announced. now rewrite H. Qed.

(* every failed outcome of the model is the bare failure: no node, no victims *)
Theorem failed_has_no_victims : forall w o, In o (attempt w) -> o_ok o = false -> o = failed.
Proof.
  intros w o Hin Hok. unfold attempt in Hin. destruct (checkPreconditions w); [|destruct Hin as [<-|[]]; reflexivity].
  unfold tryPreemption, tryPreemptionF in Hin.
  destruct (findVictims w) as [pv|]; [|destruct Hin as [<-|[]]; reflexivity]. unfold tryPreemptionPV in Hin.
  destruct (negb (checkGuarantees w pv)); [destruct Hin as [<-|[]]; reflexivity|].
  destruct (filter _ (node_checks w pv)) as [|c0 ct]; [destruct Hin as [<-|[]]; reflexivity|].
  apply in_map_iff in Hin as (c & <- & _). unfold tryWith in *. destruct (answer w c) as [s idx].
  destruct (Z.of_nat (length (pc_victims c)) <=? idx); [reflexivity|].
  destruct (additionalVictims w pv _) as [extra ok]. destruct (negb ok); [reflexivity|].
  destruct (firstn _ (pc_victims c) ++ extra); [reflexivity|].
  destruct (finalize true w (pc_node c) (pc_avail c) (a :: l)); [discriminate|reflexivity].
Qed.

(* the pinned code (before commit 8513f58): a committed outcome that does not cover the ask *)
Definition pinned_root : bytes := [114;111;111;116]%N.
Definition pinned_world : world :=
  mkW [mkQ 0%N None pinned_root false true None (Some [(0%N, 20); (1%N, 20)]) (Some [(0%N, 10); (1%N, 10)]) (Some []) 0%N 0%N 0 30000;
       mkQ 1%N (Some 0%N) (pinned_root ++ [46;97]%N) true true (Some [(0%N, 10); (1%N, 10)]) None (Some []) (Some []) 0%N 0%N 0 30000;
       mkQ 2%N (Some 0%N) (pinned_root ++ [46;98]%N) true true (Some [(0%N, 5); (1%N, 5)]) None (Some [(0%N, 10); (1%N, 10)]) (Some []) 0%N 0%N 0 30000]
      [mkA 0%N 0%N 2%N 0%N (Some [(0%N, 10)]) 0 false false false false false 10;
       mkA 1%N 0%N 2%N 0%N (Some [(1%N, 10)]) 0 false false false false false 20]
      (mkK 1000%N 1%N 1%N (Some [(0%N, 10); (1%N, 10)]) 0 true None false 1000000 None)
      [mkNd 0%N (Some []) (Some [(0%N, 10); (1%N, 10)]) true] 15000 [mkPA 0%N true true 0] true.

Theorem commit_covers_ask_pinned_refuted :
  exists w o, wf_world w = true /\ In o (tryPreemptionF false w) /\ o_ok o = true /\
              covers_ask w (o_node o) (victims_of w (o_victims o)) = false.
Proof.
  exists pinned_world, (mkO true 0%N [0%N]). vm_compute. repeat split; auto.
Qed.
(* the same world with the fixed code: the attempt fails and nothing is marked *)
Example commit_covers_ask_fixed_example : tryPreemption pinned_world = [failed].
Proof. vm_compute. reflexivity. Qed.
(* a committed outcome of the fixed code on a non-trivial world (two victims would be useless, one is enough) *)
Definition covered_world : world :=
  mkW (w_queues pinned_world)
      [mkA 0%N 0%N 2%N 0%N (Some [(0%N, 5); (1%N, 5)]) 0 false false false false false 10;
       mkA 1%N 0%N 2%N 0%N (Some [(0%N, 5); (1%N, 5)]) 0 false false false false false 20]
      (mkK 1000%N 1%N 1%N (Some [(0%N, 5); (1%N, 5)]) 0 true None false 1000000 None)
      (w_nodes pinned_world) 15000 [mkPA 0%N true true 0] true.
Example commit_covers_ask_example :
  wf_world covered_world = true /\ tryPreemption covered_world = [mkO true 0%N [0%N]] /\
  covers_ask covered_world 0%N (victims_of covered_world [0%N]) = true.
Proof. vm_compute. auto. Qed.
