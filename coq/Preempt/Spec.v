(* The predicates of properties C07 and C08, stated on a world and on what happened (lists of victims).
   They are used twice: the theorems (Preempt/*Proofs.v, Props/C07.v, Props/C08.v) state them for the model,
   the oracles (Oracles/PreemptCheck.v) evaluate them on implementation observations.  Definitions only. *)
From Coq Require Import List ZArith NArith Bool.
From YK Require Import Base.Int64 Base.Res Preempt.Snapshot Preempt.Victims Preempt.ReqNode Preempt.Quota.
Import ListNotations.
Open Scope Z_scope.

(* ---------------- C07: who may be a victim ---------------- *)
(* bound allocations are the members of w_allocs; these are the flag conditions *)
Definition victim_base_ok (a : alloc) : bool := negb (a_released a) && negb (a_preempted a) && negb (a_req a).

(* priority bookkeeping on the way from the preemption fence down to the victim's queue: queues on the ask's own
   path carry the value recorded on the way up; a priority-fenced queue outside that path either hides its
   subtree (offset above the threshold) or makes every task below it eligible; otherwise the offset is subtracted *)
Fixpoint walk_down (pm : pmap) (thr : Z) (fenced : bool) (path : list queue) : option (Z * bool) :=
  match path with
  | [] => Some (thr, fenced)
  | c :: t =>
      match pm_get pm (q_id c) with
      | Some p => walk_down pm p fenced t
      | None =>
          if N.eqb (q_prpol c) 1 then (if thr <? q_offset c then None else walk_down pm thr true t)
          else walk_down pm (thr - q_offset c) fenced t
      end
  end.
(* "inside the fence": the root-first path of the fence is a prefix of the root-first path of the victim's queue;
   the result is the rest of the path (the queues strictly below the fence) *)
Fixpoint strip_prefix (p l : list queue) : option (list queue) :=
  match p, l with
  | [], _ => Some l
  | x :: p', y :: l' => if N.eqb (q_id x) (q_id y) then strip_prefix p' l' else None
  | _ :: _, [] => None
  end.

(* queue preemption: the victim side of C07 *)
Definition queue_victim_eligible (w : world) (a : alloc) : bool :=
  victim_base_ok a && negb (N.eqb (a_queue a) (ask_qid w)) && MatchAny (ask_res w) (a_res a) &&
  match fence_of w, find_queue (w_queues w) (a_queue a) with
  | Some (fence, pm), Some lq =>
      q_leaf lq && negb (N.eqb (q_ppol lq) 2) &&
      match pm_get pm (q_id fence), strip_prefix (rev (chain w (q_id fence))) (rev (chain w (a_queue a))) with
      | Some p0, Some path =>                       (* inside the asker's preemption fence *)
          match walk_down pm p0 false path with
          | Some (thr, fenced) => fenced || (a_prio a <=? thr)   (* does not outrank unless priority fenced *)
          | None => false
          end
      | _, _ => false
      end
  | _, _ => false
  end.
(* the asker side is CheckPreconditions itself: allowed to preempt others, not triggered before, no required
   node, waited the delay of its queue, attempt frequency respected *)
Definition asker_ok (w : world) : bool := checkPreconditions w.
Definition checkPreconditionsNoFreq (w : world) : bool :=
  let k := w_ask w in
  k_other k && negb (k_triggered k) && (match k_req k with None => true | Some _ => false end) &&
  negb (k_age k <? ask_delay w).

(* required node preemption *)
Definition reqnode_victim_eligible (w : world) (nid : N) (a : alloc) : bool :=
  victim_base_ok a && N.eqb (a_node a) nid && (a_prio a <=? k_prio (w_ask w)).

(* keys -> allocations of the world; a key that is not a bound allocation fails *)
Definition all_victims (w : world) (ok : alloc -> bool) (keys : list N) : bool :=
  forallb (fun k => match find_alloc (w_allocs w) k with Some a => ok a | None => false end) keys.

(* announced exactly once: the release requests name every marked allocation once and nothing else *)
Definition announced_once (marked : list N) (ann : list (list N)) : bool :=
  nodupN (concat ann) && same_keys (concat ann) marked.

(* ---------------- C08 ---------------- *)
(* the ask's queue path has guaranteed resources and the ask is still under them: checkPreemptionQueueGuarantees *)
Definition under_guarantee (w : world) (pv : pvs) : bool := checkGuarantees w pv.

(* every victim, at the moment it is taken (the earlier ones are gone), sits in a queue above its guaranteed
   share for a resource type of the ask *)
Fixpoint taken_over_guarantee (w : world) (sn : snaps) (vs : list alloc) : bool :=
  match vs with
  | [] => true
  | v :: t => over_guaranteed_at w sn (a_queue v) &&
              taken_over_guarantee w (RemoveAllocation w sn (a_queue v) (a_res v)) t
  end.

(* victims on the chosen node plus its free space cover the ask *)
Definition freed_on_node (nid : N) (avail : ores) (vs : list alloc) : ores :=
  fold_left (fun acc v => if N.eqb (a_node v) nid then AddTo acc (a_res v) else acc) vs avail.
Definition covers_ask (w : world) (nid : N) (vs : list alloc) : bool :=
  FitIn (node_avail w nid) (ask_res w) || FitIn (freed_on_node nid (node_avail w nid) vs) (ask_res w).

(* the second pass of calculateVictimsByNode together with the snapshot every accepted victim was tested on *)
Definition second_step_tr (w : world) (st : spass * list (alloc * snaps)) (v : alloc) : spass * list (alloc * snaps) :=
  let s' := second_step w (fst st) v in
  (s', if fst (victim_check w (sp_sn (fst st)) v) then snd st ++ [(v, sp_sn (fst st))] else snd st).
Definition second_pass_tr (w : world) (avail : ores) (head : list alloc) : spass * list (alloc * snaps) :=
  fold_left (second_step_tr w) head (mkSP (Duplicate (init_snaps w)) avail [] (-1), []).

(* quota: the claimed total stays within the preemptable amount for every type of it *)
Definition claimed_within (p claimed : ores) : bool :=
  forallb (fun kv => match get (oget claimed) (fst kv) with Some c => c <=? snd kv | None => true end) (oget p).
(* the preemptable amount of a queue is at most what it uses above its maximum *)
Definition within_excess (q : queue) (p : ores) : bool :=
  let used := SubOnlyExisting (q_alloc q) (q_preempting q) in
  forallb (fun kv => match get (oget (q_max q)) (fst kv) with
                     | Some m => let d := subVal m (getz (oget used) (fst kv)) in (d <? 0) && (snd kv <=? absq d)
                     | None => false
                     end) (oget p).
(* the code's notion of "at or below the guaranteed share" *)
Definition at_or_below_guarantee (q : queue) : bool :=
  IsEmpty (q_alloc q) || StrictlyGreaterThanOrEqualsOnlyExisting (q_guar q) (q_alloc q).
(* usage above the maximum in some type *)
Definition above_max (q : queue) : bool := negb (StrictlyGreaterThanOrEqualsOnlyExisting (q_max q) (q_alloc q)).
(* when may quota preemption run: managed queue, delay configured, start time armed and reached, not running *)
Definition quota_may_run (now : Z) (q : queue) (t : qtime) : bool :=
  q_managed q && negb (qt_running t) && above_max q &&
  match qt_start t with Some s => s <=? now | None => false end.
