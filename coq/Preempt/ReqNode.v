(* Preemption model, part 3: required node (daemon set) preemption,
   pkg/scheduler/objects/required_node_preemptor.go: filterAllocations, GetVictims, tryPreemption.
   SortAllocations uses a comparator that is not a strict weak order and sorts what a Go map iteration
   delivered, so the sorted order is a DECISION: the model takes the observed order, checks that it is a
   rearrangement of the filtered set and computes the victims from it.  Definitions only. *)
From Coq Require Import List ZArith NArith Bool.
From YK Require Import Base.Int64 Base.Res Preempt.Snapshot Preempt.Victims.
Import ListNotations.
Open Scope Z_scope.

Definition allocs_on (w : world) (nid : N) : list alloc := filter (fun a => N.eqb (a_node a) nid) (w_allocs w).

(* filterAllocations *)
Definition rn_ok (w : world) (a : alloc) : bool :=
  negb (a_req a) && negb (k_prio (w_ask w) <? a_prio a) && negb (a_preempted a) &&
  MatchAny (ask_res w) (a_res a) && negb (a_released a).
Definition rn_filter (w : world) (nid : N) : list alloc := filter (rn_ok w) (allocs_on w nid).

(* GetVictims on the sorted list *)
Record rpass := mkRP { rp_cur : ores; rp_victims : list alloc; rp_stop : bool }.
Definition rn_step (w : world) (st : rpass) (a : alloc) : rpass :=
  if rp_stop st then st else
  if negb (StrictlyGreaterThanOrEquals (rp_cur st) (ask_res w))
  then mkRP (AddTo (rp_cur st) (a_res a)) (rp_victims st ++ [a]) false
  else mkRP (rp_cur st) (rp_victims st) true.
Definition rn_victims (w : world) (avail : ores) (sorted : list alloc) : list alloc :=
  let st := fold_left (rn_step w) sorted (mkRP (Some []) [] false) in
  match rp_victims st with
  | [] => []
  | vs => if StrictlyGreaterThanOrEquals (Some (Add (rp_cur st) avail)) (ask_res w) then vs else []
  end.

(* same keys, as sets *)
Definition same_keys (a b : list N) : bool :=
  forallb (fun x => existsb (N.eqb x) b) a && forallb (fun x => existsb (N.eqb x) a) b &&
  Nat.eqb (length a) (length b).

Definition node_avail (w : world) (nid : N) : ores :=
  match filter (fun n => N.eqb (n_id n) nid) (w_nodes w) with n :: _ => n_avail n | [] => None end.

(* the observed sorted order is a rearrangement of the filtered set *)
Definition rn_order_ok (w : world) (nid : N) (order : list N) : bool :=
  same_keys order (map a_key (rn_filter w nid)) && nodupN order.
(* tryPreemption on a given sorted order *)
Definition rn_try_order (w : world) (nid : N) (order : list N) : outcome :=
  match rn_victims w (node_avail w nid) (victims_of w order) with
  | [] => failed
  | vs => mkO true nid (map a_key vs)
  end.
(* tryPreemption for the observed sorted order: None = the order is not a rearrangement of the filtered set *)
Definition rn_try (w : world) (nid : N) (order : list N) : option outcome :=
  if rn_order_ok w nid order then Some (rn_try_order w nid order) else None.
