(* announced_once: over any valid history of preemption attempts, marks and releases every allocation is named
   in at most one release request (MarkPreempted / SetReleased exclusion + the "not preempted" filter). *)
From Coq Require Import List ZArith NArith Bool Lia.
From YK Require Import Base.Int64 Base.Res Preempt.Snapshot Preempt.Victims Preempt.ReqNode Preempt.Quota Preempt.Spec
  Preempt.TreeLemmas Preempt.VictimsProofs Preempt.History.
Import ListNotations.

Lemma find_alloc_map : forall (f : alloc -> alloc) l k, (forall a, a_key (f a) = a_key a) ->
  find_alloc (map f l) k = option_map f (find_alloc l k).
Proof.
  intros f l k Hf. induction l as [|x t IH]; cbn; [reflexivity|]. rewrite Hf. destruct (N.eqb (a_key x) k); [reflexivity|assumption].
Qed.
Lemma release_key : forall k a, a_key (release k a) = a_key a.
Proof. intros. unfold release. destruct (_ && _); reflexivity. Qed.
Lemma release_preempted : forall k a, a_preempted (release k a) = a_preempted a.
Proof. intros. unfold release. destruct (_ && _); reflexivity. Qed.
Lemma mark_key : forall ks a, a_key (mark ks a) = a_key a.
Proof. intros. unfold mark. destruct (existsb _ _); reflexivity. Qed.
Lemma mark_preempted_false : forall ks a, a_preempted (mark ks a) = false -> a_preempted a = false /\ ~ In (a_key a) ks.
Proof.
  intros ks a H. unfold mark in H. destruct (existsb (N.eqb (a_key a)) ks) eqn:E; cbn in H; [discriminate|].
  split; [assumption|]. now apply existsb_eqb_false.
Qed.

Lemma nodupN_NoDup : forall l, nodupN l = true -> NoDup l.
Proof.
  induction l as [|x t IH]; cbn; intro H; [constructor|]. apply andb_true_iff in H as [H1 H2]. apply negb_true_iff in H1.
  constructor; [now apply existsb_eqb_false|auto].
Qed.

Definition fresh (w : world) (k : N) : Prop := exists a, find_alloc (w_allocs w) k = Some a /\ a_preempted a = false.

Lemma NoDup_app_disjoint : forall (a b : list N), NoDup a -> NoDup b -> (forall x, In x a -> ~ In x b) -> NoDup (a ++ b).
Proof.
  induction a as [|x a IH]; intros b Ha Hb Hd; [exact Hb|].
  rewrite <- app_comm_cons. apply NoDup_cons_iff in Ha as [Hx Ha]. apply NoDup_cons.
  - intro Hin. apply in_app_or in Hin. destruct Hin as [Hin|Hin].
    + exact (Hx Hin).
    + exact (Hd x (or_introl eq_refl) Hin).
  - apply IH; [exact Ha|exact Hb|]. intros y Hy. apply Hd. right. exact Hy.
Qed.

(* marking a list of fresh keys: what was announced later must still be fresh, so it was not in the list *)
Lemma after_mark : forall w keys k, fresh (set_allocs w (map (mark keys) (w_allocs w))) k -> fresh w k /\ ~ In k keys.
Proof.
  intros w keys k (a' & Hf & Hp). cbn in Hf. rewrite (find_alloc_map (mark keys) _ _ (mark_key keys)) in Hf.
  destruct (find_alloc (w_allocs w) k) as [a|] eqn:E; [|discriminate]. cbn in Hf. inversion Hf; subst a'.
  destruct (mark_preempted_false _ _ Hp) as [Hp' Hn]. destruct (find_alloc_In _ _ _ E) as [_ Hk]. rewrite Hk in Hn.
  split; [exists a; auto|assumption].
Qed.

Lemma history_inv : forall h w anns, run_history w h = Some anns ->
  NoDup (concat anns) /\ forall k, In k (concat anns) -> fresh w k.
Proof.
  induction h as [|e h IH]; intros w anns H.
  - cbn in H. inversion H; subst. cbn. split; [constructor|contradiction].
  - destruct e as [i|keys|k0]; cbn [run_history] in H.
    + (* a queue preemption attempt *)
      set (w1 := retarget w i) in *. set (o := ai_out i) in *.
      destruct (wf_world w1 && admits w1 o && nodupN (o_victims o)) eqn:Eg; [|discriminate].
      apply andb_true_iff in Eg as [Eg Hnd]. apply andb_true_iff in Eg as [Hwf Hadm].
      destruct (run_history (apply_outcome w1 o) h) as [l|] eqn:El; [|discriminate]. cbn in H. inversion H; subst anns; clear H.
      destruct (IH _ _ El) as [IH1 IH2]. rewrite concat_app.
      unfold announced, apply_outcome in *. destruct (o_ok o) eqn:Eok.
      * destruct (admitted_victims_eligible w1 o Hwf Hadm Eok) as [_ Hel].
        assert (forall k, In k (concat l) -> fresh w k /\ ~ In k (o_victims o)) as Hl.
        { intros k Hk. apply (after_mark w1 (o_victims o) k). destruct (IH2 k Hk) as (a & Ha & Hp). exists a. split; assumption. }
        assert (forall k, In k (o_victims o) -> fresh w k) as Hv.
        { intros k Hk. destruct (Hel k Hk) as (a & Ha & He). exists a. split; [exact Ha|].
          unfold queue_victim_eligible, victim_base_ok in He. repeat (apply andb_true_iff in He as [He ?]).
          match goal with H : negb (a_preempted a) = true |- _ => now apply negb_true_iff in H end. }
        destruct (o_victims o) as [|v0 vt] eqn:Ev.
        -- cbn. split; [assumption|]. intros k Hk. now apply Hl.
        -- cbn [concat]. rewrite app_nil_r. rewrite <- Ev in *. split.
           ++ apply NoDup_app_disjoint; [now apply nodupN_NoDup|assumption|]. intros x Hx Hc. now apply (Hl x Hc).
           ++ intros k Hk. apply in_app_or in Hk as [Hk|Hk]; [now apply Hv|now apply Hl].
      * cbn. split; [assumption|]. intros k Hk. destruct (IH2 k Hk) as (a & Ha & Hp). exists a. split; assumption.
    + (* required node / quota preemption *)
      destruct (all_victims w victim_base_ok keys && nodupN keys) eqn:Eg; [|discriminate].
      apply andb_true_iff in Eg as [Hall Hnd].
      destruct (run_history _ h) as [l|] eqn:El; [|discriminate]. cbn in H. inversion H; subst anns; clear H.
      destruct (IH _ _ El) as [IH1 IH2]. cbn [concat].
      assert (forall k, In k (concat l) -> fresh w k /\ ~ In k keys) as Hl.
      { intros k Hk. apply after_mark. now apply IH2. }
      split.
      * apply NoDup_app_disjoint; [now apply nodupN_NoDup|assumption|]. intros x Hx Hc. now apply (Hl x Hc).
      * intros k Hk. apply in_app_or in Hk as [Hk|Hk]; [|now apply Hl].
        unfold all_victims in Hall. rewrite forallb_forall in Hall. specialize (Hall k Hk).
        destruct (find_alloc (w_allocs w) k) as [a|] eqn:E; [|discriminate]. exists a. split; [exact E|].
        unfold victim_base_ok in Hall. repeat (apply andb_true_iff in Hall as [Hall ?]).
        match goal with H : negb (a_preempted a) = true |- _ => now apply negb_true_iff in H end.
    + (* SetReleased(true) *)
      destruct (IH _ _ H) as [IH1 IH2]. split; [assumption|]. intros k Hk.
      destruct (IH2 k Hk) as (a' & Hf & Hp). cbn in Hf.
      rewrite (find_alloc_map (release k0) _ _ (release_key k0)) in Hf.
      destruct (find_alloc (w_allocs w) k) as [a|] eqn:E; [|discriminate]. cbn in Hf. inversion Hf; subst a'.
      rewrite release_preempted in Hp. exists a. split; [exact E|exact Hp].
Qed.

Theorem announced_at_most_once : forall h w anns, run_history w h = Some anns -> NoDup (concat anns).
Proof. intros h w anns H. exact (proj1 (history_inv h w anns H)). Qed.

(* non-trivial instance: two asks preempt one after the other in the same world; the second attempt no longer sees
   the victim of the first *)
Definition ex_root : bytes := [114;111;111;116]%N.
Definition ex_res (v : Z) : ores := Some [(0%N, v)].
Definition ex_node : node := mkNd 0%N (Some []) (ex_res 10%Z) true.
Definition ex_world : world :=
  mkW [mkQ 0%N None ex_root false true None None (ex_res 10%Z) (Some []) 0%N 0%N 0%Z 30000%Z;
       mkQ 1%N (Some 0%N) (ex_root ++ [46;97]%N) true true (ex_res 10%Z) None (Some []) (Some []) 0%N 0%N 0%Z 30000%Z;
       mkQ 2%N (Some 0%N) (ex_root ++ [46;98]%N) true true (ex_res 2%Z) None (ex_res 10%Z) (Some []) 0%N 0%N 0%Z 30000%Z]
      [mkA 0%N 0%N 2%N 0%N (ex_res 5%Z) 0%Z false false false false false 10%Z;
       mkA 1%N 0%N 2%N 0%N (ex_res 5%Z) 0%Z false false false false false 20%Z]
      (mkK 1000%N 1%N 1%N (ex_res 5%Z) 0%Z true None false 100000%Z None)
      [ex_node] 15000%Z [] true.
Definition ex_attempt (key : N) (o : outcome) : hevent :=
  HAttempt (mkAI (mkK key 1%N 1%N (ex_res 5%Z) 0%Z true None false 100000%Z None) [] true [ex_node] o).
Example history_example :
  run_history ex_world [ex_attempt 1000%N (mkO true 0%N [0%N]); HRelease 0%N; ex_attempt 1001%N (mkO true 0%N [1%N])] = Some [[0%N]; [1%N]].
Proof. vm_compute. reflexivity. Qed.
Example history_rejects_second_announcement :
  run_history ex_world [ex_attempt 1000%N (mkO true 0%N [0%N]); ex_attempt 1001%N (mkO true 0%N [0%N])] = None.
Proof. vm_compute. reflexivity. Qed.
