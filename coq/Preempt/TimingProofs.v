(* Proofs about the quota preemption timing histories of Preempt/Timing.v: after ANY sequence of reloads (max and
   delay), usage increments, other changes, acquisitions and completions the armed start time of a queue that is
   not running is (time of the change that armed it) + (delay in force); hence tryAcquirePreemption says yes only
   when the delay in force has elapsed since that change.  Refuted for the code before the fix (a maximum that
   changes in different directions for different types kept the start time computed with the old delay). *)
From Coq Require Import List ZArith NArith Bool Lia.
From YK Require Import Base.Int64 Base.Res Preempt.Snapshot Preempt.Victims Preempt.ReqNode Preempt.Quota Preempt.Timing.
Import ListNotations.
Open Scope Z_scope.

(* what setPreemptionTime (fixed code) can do to a queue that is not running *)
Lemma spt_cases : forall now q oldMax oldDelay t, qt_running t = false ->
  let t' := setPreemptionTimeF true now q oldMax oldDelay t in
  qt_running t' = false /\ qt_delay t' = qt_delay t /\
  (qt_start t' = None \/
   (qt_start t = None /\ qt_start t' = Some (now + qt_delay t) /\ qt_delay t <> 0) \/
   (exists s0, qt_start t = Some s0 /\ qt_delay t <> 0 /\ qt_start t' = Some (s0 + (qt_delay t - oldDelay)))).
Proof.
  intros now q oldMax oldDelay t Hr. cbv zeta. unfold setPreemptionTimeF. rewrite Hr.
  destruct (qt_delay t =? 0) eqn:Ed; [cbn; auto|]. apply Z.eqb_neq in Ed.
  destruct (IsZero (q_max q)); [cbn; auto|].
  destruct (StrictlyGreaterThanOrEqualsOnlyExisting (q_max q) (q_alloc q)); [cbn; auto|].
  assert (Hshift : forall s0, qt_start t = Some s0 ->
            let t' := if negb (oldDelay =? qt_delay t) then shift_start t oldDelay else t in
            qt_running t' = false /\ qt_delay t' = qt_delay t /\
            (qt_start t' = None \/ (qt_start t = None /\ qt_start t' = Some (now + qt_delay t) /\ qt_delay t <> 0) \/
             (exists s1, qt_start t = Some s1 /\ qt_delay t <> 0 /\ qt_start t' = Some (s1 + (qt_delay t - oldDelay))))).
  { intros s0 Hs. cbv zeta. destruct (oldDelay =? qt_delay t) eqn:Eo; cbn [negb].
    - apply Z.eqb_eq in Eo. split; [exact Hr|]. split; [reflexivity|]. right. right. exists s0.
      split; [exact Hs|]. split; [exact Ed|]. rewrite Hs. f_equal. lia.
    - unfold shift_start. rewrite Hs. cbn [qt_running qt_delay qt_start]. split; [exact Hr|]. split; [reflexivity|].
      right. right. exists s0. split; [reflexivity|]. split; [exact Ed|]. reflexivity. }
  destruct (Equals oldMax (q_max q)).
  { destruct (qt_start t) as [s0|] eqn:Es; [exact (Hshift s0 eq_refl)|].
    destruct ((oldDelay =? 0) && (0 <? qt_delay t)); cbn; repeat split; auto. }
  destruct (StrictlyGreaterThan oldMax (q_max q)).
  { destruct (qt_start t) as [s0|] eqn:Es; [exact (Hshift s0 eq_refl)|]. cbn. repeat split; auto. }
  cbn [orb]. destruct (qt_start t) as [s0|] eqn:Es; [exact (Hshift s0 eq_refl)|]. repeat split; auto.
Qed.

Lemma inc_cases : forall now enabled q t,
  let t' := incAllocatedTime now enabled q t in
  qt_running t' = qt_running t /\ qt_delay t' = qt_delay t /\
  (t' = t \/ (qt_start t = None /\ qt_start t' = Some (now + qt_delay t) /\ qt_delay t <> 0)).
Proof.
  intros now enabled q t. cbv zeta. unfold incAllocatedTime.
  destruct (negb enabled); cbn [orb]; [auto|].
  destruct (qt_start t) as [s0|] eqn:Es; cbn [orb]; [auto|].
  destruct (negb (q_managed q)); cbn [orb]; [auto|].
  destruct (qt_delay t =? 0) eqn:Ed; cbn [orb]; [auto|]. apply Z.eqb_neq in Ed.
  destruct (IsZero (q_max q) || _); [auto|]. cbn. repeat split; auto.
Qed.

(* the invariant: a queue that is not running has a start time exactly when the ghost has an arming time, and then
   start = arming time + delay in force, with a delay that is not zero *)
Definition timing_inv (s : tstate) : Prop :=
  qt_running (ts_t s) = false ->
  match qt_start (ts_t s) with
  | None => ts_arm s = None
  | Some st => exists a, ts_arm s = Some a /\ st = a + qt_delay (ts_t s) /\ qt_delay (ts_t s) <> 0
  end.

Lemma tinit_inv : forall q delay now, timing_inv (tinit q delay now).
Proof. intros q delay now _. reflexivity. Qed.

Lemma tstep_inv : forall s o, timing_inv s -> timing_inv (fst (tstep true s o)).
Proof.
  intros [q t now arm] o Hinv. unfold timing_inv in *. cbn [ts_t ts_arm ts_q ts_now] in *.
  destruct o as [q' delay|d|q' enabled|q'| |]; cbn [tstep fst with_time ts_t ts_arm ts_q ts_now].
  - (* reload *)
    destruct (qt_running t) eqn:Er.
    + (* running: nothing happens, still running *)
      unfold setPreemptionTimeF. cbn [qt_running]. discriminate.
    + specialize (Hinv eq_refl). intros _.
      destruct (spt_cases now q' (q_max q) (qt_delay t) (mkQT delay (qt_start t) false) eq_refl) as (_ & Hd & Hc).
      cbn [qt_delay qt_start] in *. rewrite Hd.
      destruct Hc as [Hn | [(Hb & Ha & Hz) | (s0 & Hb & Hz & Ha)]].
      * rewrite Hn. reflexivity.
      * rewrite Ha, Hb. cbn [arm_upd]. exists now. auto.
      * rewrite Ha, Hb. cbn [arm_upd]. rewrite Hb in Hinv. destruct Hinv as (a & Harm & Hs & _).
        exists a. repeat split; auto. lia.
  - (* time passes *) exact Hinv.
  - (* usage *)
    destruct (inc_cases now enabled q' t) as (Hr & Hd & Hc). rewrite Hr, Hd. intros Hrun. specialize (Hinv Hrun).
    destruct Hc as [-> | (Hb & Ha & Hz)].
    + destruct (qt_start t); cbn [arm_upd]; auto.
    + rewrite Ha, Hb. cbn [arm_upd]. exists now. auto.
  - (* other change *) exact Hinv.
  - (* acquire *)
    unfold tryAcquire. destruct (negb (q_managed q) || qt_running t) eqn:E1; cbn [snd].
    + intros Hrun. specialize (Hinv Hrun). destruct (qt_start t); cbn [arm_upd]; auto.
    + destruct (StrictlyGreaterThanOrEqualsOnlyExisting (q_max q) (q_alloc q)); cbn [snd].
      * intros _. reflexivity.
      * destruct (qt_start t) as [s0|] eqn:Es; cbn [snd].
        -- destruct (now <? s0); cbn [snd qt_running].
           ++ intros Hrun. specialize (Hinv Hrun). rewrite Es in *. cbn [arm_upd]. exact Hinv.
           ++ discriminate.
        -- intros Hrun. specialize (Hinv Hrun). rewrite Es in *. cbn [arm_upd]. reflexivity.
  - (* done *) intros _. reflexivity.
Qed.

Lemma trun_inv : forall ops s, timing_inv s -> timing_inv (trun true s ops).
Proof. induction ops as [|o r IH]; intros s H; cbn [trun]; auto using tstep_inv. Qed.

(* ---- the clause: quota preemption acts only after the delay in force has elapsed since the change that armed it ---- *)
Theorem acquired_only_after_delay_inv : forall s, timing_inv s ->
  fst (tryAcquire (ts_now s) (ts_q s) (ts_t s)) = true ->
  delay_elapsed (ts_arm s) (qt_delay (ts_t s)) (ts_now s) = true /\ qt_delay (ts_t s) <> 0.
Proof.
  intros [q t now arm] Hinv H. unfold timing_inv in Hinv. cbn [ts_t ts_arm ts_q ts_now] in *. unfold tryAcquire in H.
  destruct (q_managed q); cbn [negb orb] in H; [|discriminate].
  destruct (qt_running t); [discriminate|]. specialize (Hinv eq_refl).
  destruct (StrictlyGreaterThanOrEqualsOnlyExisting (q_max q) (q_alloc q)); [discriminate|].
  destruct (qt_start t) as [s0|]; [|discriminate]. destruct (now <? s0) eqn:E; [discriminate|]. apply Z.ltb_ge in E.
  destruct Hinv as (a & -> & Hs & Hz). split; auto. unfold delay_elapsed. apply Z.leb_le. lia.
Qed.

Theorem acquired_only_after_delay : forall ops q delay now0,
  let s := trun true (tinit q delay now0) ops in
  fst (tryAcquire (ts_now s) (ts_q s) (ts_t s)) = true ->
  delay_elapsed (ts_arm s) (qt_delay (ts_t s)) (ts_now s) = true /\ qt_delay (ts_t s) <> 0.
Proof. intros ops q delay now0 s. apply acquired_only_after_delay_inv. apply trun_inv. apply tinit_inv. Qed.

(* the start time of a queue that is not running is always arming time + delay in force *)
Theorem start_is_arming_time_plus_delay_in_force : forall ops q delay now0 st,
  let s := trun true (tinit q delay now0) ops in
  qt_running (ts_t s) = false -> qt_start (ts_t s) = Some st ->
  exists a, ts_arm s = Some a /\ st = a + qt_delay (ts_t s) /\ qt_delay (ts_t s) <> 0.
Proof.
  intros ops q delay now0 st s Hr Hs. pose proof (trun_inv ops _ (tinit_inv q delay now0) Hr) as H. fold s in H. rewrite Hs in H. exact H.
Qed.

(* the arming time is a moment of the history: it is never in the future when time only moves forward *)
Definition arm_past (s : tstate) : Prop := match ts_arm s with Some a => a <= ts_now s | None => True end.
Lemma arm_upd_past : forall now b a arm, match arm with Some x => x <= now | None => True end ->
  match arm_upd now b a arm with Some x => x <= now | None => True end.
Proof. intros now b a arm H. unfold arm_upd. destruct a; auto. destruct b; auto. lia. Qed.
Lemma tstep_arm_past : forall fixed s o, (forall d, o = TAdvance d -> 0 <= d) -> arm_past s -> arm_past (fst (tstep fixed s o)).
Proof.
  intros fixed [q t now arm] o Hd H. unfold arm_past in *. cbn [ts_arm ts_now] in *.
  destruct o; cbn [tstep fst with_time ts_arm ts_now ts_t]; try (apply arm_upd_past; exact H); auto.
  specialize (Hd d eq_refl). destruct arm; auto. lia.
Qed.
Theorem arming_time_not_in_future : forall fixed ops s, (forall d, In (TAdvance d) ops -> 0 <= d) -> arm_past s -> arm_past (trun fixed s ops).
Proof.
  intros fixed ops. induction ops as [|o r IH]; intros s Hd H; cbn [trun]; auto.
  apply IH; [intros d Hin; apply Hd; right; exact Hin|]. apply tstep_arm_past; auto. intros d ->. apply Hd. left. reflexivity.
Qed.

(* ---- the code before the fix: a maximum changed in different directions keeps the start time of the old delay ---- *)
Definition tp_root : bytes := [114;111;111;116]%N.
Definition tp_leaf (mx : res) : queue :=
  mkQ 1%N (Some 0%N) (tp_root ++ [46;108]%N) true true None (Some mx) (Some [(0%N, 80); (1%N, 80)]) (Some []) 0%N 0%N 0 30000.
(* max {r0:100,r1:100}, usage {80,80}, delay 10s; at 0: max lowered to {50,100}; at 1s: max {40,200} and delay 1h;
   11s after the lowering the queue is acquired although the delay in force is one hour *)
Definition tp_ops : list top :=
  [TReconf (tp_leaf [(0%N, 50); (1%N, 100)]) 10000; TAdvance 1000; TReconf (tp_leaf [(0%N, 40); (1%N, 200)]) 3600000; TAdvance 10000].
Theorem acquired_only_after_delay_pinned_refuted :
  exists ops q delay now0, let s := trun false (tinit q delay now0) ops in
    fst (tryAcquire (ts_now s) (ts_q s) (ts_t s)) = true /\
    delay_elapsed (ts_arm s) (qt_delay (ts_t s)) (ts_now s) = false.
Proof. exists tp_ops, (tp_leaf [(0%N, 100); (1%N, 100)]), 10000, 0. vm_compute. auto. Qed.
(* the fixed code moves the start time to 1h after the lowering; the hypotheses of the theorem are satisfiable and the
   acquisition happens exactly when the hour is over *)
Example acquired_only_after_delay_example :
  let s := trun true (tinit (tp_leaf [(0%N, 100); (1%N, 100)]) 10000 0) tp_ops in
  qt_start (ts_t s) = Some 3600000 /\ ts_arm s = Some 0 /\ fst (tryAcquire (ts_now s) (ts_q s) (ts_t s)) = false /\
  let s' := fst (tstep true s (TAdvance 3589000)) in fst (tryAcquire (ts_now s') (ts_q s') (ts_t s')) = true.
Proof. vm_compute. auto. Qed.
