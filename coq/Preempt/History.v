(* Histories of preemption attempts over one evolving set of allocations (for "announced at most once").
   An attempt is made for a new ask (an ask triggers preemption at most once) against the current flags of the
   allocations; HMark stands for a required node or quota preemption (their filters give the guard, see
   reqnode_outcome_eligible / quota_victim_ok); HRelease is Allocation.SetReleased(true), which fails for a
   preempted allocation.  Definitions only. *)
From Coq Require Import List ZArith NArith Bool.
From YK Require Import Base.Int64 Base.Res Preempt.Snapshot Preempt.Victims Preempt.ReqNode Preempt.Quota Preempt.Spec.
Import ListNotations.

Record attempt_in := mkAI { ai_ask : askT; ai_plugin : list plugin_ans; ai_tried : bool; ai_nodes : list node; ai_out : outcome }.
Definition retarget (w : world) (i : attempt_in) : world :=
  mkW (w_queues w) (w_allocs w) (ai_ask i) (ai_nodes i) (w_freq w) (ai_plugin i) (ai_tried i).
Definition set_allocs (w : world) (l : list alloc) : world :=
  mkW (w_queues w) l (w_ask w) (w_nodes w) (w_freq w) (w_plugin w) (w_tried w).
Definition release (k : N) (a : alloc) : alloc :=
  if N.eqb (a_key a) k && negb (a_preempted a)
  then mkA (a_key a) (a_app a) (a_queue a) (a_node a) (a_res a) (a_prio a) (a_self a) (a_orig a) (a_req a) true (a_preempted a) (a_age a)
  else a.
Inductive hevent := HAttempt (i : attempt_in) | HMark (keys : list N) | HRelease (k : N).

(* Some l: the history is valid and l lists the release requests sent to the shim, oldest first *)
Fixpoint run_history (w : world) (h : list hevent) : option (list (list N)) :=
  match h with
  | [] => Some []
  | HRelease k :: t => run_history (set_allocs w (map (release k) (w_allocs w))) t
  | HMark keys :: t =>
      if all_victims w victim_base_ok keys && nodupN keys
      then option_map (fun l => keys :: l) (run_history (set_allocs w (map (mark keys) (w_allocs w))) t)
      else None
  | HAttempt i :: t =>
      let w1 := retarget w i in
      let o := ai_out i in
      if wf_world w1 && admits w1 o && nodupN (o_victims o)
      then option_map (fun l => announced o ++ l) (run_history (apply_outcome w1 o) t)
      else None
  end.
