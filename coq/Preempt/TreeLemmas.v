(* Lemmas about the queue tree of a well-formed world: lookup, ancestor chains, children. *)
From Coq Require Import List ZArith NArith Bool Lia.
From YK Require Import Base.Int64 Base.Res Preempt.Snapshot.
Import ListNotations.

Lemma bytes_eqb_refl : forall a, bytes_eqb a a = true.
Proof. induction a as [|x a IH]; cbn; auto. rewrite N.eqb_refl, IH. reflexivity. Qed.

Lemma find_queue_some : forall qs id q, find_queue qs id = Some q -> In q qs /\ q_id q = id.
Proof.
  induction qs as [|x t IH]; cbn; intros id q H; [discriminate|].
  destruct (N.eqb (q_id x) id) eqn:E.
  - inversion H; subst. split; [now left|]. now apply N.eqb_eq.
  - destruct (IH _ _ H) as [Hi He]. split; [now right|assumption].
Qed.

Lemma existsb_eqb_false : forall x l, existsb (N.eqb x) l = false -> ~ In x l.
Proof.
  intros x l H Hin. assert (existsb (N.eqb x) l = true) as C.
  { apply existsb_exists. exists x. split; [assumption|apply N.eqb_refl]. }
  congruence.
Qed.

Lemma find_queue_nodup : forall qs q, nodupN (map q_id qs) = true -> In q qs -> find_queue qs (q_id q) = Some q.
Proof.
  induction qs as [|x t IH]; cbn; intros q Hn Hin; [contradiction|].
  apply andb_true_iff in Hn as [Hx Ht]. apply negb_true_iff in Hx.
  destruct Hin as [->|Hin].
  - now rewrite N.eqb_refl.
  - destruct (N.eqb (q_id x) (q_id q)) eqn:E.
    + apply N.eqb_eq in E. exfalso. apply (existsb_eqb_false _ _ Hx). rewrite E. now apply in_map.
    + now apply IH.
Qed.

Lemma upq_In : forall qs f id q, In q (upq qs f id) -> In q qs.
Proof.
  intros qs f. induction f as [|f IH]; cbn; intros id q H; [contradiction|].
  destruct (find_queue qs id) as [x|] eqn:E; [|contradiction].
  destruct H as [<-|H].
  - now apply find_queue_some in E.
  - destruct (q_parent x) as [p|]; [now apply IH in H|contradiction].
Qed.

(* a chain is complete when it ends in a root *)
Definition complete (l : list queue) : Prop := match rev l with r :: _ => is_root r = true | [] => False end.

Lemma complete_cons : forall q l, l <> [] -> complete (q :: l) -> complete l.
Proof.
  intros q l Hne. unfold complete. cbn. destruct (rev l) as [|r t] eqn:E.
  - exfalso. apply Hne. apply (f_equal (@rev queue)) in E. now rewrite rev_involutive in E.
  - cbn. auto.
Qed.

Lemma upq_mono : forall qs f id, complete (upq qs f id) -> upq qs (S f) id = upq qs f id.
Proof.
  intros qs f. induction f as [|f IH]; intros id Hc.
  - cbn in Hc. contradiction.
  - change (upq qs (S (S f)) id) with
      (match find_queue qs id with None => [] | Some q => q :: match q_parent q with None => [] | Some p => upq qs (S f) p end end).
    change (upq qs (S f) id) with
      (match find_queue qs id with None => [] | Some q => q :: match q_parent q with None => [] | Some p => upq qs f p end end) in *.
    destruct (find_queue qs id) as [q|]; [|reflexivity].
    destruct (q_parent q) as [p|] eqn:Ep; [|reflexivity].
    f_equal. apply IH. apply (complete_cons q); [|assumption].
    intro Hnil. rewrite Hnil in Hc. unfold complete in Hc. cbn in Hc. unfold is_root in Hc. rewrite Ep in Hc. discriminate.
Qed.

Section WF.
  Variable w : world.
  Hypothesis Hwf : wf_world w = true.

  Lemma wf_ids : nodupN (map q_id (w_queues w)) = true.
  Proof. unfold wf_world in Hwf. repeat (apply andb_true_iff in Hwf as [Hwf ?]). assumption. Qed.
  Lemma wf_keys : nodupN (map a_key (w_allocs w)) = true.
  Proof. unfold wf_world in Hwf. repeat (apply andb_true_iff in Hwf as [Hwf ?]). assumption. Qed.
  Lemma wf_complete : forall q, In q (w_queues w) -> complete (chain w (q_id q)).
  Proof.
    intros q Hin. unfold wf_world in Hwf. repeat (apply andb_true_iff in Hwf as [Hwf ?]).
    match goal with H : forallb _ (w_queues w) = true |- _ => rewrite forallb_forall in H; specialize (H q Hin) end.
    unfold complete. destruct (rev (chain w (q_id q))); [discriminate|assumption].
  Qed.
  Lemma wf_ask_queue : exists q, find_queue (w_queues w) (k_queue (w_ask w)) = Some q /\ q_leaf q = true /\ is_root q = false.
  Proof.
    unfold wf_world in Hwf. apply andb_true_iff in Hwf as [_ H].
    destruct (find_queue (w_queues w) (k_queue (w_ask w))) as [q|]; [|discriminate].
    apply andb_true_iff in H as [H1 H2]. exists q. repeat split; auto. now apply negb_true_iff in H2.
  Qed.

  Lemma find_queue_wf : forall q, In q (w_queues w) -> find_queue (w_queues w) (q_id q) = Some q.
  Proof. intros. apply find_queue_nodup; [apply wf_ids|assumption]. Qed.

  Lemma chain_In : forall id q, In q (chain w id) -> In q (w_queues w).
  Proof. intros id q. unfold chain. apply upq_In. Qed.

  Lemma chain_self : forall q, In q (w_queues w) ->
    chain w (q_id q) = q :: match q_parent q with None => [] | Some p => upq (w_queues w) (pred (length (w_queues w))) p end.
  Proof.
    intros q Hin. unfold chain. destruct (w_queues w) as [|x t] eqn:E; [contradiction|].
    cbn [length pred]. rewrite <- E in *. change (upq (w_queues w) (S (length t)) (q_id q)) with
      (match find_queue (w_queues w) (q_id q) with None => [] | Some q0 => q0 :: match q_parent q0 with None => [] | Some p => upq (w_queues w) (length t) p end end).
    now rewrite (find_queue_wf q Hin).
  Qed.

  (* the chain of a child is the child followed by the chain of its parent *)
  Lemma chain_child : forall c q, In c (w_queues w) -> In q (w_queues w) -> q_parent c = Some (q_id q) ->
    chain w (q_id c) = c :: chain w (q_id q).
  Proof.
    intros c q Hc Hq Hp. pose proof (wf_complete c Hc) as Hcomp.
    rewrite (chain_self c Hc) in *. rewrite Hp in *. f_equal.
    unfold chain. destruct (w_queues w) as [|x t] eqn:E; [contradiction|]. cbn [length pred] in *. rewrite <- E in *.
    symmetry. apply upq_mono. apply (complete_cons c); [|assumption].
    intro Hnil. rewrite Hnil in Hcomp. unfold complete in Hcomp. cbn in Hcomp. unfold is_root in Hcomp. rewrite Hp in Hcomp. discriminate.
  Qed.

  Lemma children_spec : forall q c, In c (children w q) -> In c (w_queues w) /\ q_parent c = Some (q_id q).
  Proof.
    intros q c H. unfold children in H. apply filter_In in H as [Hin Hp]. split; [assumption|].
    destruct (q_parent c) as [p|]; [|discriminate]. apply N.eqb_eq in Hp. now subst.
  Qed.
End WF.

