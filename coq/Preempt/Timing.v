(* Preemption model, part 5: histories of the quota preemption timing of ONE queue (queue.go: setPreemptionTime
   called by UpdateQueueProperties on every reload, the re-arming in IncAllocatedResource, tryAcquirePreemption,
   setQuotaPreemptionState(false)) with a ghost variable: the time of the change that armed the start time.
   The clause of C08 "quota preemption runs only with the delay elapsed" is [delay_elapsed] on that ghost time.
   Definitions only; proofs in TimingProofs.v.  The oracle (Oracles/PreemptCheck.v) maintains the same ghost with
   the same [arm_upd] on the start times the implementation shows after every step. *)
From Coq Require Import List ZArith NArith Bool.
From YK Require Import Base.Int64 Base.Res Preempt.Snapshot Preempt.Victims Preempt.ReqNode Preempt.Quota.
Import ListNotations.
Open Scope Z_scope.

(* the ghost: a start time that appears was armed now; one that stays keeps its arming time; none, none *)
Definition arm_upd (now : Z) (before after : option Z) (arm : option Z) : option Z :=
  match after with
  | None => None
  | Some _ => match before with None => Some now | Some _ => arm end
  end.

(* the configured delay has elapsed since the change that armed the start time *)
Definition delay_elapsed (arm : option Z) (delay now : Z) : bool :=
  match arm with Some a => a + delay <=? now | None => false end.

Record tstate := mkTS { ts_q : queue; ts_t : qtime; ts_now : Z; ts_arm : option Z }.

Inductive top :=
| TReconf (q' : queue) (delay : Z)      (* reload: the queue with its new limits, the new delay *)
| TAdvance (d : Z)                      (* time passes *)
| TUsage (q' : queue) (enabled : bool)  (* IncAllocatedResource: q' holds the usage after the increment *)
| TChange (q' : queue)                  (* anything else that changes the queue but not the timing fields (release, ...) *)
| TAcquire                              (* tryAcquirePreemption *)
| TDone.                                (* setQuotaPreemptionState(false) *)

Definition with_time (s : tstate) (q : queue) (t : qtime) : tstate :=
  mkTS q t (ts_now s) (arm_upd (ts_now s) (qt_start (ts_t s)) (qt_start t) (ts_arm s)).

(* one step; the flag says whether tryAcquirePreemption said yes *)
Definition tstep (fixed : bool) (s : tstate) (o : top) : tstate * bool :=
  match o with
  | TReconf q' delay =>
      let t0 := mkQT delay (qt_start (ts_t s)) (qt_running (ts_t s)) in
      (with_time s q' (setPreemptionTimeF fixed (ts_now s) q' (q_max (ts_q s)) (qt_delay (ts_t s)) t0), false)
  | TAdvance d => (mkTS (ts_q s) (ts_t s) (ts_now s + d) (ts_arm s), false)
  | TUsage q' enabled => (with_time s q' (incAllocatedTime (ts_now s) enabled q' (ts_t s)), false)
  | TChange q' => (mkTS q' (ts_t s) (ts_now s) (ts_arm s), false)
  | TAcquire => let r := tryAcquire (ts_now s) (ts_q s) (ts_t s) in (with_time s (ts_q s) (snd r), fst r)
  | TDone => (with_time s (ts_q s) (quotaDone (ts_t s)), false)
  end.

Fixpoint trun (fixed : bool) (s : tstate) (ops : list top) : tstate :=
  match ops with [] => s | o :: r => trun fixed (fst (tstep fixed s o)) r end.

(* a queue as it is created: nothing armed, nothing running *)
Definition tinit (q : queue) (delay now : Z) : tstate := mkTS q (mkQT delay None false) now None.
