(* C07 for queue preemption: soundness of the potential-victim search with respect to the declarative
   eligibility predicate [queue_victim_eligible] of Preempt/Spec.v. *)
From Coq Require Import List ZArith NArith Bool Lia.
From YK Require Import Base.Int64 Base.Res Preempt.Snapshot Preempt.Victims Preempt.ReqNode Preempt.Quota Preempt.Spec Preempt.TreeLemmas.
Import ListNotations.
Open Scope Z_scope.

(* a path of parent/child steps from q down to lq *)
Inductive descent (w : world) : queue -> list queue -> queue -> Prop :=
| d_nil : forall q, descent w q [] q
| d_cons : forall q c path lq, In c (children w q) -> descent w c path lq -> descent w q (c :: path) lq.

Lemma descent_chain : forall w, wf_world w = true -> forall q path lq, descent w q path lq -> In q (w_queues w) ->
  In lq (w_queues w) /\ rev (chain w (q_id lq)) = rev (chain w (q_id q)) ++ path.
Proof.
  intros w Hwf q path lq H. induction H as [q|q c path lq Hc Hd IH]; intro Hq.
  - split; [assumption|]. now rewrite app_nil_r.
  - destruct (children_spec w q c Hc) as [Hcin Hp].
    destruct (IH Hcin) as [Hl He]. split; [assumption|].
    rewrite He. rewrite (chain_child w Hwf c q Hcin Hq Hp). cbn [rev]. now rewrite <- app_assoc.
Qed.

Lemma strip_prefix_app : forall p l, strip_prefix p (p ++ l) = Some l.
Proof. induction p as [|x p IH]; cbn; intro l; [reflexivity|]. now rewrite N.eqb_refl. Qed.

(* what the search guarantees for every reported (queue, victims) pair *)
Lemma findElig_sound : forall fuel w pm q p fenced qid vs,
  In (qid, vs) (findElig fuel w pm q p fenced) ->
  exists path lq thr fd,
    descent w q path lq /\ q_id lq = qid /\ q_leaf lq = true /\ N.eqb (q_ppol lq) 2 = false /\
    bytes_eqb (q_path lq) (aq_path (askq_of w)) = false /\
    walk_down pm p fenced path = Some (thr, fd) /\
    forall a, In a vs -> In a (allocs_of w lq) /\ victim_ok w thr fd a = true.
Proof.
  induction fuel as [|f IH]; intros w pm q p fenced qid vs H; [contradiction|].
  cbn [findElig] in H.
  destruct (bytes_eqb (q_path q) (aq_path (askq_of w))) eqn:Epath; [contradiction|].
  destruct (q_leaf q) eqn:Eleaf.
  - destruct (N.eqb (q_ppol q) 2) eqn:Epol; [contradiction|].
    destruct (within_guarantee _); [contradiction|].
    destruct (filter (victim_ok w p fenced) (allocs_of w q)) as [|v0 vs0] eqn:Ef; [contradiction|].
    destruct H as [H|[]]. inversion H; subst qid vs; clear H.
    exists [], q, p, fenced.
    split; [apply d_nil|]. split; [reflexivity|]. split; [assumption|]. split; [assumption|]. split; [assumption|]. split; [reflexivity|].
    intros a Ha. rewrite <- Ef in Ha. apply filter_In in Ha. exact Ha.
  - apply in_flat_map in H as (c & Hc & H).
    destruct (pm_get pm (q_id c)) as [pc|] eqn:Epm.
    + destruct (IH _ _ _ _ _ _ _ H) as (path & lq & thr & fd & Hd & ? & ? & ? & ? & Hw & Hv).
      exists (c :: path), lq, thr, fd.
      split; [now apply d_cons|]. do 4 (split; [assumption|]). split; [|assumption]. cbn [walk_down]. now rewrite Epm.
    + destruct (N.eqb (q_prpol c) 1) eqn:Epr.
      * destruct (p <? q_offset c) eqn:Eoff; [contradiction|].
        destruct (IH _ _ _ _ _ _ _ H) as (path & lq & thr & fd & Hd & ? & ? & ? & ? & Hw & Hv).
        exists (c :: path), lq, thr, fd.
        split; [now apply d_cons|]. do 4 (split; [assumption|]). split; [|assumption]. cbn [walk_down]. now rewrite Epm, Epr, Eoff.
      * destruct (IH _ _ _ _ _ _ _ H) as (path & lq & thr & fd & Hd & ? & ? & ? & ? & Hw & Hv).
        exists (c :: path), lq, thr, fd.
        split; [now apply d_cons|]. do 4 (split; [assumption|]). split; [|assumption]. cbn [walk_down]. now rewrite Epm, Epr.
Qed.

Lemma fenceRoot_In : forall askres ch pm cur f pm', fenceRoot askres ch pm cur = Some (f, pm') -> In f ch.
Proof.
  induction ch as [|q up IH]; cbn [fenceRoot]; intros pm cur f pm' H; [discriminate|].
  destruct (is_root q || N.eqb (q_ppol q) 1 || fence_by_max askres (q :: up) q).
  - inversion H; subst. now left.
  - right. eapply IH. eassumption.
Qed.

Lemma allocs_of_spec : forall w q a, In a (allocs_of w q) -> In a (w_allocs w) /\ a_queue a = q_id q.
Proof. intros w q a H. unfold allocs_of in H. apply filter_In in H as [Hi He]. split; [assumption|now apply N.eqb_eq]. Qed.

(* ---- victim_eligible: the potential victim set ---- *)
Theorem potential_victim_eligible : forall w pv qid vs a,
  wf_world w = true -> findVictims w = Some pv -> In (qid, vs) pv -> In a vs ->
  In a (w_allocs w) /\ a_queue a = qid /\ queue_victim_eligible w a = true.
Proof.
  intros w pv qid vs a Hwf Hfind Hin Ha.
  unfold findVictims in Hfind. remember (S (length (w_queues w))) as fuel eqn:Efuel. clear Efuel.
  destruct (fence_of w) as [[fence pm]|] eqn:Efence; [|discriminate].
  destruct (pm_get pm (q_id fence)) as [p0|] eqn:Ep0; [|discriminate]. injection Hfind as Hpv. rewrite <- Hpv in Hin. clear Hpv.
  destruct (findElig_sound _ _ _ _ _ _ _ _ Hin) as (path & lq & thr & fd & Hd & Hid & Hleaf & Hpol & Hpath & Hwalk & Hv).
  destruct (Hv a Ha) as [Hao Hok]. destruct (allocs_of_spec _ _ _ Hao) as [Haw Haq].
  assert (In fence (w_queues w)) as Hfin.
  { unfold fence_of in Efence. apply fenceRoot_In in Efence. eapply chain_In; eassumption. }
  destruct (descent_chain w Hwf _ _ _ Hd Hfin) as [Hlq Hrev].
  split; [assumption|]. split; [congruence|].
  unfold victim_ok in Hok. repeat (apply andb_true_iff in Hok as [Hok ?]).
  unfold queue_victim_eligible, victim_base_ok. rewrite Efence.
  rewrite Haq. rewrite (find_queue_wf w Hwf lq Hlq). rewrite Hleaf, Hpol, Ep0, Hrev, strip_prefix_app, Hwalk.
  assert (N.eqb (q_id lq) (ask_qid w) = false) as Hne.
  { apply N.eqb_neq. intro Heq. destruct (wf_ask_queue w Hwf) as (aq & Haq' & _).
    unfold ask_qid in Heq. rewrite <- Heq in Haq'. rewrite (find_queue_wf w Hwf lq Hlq) in Haq'. inversion Haq'; subst aq.
    unfold askq_of in Hpath. rewrite <- Heq in Hpath. rewrite (find_queue_wf w Hwf lq Hlq) in Hpath. cbn in Hpath.
    rewrite bytes_eqb_refl in Hpath. discriminate. }
  rewrite Hne. cbn [negb andb].
  repeat match goal with H : negb _ = true |- _ => apply negb_true_iff in H; rewrite H end.
  match goal with H : MatchAny _ _ = true |- _ => rewrite H end. cbn [negb andb]. assumption.
Qed.

(* ---- every victim of an admitted outcome is a potential victim ---- *)
Lemma fold_subset : forall {S A : Type} (step : S -> A -> S) (proj : S -> list A),
  (forall s x y, In y (proj (step s x)) -> In y (proj s) \/ y = x) ->
  forall l s y, In y (proj (fold_left step l s)) -> In y (proj s) \/ In y l.
Proof.
  intros S A step proj Hs l. induction l as [|x l IH]; cbn; intros s y H; [now left|].
  destruct (IH _ _ H) as [H1|H1]; [|now right; right].
  destruct (Hs _ _ _ H1) as [H2|H2]; [now left|right; left; now symmetry].
Qed.

Lemma in_app_last : forall {A} (l : list A) x y, In y (l ++ [x]) -> In y l \/ y = x.
Proof. intros A l x y H. apply in_app_or in H as [H|[H|[]]]; [now left|right; now symmetry]. Qed.

Lemma insert_by_In : forall {A} (less : A -> A -> bool) x l y, In y (insert_by less x l) -> y = x \/ In y l.
Proof.
  intros A less x l. induction l as [|z l IH]; cbn; intros y H.
  - destruct H as [H|[]]; now left.
  - destruct (less x z).
    + destruct H as [H|H]; [now left|now right].
    + destruct H as [H|H]; [right; now left|]. destruct (IH _ H); [now left|right; now right].
Qed.
Lemma sort_by_In : forall {A} (less : A -> A -> bool) l y, In y (sort_by less l) -> In y l.
Proof.
  intros A less l y H. unfold sort_by in H.
  destruct (fold_subset (fun acc x => insert_by less x acc) (fun s => s)
              (fun s x y H => match insert_by_In less x s y H with or_introl e => or_intror e | or_intror i => or_introl i end) l [] y H) as [[]|H1].
  assumption.
Qed.

Lemma first_step_sub : forall w s x y, In y (fp_head (first_step w s x) ++ fp_tail (first_step w s x)) ->
  In y (fp_head s ++ fp_tail s) \/ y = x.
Proof.
  intros w s x y. unfold first_step. destruct (fp_stop s); [now left|].
  destruct (victim_check w (fp_sn s) x) as [ok sn1]. destruct ok; [|now left].
  destruct (fits_ask_queue w sn1 x); [|now left].
  destruct (EqualsOrEmpty _ _); cbn [fp_head fp_tail]; intro H.
  - rewrite app_assoc in H. apply in_app_last in H. assumption.
  - apply in_app_or in H as [H|H].
    + apply in_app_last in H as [H|H]; [left; apply in_or_app; now left|now right].
    + left. apply in_or_app. now right.
Qed.
Lemma second_step_sub : forall w s x y, In y (sp_res (second_step w s x)) -> In y (sp_res s) \/ y = x.
Proof.
  intros w s x y. unfold second_step. destruct (victim_check w (sp_sn s) x) as [ok sn1].
  destruct ok; cbn [sp_res]; intro H; [now apply in_app_last|now left].
Qed.
Lemma add_step_sub : forall w s x y, In y (ap_victims (add_step w s x)) -> In y (ap_victims s) \/ y = x.
Proof.
  intros w s x y. unfold add_step. destruct (ap_stop s); [now left|].
  destruct (victim_check w (ap_sn s) x) as [ok sn1]. destruct ok; [|now left].
  destruct (fits_ask_queue w sn1 x); [|now left].
  destruct (negb _); cbn [ap_victims]; intro H; [now apply in_app_last|now left].
Qed.
Lemma fin_step_sub : forall w b n s x y, In y (fin_victims (fin_step w b n s x)) -> In y (fin_victims s) \/ y = x.
Proof.
  intros w b n s x y. unfold fin_step. destruct (negb b && negb (N.eqb (a_node x) n)); [now left|].
  cbn [fin_victims]. destruct (StrictlyGreaterThanOnlyExisting _ _); intro H; [now apply in_app_last|now left].
Qed.

Lemma by_node_sub : forall pv n y, In y (by_node pv n) -> In y (flat_pv pv).
Proof. intros pv n y H. unfold by_node in H. apply sort_by_In in H. apply filter_In in H. tauto. Qed.

Lemma calc_sub : forall w avail pot idx vs y, calcVictimsByNode w avail pot = (idx, Some vs) -> In y vs -> In y pot.
Proof.
  intros w avail pot idx vs y H Hy. unfold calcVictimsByNode in H.
  destruct (FitIn avail (ask_res w)); [inversion H; subst; contradiction|].
  set (fp := fold_left (first_step w) pot _) in H.
  destruct (fp_head fp ++ fp_tail fp) as [|h0 ht] eqn:Eh; [discriminate|].
  destruct (sp_idx _ <? 0); [discriminate|]. inversion H; subst vs; clear H.
  unfold second_pass in Hy.
  destruct (fold_subset (second_step w) sp_res (second_step_sub w) _ _ _ Hy) as [[]|K1].
  rewrite <- Eh in K1.
  destruct (fold_subset (first_step w) (fun s => fp_head s ++ fp_tail s) (first_step_sub w) _ _ _ K1) as [[]|K2].
  assumption.
Qed.

Lemma node_checks_sub : forall w pv c y, In c (node_checks w pv) -> In y (pc_victims c) -> In y (flat_pv pv).
Proof.
  intros w pv c y Hc Hy. unfold node_checks in Hc. apply in_flat_map in Hc as (n & _ & Hc).
  destruct (calcVictimsByNode w (n_avail n) (by_node pv (n_id n))) as [idx [vs|]] eqn:E; [|contradiction].
  assert (c = mkPC (n_id n) (n_avail n) idx vs) as ->.
  { destruct vs; [destruct (w_tried w); [contradiction|]|]; destruct Hc as [Hc|[]]; now symmetry. }
  cbn in Hy. eapply by_node_sub. eapply calc_sub; eassumption.
Qed.

Lemma additional_sub : forall w pv nv extra ok y, additionalVictims w pv nv = (extra, ok) -> In y extra -> In y (flat_pv pv).
Proof.
  intros w pv nv extra ok y H Hy. unfold additionalVictims in H.
  set (st := fold_left (add_step w) _ _) in H.
  destruct (ap_victims st) as [|v0 vt] eqn:Ev; inversion H; subst; [contradiction|].
  rewrite <- Ev in Hy. subst st.
  destruct (fold_subset (add_step w) ap_victims (add_step_sub w) _ _ _ Hy) as [[]|H1].
  apply sort_by_In in H1. apply filter_In in H1. tauto.
Qed.

Lemma firstn_In : forall {A} n (l : list A) y, In y (firstn n l) -> In y l.
Proof. intros A n. induction n; destruct l; cbn; intros y H; try contradiction. destruct H; [now left|right; auto]. Qed.

Lemma finalize_sub : forall fixed w n av vs final y, finalize fixed w n av vs = Some final -> In y final -> In y vs.
Proof.
  intros fixed w n av vs final y Ef Ha. unfold finalize in Ef.
  destruct (StrictlyGreaterThanOnlyExisting _ _); [discriminate|].
  destruct (fixed && _ && _); [discriminate|]. injection Ef as <-.
  apply (fold_subset (fin_step w _ _) fin_victims (fin_step_sub w _ _)) in Ha. cbn [fin_victims In] in Ha.
  destruct Ha as [[]|Ha]. assumption.
Qed.

Lemma tryWith_sub : forall fixed w pv c k, In c (node_checks w pv) -> o_ok (tryWith fixed w pv c) = true ->
  In k (o_victims (tryWith fixed w pv c)) -> exists a, a_key a = k /\ In a (flat_pv pv).
Proof.
  intros fixed w pv c k Hc Hok Hk. unfold tryWith in *.
  destruct (answer w c) as [s idx].
  destruct (Z.of_nat (length (pc_victims c)) <=? idx); [discriminate|].
  destruct (additionalVictims w pv _) as [extra ok] eqn:Ea.
  destruct (negb ok); [discriminate|].
  destruct (firstn _ (pc_victims c) ++ extra) as [|v0 vt] eqn:Ev; [discriminate|].
  destruct (finalize fixed w (pc_node c) (pc_avail c) (v0 :: vt)) as [final|] eqn:Ef; [|discriminate].
  cbn in Hk. apply in_map_iff in Hk as (a & Hka & Ha). exists a. split; [assumption|].
  apply (finalize_sub _ _ _ _ _ _ _ Ef) in Ha. rename Ha into H1.
  rewrite <- Ev in H1. apply in_app_or in H1 as [H1|H1].
  - apply firstn_In in H1. eapply node_checks_sub; eassumption.
  - eapply additional_sub; eassumption.
Qed.

Lemma listN_eqb_eq : forall a b, listN_eqb a b = true -> a = b.
Proof.
  induction a as [|x a IH]; destruct b as [|y b]; cbn; intro H; try discriminate; [reflexivity|].
  apply andb_true_iff in H as [H1 H2]. apply N.eqb_eq in H1. f_equal; auto.
Qed.

Lemma tryPreemptionPV_cases : forall fixed w pv o, In o (tryPreemptionPV fixed w pv) -> o_ok o = true ->
  exists c, checkGuarantees w pv = true /\ In c (node_checks w pv) /\ o = tryWith fixed w pv c.
Proof.
  intros fixed w pv o Hin Hok. unfold tryPreemptionPV in Hin.
  destruct (checkGuarantees w pv) eqn:Eg; cbn [negb] in Hin; [|destruct Hin as [<-|[]]; discriminate].
  destruct (filter _ (node_checks w pv)) as [|c0 ct] eqn:Ef; [destruct Hin as [<-|[]]; discriminate|].
  apply in_map_iff in Hin as (c & Ho & Hc). apply filter_In in Hc as [Hc _]. rewrite <- Ef in Hc. apply filter_In in Hc as [Hc _].
  exists c. repeat split; auto.
Qed.
Lemma tryPreemption_cases : forall fixed w o, In o (tryPreemptionF fixed w) -> o_ok o = true ->
  exists pv c, findVictims w = Some pv /\ checkGuarantees w pv = true /\ In c (node_checks w pv) /\ o = tryWith fixed w pv c.
Proof.
  intros fixed w o Hin Hok. unfold tryPreemptionF in Hin.
  destruct (findVictims w) as [pv|]; [|destruct Hin as [<-|[]]; discriminate].
  destruct (tryPreemptionPV_cases fixed w pv o Hin Hok) as (c & H1 & H2 & H3). exists pv, c. auto.
Qed.

Lemma flat_pv_In : forall pv a, In a (flat_pv pv) -> exists qid vs, In (qid, vs) pv /\ In a vs.
Proof. intros pv a H. unfold flat_pv in H. apply in_flat_map in H as ([q vs] & H1 & H2). exists q, vs. auto. Qed.

Lemma find_alloc_nodup : forall l a, nodupN (map a_key l) = true -> In a l -> find_alloc l (a_key a) = Some a.
Proof.
  induction l as [|x t IH]; cbn; intros a Hn Hin; [contradiction|].
  apply andb_true_iff in Hn as [Hx Ht]. apply negb_true_iff in Hx.
  destruct Hin as [->|Hin]; [now rewrite N.eqb_refl|].
  destruct (N.eqb (a_key x) (a_key a)) eqn:E.
  - apply N.eqb_eq in E. exfalso. apply (existsb_eqb_false _ _ Hx). rewrite E. now apply in_map.
  - now apply IH.
Qed.

(* ---- victim_eligible for any outcome the model admits (asker side and victim side) ---- *)
Theorem admitted_victims_eligible : forall w o,
  wf_world w = true -> admits w o = true -> o_ok o = true ->
  asker_ok w = true /\
  forall k, In k (o_victims o) -> exists a, find_alloc (w_allocs w) k = Some a /\ queue_victim_eligible w a = true.
Proof.
  intros w o Hwf Hadm Hok. unfold admits, attempt in Hadm.
  apply existsb_exists in Hadm as (o' & Hin & Heq).
  unfold outcome_eqb in Heq. rewrite Hok in Heq. apply andb_true_iff in Heq as [Heq Hv]. apply andb_true_iff in Heq as [Hb _].
  apply eqb_prop in Hb. apply listN_eqb_eq in Hv.
  destruct (checkPreconditions w) eqn:Epre; [|destruct Hin as [<-|[]]; discriminate].
  split; [exact Epre|]. intros k Hk. rewrite Hv in Hk.
  destruct (tryPreemption_cases true w o' Hin (eq_sym Hb)) as (pv & c & Hf & _ & Hc & ->).
  destruct (tryWith_sub true w pv c k Hc (eq_sym Hb) Hk) as (a & Hka & Ha).
  destruct (flat_pv_In _ _ Ha) as (qid & vs & Hq & Hav).
  destruct (potential_victim_eligible w pv qid vs a Hwf Hf Hq Hav) as (Haw & _ & He).
  exists a. split; [|assumption]. rewrite <- Hka. apply find_alloc_nodup; [apply wf_keys; assumption|assumption].
Qed.

(* an ask triggers preemption at most once: after a committed outcome the preconditions fail *)
Theorem triggers_at_most_once : forall w o, o_ok o = true -> checkPreconditions (apply_outcome w o) = false.
Proof.
  intros w o Hok. unfold apply_outcome. rewrite Hok. unfold checkPreconditions. cbn. now rewrite andb_false_r.
Qed.

(* ---- required node and quota filters ---- *)
Theorem reqnode_victim_ok : forall w nid a, In a (rn_filter w nid) -> In a (w_allocs w) /\ reqnode_victim_eligible w nid a = true.
Proof.
  intros w nid a H. unfold rn_filter, allocs_on in H. apply filter_In in H as [H Hok]. apply filter_In in H as [Hin Hn].
  split; [assumption|]. unfold rn_ok in Hok. repeat (apply andb_true_iff in Hok as [Hok ?]).
  unfold reqnode_victim_eligible, victim_base_ok.
  repeat match goal with H : negb _ = true |- _ => rewrite H; clear H end. rewrite Hn. cbn.
  match goal with H : negb (_ <? _) = true |- _ => apply negb_true_iff in H; apply Z.ltb_ge in H end. now apply Z.leb_le.
Qed.

Lemma same_keys_In : forall a b x, same_keys a b = true -> In x a -> In x b.
Proof.
  intros a b x H Hx. unfold same_keys in H. apply andb_true_iff in H as [H _]. apply andb_true_iff in H as [H _].
  rewrite forallb_forall in H. specialize (H x Hx). apply existsb_exists in H as (y & Hy & E). apply N.eqb_eq in E. now subst.
Qed.

Lemma victims_of_In : forall w keys a, In a (victims_of w keys) -> In (a_key a) keys /\ find_alloc (w_allocs w) (a_key a) = Some a.
Proof.
  intros w keys a H. unfold victims_of in H. apply in_flat_map in H as (k & Hk & H).
  destruct (find_alloc (w_allocs w) k) as [b|] eqn:E; [|contradiction]. destruct H as [<-|[]].
  assert (a_key b = k) as Hkb.
  { clear -E. induction (w_allocs w) as [|x t IH]; cbn in E; [discriminate|]. destruct (N.eqb (a_key x) k) eqn:Ek; [inversion E; subst; now apply N.eqb_eq|auto]. }
  rewrite Hkb. split; assumption.
Qed.

Lemma find_alloc_In : forall l k a, find_alloc l k = Some a -> In a l /\ a_key a = k.
Proof.
  induction l as [|x t IH]; cbn; intros k a H; [discriminate|].
  destruct (N.eqb (a_key x) k) eqn:E; [inversion H; subst; split; [now left|now apply N.eqb_eq]|].
  destruct (IH _ _ H); split; [now right|assumption].
Qed.

Lemma rn_step_sub : forall w s x y, In y (rp_victims (rn_step w s x)) -> In y (rp_victims s) \/ y = x.
Proof.
  intros w s x y. unfold rn_step. destruct (rp_stop s); [now left|].
  destruct (negb _); cbn [rp_victims]; intro H; [now apply in_app_last|now left].
Qed.

Theorem reqnode_outcome_eligible : forall w nid order o k,
  wf_world w = true -> rn_try w nid order = Some o -> In k (o_victims o) ->
  exists a, find_alloc (w_allocs w) k = Some a /\ reqnode_victim_eligible w nid a = true.
Proof.
  intros w nid order o k Hwf H Hk. unfold rn_try, rn_order_ok in H.
  destruct (same_keys order _ && nodupN order) eqn:Es; [|discriminate]. apply andb_true_iff in Es as [Es _].
  inversion H; subst o; clear H. unfold rn_try_order in Hk.
  destruct (rn_victims w (node_avail w nid) (victims_of w order)) as [|v0 vt] eqn:Ev; [contradiction|].
  cbn [o_victims] in Hk. apply in_map_iff in Hk as (a & Hka & Ha). rewrite <- Ev in Ha.
  unfold rn_victims in Ha. set (st := fold_left (rn_step w) _ _) in Ha.
  assert (In a (rp_victims st)) as Hst.
  { destruct (rp_victims st); [contradiction|]. destruct (StrictlyGreaterThanOrEquals _ _); [assumption|contradiction]. }
  subst st. destruct (fold_subset (rn_step w) rp_victims (rn_step_sub w) _ _ _ Hst) as [[]|H1].
  apply victims_of_In in H1 as [Hin Hfa].
  pose proof (same_keys_In _ _ _ Es Hin) as Hf. apply in_map_iff in Hf as (b & Hkb & Hb).
  destruct (reqnode_victim_ok _ _ _ Hb) as [Hbw Hbe].
  rewrite <- Hkb in Hfa. rewrite (find_alloc_nodup _ b (wf_keys w Hwf) Hbw) in Hfa. inversion Hfa; subst b.
  exists a. rewrite <- Hka. split; [|assumption]. apply find_alloc_nodup; [apply wf_keys; assumption|assumption].
Qed.

Theorem quota_victim_ok : forall w q p a, In a (quota_filter w q p) -> In a (w_allocs w) /\ a_queue a = q_id q /\ victim_base_ok a = true.
Proof.
  intros w q p a H. unfold quota_filter in H. destruct (IsZero p); [contradiction|].
  apply filter_In in H as [Hin Hok]. destruct (allocs_of_spec _ _ _ Hin). split; [assumption|]. split; [assumption|].
  unfold qf_ok in Hok. repeat (apply andb_true_iff in Hok as [Hok ?]). unfold victim_base_ok.
  repeat match goal with H : negb _ = true |- _ => rewrite H; clear H end. reflexivity.
Qed.
