(* C08 for quota change preemption: claimed <= preemptable <= excess over the lowered maximum, only child queues
   above their guaranteed share get a share, the trigger runs only when allowed, no nil dereference (fixed code). *)
From Coq Require Import List ZArith NArith Bool Lia.
From YK Require Import Base.Int64 Base.F64 Base.Res Preempt.Snapshot Preempt.Victims Preempt.ReqNode Preempt.Quota Preempt.Spec
  Preempt.TreeLemmas Preempt.VictimsProofs.
Import ListNotations.
Open Scope Z_scope.

Lemma get_In : forall r k v, get r k = Some v -> In (k, v) r.
Proof.
  induction r as [|[k' v'] t IH]; cbn; intros k v H; [discriminate|].
  destruct (N.eqb k k') eqn:E; [apply N.eqb_eq in E; inversion H; subst; now left|right; auto].
Qed.
Lemma get_nodup : forall r k v, NoDup (keys r) -> In (k, v) r -> get r k = Some v.
Proof.
  induction r as [|[k' v'] t IH]; cbn; intros k v Hn Hin; [contradiction|]. inversion Hn; subst.
  destruct Hin as [Hin|Hin]; [inversion Hin; subst; now rewrite N.eqb_refl|].
  destruct (N.eqb k k') eqn:E; [|auto]. apply N.eqb_eq in E. subst k'. exfalso. apply H1.
  unfold keys. change k with (fst (k, v)). now apply in_map.
Qed.

(* StrictlyGreaterThanOrEqualsOnlyExisting: every common type is covered *)
Lemma sgtoe_existing_le : forall p t k v tv,
  StrictlyGreaterThanOrEqualsOnlyExisting p t = true -> In (k, v) (oget p) -> get (oget t) k = Some tv -> tv <= v.
Proof.
  intros p t k v tv H Hin Hget. unfold StrictlyGreaterThanOrEqualsOnlyExisting, internalStrictlyOnlyExisting in H.
  cbv zeta in H.
  destruct (existsb (fun kv => match get (oget t) (fst kv) with Some val => snd kv <? val | None => false end) (oget p)) eqn:E; [discriminate|].
  assert (forall x, In x (oget p) -> (match get (oget t) (fst x) with Some val => snd x <? val | None => false end) = false) as Hall.
  { intros x Hx. destruct (match get (oget t) (fst x) with Some val => snd x <? val | None => false end) eqn:Ex; [|reflexivity].
    assert (existsb (fun kv => match get (oget t) (fst kv) with Some val => snd kv <? val | None => false end) (oget p) = true) as C
      by (apply existsb_exists; exists x; auto). congruence. }
  specialize (Hall (k, v) Hin). cbn [fst snd] in Hall. rewrite Hget in Hall. apply Z.ltb_ge in Hall. assumption.
Qed.

(* ---- claimed_le_excess ---- *)
Lemma sgtoe_claimed_within : forall p t, StrictlyGreaterThanOrEqualsOnlyExisting p t = true -> claimed_within p t = true.
Proof.
  intros p t H. unfold claimed_within. apply forallb_forall. intros [k v] Hin. cbn [fst snd].
  destruct (get (oget t) k) as [c|] eqn:E; [|reflexivity]. apply Z.leb_le. eapply sgtoe_existing_le; eassumption.
Qed.

(* FULL STATEMENT (oracle [claimed_within (lb_pre l) (lb_claimed l)] on every observed leaf):
     forall p sorted, let st := quota_victims p sorted in qp_victims st <> [] -> claimed_within p (qp_total st) = true.
   PROVED PART: the total is within the preemptable amount right after every acceptance.  Missing for the full
   statement: after a REJECTED candidate the code restores the total with SubFrom (AddTo total v) v, which is the
   old total only when the addition did not saturate and which leaves zero entries for new types. *)
Theorem claimed_le_excess_partial : forall p st v,
  qp_victims (quota_step p st v) <> qp_victims st -> claimed_within p (qp_total (quota_step p st v)) = true.
Proof.
  intros p st v H. unfold quota_step in *. destruct (negb (FitInMaxUndef p (a_res v))); [congruence|].
  destruct (StrictlyGreaterThanOrEqualsOnlyExisting p (AddTo (qp_total st) (a_res v))) eqn:E; cbn [qp_victims qp_total] in *; [|congruence].
  now apply sgtoe_claimed_within.
Qed.
(* when no candidate is rejected after it was added (each one is skipped by FitInMaxUndef or accepted) the full
   statement holds *)
Theorem claimed_le_excess_no_reject : forall p sorted,
  (forall st v, In v sorted -> FitInMaxUndef p (a_res v) = true -> StrictlyGreaterThanOrEqualsOnlyExisting p (AddTo (qp_total st) (a_res v)) = true) ->
  let st := quota_victims p sorted in qp_victims st <> [] -> claimed_within p (qp_total st) = true.
Proof.
  intros p sorted Hacc. unfold quota_victims.
  assert (forall l st0, (forall v, In v l -> In v sorted) ->
            (qp_victims st0 = [] \/ claimed_within p (qp_total st0) = true) ->
            qp_victims (fold_left (quota_step p) l st0) = [] \/ claimed_within p (qp_total (fold_left (quota_step p) l st0)) = true) as G.
  { induction l as [|v l IH]; intros st0 Hsub H0; cbn [fold_left]; [assumption|]. apply IH; [intros; apply Hsub; now right|].
    unfold quota_step. destruct (FitInMaxUndef p (a_res v)) eqn:Ef; cbn [negb]; [|assumption].
    rewrite (Hacc st0 v (Hsub v (or_introl eq_refl)) Ef). cbn [qp_victims qp_total]. right. apply sgtoe_claimed_within. now apply Hacc; [apply Hsub; left|]. }
  cbv zeta. intros Hne. destruct (G sorted (mkQP (Some []) []) (fun v H => H) (or_introl eq_refl)) as [H|H]; [contradiction|assumption].
Qed.

(* ---- claimed_le_excess, second half: the preemptable amount of the queue is at most its excess over the maximum ---- *)
Lemma zmin_le_l : forall a b, zmin a b <= a.
Proof. intros. unfold zmin. destruct (a <? b) eqn:E; [lia|apply Z.ltb_ge in E; lia]. Qed.

Theorem preemptable_within_excess : forall w q p,
  NoDup (keys (oget (q_max q))) -> setPreemptable w q = Some p -> within_excess q (Some p) = true.
Proof.
  intros w q p Hnd H. unfold setPreemptable in H.
  set (used := SubOnlyExisting (q_alloc q) (q_preempting q)) in *.
  destruct (IsEmpty (q_max q) || IsEmpty used) eqn:Ee; [discriminate|]. apply orb_false_iff in Ee as [Em Eu].
  destruct (q_max q) as [m|] eqn:Emax; [|discriminate]. destruct used as [u|] eqn:Eused; [|discriminate].
  cbn [SubOnlyExisting ComponentWiseMinOnlyExisting] in H.
  match type of H with (if IsEmpty ?x then _ else _) = _ => destruct (IsEmpty x); [discriminate|] end.
  injection H as <-. unfold within_excess. fold used. rewrite Eused. cbn [oget].
  apply forallb_forall. intros [k pv] Hin. cbn [fst snd].
  apply in_map_iff in Hin as ([k' nv] & Heq & Hin). cbn [fst snd] in Heq. injection Heq as -> <-.
  unfold abs_negatives in Hin. apply in_map_iff in Hin as ([k2 d] & Heq & Hin). cbn [fst snd] in Heq. injection Heq as -> <-.
  apply filter_In in Hin as [Hin Hneg]. cbn [snd] in Hneg. cbn [oget] in Hin.
  apply in_map_iff in Hin as ([k3 mv] & Heq & Hin). cbn [fst snd] in Heq. injection Heq as -> <-.
  cbn [oget] in Hnd. rewrite Emax. cbn [oget]. rewrite (get_nodup m k mv Hnd Hin). rewrite Hneg. cbn [andb].
  apply Z.leb_le. destruct (get _ k); [apply zmin_le_l|lia].
Qed.

(* ---- only_managed_enabled_elapsed ---- *)
Theorem only_managed_enabled_elapsed : forall now q t t', tryAcquire now q t = (true, t') -> quota_may_run now q t = true.
Proof.
  intros now q t t' H. unfold tryAcquire in H. unfold quota_may_run, above_max.
  destruct (q_managed q); cbn [negb orb andb] in *; [|discriminate].
  destruct (qt_running t); cbn [negb] in *; [discriminate|].
  destruct (StrictlyGreaterThanOrEqualsOnlyExisting (q_max q) (q_alloc q)); [discriminate|]. cbn [negb andb].
  destruct (qt_start t) as [s|]; [|discriminate]. destruct (now <? s) eqn:E; [discriminate|]. apply Z.leb_le. apply Z.ltb_ge in E. lia.
Qed.
(* a start time is only ever armed as "now + delay" with a positive delay, and moved by the change of the delay *)
Theorem arm_is_now_plus_delay : forall now q oldMax oldDelay t s,
  qt_start t = None -> qt_start (setPreemptionTime now q oldMax oldDelay t) = Some s -> s = now + qt_delay t /\ qt_delay t <> 0.
Proof.
  intros now q oldMax oldDelay t s Hn H. unfold setPreemptionTime, setPreemptionTimeF in H.
  destruct (qt_running t); [congruence|]. destruct (qt_delay t =? 0) eqn:Ed; [cbn in H; discriminate|]. apply Z.eqb_neq in Ed.
  destruct (IsZero (q_max q)); [cbn in H; discriminate|].
  destruct (StrictlyGreaterThanOrEqualsOnlyExisting (q_max q) (q_alloc q)); [cbn in H; discriminate|].
  rewrite Hn in H.
  destruct (Equals oldMax (q_max q)).
  - destruct ((oldDelay =? 0) && (0 <? qt_delay t)); cbn in H; [inversion H; auto|congruence].
  - destruct (StrictlyGreaterThan oldMax (q_max q)); [cbn in H; inversion H; auto|].
    cbn [orb] in H. congruence.
Qed.
Theorem rearm_is_now_plus_delay : forall now enabled q t s,
  qt_start t = None -> qt_start (incAllocatedTime now enabled q t) = Some s -> s = now + qt_delay t /\ qt_delay t <> 0 /\ enabled = true /\ q_managed q = true.
Proof.
  intros now enabled q t s Hn H. unfold incAllocatedTime in H. rewrite Hn in H.
  destruct enabled; cbn [negb orb] in H; [|congruence]. destruct (q_managed q); cbn [negb orb] in H; [|congruence].
  destruct (qt_delay t =? 0) eqn:Ed; cbn [orb] in H; [congruence|]. apply Z.eqb_neq in Ed.
  destruct (IsZero (q_max q) || _); [congruence|]. cbn in H. inversion H. auto.
Qed.

(* ---- never_below_guarantee: only children above their guaranteed share receive a share ---- *)
Lemma child_excess_above : forall pinned c p, child_excessF pinned c = Some p -> at_or_below_guarantee c = false.
Proof. intros pinned c p H. unfold child_excessF in H. unfold at_or_below_guarantee. destruct (_ || _); [discriminate|reflexivity]. Qed.

Definition share_ok (w : world) (ir : N * res) : Prop :=
  exists c, In c (w_queues w) /\ q_id c = fst ir /\ q_leaf c = true /\ at_or_below_guarantee c = false.

Lemma dist_step_crash : forall rec total pp cs, fold_left (dist_step rec total pp) cs QCrash = QCrash.
Proof. intros. induction cs as [|c cs IH]; cbn; auto. Qed.

Lemma dist_fold_shares : forall w rec total pp cs l0 l1,
  (forall cp, In cp cs -> In (fst cp) (w_queues w) /\ at_or_below_guarantee (fst cp) = false) ->
  (forall c p l, rec c p = QVal l -> forall x, In x l -> share_ok w x) ->
  (forall x, In x l0 -> share_ok w x) ->
  fold_left (dist_step rec total pp) cs (QVal l0) = QVal l1 -> forall x, In x l1 -> share_ok w x.
Proof.
  intros w rec total pp cs. induction cs as [|cp cs IH]; intros l0 l1 Hcs Hrec H0 Hf x Hx; cbn [fold_left] in Hf.
  - inversion Hf; subst. auto.
  - destruct (Hcs cp (or_introl eq_refl)) as [Hq Hab]. unfold dist_step at 2 in Hf. cbv zeta in Hf.
    destruct (q_leaf (fst cp)) eqn:El.
    + eapply (IH _ _ (fun y Hy => Hcs y (or_intror Hy)) Hrec); [|exact Hf|exact Hx].
      intros y Hy. apply in_app_or in Hy as [Hy|[<-|[]]]; [auto|]. exists (fst cp). cbn [fst]. auto.
    + destruct (rec (fst cp) (Some (child_share (snd cp) total pp))) as [l'|] eqn:Ed.
      * eapply (IH _ _ (fun y Hy => Hcs y (or_intror Hy)) Hrec); [|exact Hf|exact Hx].
        intros y Hy. apply in_app_or in Hy as [Hy|Hy]; [auto|]. eapply Hrec; eassumption.
      * rewrite dist_step_crash in Hf. discriminate.
Qed.

Lemma excess_children_spec : forall pinned w q cp, In cp (excess_childrenF pinned w q) ->
  In (fst cp) (w_queues w) /\ at_or_below_guarantee (fst cp) = false.
Proof.
  intros pinned w q cp Hcp. unfold excess_childrenF in Hcp. apply in_flat_map in Hcp as (c & Hc & Hcp).
  destruct (child_excessF pinned c) as [p|] eqn:E; [|contradiction]. destruct Hcp as [<-|[]]. cbn [fst].
  split; [now apply (children_spec w q c)|eapply child_excess_above; eassumption].
Qed.

Lemma distribute_shares : forall pinned fuel w q pp l,
  distributeF pinned fuel w q pp = QVal l -> forall ir, In ir l -> share_ok w ir.
Proof.
  intros pinned fuel. induction fuel as [|f IH]; intros w q pp l H ir Hin; cbn [distributeF] in H.
  - inversion H; subst. contradiction.
  - pose proof (excess_children_spec pinned w q) as Hcs.
    destruct (excess_childrenF pinned w q) as [|c0 ct]; [inversion H; subst; contradiction|].
    destruct pp as [pp|]; [|destruct pinned; [discriminate|inversion H; subst; contradiction]].
    cbv zeta in H. eapply (dist_fold_shares w _ _ _ _ [] l Hcs); [|intros x []|exact H|exact Hin].
    intros c p l' Hl' x Hx. eapply IH; eassumption.
Qed.

Theorem never_below_guarantee : forall w q l, wf_world w = true -> q_leaf q = false ->
  quota_contexts w q = QVal l -> forall ir, In ir l ->
  exists c, In c (w_queues w) /\ q_id c = fst ir /\ q_leaf c = true /\ at_or_below_guarantee c = false.
Proof.
  intros w q l Hwf Hleaf H ir Hin. unfold quota_contexts, quota_contextsF in H. rewrite Hleaf in H.
  destruct (distributeF false _ w q (setPreemptable w q)) as [l'|] eqn:Ed; [|discriminate]. inversion H; subst l.
  apply in_map_iff in Hin as ([id r] & <- & Hin). cbn [fst]. exact (distribute_shares false _ w q _ l' Ed (id, r) Hin).
Qed.

(* ---- no nil dereference in the fixed code; refuted for the pinned code ---- *)
Lemma dist_fold_no_crash : forall rec total pp cs l0,
  (forall c p, rec c p <> QCrash) -> fold_left (dist_step rec total pp) cs (QVal l0) <> QCrash.
Proof.
  intros rec total pp cs. induction cs as [|cp cs IH]; intros l0 Hrec; cbn [fold_left]; [discriminate|].
  unfold dist_step at 2. cbv zeta. destruct (q_leaf (fst cp)); [now apply IH|].
  destruct (rec (fst cp) (Some (child_share (snd cp) total pp))) eqn:Ed; [now apply IH|]. exfalso. exact (Hrec _ _ Ed).
Qed.
Lemma distribute_no_crash : forall fuel w q pp, distributeF false fuel w q pp <> QCrash.
Proof.
  induction fuel as [|f IH]; intros w q pp; cbn [distributeF]; [discriminate|].
  destruct (excess_childrenF false w q) as [|c0 ct]; [discriminate|].
  destruct pp as [pp|]; [|discriminate]. cbv zeta. apply dist_fold_no_crash. intros c p. apply IH.
Qed.
Theorem quota_never_crashes : forall w q, quota_contexts w q <> QCrash.
Proof.
  intros w q. unfold quota_contexts, quota_contextsF. destruct (q_leaf q); [discriminate|].
  destruct (distributeF false _ w q (setPreemptable w q)) eqn:E; [discriminate|]. exfalso. exact (distribute_no_crash _ _ _ _ E).
Qed.

(* pinned code (before commit 832f432): parent queue root.abc with max {r1:3}, usage {r1:4} all of it already
   marked for preemption, child root.abc.e with usage and no guarantee *)
Definition qp_root : bytes := [114;111;111;116]%N.
Definition qp_world : world :=
  mkW [mkQ 0%N None qp_root false true None None (Some [(1%N, 4)]) (Some [(1%N, 4)]) 0%N 0%N 0 30000;
       mkQ 1%N (Some 0%N) (qp_root ++ [46;97]%N) false true None (Some [(1%N, 3)]) (Some [(1%N, 4)]) (Some [(1%N, 4)]) 0%N 0%N 0 30000;
       mkQ 2%N (Some 1%N) (qp_root ++ [46;97;46;101]%N) true true None None (Some [(1%N, 4)]) (Some [(1%N, 4)]) 0%N 0%N 0 30000]
      [mkA 0%N 0%N 2%N 0%N (Some [(1%N, 4)]) 0 false false false false true 10]
      (mkK 1000%N 1%N 2%N (Some [(1%N, 1)]) 0 true None false 1000000 None)
      [mkNd 0%N (Some [(1%N, 36)]) (Some [(1%N, 40)]) true] 15000 [] false.
Theorem quota_never_crashes_pinned_refuted :
  exists w q, wf_world w = true /\ In q (w_queues w) /\ quota_contextsF true w q = QCrash.
Proof.
  exists qp_world, (mkQ 1%N (Some 0%N) (qp_root ++ [46;97]%N) false true None (Some [(1%N, 3)]) (Some [(1%N, 4)]) (Some [(1%N, 4)]) 0%N 0%N 0 30000).
  vm_compute. repeat split; auto.
Qed.
Example quota_fixed_example : quota_contexts qp_world (mkQ 1%N (Some 0%N) (qp_root ++ [46;97]%N) false true None (Some [(1%N, 3)]) (Some [(1%N, 4)]) (Some [(1%N, 4)]) 0%N 0%N 0 30000) = QVal [].
Proof. vm_compute. reflexivity. Qed.

(* a non-trivial quota run: parent max lowered to 20 with usage 30, three children; the two above their guarantee
   share the 10 to be claimed; what is claimed stays within the share *)
Definition qx_world : world :=
  mkW [mkQ 0%N None qp_root false true None None (Some [(0%N, 30)]) (Some []) 0%N 0%N 0 30000;
       mkQ 1%N (Some 0%N) (qp_root ++ [46;112]%N) false true None (Some [(0%N, 20)]) (Some [(0%N, 30)]) (Some []) 0%N 0%N 0 30000;
       mkQ 2%N (Some 1%N) (qp_root ++ [46;112;46;120]%N) true true (Some [(0%N, 4)]) None (Some [(0%N, 12)]) (Some []) 0%N 0%N 0 30000;
       mkQ 3%N (Some 1%N) (qp_root ++ [46;112;46;121]%N) true true (Some [(0%N, 2)]) None (Some [(0%N, 10)]) (Some []) 0%N 0%N 0 30000;
       mkQ 4%N (Some 1%N) (qp_root ++ [46;112;46;122]%N) true true (Some [(0%N, 30)]) None (Some [(0%N, 8)]) (Some []) 0%N 0%N 0 30000]
      [mkA 0%N 0%N 2%N 0%N (Some [(0%N, 6)]) 0 false false false false false 10;
       mkA 1%N 0%N 2%N 0%N (Some [(0%N, 6)]) 0 false false false false false 11;
       mkA 2%N 1%N 3%N 0%N (Some [(0%N, 5)]) 0 false false false false false 12;
       mkA 3%N 1%N 3%N 0%N (Some [(0%N, 5)]) 3 false false false false false 13;
       mkA 4%N 2%N 4%N 0%N (Some [(0%N, 8)]) 0 false false false false false 14]
      (mkK 1000%N 2%N 4%N (Some [(0%N, 1)]) 0 true None false 1000000 None)
      [mkNd 0%N (Some [(0%N, 30)]) (Some [(0%N, 60)]) true] 15000 [] false.
Example quota_example :
  match find_queue (w_queues qx_world) 1%N with
  | Some q => setPreemptable qx_world q = Some [(0%N, 10)] /\
              quota_contexts qx_world q = QVal [(2%N, Some [(0%N, 5)]); (3%N, Some [(0%N, 5)])] /\
              within_excess q (Some [(0%N, 10)]) = true
  | None => False
  end.
Proof. vm_compute. auto. Qed.

(* pinned code (before commit 78b7ad8): the only child has a guarantee for r1 only, so r0 is not limited at all and more
   r0 is claimed than the parent exceeds its maximum by (top preemptable {r0:2, r1:10}, claimed {r0:16, r1:10}) *)
Definition qs_pod (k : N) (age : Z) : alloc := mkA k 0%N 2%N 0%N (Some [(0%N, 8); (1%N, 5)]) 0 false false false false false age.
Definition qs_parent : queue :=
  mkQ 1%N (Some 0%N) (qp_root ++ [46;112]%N) false true None (Some [(0%N, 30); (1%N, 10)]) (Some [(0%N, 32); (1%N, 20)]) (Some []) 0%N 0%N 0 30000.
Definition qs_leaf : queue :=
  mkQ 2%N (Some 1%N) (qp_root ++ [46;112;46;99]%N) true true (Some [(1%N, 2)]) None (Some [(0%N, 32); (1%N, 20)]) (Some []) 0%N 0%N 0 30000.
Definition qs_world : world :=
  mkW [mkQ 0%N None qp_root false true None None (Some [(0%N, 32); (1%N, 20)]) (Some []) 0%N 0%N 0 30000; qs_parent; qs_leaf]
      [qs_pod 0%N 10; qs_pod 1%N 11; qs_pod 2%N 12; qs_pod 3%N 13]
      (mkK 1000%N 0%N 2%N (Some [(0%N, 1)]) 0 true None false 1000000 None)
      [mkNd 0%N (Some [(0%N, 28); (1%N, 40)]) (Some [(0%N, 60); (1%N, 60)]) true] 15000 [] false.
Theorem claimed_le_excess_pinned_refuted :
  exists w q lq p order, wf_world w = true /\ In q (w_queues w) /\ In lq (w_queues w) /\
    quota_contextsF true w q = QVal [(q_id lq, p)] /\ quota_order_ok w lq p order = true /\
    claimed_within (setPreemptable w q) (lo_claimed (quota_leaf_order w lq p order)) = false.
Proof.
  exists qs_world, qs_parent, qs_leaf, (Some [(1%N, 10)]), [3%N; 2%N; 1%N; 0%N]. vm_compute. repeat split; auto.
Qed.
(* the fixed code gives the child a share for both types; no pod fits the r0 share, nothing is preempted *)
Example claimed_le_excess_fixed_example :
  quota_contexts qs_world qs_parent = QVal [(2%N, Some [(1%N, 10); (0%N, 2)])] /\
  lo_victims (quota_leaf_order qs_world qs_leaf (Some [(1%N, 10); (0%N, 2)]) [3%N; 2%N; 1%N; 0%N]) = [].
Proof. vm_compute. auto. Qed.
