(* Preemption model, part 2: queue preemption (pkg/scheduler/objects/queue.go: findPreemptionFenceRoot,
   FindEligiblePreemptionVictims, findEligiblePreemptionVictims; preemption.go: CheckPreconditions,
   checkPreemptionQueueGuarantees, sortVictimsForPreemption, calculateVictimsByNode, tryNodes,
   checkPreemptionPredicates, calculateAdditionalVictims, TryPreemption).  Definitions only.

   Go maps are iterated in the order of the world lists (queues by id, allocations by key); where the Go
   result depends on the iteration order the model returns the LIST of admissible results (tryPreemption) and
   the checker validates the observed decision against it.  Nodes carry no reservations in this model (the
   reservation cancelling branch of initWorkingState is not covered). *)
From Coq Require Import List ZArith NArith Bool.
From YK Require Import Base.Int64 Base.Res Preempt.Snapshot.
Import ListNotations.
Open Scope Z_scope.

Definition ask_res (w : world) : ores := k_res (w_ask w).
Definition ask_qid (w : world) : N := k_queue (w_ask w).
Definition Zero : ores := Some [].

(* ---------------- Queue.GetMaxResource ---------------- *)
Fixpoint getMax (ch : list queue) : ores :=
  match ch with
  | [] => None
  | q :: up =>
      match getMax up with
      | None => q_max q
      | Some l => match q_max q with None => Some l | Some _ => ComponentWiseMin (Some l) (q_max q) end
      end
  end.

(* ---------------- findPreemptionFenceRoot ---------------- *)
Definition pmap := list (N * Z).
Fixpoint pm_get (pm : pmap) (id : N) : option Z :=
  match pm with [] => None | (i, p) :: t => if N.eqb i id then Some p else pm_get t id end.

Definition fence_by_max (askres : ores) (ch : list queue) (q : queue) : bool :=
  match getMax ch with
  | Some [] => false
  | Some m => negb (StrictlyGreaterThanOrEqualsOnlyExisting (Some m) (Some (Add (q_alloc q) askres)))
  | None => false
  end.

Fixpoint fenceRoot (askres : ores) (ch : list queue) (pm : pmap) (cur : Z) : option (queue * pmap) :=
  match ch with
  | [] => None
  | q :: up =>
      let cur := if N.eqb (q_prpol q) 1 then q_offset q else cur + q_offset q in
      let pm := (q_id q, cur) :: pm in
      if is_root q || N.eqb (q_ppol q) 1 || fence_by_max askres ch q then Some (q, pm)
      else fenceRoot askres up pm cur
  end.

(* ---------------- findEligiblePreemptionVictims ---------------- *)
Definition victim_ok (w : world) (askPrio : Z) (fenced : bool) (a : alloc) : bool :=
  MatchAny (ask_res w) (a_res a) && negb (a_req a) && negb (a_released a) && negb (a_preempted a) &&
  (fenced || (a_prio a <=? askPrio)).

Definition within_guarantee (rem : ores) : bool :=
  match rem with Some _ => StrictlyGreaterThanOrEquals rem Zero | None => false end.

Definition pvs := list (N * list alloc).

Fixpoint findElig (fuel : nat) (w : world) (pm : pmap) (q : queue) (askPrio : Z) (fenced : bool) : pvs :=
  match fuel with
  | O => []
  | S f =>
      if bytes_eqb (q_path q) (aq_path (askq_of w)) then [] else
      if q_leaf q then
        if N.eqb (q_ppol q) 2 then [] else
        if within_guarantee (remainingOf w (init_snaps w) (q_id q)) then [] else
        match filter (victim_ok w askPrio fenced) (allocs_of w q) with
        | [] => []
        | vs => [(q_id q, vs)]
        end
      else
        flat_map (fun c =>
                    match pm_get pm (q_id c) with
                    | Some p => findElig f w pm c p fenced
                    | None =>
                        if N.eqb (q_prpol c) 1 then
                          (if askPrio <? q_offset c then [] else findElig f w pm c askPrio true)
                        else findElig f w pm c (askPrio - q_offset c) fenced
                    end) (children w q)
  end.

Definition fence_of (w : world) : option (queue * pmap) :=
  fenceRoot (ask_res w) (chain w (ask_qid w)) [] (k_prio (w_ask w)).

Definition findVictims (w : world) : option pvs :=
  match fence_of w with
  | None => None
  | Some (fence, pm) =>
      match pm_get pm (q_id fence) with
      | None => None
      | Some p => Some (findElig (S (length (w_queues w))) w pm fence p false)
      end
  end.

Definition flat_pv (pv : pvs) : list alloc := flat_map snd pv.

(* ---------------- CheckPreconditions ---------------- *)
Definition ask_delay (w : world) : Z :=
  match find_queue (w_queues w) (ask_qid w) with Some q => q_delay q | None => 0 end.
Definition checkPreconditions (w : world) : bool :=
  let k := w_ask w in
  k_other k && negb (k_triggered k) && (match k_req k with None => true | Some _ => false end) &&
  negb (k_age k <? ask_delay w) &&
  (match k_checkage k with None => true | Some c => negb (c <? w_freq w) end).

(* ---------------- checkPreemptionQueueGuarantees ---------------- *)
Fixpoint guar_loop (w : world) (sn : snaps) (l : list alloc) : bool :=
  match l with
  | [] => false
  | a :: t =>
      let sn := RemoveAllocation w sn (a_queue a) (a_res a) in
      match remainingOf w sn (ask_qid w) with
      | Some r => if isAskQueueUnderGuaranteed (ask_res w) (Some r) then true else guar_loop w sn t
      | None => guar_loop w sn t
      end
  end.
Definition ask_fits_remaining (w : world) : bool :=
  match remainingOf w (init_snaps w) (ask_qid w) with
  | Some r => FitInActual (Some r) (ask_res w)
  | None => false
  end.
Definition checkGuarantees (w : world) (pv : pvs) : bool :=
  if ask_fits_remaining w then true
  else guar_loop w (AddAllocation w (Duplicate (init_snaps w)) (ask_qid w) (ask_res w)) (flat_pv pv).

(* ---------------- sorting ---------------- *)
Fixpoint insert_by {A} (less : A -> A -> bool) (x : A) (l : list A) : list A :=
  match l with
  | [] => [x]
  | y :: t => if less x y then x :: l else y :: insert_by less x t
  end.
(* stable: an element goes behind the earlier elements it is not less than *)
Definition sort_by {A} (less : A -> A -> bool) (l : list A) : list A :=
  fold_left (fun acc x => insert_by less x acc) l [].

(* sortVictimsForPreemption: opted-in first, non-originators next, newest first *)
Definition lessV (l r : alloc) : bool :=
  if a_self l && negb (a_self r) then true else
  if a_self r && negb (a_self l) then false else
  if a_orig l && negb (a_orig r) then false else
  if a_orig r && negb (a_orig l) then true else
  a_age l <? a_age r.
(* compareAllocationLess *)
Definition scoreAllocation (a : alloc) : Z :=
  (if a_orig a then 2 ^ 33 else 0) + (if a_self a then 0 else 2 ^ 34).
Definition lessA (l r : alloc) : bool :=
  if negb (scoreAllocation l =? scoreAllocation r) then scoreAllocation l <? scoreAllocation r
  else a_age l <? a_age r.

(* ---------------- initWorkingState ---------------- *)
Definition usable_node (w : world) (n : node) : bool := n_sched n && FitIn (n_total n) (ask_res w).
Definition usable_nodes (w : world) : list node := filter (usable_node w) (w_nodes w).
Definition by_node (pv : pvs) (nid : N) : list alloc :=
  sort_by lessV (filter (fun a => N.eqb (a_node a) nid) (flat_pv pv)).

(* ---------------- calculateVictimsByNode ---------------- *)
(* the queue test applied to a candidate: remaining guaranteed before, preemptable after the removal *)
Definition victim_check (w : world) (sn : snaps) (v : alloc) : bool * snaps :=
  let rem := remainingOf w sn (a_queue v) in
  let sn1 := RemoveAllocation w sn (a_queue v) (a_res v) in
  let pre := preemptableOf w sn1 (a_queue v) in
  (StrictlyGreaterThanOrEquals pre Zero &&
   (match rem with None => true | Some r => isVictimQueueOverGuaranteed (ask_res w) (Some r) end), sn1).

Definition fits_ask_queue (w : world) (sn : snaps) (v : alloc) : bool :=
  match remainingOf w sn (ask_qid w) with
  | Some r => FitInActual (Some r) (a_res v)
  | None => false
  end.

Record fpass := mkFP { fp_sn : snaps; fp_avail : ores; fp_head : list alloc; fp_tail : list alloc; fp_stop : bool }.
Definition first_step (w : world) (st : fpass) (v : alloc) : fpass :=
  if fp_stop st then st else
  let '(ok, sn1) := victim_check w (fp_sn st) v in
  if ok then
    if fits_ask_queue w sn1 v then
      let sn2 := AddAllocation w sn1 (ask_qid w) (a_res v) in
      let shortfall := SubEliminateNegative (ask_res w) (fp_avail st) in
      let newAvail := Add (fp_avail st) (a_res v) in
      let newShort := SubEliminateNegative (ask_res w) (Some newAvail) in
      if EqualsOrEmpty (Some shortfall) (Some newShort) then
        let sn3 := RemoveAllocation w sn2 (ask_qid w) (a_res v) in
        mkFP (AddAllocation w sn3 (a_queue v) (a_res v)) (fp_avail st) (fp_head st) (fp_tail st ++ [v]) false
      else mkFP sn2 (AddTo (fp_avail st) (a_res v)) (fp_head st ++ [v]) (fp_tail st) false
    else mkFP (AddAllocation w sn1 (a_queue v) (a_res v)) (fp_avail st) (fp_head st) (fp_tail st) true
  else mkFP (AddAllocation w sn1 (a_queue v) (a_res v)) (fp_avail st) (fp_head st) (fp_tail st) false.

Record spass := mkSP { sp_sn : snaps; sp_avail : ores; sp_res : list alloc; sp_idx : Z }.
Definition second_step (w : world) (st : spass) (v : alloc) : spass :=
  let '(ok, sn1) := victim_check w (sp_sn st) v in
  if ok then
    let av := AddTo (sp_avail st) (a_res v) in
    let idx := if FitIn av (ask_res w) && (sp_idx st <? 0) then Z.of_nat (length (sp_res st)) else sp_idx st in
    mkSP sn1 av (sp_res st ++ [v]) idx
  else mkSP (AddAllocation w sn1 (a_queue v) (a_res v)) (sp_avail st) (sp_res st) (sp_idx st).

Definition second_pass (w : world) (avail : ores) (head : list alloc) : spass :=
  fold_left (second_step w) head (mkSP (Duplicate (init_snaps w)) avail [] (-1)).

Definition calcVictimsByNode (w : world) (avail : ores) (potential : list alloc) : Z * option (list alloc) :=
  if FitIn avail (ask_res w) then (-1, Some []) else
  let fp := fold_left (first_step w) potential (mkFP (Duplicate (init_snaps w)) avail [] [] false) in
  let head := fp_head fp ++ fp_tail fp in
  match head with
  | [] => (-1, None)
  | _ =>
      let sp := second_pass w avail head in
      if sp_idx sp <? 0 then (-1, None) else (sp_idx sp, Some (sp_res sp))
  end.

(* ---------------- tryNodes / checkPreemptionPredicates ---------------- *)
Record pcheck := mkPC { pc_node : N; pc_avail : ores; pc_idx : Z; pc_victims : list alloc }.

Definition node_checks (w : world) (pv : pvs) : list pcheck :=
  flat_map (fun n =>
              match calcVictimsByNode w (n_avail n) (by_node pv (n_id n)) with
              | (idx, Some vs) =>
                  match vs with
                  | [] => if w_tried w then [] else [mkPC (n_id n) (n_avail n) idx vs]
                  | _ => [mkPC (n_id n) (n_avail n) idx vs]
                  end
              | (_, None) => []
              end) (usable_nodes w).

Fixpoint plugin_get (l : list plugin_ans) (nid : N) : plugin_ans :=
  match l with
  | [] => mkPA nid true true 0
  | a :: t => if N.eqb (pa_node a) nid then a else plugin_get t nid
  end.
(* preemptPredicateCheck: (success, index) *)
Definition answer (w : world) (c : pcheck) : bool * Z :=
  let a := plugin_get (w_plugin w) (pc_node c) in
  match pc_victims c with
  | [] => (pa_pred a, -1)
  | _ => if pa_ok a then (true, pc_idx c + pa_delta a) else (false, -1)
  end.

Definition scoreUnfit : Z := 2 ^ 35.
Definition scoreFitMax : Z := 2 ^ 32.
(* getSolutionScore for a successful result; note that it reads allocationsByNode, not the victim list *)
Definition solutionScore (pv : pvs) (c : pcheck) (idx : Z) : Z :=
  match by_node pv (pc_node c) with
  | [] => scoreUnfit                                 (* node has no entry in allocationsByNode *)
  | allocs =>
      if idx <? 0 then 0 else
      if Z.of_nat (length allocs) <=? idx then scoreUnfit else
      let pre := firstn (Z.to_nat (idx + 1)) allocs in
      (if existsb a_orig pre then 2 ^ 33 else 0) + (if existsb (fun a => negb (a_self a)) pre then 2 ^ 34 else 0) + idx + 1
  end.

(* ---------------- calculateAdditionalVictims ---------------- *)
Record apass := mkAP { ap_sn : snaps; ap_victims : list alloc; ap_stop : bool }.
Definition add_step (w : world) (st : apass) (v : alloc) : apass :=
  if ap_stop st then st else
  let '(ok, sn1) := victim_check w (ap_sn st) v in
  if ok then
    if fits_ask_queue w sn1 v then
      let before := remainingOf w sn1 (ask_qid w) in
      let sn2 := AddAllocation w sn1 (ask_qid w) (a_res v) in
      let after := remainingOf w sn2 (ask_qid w) in
      if negb (EqualsOrEmpty before after) then mkAP sn2 (ap_victims st ++ [v]) false
      else mkAP (AddAllocation w (RemoveAllocation w sn2 (ask_qid w) (a_res v)) (a_queue v) (a_res v)) (ap_victims st) false
    else mkAP (AddAllocation w sn1 (a_queue v) (a_res v)) (ap_victims st) true
  else mkAP (AddAllocation w sn1 (a_queue v) (a_res v)) (ap_victims st) false.

Definition additionalVictims (w : world) (pv : pvs) (nodeVictims : list alloc) : list alloc * bool :=
  let sn := fold_left (fun sn v => RemoveAllocation w sn (a_queue v) (a_res v)) nodeVictims (Duplicate (init_snaps w)) in
  let seen := map a_key nodeVictims in
  let potential := sort_by lessA (filter (fun v => negb (existsb (N.eqb (a_key v)) seen)) (flat_pv pv)) in
  let st := fold_left (add_step w) potential (mkAP sn [] false) in
  match ap_victims st with
  | [] => ([], true)
  | vs => (vs, match remainingOf w (ap_sn st) (ask_qid w) with
               | Some r => isAskQueueUnderGuaranteed (ask_res w) (Some r)
               | None => false
               end)
  end.

(* ---------------- the tail of TryPreemption ---------------- *)
Record fin := mkFin { fin_victims : list alloc; fin_total : ores; fin_freed : ores }.
Definition fin_step (w : world) (fitIn : bool) (nid : N) (st : fin) (v : alloc) : fin :=
  if negb fitIn && negb (N.eqb (a_node v) nid) then st else
  let take := StrictlyGreaterThanOnlyExisting (ask_res w) (fin_total st) in
  mkFin (if take then fin_victims st ++ [v] else fin_victims st)
        (AddTo (fin_total st) (a_res v))
        (if take && N.eqb (a_node v) nid then AddTo (fin_freed st) (a_res v) else fin_freed st).

(* [fixed] selects the code after the commit "fix: do not preempt when the selected victims and the free
   space of the node do not cover the ask" (true) or the pinned code (false) *)
Definition finalize (fixed : bool) (w : world) (nid : N) (avail : ores) (victims : list alloc) : option (list alloc) :=
  let fitIn := FitIn avail (ask_res w) in
  let st := fold_left (fin_step w fitIn nid) victims (mkFin [] (Some []) avail) in
  if StrictlyGreaterThanOnlyExisting (ask_res w) (fin_total st) then None else
  if fixed && negb fitIn && negb (FitIn (fin_freed st) (ask_res w)) then None else
  Some (fin_victims st).

Record outcome := mkO { o_ok : bool; o_node : N; o_victims : list N }.
Definition failed : outcome := mkO false 0%N [].

(* everything after the node has been chosen *)
Definition tryWith (fixed : bool) (w : world) (pv : pvs) (c : pcheck) : outcome :=
  let '(_, idx) := answer w c in
  if Z.of_nat (length (pc_victims c)) <=? idx then failed else       (* populateVictims: invalid index *)
  let nodeVictims := firstn (Z.to_nat (idx + 1)) (pc_victims c) in
  let '(extra, ok) := additionalVictims w pv nodeVictims in
  if negb ok then failed else
  match nodeVictims ++ extra with
  | [] => failed
  | victims =>
      match finalize fixed w (pc_node c) (pc_avail c) victims with
      | None => failed
      | Some final => mkO true (pc_node c) (map a_key final)
      end
  end.

Fixpoint zmin_list (l : list Z) (d : Z) : Z :=
  match l with [] => d | x :: t => zmin x (zmin_list t d) end.

(* TryPreemption: the admissible outcomes (one per node whose successful predicate result has the
   minimal score; which of them wins depends on the order in which the goroutines answer) *)
Definition tryPreemptionPV (fixed : bool) (w : world) (pv : pvs) : list outcome :=
  if negb (checkGuarantees w pv) then [failed] else
  let cs := filter (fun c => fst (answer w c)) (node_checks w pv) in
  match cs with
  | [] => [failed]
  | _ =>
      let sc := fun c => solutionScore pv c (snd (answer w c)) in
      let m := zmin_list (map sc cs) scoreUnfit in
      map (tryWith fixed w pv) (filter (fun c => sc c =? m) cs)
  end.
Definition tryPreemptionF (fixed : bool) (w : world) : list outcome :=
  match findVictims w with
  | None => [failed]
  | Some pv => tryPreemptionPV fixed w pv
  end.
Definition tryPreemption := tryPreemptionF true.

(* Application.tryPreemption: preconditions first *)
Definition attempt (w : world) : list outcome :=
  if checkPreconditions w then tryPreemption w else [failed].

Fixpoint listN_eqb (a b : list N) : bool :=
  match a, b with
  | [], [] => true
  | x :: a', y :: b' => N.eqb x y && listN_eqb a' b'
  | _, _ => false
  end.
Definition outcome_eqb (a b : outcome) : bool :=
  Bool.eqb (o_ok a) (o_ok b) && (if o_ok a then N.eqb (o_node a) (o_node b) else true) && listN_eqb (o_victims a) (o_victims b).
Definition admits (w : world) (o : outcome) : bool := existsb (outcome_eqb o) (attempt w).

(* ---------------- effects of a committed outcome ---------------- *)
Fixpoint find_alloc (l : list alloc) (k : N) : option alloc :=
  match l with [] => None | a :: t => if N.eqb (a_key a) k then Some a else find_alloc t k end.

Definition mark (keys : list N) (a : alloc) : alloc :=
  if existsb (N.eqb (a_key a)) keys
  then mkA (a_key a) (a_app a) (a_queue a) (a_node a) (a_res a) (a_prio a) (a_self a) (a_orig a) (a_req a) (a_released a) true (a_age a)
  else a.
Definition set_preempting (q : queue) (r : ores) : queue :=
  mkQ (q_id q) (q_parent q) (q_path q) (q_leaf q) (q_managed q) (q_guar q) (q_max q) (q_alloc q) r
      (q_ppol q) (q_prpol q) (q_offset q) (q_delay q).
(* IncPreemptingResource of the victim's queue: the queue and every ancestor *)
Definition inc_preempting (w : world) (qs : list queue) (v : alloc) : list queue :=
  let ids := chain_ids w (a_queue v) in
  map (fun q => if existsb (N.eqb (q_id q)) ids then set_preempting q (Some (Add (q_preempting q) (a_res v))) else q) qs.
Definition set_triggered (k : askT) : askT :=
  mkK (k_key k) (k_app k) (k_queue k) (k_res k) (k_prio k) (k_other k) (k_req k) true (k_age k) (k_checkage k).
Definition victims_of (w : world) (keys : list N) : list alloc :=
  flat_map (fun k => match find_alloc (w_allocs w) k with Some a => [a] | None => [] end) keys.

Definition apply_outcome (w : world) (o : outcome) : world :=
  if o_ok o then
    mkW (fold_left (inc_preempting w) (victims_of w (o_victims o)) (w_queues w))
        (map (mark (o_victims o)) (w_allocs w)) (set_triggered (w_ask w)) (w_nodes w) (w_freq w) (w_plugin w) (w_tried w)
  else w.
(* release requests sent to the shim: one message with all victims *)
Definition announced (o : outcome) : list (list N) :=
  if o_ok o then match o_victims o with [] => [] | l => [l] end else [].
