(* Preemption model, part 4: quota change preemption,
   pkg/scheduler/objects/quota_preemptor.go (setPreemptableResources, getChildQueuesPreemptableResource,
   filterAllocations, preemptVictims) and queue.go (GetPreemptableResource, setPreemptionTime,
   tryAcquirePreemption, IncAllocatedResource's re-arming, setQuotaPreemptionState).
   Time is a virtual clock in milliseconds.  SortAllocationsBasedOnAsk is a decision (observed order,
   validated to be a rearrangement of the filtered set).  A nil dereference is an explicit QCrash.
   Definitions only. *)
From Coq Require Import List ZArith NArith Bool Floats.SpecFloat.
From YK Require Import Base.Int64 Base.F64 Base.Res Preempt.Snapshot Preempt.Victims Preempt.ReqNode.
Import ListNotations.
Open Scope Z_scope.

(* resources.Quantity(math.Abs(float64(v))) *)
Definition absq (v : Z) : Z := f_to_int64 (SFabs (f_of_Z v)).
(* keep the negative entries, as positive amounts *)
Definition abs_negatives (o : ores) : res :=
  map (fun kv => (fst kv, absq (snd kv))) (filter (fun kv => snd kv <? 0) (oget o)).

(* Queue.GetPreemptableResource (guaranteed minus usage, minimum over the ancestors) *)
Fixpoint queuePreemptable (ch : list queue) : ores :=
  match ch with
  | [] => Some []
  | q :: up =>
      let parent := queuePreemptable up in
      let p := match q_guar q with None => q_alloc q | Some _ => SubOnlyExisting (q_guar q) (q_alloc q) end in
      ComponentWiseMin p parent
  end.

(* setPreemptableResources: None = preemptableResource stays nil *)
Definition setPreemptable (w : world) (q : queue) : ores :=
  let used := SubOnlyExisting (q_alloc q) (q_preempting q) in
  if IsEmpty (q_max q) || IsEmpty used then None else
  let actual := SubOnlyExisting (q_max q) used in
  let net := abs_negatives actual in
  let netParent := abs_negatives (queuePreemptable (chain w (q_id q))) in
  let p := ComponentWiseMinOnlyExisting (Some net) (Some netParent) in
  if IsEmpty p then None else p.

(* ---- getChildQueuesPreemptableResource ---- *)
(* [pinned]: the code before the commit "fix: quota preemption ignored the resource types of a child queue that have
   no guaranteed quantity" took only the types of the guaranteed resource when one is set *)
Definition child_excessF (pinned : bool) (c : queue) : option res :=
  if IsEmpty (q_alloc c) || StrictlyGreaterThanOrEqualsOnlyExisting (q_guar c) (q_alloc c) then None else
  let used :=
    if negb (IsEmpty (q_guar c)) then
      let base := oget (SubOnlyExisting (q_guar c) (q_alloc c)) in
      if pinned then base
      else fold_left (fun out kv => if has (oget (q_guar c)) (fst kv) then out else set (fst kv) (snd kv) out) (oget (q_alloc c)) base
    else oget (q_alloc c) in
  Some (map (fun kv => (fst kv, if snd kv <? 0 then wrap64 (snd kv * -1) else snd kv)) used).
Definition child_excess := child_excessF false.

(* math.Floor of a finite float as an integer, then int(...) *)
Definition f_floor_int (x : f64) : Z :=
  match x with
  | S754_finite s m e =>
      let t := f_trunc x in
      let exact := if 0 <=? e then true else Z.eqb (Z.rem (Zpos m) (2 ^ (- e))) 0 in
      let fl := if s && negb exact then t - 1 else t in
      if (fl <? - 2^63) || (2^63 - 1 <? fl) then - 2^63 else fl
  | S754_zero _ => 0
  | _ => - 2^63
  end.
(* GetSharesTypeWise(res, total)[k]; a missing entry reads as 0.0 *)
Definition share_of (p total : res) (k : tid) : f64 :=
  match get p k with
  | None => f_zero
  | Some v =>
      if v =? 0 then f_zero else
      let t := getz total k in
      if t =? 0 then f_of_Z v else f_div (f_of_Z v) (f_of_Z t)
  end.
Definition child_share (p total : res) (parentP : res) : res :=
  fold_left (fun out kv =>
               match get parentP (fst kv) with
               | Some pv => set (fst kv) (f_floor_int (f_mul (share_of p total (fst kv)) (f_of_Z pv))) out
               | None => out
               end) p [].

Inductive qres (A : Type) := QVal (a : A) | QCrash.
Arguments QVal {A} a. Arguments QCrash {A}.

(* second loop of getChildQueuesPreemptableResource for one child: a leaf gets its share, a parent distributes its
   share further down ([rec] is the recursive call) *)
Definition dist_step (rec : queue -> ores -> qres (list (N * res))) (total pp : res)
           (acc : qres (list (N * res))) (cp : queue * res) : qres (list (N * res)) :=
  match acc with
  | QCrash => QCrash
  | QVal l =>
      let cp' := child_share (snd cp) total pp in
      if q_leaf (fst cp) then QVal (l ++ [(q_id (fst cp), cp')])
      else match rec (fst cp) (Some cp') with
           | QCrash => QCrash
           | QVal l' => QVal (l ++ l')
           end
  end.
Definition excess_childrenF (pinned : bool) (w : world) (q : queue) : list (queue * res) :=
  flat_map (fun c => match child_excessF pinned c with Some p => [(c, p)] | None => [] end) (children w q).
Definition excess_children := excess_childrenF false.

(* result: the leaf queues with their share of the preemptable resource.
   [pinned] selects the code before the commits "fix: quota preemption of a parent queue panicked when its usage
   above the max was already being preempted" (a nil parentPreemptableResource was dereferenced) and "fix: quota
   preemption ignored the resource types of a child queue that have no guaranteed quantity" *)
Fixpoint distributeF (pinned : bool) (fuel : nat) (w : world) (q : queue) (parentP : ores) : qres (list (N * res)) :=
  match fuel with
  | O => QVal []
  | S f =>
      match excess_childrenF pinned w q with
      | [] => QVal []
      | cs =>
          match parentP with
          | None => if pinned then QCrash  (* parentPreemptableResource.Resources on a nil pointer *)
                    else QVal []           (* nothing to distribute *)
          | Some pp =>
              let total := fold_left (fun t cp => addTo t (snd cp)) cs [] in
              fold_left (dist_step (distributeF pinned f w) total pp) cs (QVal [])
          end
      end
  end.

(* ---- one leaf: filterAllocations, preemptVictims ---- *)
Definition qf_ok (p : ores) (a : alloc) : bool :=
  MatchAny p (a_res a) && negb (a_req a) && negb (a_released a) && negb (a_preempted a).
Definition quota_filter (w : world) (q : queue) (p : ores) : list alloc :=
  if IsZero p then [] else filter (qf_ok p) (allocs_of w q).

Record qpass := mkQP { qp_total : ores; qp_victims : list alloc }.
Definition quota_step (p : ores) (st : qpass) (v : alloc) : qpass :=
  if negb (FitInMaxUndef p (a_res v)) then st else
  let t := AddTo (qp_total st) (a_res v) in
  if StrictlyGreaterThanOrEqualsOnlyExisting p t then mkQP t (qp_victims st ++ [v])
  else mkQP (SubFrom t (a_res v)) (qp_victims st).
Definition quota_victims (p : ores) (sorted : list alloc) : qpass :=
  fold_left (quota_step p) sorted (mkQP (Some []) []).

(* what one leaf context did: victims (marked and announced) and the claimed total *)
Record leaf_out := mkLO { lo_queue : N; lo_pre : ores; lo_victims : list N; lo_claimed : ores }.
Definition quota_order_ok (w : world) (q : queue) (p : ores) (order : list N) : bool :=
  same_keys order (map a_key (quota_filter w q p)) && nodupN order.
Definition quota_leaf_order (w : world) (q : queue) (p : ores) (order : list N) : leaf_out :=
  let st := quota_victims p (victims_of w order) in
  mkLO (q_id q) p (map a_key (qp_victims st)) (match qp_victims st with [] => None | _ => qp_total st end).
Definition quota_leaf (w : world) (q : queue) (p : ores) (order : list N) : option leaf_out :=
  if quota_order_ok w q p order then Some (quota_leaf_order w q p order) else None.

Definition distribute := distributeF false.
(* the contexts QuotaPreemptionContext.tryPreemption works on, for the queue it is started for *)
Definition quota_contextsF (pinned : bool) (w : world) (q : queue) : qres (list (N * ores)) :=
  let p := setPreemptable w q in
  if q_leaf q then QVal [(q_id q, p)]
  else match distributeF pinned (S (length (w_queues w))) w q p with
       | QCrash => QCrash
       | QVal l => QVal (map (fun ir => (fst ir, Some (snd ir))) l)
       end.
Definition quota_contexts := quota_contextsF false.

(* ---- timing: setPreemptionTime, IncAllocatedResource, tryAcquirePreemption ---- *)
Record qtime := mkQT { qt_delay : Z; qt_start : option Z; qt_running : bool }.

Definition shift_start (t : qtime) (oldDelay : Z) : qtime :=
  match qt_start t with
  | Some s => mkQT (qt_delay t) (Some (s + (qt_delay t - oldDelay))) (qt_running t)
  | None => t
  end.
Definition set_start (t : qtime) (s : option Z) : qtime := mkQT (qt_delay t) s (qt_running t).

(* q holds the NEW max; t holds the NEW delay.
   [fixed] selects the code after the commit "fix: a quota change in different directions for different resource types
   ignored a changed quota preemption delay" (true) or the code before it (false): the last branch, which moves an armed
   start time by the change of the delay, was only taken for a strictly raised maximum *)
Definition setPreemptionTimeF (fixed : bool) (now : Z) (q : queue) (oldMax : ores) (oldDelay : Z) (t : qtime) : qtime :=
  if qt_running t then t else
  if qt_delay t =? 0 then set_start t None else
  if IsZero (q_max q) then set_start t None else
  if StrictlyGreaterThanOrEqualsOnlyExisting (q_max q) (q_alloc q) then set_start t None else
  if Equals oldMax (q_max q) then
    match qt_start t with
    | None => if (oldDelay =? 0) && (0 <? qt_delay t) then set_start t (Some (now + qt_delay t)) else t
    | Some _ => if negb (oldDelay =? qt_delay t) then shift_start t oldDelay else t
    end
  else if StrictlyGreaterThan oldMax (q_max q) then
    match qt_start t with
    | Some _ => if negb (oldDelay =? qt_delay t) then shift_start t oldDelay else t
    | None => set_start t (Some (now + qt_delay t))
    end
  else if fixed || StrictlyGreaterThan (q_max q) oldMax then
    match qt_start t with
    | Some _ => if negb (oldDelay =? qt_delay t) then shift_start t oldDelay else t
    | None => t
    end
  else t.
Definition setPreemptionTime := setPreemptionTimeF true.

(* the re-arming at the end of IncAllocatedResource; q holds the usage after the increment *)
Definition incAllocatedTime (now : Z) (enabled : bool) (q : queue) (t : qtime) : qtime :=
  if negb enabled || (match qt_start t with Some _ => true | None => false end) || negb (q_managed q) ||
     (qt_delay t =? 0) || IsZero (q_max q) || StrictlyGreaterThanOrEqualsOnlyExisting (q_max q) (q_alloc q)
  then t else set_start t (Some (now + qt_delay t)).

Definition tryAcquire (now : Z) (q : queue) (t : qtime) : bool * qtime :=
  if negb (q_managed q) || qt_running t then (false, t) else
  if StrictlyGreaterThanOrEqualsOnlyExisting (q_max q) (q_alloc q) then (false, set_start t None) else
  match qt_start t with
  | None => (false, t)
  | Some s => if now <? s then (false, t) else (true, mkQT (qt_delay t) (qt_start t) true)
  end.
(* setQuotaPreemptionState(false) *)
Definition quotaDone (t : qtime) : qtime := mkQT (qt_delay t) None false.
