(* Model of pkg/scheduler/placement: filter.go, rule.go and the provided / user / tag / fixed /
   recovery / test rules (definitions only).  The queue hierarchy is a flat list of queues keyed by
   their lower-cased path; PartitionContext.getQueueInternal is the walk [get_queue].
   [pinned] = true selects the behaviour of the pinned code before the fix: commits (filter type
   compared case-sensitively). *)
From Coq Require Import List NArith Bool.
From YK Require Import Place.Str Place.Acl.
Import ListNotations.
Open Scope N_scope.

(* ---------------- queue hierarchy ---------------- *)
Inductive qstate := QActive | QDraining | QStopped.
Definition qstate_eqb (x y : qstate) : bool :=
  match x, y with QActive, QActive | QDraining, QDraining | QStopped, QStopped => true | _, _ => false end.

Record queue := mkQ {
  q_path : list str;          (* lower-cased name parts, first part "root" *)
  q_leaf : bool;
  q_managed : bool;
  q_state : qstate;
  q_submit : acl;
  q_admin : acl;
  q_template : N;             (* identity of the child template held by the queue, 0 = nil *)
  q_maxapps : N }.            (* maxRunningApps: what a dynamic leaf received from the template *)

Definition tree := list queue.

Fixpoint find_q (t : tree) (p : list str) : option queue :=
  match t with
  | [] => None
  | q :: r => if path_eqb (q_path q) p then Some q else find_q r p
  end.

(* walk down from the root through the children maps; [pre] is the path of the current queue *)
Fixpoint walk (t : tree) (pre : list str) (rest : list str) : option queue :=
  match rest with
  | [] => find_q t pre
  | x :: r => match find_q t pre with
              | None => None
              | Some _ => walk t (pre ++ [x]) r
              end
  end.

(* getQueueInternal on lower-cased parts / on a name *)
Definition get_parts (t : tree) (parts : list str) : option queue :=
  match parts with
  | [] => None
  | x :: r => if str_eqb x s_root then walk t [s_root] r else None
  end.
Definition name_parts (n : str) : list str := split_dot (lower n).
Definition get_queue (t : tree) (n : str) : option queue := get_parts t (name_parts n).
Definition q_exists (t : tree) (n : str) : bool := match get_queue t n with Some _ => true | None => false end.
Definition q_is_leaf (t : tree) (n : str) : bool := match get_queue t n with Some q => q_leaf q | None => false end.

(* ---------------- application ---------------- *)
Record app := mkApp {
  ap_user : str;
  ap_groups : list str;
  ap_queue : str;                    (* queue name sent by the shim, as is *)
  ap_tags : list (str * str) }.      (* keys unique up to letter case (Go map iteration + EqualFold) *)

(* Application.GetTag / common.IsAppCreationForced: first key that matches ignoring case *)
Fixpoint get_tag (tags : list (str * str)) (k : str) : str :=
  match tags with
  | [] => []
  | (k', v) :: r => if eq_fold k' k then v else get_tag r k
  end.
Definition forced (a : app) : bool := parse_bool_true (get_tag (ap_tags a) s_force_tag).

(* ---------------- filters ---------------- *)
(* answers of the regexp package: pattern -> None (does not compile) | Some (subjects that match) *)
Definition retab := list (str * option (list str)).
Fixpoint re_lookup (tb : retab) (pat : str) : option (list str) :=
  match tb with
  | [] => None
  | (p, r) :: t => if str_eqb p pat then r else re_lookup t pat
  end.

Record fconf := mkFConf { fc_type : str; fc_users : list str; fc_groups : list str }.

Record ufilter := mkFilter {
  f_allow : bool; f_empty : bool;
  f_users : list str; f_groups : list str;
  f_uexp : option (list str);      (* compiled user expression = the subjects it matches *)
  f_gexp : option (list str) }.

Definition new_filter (pinned : bool) (tb : retab) (c : fconf) : ufilter :=
  let allow := if pinned then negb (str_eqb (fc_type c) s_deny) else negb (eq_fold (fc_type c) s_deny) in
  let '(uexp, ulist, e1) :=
    match fc_users c with
    | [] => (None, [], true)
    | [u] => if special_re u then (re_lookup tb u, [], false)
             else if conf_user_re u then (None, [u], false) else (None, [], false)
    | l => (None, filter conf_user_re l, false)
    end in
  let '(gexp, glist, e2) :=
    match fc_groups c with
    | [] => (None, [], true)
    | [g] => if special_re g then (re_lookup tb g, [], false)
             else if conf_group_re g then (None, [g], false) else (None, [], false)
    | l => (None, filter conf_group_re l, false)
    end in
  mkFilter allow (e1 && e2) ulist glist uexp gexp.

Definition filter_user (f : ufilter) (u : str) : bool :=
  match f_uexp f with Some m => mem_str u m | None => mem_str u (f_users f) end.
Definition filter_group (f : ufilter) (g : str) : bool :=
  match f_gexp f with Some m => mem_str g m | None => mem_str g (f_groups f) end.

(* Filter.allowUser *)
Definition allow_user (f : ufilter) (a : app) : bool :=
  if f_empty f then f_allow f
  else if filter_user f (ap_user a) then f_allow f
  else if existsb (filter_group f) (ap_groups a) then f_allow f
  else negb (f_allow f).

(* ---------------- rules ---------------- *)
Inductive rkind :=
| KProvided | KUser | KTag (tag : str) | KFixed (q : str) (qualified : bool) | KRecovery | KTest.

Inductive rule := Rule (k : rkind) (create : bool) (f : ufilter) (parent : option rule).

(* configs.PlacementRule *)
Inductive rconf := RConf (name : str) (create : bool) (f : fconf) (value : str) (parent : option rconf).


(* newRule + initialise; None = the rule list is refused *)
Fixpoint new_rule (pinned : bool) (tb : retab) (c : rconf) : option rule :=
  let 'RConf name create f value parent := c in
  let n := lower name in
  let par (_ : unit) : option (option rule) :=
    match parent with
    | None => Some None
    | Some p => match new_rule pinned tb p with Some r => Some (Some r) | None => None end
    end in
  let flt := new_filter pinned tb f in
  if str_eqb n s_user_k then
    match par tt with Some p => Some (Rule KUser create flt p) | None => None end
  else if str_eqb n s_fixed_k then
    let q := lower value in
    if is_empty q then None
    else if negb (forallb name_valid (split_dot q)) then None
    else
      let qualified := has_prefix s_root q in
      match parent with
      | Some _ => if qualified then None
                  else match par tt with Some p => Some (Rule (KFixed q qualified) create flt p) | None => None end
      | None => Some (Rule (KFixed q qualified) create flt None)
      end
  else if str_eqb n s_provided_k then
    match par tt with Some p => Some (Rule KProvided create flt p) | None => None end
  else if str_eqb n s_tag_k then
    let tg := lower value in
    if is_empty tg then None
    else match par tt with Some p => Some (Rule (KTag tg) create flt p) | None => None end
  else if str_eqb n s_recovery_k then None
  else if str_eqb n s_test then
    match par tt with Some p => Some (Rule KTest create flt p) | None => None end
  else None.

Definition recovery_rule : rule := Rule KRecovery false (mkFilter true true [] [] None None) None.

(* buildRules: an empty list is the implicit provided rule; the recovery rule is always appended *)
Fixpoint new_rules (pinned : bool) (tb : retab) (l : list rconf) : option (list rule) :=
  match l with
  | [] => Some []
  | c :: t => match new_rule pinned tb c, new_rules pinned tb t with
              | Some r, Some rs => Some (r :: rs)
              | _, _ => None
              end
  end.
Definition build_rules (pinned : bool) (tb : retab) (l : list rconf) : option (list rule) :=
  let l' := match l with
            | [] => [RConf s_provided_k false (mkFConf [] [] []) [] None]
            | _ => l
            end in
  match new_rules pinned tb l' with
  | Some rs => Some (rs ++ [recovery_rule])
  | None => None
  end.

(* ---------------- rule execution ---------------- *)
Inductive rerr := EInvalidName | EParentLeaf.
Inductive rres := RNone | RName (n : str) | RErr (e : rerr).

(* the shared tail of all rules: "queue := queueFn(queueName); if !create && queue == nil" *)
Definition finish (t : tree) (create : bool) (n : str) : rres :=
  if negb create && negb (q_exists t n) then RNone else RName n.

(* the shared parent-rule block: the parent result gets "root." in front unless it has it, a parent
   that exists must not be a leaf; without parent rule the parent is root *)
Definition with_parent (t : tree) (pres : option rres) (k : str -> rres) : rres :=
  match pres with
  | None => k s_root
  | Some (RErr e) => RErr e
  | Some RNone => RNone
  | Some (RName pn) =>
      if is_empty pn then RNone
      else
        let pn' := if has_prefix s_root_dot pn then pn else s_root_dot ++ pn in
        if q_exists t pn' && q_is_leaf t pn' then RErr EParentLeaf
        else k pn'
  end.

Fixpoint place_rule (t : tree) (a : app) (r : rule) : rres :=
  let 'Rule k create f parent := r in
  let pres (_ : unit) : option rres :=
    match parent with Some p => Some (place_rule t a p) | None => None end in
  match k with
  | KProvided =>
      let qn := ap_queue a in
      if is_empty qn then RNone
      else if negb (allow_user f a) then RNone
      else if has_prefix s_root_dot qn then
        if forallb name_valid (split_dot qn) then finish t create qn else RErr EInvalidName
      else
        let child := replace_dot qn in
        if negb (name_valid child) then RErr EInvalidName
        else with_parent t (pres tt) (fun pn => finish t create (pn ++ DOT :: child))
  | KUser =>
      if negb (allow_user f a) then RNone
      else
        let child := replace_dot (ap_user a) in
        if negb (name_valid child) then RErr EInvalidName
        else with_parent t (pres tt) (fun pn => finish t create (pn ++ DOT :: child))
  | KTag tg =>
      let tv := get_tag (ap_tags a) tg in
      if is_empty tv then RNone
      else if negb (allow_user f a) then RNone
      else if has_prefix s_root_dot tv then
        if forallb name_valid (split_dot tv) then finish t create tv else RErr EInvalidName
      else
        let child := replace_dot tv in
        if negb (name_valid child) then RErr EInvalidName
        else with_parent t (pres tt) (fun pn => finish t create (pn ++ DOT :: child))
  | KFixed q qualified =>
      if negb (allow_user f a) then RNone
      else if qualified then finish t create q
      else with_parent t (pres tt) (fun pn => finish t create (pn ++ DOT :: q))
  | KRecovery => if forced a then RName s_recovery_full else RNone
  | KTest =>
      let qn := ap_queue a in
      if is_empty qn then RName s_test
      else if forallb name_valid (split_dot qn) then RName (replace_dot qn) else RErr EInvalidName
  end.
