(* The creation loop of createQueue produces the chain described by [chain_ok]; the new leaf is
   found by the lookup; wf_tree is preserved. *)
From Coq Require Import List NArith Bool Lia Arith.
From YK Require Import Place.Str Place.Acl Place.Rules Place.Placement Place.Spec Place.StrLemmas
     Place.AclProofs Place.NameLemmas Place.LoopProofs Place.CreateProofs.
Import ListNotations.
Open Scope N_scope.

Lemma add_dynamic_spec : forall t parent name leaf t' q,
    add_dynamic t parent name leaf = Some (t', q) ->
    q_leaf parent = false /\ qstate_eqb (q_state parent) QDraining = false /\ t' = t ++ [q]
    /\ q = mkQ (q_path parent ++ [lower name]) leaf false QActive acl_zero acl_zero
               (if leaf then 0 else q_template parent) (if leaf then q_template parent else 0).
Proof.
  intros t parent name leaf t' q H. unfold add_dynamic in H.
  destruct (q_leaf parent); [discriminate|].
  destruct (qstate_eqb (q_state parent) QDraining); [discriminate|].
  inversion H; subst. auto.
Qed.

Lemma new_dynamic_spec : forall t parent name leaf t' q,
    new_dynamic t parent name leaf = Some (t', q) ->
    name_valid name = true /\ add_dynamic t parent name leaf = Some (t', q).
Proof.
  intros t parent name leaf t' q H. unfold new_dynamic in H.
  destruct (name_valid name); [|discriminate]. destruct (str_eqb name s_recovery); [discriminate|]. auto.
Qed.

Lemma path_snoc_neq : forall (p l : list str) x, path_eqb p (p ++ x :: l) = false.
Proof.
  intros p l x. apply path_eqb_neq. intro E.
  assert (L : length p = length (p ++ x :: l)) by (rewrite <- E; reflexivity).
  rewrite app_length in L. simpl in L. lia.
Qed.

(* the new queue is found by the lookup and has nothing below it *)
Lemma add_dynamic_lookup : forall t cur name leaf t' q,
    add_dynamic t cur name leaf = Some (t', q) ->
    get_parts t (q_path cur) = Some cur ->
    (forall l, find_q t (q_path cur ++ lower name :: l) = None) ->
    get_parts t' (q_path q) = Some q /\ q_path q = q_path cur ++ [lower name]
    /\ forall x l, find_q t' (q_path q ++ x :: l) = None.
Proof.
  intros t cur name leaf t' q H Hg Hn. apply add_dynamic_spec in H as [_ [_ [Et Eq]]].
  assert (Ep : q_path q = q_path cur ++ [lower name]) by (rewrite Eq; reflexivity).
  split; [|split; [exact Ep|]].
  - rewrite Ep. rewrite (get_parts_snoc t' (q_path cur) (lower name) cur).
    + rewrite Et. rewrite find_q_app_r by apply (Hn []). simpl. rewrite <- Ep, path_eqb_refl. reflexivity.
    + rewrite Et. apply get_parts_app. exact Hg.
  - intros x l. rewrite Et. rewrite find_q_app_r.
    + simpl. rewrite path_snoc_neq. reflexivity.
    + rewrite Ep. rewrite <- app_assoc. apply Hn.
Qed.

Lemma chain_ok_nonempty : forall pp tm news p, chain_ok pp tm news p = true -> news <> [].
Proof. intros pp tm news p H E. subst. discriminate. Qed.

Lemma create_chain_spec : forall names t cur t' q',
    names <> [] ->
    create_chain t cur names = (t', Some q') ->
    get_parts t (q_path cur) = Some cur ->
    (forall l, find_q t (q_path cur ++ lower (hd [] names) :: l) = None) ->
    exists news,
      t' = t ++ news
      /\ chain_ok (q_path cur) (q_template cur) news (q_path cur ++ map lower names) = true
      /\ get_parts t' (q_path cur ++ map lower names) = Some q'
      /\ q_leaf q' = true /\ q_state q' = QActive
      /\ q_leaf cur = false /\ qstate_eqb (q_state cur) QDraining = false.
Proof.
  induction names as [|n rest IH]; intros t cur t' q' Hne H Hg Hn; [contradiction|].
  cbn [create_chain] in H.
  destruct rest as [|n2 rest'].
  - (* the leaf *)
    destruct (new_dynamic t cur n true) as [[t1 q1]|] eqn:En; [|inversion H].
    cbn [create_chain] in H. inversion H; subst t' q'. clear H.
    apply new_dynamic_spec in En as [Hv Ha].
    pose proof (add_dynamic_lookup _ _ _ _ _ _ Ha Hg Hn) as [L1 [L2 _]].
    pose proof (add_dynamic_spec _ _ _ _ _ _ Ha) as [S1 [S2 [S3 S4]]].
    exists [q1]. split; [exact S3|]. cbn [map]. rewrite <- L2.
    split; [|split; [exact L1|]].
    + cbn [chain_ok]. rewrite L2. rewrite removelast_last, last_last, path_eqb_refl.
      rewrite (name_valid_lower _ Hv). rewrite S4. cbn. rewrite ?N.eqb_refl, ?path_eqb_refl. reflexivity.
    + rewrite S4. cbn. auto.
  - destruct (new_dynamic t cur n false) as [[t1 q1]|] eqn:En; [|inversion H].
    apply new_dynamic_spec in En as [Hv Ha].
    pose proof (add_dynamic_lookup _ _ _ _ _ _ Ha Hg Hn) as [L1 [L2 L3]].
    pose proof (add_dynamic_spec _ _ _ _ _ _ Ha) as [S1 [S2 [S3 S4]]].
    assert (Tq : q_template q1 = q_template cur) by (rewrite S4; reflexivity).
    destruct (IH t1 q1 t' q') as [news [E1 [E2 [E3 [E4 [E5 _]]]]]].
    + discriminate.
    + exact H.
    + exact L1.
    + intro l. apply L3.
    + assert (Pp : q_path q1 ++ map lower (n2 :: rest') = q_path cur ++ map lower (n :: n2 :: rest')).
      { rewrite L2. rewrite <- app_assoc. reflexivity. }
      rewrite Pp in E2, E3. rewrite Tq in E2.
      exists (q1 :: news). split; [rewrite E1, S3, <- app_assoc; reflexivity|].
      split; [|auto].
      cbn [chain_ok]. destruct news as [|q2 news']; [discriminate|].
      rewrite E2. rewrite L2. rewrite removelast_last, last_last, path_eqb_refl.
      rewrite (name_valid_lower _ Hv). rewrite S4. cbn. rewrite ?N.eqb_refl, ?path_eqb_refl. reflexivity.
Qed.

(* ---- wf_tree is preserved by queue creation ---- *)
Lemma parent_ok_app : forall t u q, parent_ok t q = true -> parent_ok (t ++ u) q = true.
Proof.
  intros t u q H. unfold parent_ok in *. destruct (q_path q) as [|x [|y l]]; try exact H.
  destruct (find_q t (removelast (x :: y :: l))) eqn:E; [|discriminate].
  rewrite (find_q_app_l _ _ _ _ E). reflexivity.
Qed.

Lemma wf_add_dynamic : forall t cur name leaf t' q,
    wf_tree t = true -> find_q t (q_path cur) <> None -> q_path cur <> [] ->
    add_dynamic t cur name leaf = Some (t', q) ->
    wf_tree t' = true /\ find_q t' (q_path q) <> None /\ q_path q <> [].
Proof.
  intros t cur name leaf t' q Hwf Hc Hne H. apply add_dynamic_spec in H as [_ [_ [Et Eq]]].
  assert (Ep : q_path q = q_path cur ++ [lower name]) by (rewrite Eq; reflexivity).
  split; [|split].
  - unfold wf_tree in *. apply andb_true_iff in Hwf as [Hr Hall]. rewrite Et. apply andb_true_iff. split.
    + destruct (find_q t [s_root]) eqn:E; [|discriminate]. rewrite (find_q_app_l _ _ _ _ E). reflexivity.
    + rewrite forallb_app. apply andb_true_iff. split.
      * rewrite forallb_forall in *. intros x Hx. apply parent_ok_app. apply Hall. exact Hx.
      * cbn [forallb]. rewrite andb_true_r. unfold parent_ok. rewrite Ep.
        destruct (q_path cur) as [|y p'] eqn:Ec; [contradiction|].
        change ((y :: p') ++ [lower name]) with (y :: (p' ++ [lower name])).
        destruct (p' ++ [lower name]) as [|z l] eqn:E2; [destruct p'; discriminate|].
        rewrite <- E2. change (y :: p' ++ [lower name]) with ((y :: p') ++ [lower name]).
        rewrite removelast_last. destruct (find_q t (y :: p')) eqn:E; [|congruence].
        rewrite (find_q_app_l _ _ _ _ E). reflexivity.
  - rewrite Et. destruct (find_q t (q_path q)) eqn:E.
    + rewrite (find_q_app_l _ _ _ _ E). discriminate.
    + rewrite find_q_app_r by exact E. simpl. rewrite path_eqb_refl. discriminate.
  - rewrite Ep. destruct (q_path cur); discriminate.
Qed.

Lemma wf_create_chain : forall names t cur t' o,
    wf_tree t = true -> find_q t (q_path cur) <> None -> q_path cur <> [] ->
    create_chain t cur names = (t', o) -> wf_tree t' = true.
Proof.
  induction names as [|n rest IH]; intros t cur t' o Hwf Hc Hne H; cbn [create_chain] in H.
  - inversion H; subst. exact Hwf.
  - destruct (new_dynamic t cur n (match rest with [] => true | _ => false end)) as [[t1 q1]|] eqn:En.
    + apply new_dynamic_spec in En as [_ Ha].
      destruct (wf_add_dynamic _ _ _ _ _ _ Hwf Hc Hne Ha) as [W1 [W2 W3]].
      apply (IH t1 q1 t' o W1 W2 W3 H).
    + inversion H; subst. exact Hwf.
Qed.
