(* The hierarchy built from a configuration (load_q, set-up operations) satisfies wf_tree: the
   hypothesis of the C17 theorems holds initially (and is preserved, MainProofs.wf_preserved_model). *)
From Coq Require Import List NArith Bool Lia Arith.
From YK Require Import Place.Str Place.Acl Place.Rules Place.Placement Place.Spec Place.StrLemmas
     Place.AclProofs Place.CreateProofs.
Import ListNotations.
Open Scope N_scope.

Section QInd.
  Variable P : qconf -> Prop.
  Hypothesis H : forall name par s a tm ch, Forall P ch -> P (QConf name par s a tm ch).
  Fixpoint qconf_ind2 (c : qconf) : P c :=
    match c with
    | QConf n p s a tm ch =>
        H n p s a tm ch ((fix go (l : list qconf) : Forall P l :=
                            match l with
                            | [] => Forall_nil _
                            | x :: r => Forall_cons _ (qconf_ind2 x) (go r)
                            end) ch)
    end.
End QInd.

Definition is_some {A} (o : option A) : bool := match o with Some _ => true | None => false end.

Lemma find_q_app_some : forall l1 l2 p, is_some (find_q l2 p) = true -> is_some (find_q (l1 ++ l2) p) = true.
Proof.
  intros l1 l2 p H. destruct (find_q l1 p) eqn:E.
  - rewrite (find_q_app_l _ _ _ _ E). reflexivity.
  - rewrite find_q_app_r by exact E. exact H.
Qed.
Lemma find_q_app_some_l : forall l1 l2 p, is_some (find_q l1 p) = true -> is_some (find_q (l1 ++ l2) p) = true.
Proof.
  intros l1 l2 p H. destruct (find_q l1 p) eqn:E; [|discriminate]. rewrite (find_q_app_l _ _ _ _ E). reflexivity.
Qed.

(* shape of a loaded subtree: its first queue has the path of the configured queue, every other
   queue lies strictly below it and its parent is in the subtree *)
Definition sub_ok (pp : list str) (t : tree) : Prop :=
  exists q rest, t = q :: rest /\ q_path q = pp
                 /\ forall x, In x rest -> (exists m y, q_path x = pp ++ m ++ [y])
                                         /\ is_some (find_q t (removelast (q_path x))) = true.

Lemma load_q_sub_ok : forall c ppath ptmpl t,
    load_q ppath ptmpl c = Some t ->
    match c with QConf name _ _ _ _ _ => sub_ok (ppath ++ [lower name]) t end.
Proof.
  induction c as [name par s a tm ch IH] using qconf_ind2. intros ppath ptmpl t H.
  cbn [load_q] in H.
  destruct (new_acl s) as [sa|]; [|discriminate]. destruct (new_acl a) as [aa|]; [|discriminate].
  set (path := ppath ++ [lower name]) in *.
  set (tmv := if negb par && match ch with [] => true | _ :: _ => false end then 0
              else if tm =? 0 then ptmpl else tm) in *.
  match type of H with
  | match ?go ch with _ => _ end = _ => set (gof := go) in *
  end.
  destruct (gof ch) as [sub|] eqn:Eg; [|discriminate]. inversion H; subst t. clear H.
  set (q0 := mkQ path (negb par && match ch with [] => true | _ :: _ => false end) true QActive sa aa tmv 0).
  exists q0, sub. split; [reflexivity|]. split; [reflexivity|].
  (* every queue of the children's subtrees *)
  assert (G : forall l subl, Forall (fun c0 => forall pp pt t0, load_q pp pt c0 = Some t0 ->
                                        match c0 with QConf n0 _ _ _ _ _ => sub_ok (pp ++ [lower n0]) t0 end) l ->
                 gof l = Some subl ->
                 forall x, In x subl -> (exists m y, q_path x = path ++ m ++ [y])
                                        /\ is_some (find_q (q0 :: subl) (removelast (q_path x))) = true).
  { induction l as [|c1 l IHl]; intros subl HF Hg x Hx.
    - cbn in Hg. inversion Hg; subst. contradiction.
    - cbn in Hg. fold gof in Hg.
      destruct (load_q path tmv c1) as [t1|] eqn:E1; [|discriminate].
      destruct (gof l) as [t2|] eqn:E2; [|discriminate]. inversion Hg; subst subl. clear Hg.
      inversion HF as [|c1' l' HF1 HF2]; subst.
      apply in_app_or in Hx as [Hx|Hx].
      + specialize (HF1 _ _ _ E1). destruct c1 as [n1 p1 s1 a1 tm1 ch1].
        destruct HF1 as [q1 [r1 [Et [Ep Hr]]]]. subst t1.
        destruct Hx as [Hx|Hx].
        * subst x. rewrite Ep. split; [exists [], (lower n1); reflexivity|].
          rewrite removelast_last. cbn [find_q]. change (q_path q0) with path. rewrite path_eqb_refl. reflexivity.
        * destruct (Hr x Hx) as [[m [y Em]] Hs]. split.
          -- exists (lower n1 :: m), y. rewrite Em. rewrite <- app_assoc. reflexivity.
          -- change (q0 :: (q1 :: r1) ++ t2) with ([q0] ++ ((q1 :: r1) ++ t2)).
             apply find_q_app_some. apply find_q_app_some_l. exact Hs.
      + destruct (IHl t2 HF2 eq_refl x Hx) as [Hm Hs]. split; [exact Hm|].
        change (q0 :: t1 ++ t2) with ([q0] ++ (t1 ++ t2)).
        destruct (path_eqb path (removelast (q_path x))) eqn:Ee.
        * cbn [List.app find_q]. change (q_path q0) with path. rewrite Ee. reflexivity.
        * cbn [List.app find_q] in *. change (q_path q0) with path in *. rewrite Ee in *.
          apply find_q_app_some. exact Hs. }
  intros x Hx. apply (G ch sub); [|exact Eg|exact Hx].
  exact IH.
Qed.

Lemma parent_ok_shape : forall t q pp m y,
    pp <> [] -> q_path q = pp ++ m ++ [y] -> is_some (find_q t (removelast (q_path q))) = true -> parent_ok t q = true.
Proof.
  intros t q pp m y Hne E H. unfold parent_ok. rewrite E in *.
  destruct pp as [|a pp']; [contradiction|].
  change ((a :: pp') ++ m ++ [y]) with (a :: (pp' ++ m ++ [y])) in *.
  destruct (pp' ++ m ++ [y]) as [|z l] eqn:E2.
  - destruct pp'; [destruct m|]; discriminate.
  - destruct (find_q t (removelast (a :: z :: l))); [reflexivity | discriminate].
Qed.

Lemma load_root_wf : forall name par s a tm ch t,
    lower name = s_root -> load_q [] 0 (QConf name par s a tm ch) = Some t -> wf_tree t = true.
Proof.
  intros name par s a tm ch t En H. apply load_q_sub_ok in H. rewrite En in H.
  destruct H as [q [rest [Et [Ep Hr]]]]. subst t. cbn [List.app] in Ep.
  unfold wf_tree. apply andb_true_iff. split.
  - cbn [find_q]. rewrite Ep. change (path_eqb [s_root] [s_root]) with true. reflexivity.
  - cbn [forallb]. apply andb_true_iff. split.
    + unfold parent_ok. rewrite Ep. reflexivity.
    + apply forallb_forall. intros x Hx. destruct (Hr x Hx) as [[m [y Em]] Hs].
      apply parent_ok_shape with [s_root] m y; [discriminate | exact Em | exact Hs].
Qed.

(* set-up operations change states only *)
Lemma find_q_map : forall (f : queue -> queue) t p,
    (forall q, q_path (f q) = q_path q) -> find_q (map f t) p = option_map f (find_q t p).
Proof.
  intros f t p Hf. induction t as [|x r IH]; [reflexivity|]. cbn [map find_q]. rewrite Hf.
  destruct (path_eqb (q_path x) p); [reflexivity | exact IH].
Qed.

Lemma wf_map : forall (f : queue -> queue) t,
    (forall q, q_path (f q) = q_path q) -> wf_tree t = true -> wf_tree (map f t) = true.
Proof.
  intros f t Hf H. unfold wf_tree in *. apply andb_true_iff in H as [H1 H2]. apply andb_true_iff. split.
  - rewrite find_q_map by exact Hf. destruct (find_q t [s_root]); [reflexivity | discriminate].
  - rewrite forallb_forall in *. intros x Hx. apply in_map_iff in Hx as [x0 [Ex Hx0]]. subst x.
    specialize (H2 x0 Hx0). unfold parent_ok in *. rewrite Hf.
    destruct (q_path x0) as [|a [|b l]]; try exact H2.
    rewrite find_q_map by exact Hf. destruct (find_q t (removelast (a :: b :: l))); [reflexivity | discriminate].
Qed.

Lemma wf_setop : forall t o, wf_tree t = true -> wf_tree (apply_setop t o) = true.
Proof.
  intros t o H. destruct o as [p|p]; cbn [apply_setop]; apply wf_map; try exact H;
    intro q; match goal with |- q_path (if ?c then _ else _) = _ => destruct c; reflexivity end.
Qed.

Theorem init_world_wf : forall pinned tb name par s a tm ch ops rc via w,
    lower name = s_root ->
    init_world pinned tb (QConf name par s a tm ch) ops rc via = Some w -> wf_tree (w_tree w) = true.
Proof.
  intros pinned tb name par s a tm ch ops rc via w En H. unfold init_world in H.
  destruct (load_q [] 0 (QConf name par s a tm ch)) as [t|] eqn:El; [|discriminate].
  inversion H; subst w. cbn [w_tree]. clear H.
  apply (load_root_wf _ _ _ _ _ _ _ En) in El. revert t El.
  induction ops as [|o ops IH]; intros t Hwf; [exact Hwf|]. cbn [fold_left]. apply IH. apply wf_setop. exact Hwf.
Qed.
