(* Byte strings and the Go string functions the placement code uses (engine place, C17).
   A Go string is a list of byte values.  All names in this engine are ASCII (assumption recorded in
   notes/place.md): strings.ToLower / strings.EqualFold are modelled on ASCII letters only. *)
From Coq Require Import List NArith Bool String Ascii.
Import ListNotations.
Open Scope N_scope.

Definition str := list N.

(* string literals for constants and examples *)
Definition bs (s : string) : str := map N_of_ascii (list_ascii_of_string s).

Fixpoint str_eqb (x y : str) : bool :=
  match x, y with
  | [], [] => true
  | c :: t, d :: u => (c =? d) && str_eqb t u
  | _, _ => false
  end.

Definition is_empty (s : str) : bool := match s with [] => true | _ => false end.

Definition lower_c (c : N) : N := if (65 <=? c) && (c <=? 90) then c + 32 else c.
Definition lower (s : str) : str := map lower_c s.
(* strings.EqualFold on ASCII *)
Definition eq_fold (x y : str) : bool := str_eqb (lower x) (lower y).

Fixpoint has_prefix (p s : str) : bool :=
  match p, s with
  | [], _ => true
  | c :: t, d :: u => (c =? d) && has_prefix t u
  | _ :: _, [] => false
  end.

(* strings.Split(s, sep) for a one byte separator: never returns an empty list *)
Fixpoint split_on (sep : N) (s : str) : list str :=
  match s with
  | [] => [[]]
  | c :: t =>
      if c =? sep then [] :: split_on sep t
      else match split_on sep t with
           | h :: r => (c :: h) :: r
           | [] => [[c]]
           end
  end.

Fixpoint join_with (sep : N) (l : list str) : str :=
  match l with
  | [] => []
  | [x] => x
  | x :: t => x ++ sep :: join_with sep t
  end.

Definition DOT : N := 46.
Definition split_dot (s : str) : list str := split_on DOT s.
Definition join_dot (l : list str) : str := join_with DOT l.

Definition s_root : str := Eval compute in bs "root".
Definition s_root_dot : str := Eval compute in bs "root.".
Definition s_dot_repl : str := Eval compute in bs "_dot_".
Definition s_recovery : str := Eval compute in bs "@recovery@".
Definition s_recovery_full : str := Eval compute in bs "root.@recovery@".
Definition s_recovery_dot : str := Eval compute in bs "root.@recovery@.".
Definition s_default_full : str := Eval compute in bs "root.default".
Definition s_star : str := Eval compute in bs "*".
Definition s_deny : str := Eval compute in bs "deny".
Definition s_test : str := Eval compute in bs "test".
Definition s_nobody : str := Eval compute in bs "nobody".
Definition s_nogroup : str := Eval compute in bs "nogroup".
Definition s_user_k : str := Eval compute in bs "user".
Definition s_fixed_k : str := Eval compute in bs "fixed".
Definition s_provided_k : str := Eval compute in bs "provided".
Definition s_tag_k : str := Eval compute in bs "tag".
Definition s_recovery_k : str := Eval compute in bs "recovery".
Definition s_force_tag : str := Eval compute in bs "application.create.force".

(* placement.replaceDot *)
Definition replace_dot (s : str) : str :=
  flat_map (fun c => if c =? DOT then s_dot_repl else [c]) s.

(* ---- character classes of the regular expressions ---- *)
Definition is_alpha (c : N) : bool := ((65 <=? c) && (c <=? 90)) || ((97 <=? c) && (c <=? 122)).
Definition is_digit (c : N) : bool := (48 <=? c) && (c <=? 57).
Definition is_alnum (c : N) : bool := is_alpha c || is_digit c.
Definition one_of (l : list N) (c : N) : bool := existsb (N.eqb c) l.

(* configs.QueueNameRegExp  ^[a-zA-Z0-9_:#/@-]{1,64}$ *)
Definition qname_char (c : N) : bool := is_alnum c || one_of [95; 58; 35; 47; 64; 45] c.
Definition name_valid (s : str) : bool :=
  negb (is_empty s) && (N.of_nat (List.length s) <=? 64) && forallb qname_char s.

(* ^[first][body]*[$]?$ : the optional trailing dollar is not in any body class used here *)
Definition first_char (c : N) : bool := is_alpha c || (c =? 95).
Fixpoint body_dollar (body : N -> bool) (s : str) : bool :=
  match s with
  | [] => true
  | [c] => body c || (c =? 36)
  | c :: t => body c && body_dollar body t
  end.
Definition re_name (body : N -> bool) (dollar : bool) (s : str) : bool :=
  match s with
  | [] => false
  | c :: t => first_char c && (if dollar then body_dollar body t else forallb body t)
  end.
(* configs.UserRegExp  ^[_a-zA-Z][a-zA-Z0-9:#/_.@-]*[$]?$ *)
Definition conf_user_re : str -> bool := re_name (fun c => is_alnum c || one_of [58; 35; 47; 95; 46; 64; 45] c) true.
(* configs.GroupRegExp ^[_a-zA-Z][a-zA-Z0-9:_.-]*$ *)
Definition conf_group_re : str -> bool := re_name (fun c => is_alnum c || one_of [58; 95; 46; 45] c) false.
(* security.userNameRegExp ^[_a-zA-Z][a-zA-Z0-9_.@-]*[$]?$ *)
Definition acl_user_re : str -> bool := re_name (fun c => is_alnum c || one_of [95; 46; 64; 45] c) true.
(* security.groupRegExp ^[_a-zA-Z][a-zA-Z0-9_-]*$ *)
Definition acl_group_re : str -> bool := re_name (fun c => is_alnum c || one_of [95; 45] c) false.
(* configs.SpecialRegExp [\^$*+?()\[{}|] : the string contains one of these *)
Definition special_re (s : str) : bool := existsb (one_of [94; 36; 42; 43; 63; 40; 41; 91; 123; 125; 124]) s.

(* strings.TrimSpace on ASCII white space *)
Definition is_space (c : N) : bool := one_of [9; 10; 11; 12; 13; 32] c.
Fixpoint trim_left (s : str) : str :=
  match s with c :: t => if is_space c then trim_left t else s | [] => [] end.
Definition trim_space (s : str) : str := rev (trim_left (rev (trim_left s))).

(* strconv.ParseBool: the six spellings of true (everything else is false or an error -> false) *)
Definition parse_bool_true (s : str) : bool :=
  existsb (str_eqb s) [bs "1"; bs "t"; bs "T"; bs "TRUE"; bs "true"; bs "True"].

Definition mem_str (x : str) (l : list str) : bool := existsb (str_eqb x) l.

Fixpoint list_eqb {A} (eq : A -> A -> bool) (l1 l2 : list A) : bool :=
  match l1, l2 with
  | [], [] => true
  | a :: t1, c :: t2 => eq a c && list_eqb eq t1 t2
  | _, _ => false
  end.
Definition path_eqb : list str -> list str -> bool := list_eqb str_eqb.
