(* PlaceApplication (place_loop) against the specification: the result is the queue of the first
   rule, in order, whose result the application can use; an application no rule can place is
   rejected with NoMatch; the repaired code never panics. *)
From Coq Require Import List NArith Bool Lia Arith.
From YK Require Import Place.Str Place.Acl Place.Rules Place.Placement Place.Spec Place.StrLemmas
     Place.AclProofs Place.RulesProofs.
Import ListNotations.
Open Scope N_scope.

(* ---- the walk to the first existing parent ---- *)
Lemma up_from_spec : forall t parts k q j,
    up_from t parts k = Some (q, j) ->
    (1 <= j <= k)%nat /\ get_parts t (map lower (firstn j parts)) = Some q
    /\ forall i, (j < i <= k)%nat -> get_parts t (map lower (firstn i parts)) = None.
Proof.
  induction k as [|k IH]; intros q j H; cbn [up_from] in H; [discriminate|].
  destruct (get_parts t (map lower (firstn (S k) parts))) as [q0|] eqn:E.
  - inversion H; subst. split; [lia|]. split; [exact E|]. intros i Hi. lia.
  - apply IH in H as [H1 [H2 H3]]. split; [lia|]. split; [exact H2|].
    intros i Hi. destruct (Nat.eq_dec i (S k)) as [->|Hne]; [exact E | apply H3; lia].
Qed.

Lemma get_parts_exist : forall t parts q,
    get_parts t parts = Some q -> all_exist t (q_path q) /\ q_path q = parts /\ find_q t (q_path q) = Some q.
Proof. intros t parts q H. apply get_parts_spec in H as [H1 [H2 [H3 _]]]. rewrite H1. auto. Qed.

Lemma existing_parent_exist : forall t n q,
    existing_parent t n = Some q -> all_exist t (q_path q) /\ find_q t (q_path q) = Some q.
Proof.
  intros t n q H. unfold existing_parent in H.
  destruct (up_from t (split_dot n) (length (split_dot n) - 1)) as [[q0 j]|] eqn:E; [|discriminate].
  inversion H; subst. apply up_from_spec in E as [_ [E _]]. apply get_parts_exist in E as [E1 [_ E2]].
  split; assumption.
Qed.

(* ---- the checks of PlaceApplication = admissible ---- *)
Lemma check_result_spec : forall t a qn,
    check_result false t a qn = match admissible t a qn with Some n => Some (PPlaced n) | None => None end.
Proof.
  intros t a qn. unfold check_result, admissible. cbv beta iota zeta.
  destruct (is_recovery_path qn); [destruct (is_recovery qn && forced a); reflexivity|].
  destruct (get_queue t qn) as [q|] eqn:Eq.
  - unfold get_queue in Eq. apply get_parts_exist in Eq as [Hall _].
    rewrite (check_submit_spec t a q Hall).
    destruct (q_leaf q), (acl_admitted t a (q_path q)), (qstate_eqb (q_state q) QDraining); reflexivity.
  - destruct (existing_parent t qn) as [q|] eqn:Ep; [|reflexivity].
    apply existing_parent_exist in Ep as [Hall _]. rewrite (check_submit_spec t a q Hall).
    destruct (acl_admitted t a (q_path q)); reflexivity.
Qed.

(* ---- index shifting ---- *)
Lemma yield_cons_S : forall t a r rs i, yield t a (r :: rs) (S i) = yield t a rs i.
Proof. intros. unfold yield. reflexivity. Qed.
Lemma passes_cons_S : forall t a r rs i, passes t a (r :: rs) (S i) = passes t a rs i.
Proof. intros. unfold passes. rewrite yield_cons_S. reflexivity. Qed.
Lemma forallb_map_S : forall (f g : nat -> bool) l, (forall i, f (S i) = g i) -> forallb f (map S l) = forallb g l.
Proof. intros f g l H. induction l as [|x l IH]; simpl; [reflexivity|]. rewrite H, IH. reflexivity. Qed.
Lemma passes_seq_S : forall t a r rs i,
    forallb (passes t a (r :: rs)) (seq 0 (S i)) = passes t a (r :: rs) 0 && forallb (passes t a rs) (seq 0 i).
Proof.
  intros. cbn [seq forallb]. rewrite <- seq_shift. f_equal. apply forallb_map_S. intro j. apply passes_cons_S.
Qed.
Lemma chosen_cons_S : forall t a r rs i,
    chosen_at t a (r :: rs) (S i) = if passes t a (r :: rs) 0 then chosen_at t a rs i else None.
Proof.
  intros. unfold chosen_at. rewrite yield_cons_S, passes_seq_S.
  destruct (yield t a rs i); destruct (passes t a (r :: rs) 0); reflexivity.
Qed.

Lemma chosen_not_passes : forall t a rs i n, chosen_at t a rs i = Some n -> passes t a rs i = false.
Proof.
  intros t a rs i n H. unfold chosen_at in H. unfold passes.
  destruct (yield t a rs i) as [|m|e]; try discriminate.
  destruct (forallb (passes t a rs) (seq 0 i)); [|discriminate]. rewrite H. reflexivity.
Qed.

(* ---- what PlaceApplication returns ---- *)
Definition post (t : tree) (a : app) (rs : list rule) (o : pres) : Prop :=
  match o with
  | PPlaced n => exists i, (i < length rs)%nat /\ chosen_at t a rs i = Some n
  | PRejected NoMatch => forall i, (i < length rs)%nat -> passes t a rs i = true
  | PRejected (RuleFailed e) =>
      exists i, (i < length rs)%nat /\ yield t a rs i = RErr e /\ forallb (passes t a rs) (seq 0 i) = true
  | PRejected _ => False
  | PCrash => False
  end.

Lemma post_cons : forall t a r rs o, passes t a (r :: rs) 0 = true -> post t a rs o -> post t a (r :: rs) o.
Proof.
  intros t a r rs o Hp H. destruct o as [n|[]|]; simpl in *; try exact H.
  - destruct H as [i [Hi H]]. exists (S i). split; [lia|]. rewrite chosen_cons_S, Hp. exact H.
  - intros i Hi. destruct i as [|i]; [exact Hp|]. rewrite passes_cons_S. apply H. lia.
  - destruct H as [i [Hi [H1 H2]]]. exists (S i). split; [lia|]. split; [rewrite yield_cons_S; exact H1|].
    rewrite passes_seq_S, Hp, H2. reflexivity.
Qed.

Lemma default_nonempty : is_empty s_default_full = false.
Proof. reflexivity. Qed.

Lemma place_loop_post : forall t a rs, post t a rs (place_loop false t a rs).
Proof.
  intros t a rs. induction rs as [|r rest IH].
  - simpl. intros i Hi. lia.
  - cbn [place_loop]. rewrite place_rule_spec.
    assert (Hy : yield t a (r :: rest) 0 =
                 match norm (s_rule t a r) with
                 | RNone => if (match rest with [] => true | _ => false end) && q_exists t s_default_full
                            then RName s_default_full else RNone
                 | x => x
                 end).
    { unfold yield. cbn [nth_error length]. destruct rest; reflexivity. }
    destruct (s_rule t a r) as [|n|e] eqn:Er.
    + (* the rule yields nothing *)
      cbn [is_empty andb norm] in *.
      destruct rest as [|r2 rest'].
      * cbn [andb] in *. destruct (q_exists t s_default_full) eqn:Ed.
        -- rewrite default_nonempty. rewrite check_result_spec.
           destruct (admissible t a s_default_full) as [n|] eqn:Ea.
           ++ simpl. exists 0%nat. split; [lia|]. unfold chosen_at. rewrite Hy. simpl. exact Ea.
           ++ simpl. intros i Hi. assert (i = 0)%nat by lia. subst. unfold passes. rewrite Hy, Ea. reflexivity.
        -- simpl. intros i Hi. assert (i = 0)%nat by lia. subst. unfold passes. rewrite Hy. reflexivity.
      * cbn [andb is_empty]. apply post_cons; [|exact IH]. unfold passes. rewrite Hy. reflexivity.
    + destruct n as [|c n'].
      * (* an empty name is no result *)
        cbn [is_empty andb norm] in *.
        destruct rest as [|r2 rest'].
        -- cbn [andb] in *. destruct (q_exists t s_default_full) eqn:Ed.
           ++ rewrite default_nonempty. rewrite check_result_spec.
              destruct (admissible t a s_default_full) as [n|] eqn:Ea.
              ** simpl. exists 0%nat. split; [lia|]. unfold chosen_at. rewrite Hy. simpl. exact Ea.
              ** simpl. intros i Hi. assert (i = 0)%nat by lia. subst. unfold passes. rewrite Hy, Ea. reflexivity.
           ++ simpl. intros i Hi. assert (i = 0)%nat by lia. subst. unfold passes. rewrite Hy. reflexivity.
        -- cbn [andb is_empty]. apply post_cons; [|exact IH]. unfold passes. rewrite Hy. reflexivity.
      * cbn [is_empty andb norm] in *. rewrite check_result_spec.
        destruct (admissible t a (c :: n')) as [n|] eqn:Ea.
        -- simpl. exists 0%nat. split; [lia|]. unfold chosen_at. rewrite Hy. simpl. exact Ea.
        -- apply post_cons; [|exact IH]. unfold passes. rewrite Hy, Ea. reflexivity.
    + simpl. exists 0%nat. split; [lia|]. split; [rewrite Hy; reflexivity | reflexivity].
Qed.

Lemma loop_placed : forall t a rs n,
    place_loop false t a rs = PPlaced n -> exists i, (i < length rs)%nat /\ chosen_at t a rs i = Some n.
Proof. intros t a rs n H. pose proof (place_loop_post t a rs) as P. rewrite H in P. exact P. Qed.

Lemma loop_no_crash : forall t a rs, place_loop false t a rs <> PCrash.
Proof. intros t a rs H. pose proof (place_loop_post t a rs) as P. rewrite H in P. exact P. Qed.

Lemma loop_unmatched : forall t a rs,
    (forall i, (i < length rs)%nat -> passes t a rs i = true) -> place_loop false t a rs = PRejected NoMatch.
Proof.
  intros t a rs Hall. pose proof (place_loop_post t a rs) as P.
  destruct (place_loop false t a rs) as [n|re|]; simpl in P.
  - destruct P as [i [Hi Hc]]. apply chosen_not_passes in Hc. rewrite (Hall i Hi) in Hc. discriminate.
  - destruct re; try contradiction; [reflexivity|].
    destruct P as [i [Hi [Hy _]]]. specialize (Hall i Hi). unfold passes in Hall. rewrite Hy in Hall. discriminate.
  - contradiction.
Qed.
