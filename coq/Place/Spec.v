(* Specification of property C17, written independently of the operational model of
   PlaceApplication / AddApplication (Place/Placement.v):
   - [acl_admitted]: the user is admitted by the submit or admin ACL of the queue or of an ancestor
     (no recursion over the parent chain: an existential over the prefixes of the path);
   - [s_rule]: what one rule (with its parent rules) yields, one generic definition for the four
     configurable rules instead of four transcriptions;
   - [chosen_at]: rule number i is the FIRST rule whose result the application can use;
   - [placed_ok_b], [recovery_only_forced_b], [unmatched_b]: the three clauses of the property as
     boolean predicates over (world before, application, resulting queue, world after).  The same
     predicates are the oracles of the correspondence run (Oracles/PlaceCheck.v) and the statements
     of the theorems (Props/C17.v). *)
From Coq Require Import List NArith Bool Arith.
From YK Require Import Place.Str Place.Acl Place.Rules Place.Placement.
Import ListNotations.
Open Scope N_scope.

(* ---------- ACL admission ---------- *)
Definition grants (t : tree) (a : app) (p : list str) : bool :=
  match find_q t p with
  | Some q => check_access (q_submit q) (ap_user a) (ap_groups a)
              || check_access (q_admin q) (ap_user a) (ap_groups a)
  | None => false
  end.

(* all non-empty prefixes of a path, shortest first *)
Fixpoint prefixes (pre rest : list str) : list (list str) :=
  match rest with
  | [] => []
  | x :: r => (pre ++ [x]) :: prefixes (pre ++ [x]) r
  end.

(* the recovery queue lies on the chain from [p] up to its ancestor [anc] *)
Definition blocked (anc p : list str) : bool := is_prefix anc recovery_parts && is_prefix recovery_parts p.

Definition acl_admitted (t : tree) (a : app) (p : list str) : bool :=
  existsb (fun anc => grants t a anc && negb (blocked anc p)) (prefixes [] p).

(* ---------- what a rule yields ---------- *)
Definition s_source (k : rkind) (a : app) : option str :=
  match k with
  | KProvided => if is_empty (ap_queue a) then None else Some (ap_queue a)
  | KUser => Some (ap_user a)
  | KTag tg => let v := get_tag (ap_tags a) tg in if is_empty v then None else Some v
  | KFixed q _ => Some q
  | _ => None
  end.
Definition s_qualified (k : rkind) (src : str) : bool :=
  match k with KFixed _ ql => ql | KUser => false | _ => has_prefix s_root_dot src end.
Definition s_child (k : rkind) (src : str) : str :=
  match k with KFixed _ _ => src | _ => replace_dot src end.
Definition s_name_ok (k : rkind) (src : str) : bool :=
  match k with
  | KFixed _ _ => true       (* checked when the rule was built *)
  | _ => if s_qualified k src then forallb name_valid (split_dot src) else name_valid (replace_dot src)
  end.

Fixpoint s_rule (t : tree) (a : app) (r : rule) : rres :=
  let 'Rule k create f parent := r in
  match k with
  | KRecovery => if forced a then RName s_recovery_full else RNone
  | KTest => if is_empty (ap_queue a) then RName s_test
             else if forallb name_valid (split_dot (ap_queue a)) then RName (replace_dot (ap_queue a))
             else RErr EInvalidName
  | _ =>
      match s_source k a with
      | None => RNone
      | Some src =>
          if negb (allow_user f a) then RNone
          else if negb (s_name_ok k src) then RErr EInvalidName
          else
            let full :=
              if s_qualified k src then RName src
              else match parent with
                   | None => RName (s_root_dot ++ s_child k src)
                   | Some p =>
                       match s_rule t a p with
                       | RErr e => RErr e
                       | RNone => RNone
                       | RName pn =>
                           if is_empty pn then RNone
                           else let pq := if has_prefix s_root_dot pn then pn else s_root_dot ++ pn in
                                if q_exists t pq && q_is_leaf t pq then RErr EParentLeaf
                                else RName (pq ++ DOT :: s_child k src)
                       end
                   end in
            match full with
            | RName n => if create || q_exists t n then RName n else RNone
            | x => x
            end
      end
  end.

(* ---------- can the application use the queue a rule yielded ---------- *)
(* Some n' = yes, it is placed under the name n' *)
Definition admissible (t : tree) (a : app) (n : str) : option str :=
  if is_recovery_path n then (if is_recovery n && forced a then Some s_recovery_full else None)
  else match get_queue t n with
       | Some q => if q_leaf q && acl_admitted t a (q_path q) && negb (qstate_eqb (q_state q) QDraining)
                   then Some n else None
       | None => match existing_parent t n with
                 | Some q => if acl_admitted t a (q_path q) then Some n else None
                 | None => None
                 end
       end.

(* an empty name is no result *)
Definition norm (r : rres) : rres := match r with RName [] => RNone | x => x end.

(* result of rule number i; the last rule falls back to root.default when it yields nothing *)
Definition yield (t : tree) (a : app) (rs : list rule) (i : nat) : rres :=
  match nth_error rs i with
  | None => RNone
  | Some r => match norm (s_rule t a r) with
              | RNone => if Nat.eqb (S i) (length rs) && q_exists t s_default_full
                         then RName s_default_full else RNone
              | x => x
              end
  end.

(* rule j is passed over: it yields nothing the application can use (and does not fail) *)
Definition passes (t : tree) (a : app) (rs : list rule) (j : nat) : bool :=
  match yield t a rs j with
  | RErr _ => false
  | RNone => true
  | RName m => match admissible t a m with None => true | Some _ => false end
  end.

(* rule i is the first rule that yields a usable queue *)
Definition chosen_at (t : tree) (a : app) (rs : list rule) (i : nat) : option str :=
  match yield t a rs i with
  | RName m => if forallb (passes t a rs) (seq 0 i) then admissible t a m else None
  | _ => None
  end.

(* ---------- creation ---------- *)
(* the create flag and the result of every level of a rule chain that contributed to the result:
   each level either has create switched on or yields a queue that exists (the recovery and test
   rules have no create semantics); see [levels_create] in PlacementProofs.v *)
Fixpoint levels (t : tree) (a : app) (r : rule) : list (bool * str) :=
  let 'Rule k create f parent := r in
  match k with
  | KRecovery | KTest => []
  | _ =>
      match s_rule t a r with
      | RName n =>
          (create, n) ::
          match parent, s_source k a with
          | Some p, Some src => if s_qualified k src then [] else levels t a p
          | _, _ => []
          end
      | _ => []
      end
  end.

Definition acl_eqb (x y : acl) : bool :=
  list_eqb str_eqb (a_users x) (a_users y) && list_eqb str_eqb (a_groups x) (a_groups y)
  && Bool.eqb (a_all x) (a_all y).
Definition queue_eqb (x y : queue) : bool :=
  path_eqb (q_path x) (q_path y) && Bool.eqb (q_leaf x) (q_leaf y) && Bool.eqb (q_managed x) (q_managed y)
  && qstate_eqb (q_state x) (q_state y) && acl_eqb (q_submit x) (q_submit y) && acl_eqb (q_admin x) (q_admin y)
  && (q_template x =? q_template y) && (q_maxapps x =? q_maxapps y).
Definition unchanged (t t' : tree) : bool := list_eqb queue_eqb t t'.

(* the new queues form the chain from the queue with path [ppath] down to [p]: each is the child of
   the previous one, has a valid name, is dynamic and active; the new parents pass the template
   [tmpl] on, the last one is the leaf [p] and received it (maxapps) *)
Fixpoint chain_ok (ppath : list str) (tmpl : N) (news : list queue) (p : list str) : bool :=
  match news with
  | [] => false
  | q :: r =>
      path_eqb (removelast (q_path q)) ppath
      && name_valid (last (q_path q) []) && negb (q_managed q) && qstate_eqb (q_state q) QActive
      && match r with
         | [] => q_leaf q && (q_maxapps q =? tmpl) && (q_template q =? 0) && path_eqb (q_path q) p
         | _ => negb (q_leaf q) && (q_template q =? tmpl) && (q_maxapps q =? 0) && chain_ok (q_path q) tmpl r p
         end
  end.

(* [p] did not exist: the old queues are untouched, and for some existing queue [anc] on the path
   (the one the creation started from: its child on the path did not exist), [anc] is neither a leaf
   nor draining and the new queues are the chain from [anc] to [p] carrying [anc]'s child template *)
Definition created_ok (t t' : tree) (p : list str) : bool :=
  let n := length t in
  unchanged t (firstn n t')
  && existsb (fun k =>
       match get_parts t (firstn k p) with
       | Some anc =>
           match get_parts t (firstn (S k) p) with
           | Some _ => false
           | None => negb (q_leaf anc) && negb (qstate_eqb (q_state anc) QDraining)
                     && chain_ok (q_path anc) (q_template anc) (skipn n t') p
           end
       | None => false
       end) (seq 1 (length p)).

(* ---------- the three clauses of C17 ---------- *)
Definition no_stopped (t : tree) : bool := forallb (fun q => negb (qstate_eqb (q_state q) QStopped)) t.

(* (1) in a leaf queue that is not draining (Active unless the hierarchy held a Stopped queue, a
   state no production code path gives to a queue); forced placement in the recovery queue checks
   nothing *)
Definition in_leaf_b (t t' : tree) (p : list str) : bool :=
  match get_parts t' p with
  | Some q => q_leaf q
              && (path_eqb p recovery_parts
                  || negb (qstate_eqb (q_state q) QDraining)
                     && (if no_stopped t then qstate_eqb (q_state q) QActive else true))
  | None => false
  end.
(* (2) chosen by the first rule, in configured order, that yields a queue the application can use *)
Definition first_rule_b (t : tree) (a : app) (rs : list rule) (p : list str) : bool :=
  existsb (fun i => match chosen_at t a rs i with
                    | Some n => path_eqb (name_parts n) p
                    | None => false
                    end) (seq 0 (length rs)).
(* (3) admitted by an ACL on the way to the root; the recovery queue only by force-create *)
Definition acl_b (t' : tree) (a : app) (p : list str) : bool :=
  if path_eqb p recovery_parts then forced a else acl_admitted t' a p.
(* (4) an existing queue was a leaf and not draining and the hierarchy is unchanged; a new queue
   was created properly *)
Definition tree_b (t t' : tree) (p : list str) : bool :=
  match get_parts t p with
  | Some q => q_leaf q && (path_eqb p recovery_parts || negb (qstate_eqb (q_state q) QDraining)) && unchanged t t'
  | None => created_ok t t' p
  end.

Definition placed_ok_b (w : world) (a : app) (p : list str) (w' : world) : bool :=
  in_leaf_b (w_tree w) (w_tree w') p && first_rule_b (w_tree w) a (w_rules w) p
  && acl_b (w_tree w') a p && tree_b (w_tree w) (w_tree w') p.

Definition recovery_only_forced_b (a : app) (p : list str) : bool :=
  if is_prefix recovery_parts p then forced a && path_eqb p recovery_parts else true.

(* no rule yields anything the application can use, and no rule fails *)
Definition unmatched_b (w : world) (a : app) : bool :=
  forallb (passes (w_tree w) a (w_rules w)) (seq 0 (length (w_rules w))).

(* hierarchies are closed under taking the parent (what the children maps of the Go queues give)
   and contain the root queue *)
Definition parent_ok (t : tree) (q : queue) : bool :=
  match q_path q with
  | [] => false
  | [x] => str_eqb x s_root
  | p => match find_q t (removelast p) with Some _ => true | None => false end
  end.
Definition wf_tree (t : tree) : bool :=
  (match find_q t [s_root] with Some _ => true | None => false end) && forallb (parent_ok t) t.
