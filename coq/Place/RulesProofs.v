(* The four transcribed rules (Place/Rules.v, place_rule) compute what the generic specification
   s_rule (Place/Spec.v) says, for every rule nesting. *)
From Coq Require Import List NArith Bool Lia.
From YK Require Import Place.Str Place.Acl Place.Rules Place.Placement Place.Spec Place.StrLemmas.
Import ListNotations.
Open Scope N_scope.

Section RuleInd.
  Variable P : rule -> Prop.
  Hypothesis H0 : forall k c f, P (Rule k c f None).
  Hypothesis H1 : forall k c f p, P p -> P (Rule k c f (Some p)).
  Fixpoint rule_ind2 (r : rule) : P r :=
    match r with
    | Rule k c f None => H0 k c f
    | Rule k c f (Some p) => H1 k c f p (rule_ind2 p)
    end.
End RuleInd.

Lemma root_dot_eq : forall c, s_root ++ DOT :: c = s_root_dot ++ c.
Proof. reflexivity. Qed.

Lemma finish_eq : forall t create n,
    finish t create n = if create || q_exists t n then RName n else RNone.
Proof. intros t create n. unfold finish. destruct create, (q_exists t n); reflexivity. Qed.

Ltac split_ifs :=
  repeat match goal with
         | |- context [if ?c then _ else _] => destruct c eqn:?
         end; try reflexivity; try discriminate.

Lemma place_rule_spec : forall t a r, place_rule t a r = s_rule t a r.
Proof.
  intros t a r. induction r as [k c f | k c f p IH] using rule_ind2.
  - destruct k; cbn [place_rule s_rule s_source s_qualified s_child s_name_ok with_parent];
      rewrite ?finish_eq, ?root_dot_eq; split_ifs.
  - destruct k; cbn [place_rule s_rule s_source s_qualified s_child s_name_ok with_parent];
      rewrite ?IH; rewrite ?finish_eq; destruct (s_rule t a p) as [|pn|e]; split_ifs.
  all: rewrite finish_eq; match goal with H : _ || _ = _ |- _ => rewrite H end; reflexivity.
Qed.
