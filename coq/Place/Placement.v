(* Model of AppPlacementManager.PlaceApplication (placement.go), Queue.CheckSubmitAccess /
   CheckAdminAccess / addChildQueue / NewDynamicQueue / NewRecoveryQueue (objects/queue.go),
   PartitionContext.AddApplication / createQueue (partition.go), UserGroupCache.ConvertUGI for a
   request that carries groups (usergroup.go) and the construction of the queue hierarchy from a
   validated configuration (NewConfiguredQueue / applyConf).  Definitions only.
   [pinned] = true is the code before the three fix: commits (recovery queue test by exact name and
   only for forced applications; walk to the first existing parent panics on a name without a
   parent inside root). *)
From Coq Require Import List NArith Bool.
From YK Require Import Place.Str Place.Acl Place.Rules.
Import ListNotations.
Open Scope N_scope.

(* common.IsRecoveryQueue (EqualFold) and the new isRecoveryPath of placement.go *)
Definition is_recovery (n : str) : bool := eq_fold n s_recovery_full.
Definition is_recovery_path (n : str) : bool :=
  str_eqb (lower n) s_recovery_full || has_prefix s_recovery_dot (lower n).
Definition recovery_parts : list str := [s_root; s_recovery].

(* Queue.CheckSubmitAccess on the queue with (reversed) path [rp]: own submit or admin ACL, then the
   parent; the recovery queue never passes *)
Fixpoint check_submit_rev (t : tree) (u : str) (gs : list str) (rp : list str) : bool :=
  match rp with
  | [] => false
  | _ :: rest =>
      match find_q t (rev rp) with
      | None => false
      | Some q =>
          if path_eqb (rev rp) recovery_parts then false
          else check_access (q_submit q) u gs || check_access (q_admin q) u gs
               || check_submit_rev t u gs rest
      end
  end.
Definition check_submit (t : tree) (a : app) (q : queue) : bool :=
  check_submit_rev t (ap_user a) (ap_groups a) (rev (q_path q)).

Fixpoint check_admin_rev (t : tree) (u : str) (gs : list str) (rp : list str) : bool :=
  match rp with
  | [] => false
  | _ :: rest =>
      match find_q t (rev rp) with
      | None => false
      | Some q => check_access (q_admin q) u gs || check_admin_rev t u gs rest
      end
  end.

(* walk up to the first existing queue: "current = current[0:LastIndex(current, DOT)]; queue =
   queueFn(current)" until a queue is found.  On the parts of the raw name this tries the prefixes of
   length k, k-1, ..., 1 (a single part has no DOT left: the pinned code panics there, LastIndex = -1).
   Returns the queue and the length of its path. *)
Fixpoint up_from (t : tree) (parts : list str) (k : nat) : option (queue * nat) :=
  match k with
  | O => None
  | S k' => match get_parts t (map lower (firstn k parts)) with
            | Some q => Some (q, k)
            | None => up_from t parts k'
            end
  end.
Definition existing_parent (t : tree) (n : str) : option queue :=
  let parts := split_dot n in
  match up_from t parts (length parts - 1) with Some (q, _) => Some q | None => None end.

Inductive reason :=
| NoMatch                 (* ErrorRejected: no placement rule matched *)
| RuleFailed (e : rerr)   (* a rule returned an error *)
| UserRejected            (* ConvertUGI refused the user *)
| IllegalName             (* createQueue: illegal queue name passed in *)
| CreateDenied            (* createQueue: submit access denied during create *)
| CreateParentLeaf        (* createQueue: parent is already a leaf *)
| CreateFailed            (* NewDynamicQueue / NewRecoveryQueue / addChildQueue failed *)
| NotLeaf.                (* AddApplication: queue is not a leaf *)

Inductive pres := PPlaced (n : str) | PRejected (r : reason) | PCrash.

(* the checks of PlaceApplication on a non-empty rule result; None = next rule *)
Definition check_result (pinned : bool) (t : tree) (a : app) (qn : str) : option pres :=
  let normal (_ : unit) : option pres :=
    match get_queue t qn with
    | None =>
        match existing_parent t qn with
        | None => if pinned then Some PCrash else None
        | Some q => if check_submit t a q then Some (PPlaced qn) else None
        end
    | Some q =>
        if negb (q_leaf q) then None
        else if negb (check_submit t a q) then None
        else if qstate_eqb (q_state q) QDraining then None
        else Some (PPlaced qn)
    end in
  if pinned then
    if str_eqb qn s_recovery_full && forced a then Some (PPlaced qn) else normal tt
  else
    if is_recovery_path qn then
      if is_recovery qn && forced a then Some (PPlaced s_recovery_full) else None
    else normal tt.

Fixpoint place_loop (pinned : bool) (t : tree) (a : app) (rs : list rule) : pres :=
  match rs with
  | [] => PRejected NoMatch
  | r :: rest =>
      match place_rule t a r with
      | RErr e => PRejected (RuleFailed e)
      | res =>
          let qn := match res with RName n => n | _ => [] end in
          let qn := if is_empty qn && (match rest with [] => true | _ => false end)
                    then (if q_exists t s_default_full then s_default_full else [])
                    else qn in
          if is_empty qn then place_loop pinned t a rest
          else match check_result pinned t a qn with
               | Some p => p
               | None => place_loop pinned t a rest
               end
      end
  end.

(* ---- queue creation ---- *)
(* Queue.addChildQueue + newDynamicQueueInternal: the new queue under [parent] *)
Definition add_dynamic (t : tree) (parent : queue) (name : str) (leaf : bool) : option (tree * queue) :=
  if q_leaf parent then None
  else if qstate_eqb (q_state parent) QDraining then None
  else
    let q := mkQ (q_path parent ++ [lower name]) leaf false QActive acl_zero acl_zero
                 (if leaf then 0 else q_template parent)
                 (if leaf then q_template parent else 0) in
    Some (t ++ [q], q).

(* objects.NewDynamicQueue *)
Definition new_dynamic (t : tree) (parent : queue) (name : str) (leaf : bool) : option (tree * queue) :=
  if negb (name_valid name) then None
  else if str_eqb name s_recovery then None
  else add_dynamic t parent name leaf.

(* the creation loop of createQueue: [names] from the top, the last one is the leaf *)
Fixpoint create_chain (t : tree) (parent : queue) (names : list str) : tree * option queue :=
  match names with
  | [] => (t, Some parent)
  | n :: rest =>
      match new_dynamic t parent n (match rest with [] => true | _ => false end) with
      | None => (t, None)
      | Some (t', q) => create_chain t' q rest
      end
  end.

(* createQueue: the same walk starting from the full name (which does not exist); the parts below the
   queue found are the names to create, top first (raw case) *)
Definition to_create (t : tree) (parts : list str) : option (queue * list str) :=
  match up_from t parts (length parts) with
  | Some (q, k) => Some (q, skipn k parts)
  | None => None
  end.

Inductive cres := COk (t : tree) (q : queue) | CErr (t : tree) (r : reason) | CCrash.

Definition create_queue (t : tree) (a : app) (n : str) : cres :=
  if negb (has_prefix s_root n) || negb (existsb (N.eqb DOT) n) then CErr t IllegalName
  else
    let parts := split_dot n in
    match to_create t parts with
    | None => CCrash
    | Some (q, names) =>
        if negb (check_submit t a q) then CErr t CreateDenied
        else if q_leaf q then CErr t CreateParentLeaf
        else match create_chain t q names with
             | (t', Some q') => COk t' q'
             | (t', None) => CErr t' CreateFailed
             end
    end.

(* NewRecoveryQueue(root) *)
Definition create_recovery (t : tree) : cres :=
  match find_q t [s_root] with
  | None => CCrash
  | Some root => match add_dynamic t root s_recovery true with
                 | Some (t', q) => COk t' q
                 | None => CErr t CreateFailed
                 end
  end.

Inductive outcome := Accepted (path : list str) | Rejected (r : reason) | Crashed.

Record world := mkW { w_tree : tree; w_rules : list rule }.

(* PartitionContext.AddApplication (active partition, new application id, no placeholder ask, no
   resource tags) *)
Definition add_application (pinned : bool) (w : world) (a : app) : outcome * world :=
  let t := w_tree w in
  match place_loop pinned t a (w_rules w) with
  | PCrash => (Crashed, w)
  | PRejected r => (Rejected r, w)
  | PPlaced qn =>
      let cr := match get_queue t qn with
                | Some q => COk t q
                | None => if is_recovery qn then create_recovery t else create_queue t a qn
                end in
      match cr with
      | CCrash => (Crashed, w)
      | CErr t' r => (Rejected r, mkW t' (w_rules w))
      | COk t' q => if q_leaf q then (Accepted (q_path q), mkW t' (w_rules w))
                    else (Rejected NotLeaf, mkW t' (w_rules w))
      end
  end.

(* ---- ConvertUGI for a request that carries groups, then AddApplication ---- *)
Definition convert_ugi (a : app) : option app :=
  let '(u, gs) := if is_empty (ap_user a)
                  then (if forced a then (s_nobody, [s_nogroup]) else ([], []))
                  else (ap_user a, ap_groups a) in
  if is_empty u then None
  else if negb (conf_user_re u) then None
  else Some (mkApp u gs (ap_queue a) (ap_tags a)).

Definition submit (pinned : bool) (w : world) (a : app) : outcome * world :=
  match convert_ugi a with
  | None => (Rejected UserRejected, w)
  | Some a' => add_application pinned w a'
  end.

(* ---- hierarchy from a validated configuration ---- *)
Inductive qconf := QConf (name : str) (parent : bool) (submit admin : str) (tmpl : N) (children : list qconf).

(* NewConfiguredQueue + applyConf + addChildQueue; None = ACL parse error (load fails) *)
Fixpoint load_q (ppath : list str) (ptmpl : N) (c : qconf) : option tree :=
  let 'QConf name par sub adm tmpl children := c in
  match new_acl sub, new_acl adm with
  | Some sa, Some aa =>
      let path := ppath ++ [lower name] in
      let leaf := negb par && (match children with [] => true | _ => false end) in
      let tm := if leaf then 0 else if tmpl =? 0 then ptmpl else tmpl in
      let q := mkQ path leaf true QActive sa aa tm 0 in
      match (fix go (l : list qconf) : option tree :=
               match l with
               | [] => Some []
               | ch :: r => match load_q path tm ch, go r with
                            | Some t1, Some t2 => Some (t1 ++ t2)
                            | _, _ => None
                            end
               end) children with
      | Some sub => Some (q :: sub)
      | None => None
      end
  | _, _ => None
  end.

(* set-up operations applied to the loaded hierarchy before any application arrives:
   Queue.MarkQueueForRemoval (managed queue and its managed descendants go to Draining) and the
   Stop event of the queue state machine (hook; Active/Stopped -> Stopped, refused when Draining; the
   Remove event is refused when Stopped) *)
Inductive setop := SDrain (p : str) | SStop (p : str).

Fixpoint is_prefix (p l : list str) : bool :=
  match p, l with
  | [], _ => true
  | x :: t, y :: u => str_eqb x y && is_prefix t u
  | _ :: _, [] => false
  end.

Definition set_state (q : queue) (s : qstate) : queue :=
  mkQ (q_path q) (q_leaf q) (q_managed q) s (q_submit q) (q_admin q) (q_template q) (q_maxapps q).

Definition apply_setop (t : tree) (o : setop) : tree :=
  match o with
  | SDrain p => map (fun q => if is_prefix (name_parts p) (q_path q) && q_managed q
                                 && negb (qstate_eqb (q_state q) QStopped)
                              then set_state q QDraining else q) t
  | SStop p => map (fun q => if path_eqb (name_parts p) (q_path q) && negb (qstate_eqb (q_state q) QDraining)
                             then set_state q QStopped else q) t
  end.

(* the partition as the harness builds it: hierarchy from the configuration, rule list either from
   the same configuration (a refused list leaves the manager without rules) or installed afterwards
   through UpdateRules (a refused list leaves the implicit rules of an empty configuration) *)
Definition init_world (pinned : bool) (tb : retab) (root : qconf) (ops : list setop)
           (rc : list rconf) (via_update : bool) : option world :=
  match load_q [] 0 root with
  | None => None
  | Some t =>
      let rules := match build_rules pinned tb rc with
                   | Some rs => rs
                   | None => if via_update
                             then match build_rules pinned tb [] with Some rs => rs | None => [] end
                             else []
                   end in
      Some (mkW (fold_left apply_setop ops t) rules)
  end.
