(* Queue names as strings versus their parts: Split/Join/ToLower/HasPrefix facts used by the
   placement proofs, in particular that the string test isRecoveryPath agrees with the path. *)
From Coq Require Import List NArith Bool Lia Arith.
From YK Require Import Place.Str Place.Acl Place.Rules Place.Placement Place.Spec Place.StrLemmas.
Import ListNotations.
Open Scope N_scope.

Lemma split_on_nonempty : forall sep s, split_on sep s <> [].
Proof.
  intros sep s. destruct s as [|c t]; simpl; [discriminate|].
  destruct (c =? sep); [discriminate|]. destruct (split_on sep t); discriminate.
Qed.

Lemma join_cons2 : forall sep x y l, join_with sep (x :: y :: l) = x ++ sep :: join_with sep (y :: l).
Proof. reflexivity. Qed.

Lemma join_split : forall sep s, join_with sep (split_on sep s) = s.
Proof.
  intros sep s. induction s as [|c t IH]; [reflexivity|].
  cbn [split_on]. destruct (c =? sep) eqn:E.
  - apply N.eqb_eq in E. subst c. destruct (split_on sep t) as [|h r] eqn:Es; [exfalso; exact (split_on_nonempty _ _ Es)|].
    rewrite join_cons2. rewrite IH. reflexivity.
  - destruct (split_on sep t) as [|h r] eqn:Es; [exfalso; exact (split_on_nonempty _ _ Es)|].
    destruct r as [|y r'].
    + simpl in *. rewrite IH. reflexivity.
    + rewrite join_cons2. rewrite <- app_comm_cons. rewrite <- join_cons2. rewrite IH. reflexivity.
Qed.

Lemma has_prefix_app : forall p s, has_prefix p (p ++ s) = true.
Proof. induction p as [|c t IH]; intro s; simpl; [reflexivity|]. rewrite N.eqb_refl. apply IH. Qed.

Lemma lower_c_dot : forall c, (lower_c c =? DOT) = (c =? DOT).
Proof.
  intro c. unfold lower_c, DOT.
  destruct ((65 <=? c) && (c <=? 90)) eqn:E; [|reflexivity].
  apply andb_true_iff in E as [E1 E2]. apply N.leb_le in E1, E2.
  destruct (c + 32 =? 46) eqn:A; destruct (c =? 46) eqn:B; try reflexivity.
  - apply N.eqb_eq in A. lia.
  - apply N.eqb_eq in B. lia.
Qed.

(* strings.Split(strings.ToLower(s), ".") = lower of each part *)
Lemma split_lower : forall s, split_dot (lower s) = map lower (split_dot s).
Proof.
  unfold split_dot, lower. induction s as [|c t IH]; [reflexivity|].
  cbn [map split_on]. rewrite lower_c_dot. destruct (c =? DOT).
  - rewrite IH. reflexivity.
  - rewrite IH. destruct (split_on DOT t); reflexivity.
Qed.

Lemma name_parts_eq : forall n, name_parts n = map lower (split_dot n).
Proof. intro n. unfold name_parts. apply split_lower. Qed.

Lemma lower_idem_c : forall c, lower_c (lower_c c) = lower_c c.
Proof.
  intro c. unfold lower_c. destruct ((65 <=? c) && (c <=? 90)) eqn:E; [|rewrite E; reflexivity].
  apply andb_true_iff in E as [E1 E2]. apply N.leb_le in E1, E2.
  destruct ((65 <=? c + 32) && (c + 32 <=? 90)) eqn:F; [|reflexivity].
  apply andb_true_iff in F as [F1 F2]. apply N.leb_le in F1, F2. lia.
Qed.

(* the recovery queue by name and by path *)
Lemma is_recovery_parts : forall n, is_recovery n = true -> name_parts n = recovery_parts.
Proof.
  intros n H. unfold is_recovery, eq_fold in H. apply str_eqb_eq in H.
  unfold name_parts. rewrite H. reflexivity.
Qed.

Lemma is_recovery_is_path : forall n, is_recovery n = true -> is_recovery_path n = true.
Proof.
  intros n H. unfold is_recovery, eq_fold in H. unfold is_recovery_path.
  change (lower s_recovery_full) with s_recovery_full in H. rewrite H. reflexivity.
Qed.

Lemma recovery_path_parts : forall n,
    is_prefix recovery_parts (name_parts n) = true -> is_recovery_path n = true.
Proof.
  intros n H. unfold name_parts in H. unfold is_recovery_path. set (ln := lower n) in *.
  apply is_prefix_spec in H as [m Hm]. pose proof (join_split DOT ln) as J. unfold split_dot in Hm. rewrite Hm in J.
  destruct m as [|y m].
  - change (join_with DOT (recovery_parts ++ [])) with s_recovery_full in J. rewrite <- J.
    rewrite str_eqb_refl. reflexivity.
  - change (recovery_parts ++ y :: m) with (s_root :: s_recovery :: y :: m) in J.
    rewrite !join_cons2 in J.
    replace (s_root ++ DOT :: s_recovery ++ DOT :: join_with DOT (y :: m))
      with (s_recovery_dot ++ join_with DOT (y :: m)) in J by reflexivity.
    rewrite <- J. rewrite has_prefix_app. apply orb_true_r.
Qed.

Lemma not_recovery_path_parts : forall n,
    is_recovery_path n = false -> is_prefix recovery_parts (name_parts n) = false.
Proof.
  intros n H. destruct (is_prefix recovery_parts (name_parts n)) eqn:E; [|reflexivity].
  apply recovery_path_parts in E. congruence.
Qed.

Lemma recovery_full_parts : name_parts s_recovery_full = recovery_parts.
Proof. reflexivity. Qed.

(* valid names stay valid when lower-cased *)
Lemma qname_char_lower : forall c, qname_char c = true -> qname_char (lower_c c) = true.
Proof.
  intros c H. unfold lower_c. destruct ((65 <=? c) && (c <=? 90)) eqn:E; [|exact H].
  apply andb_true_iff in E as [E1 E2]. apply N.leb_le in E1, E2.
  unfold qname_char, is_alnum, is_alpha.
  assert (A : (97 <=? c + 32) && (c + 32 <=? 122) = true).
  { apply andb_true_iff. split; apply N.leb_le; lia. }
  rewrite A. rewrite orb_true_r. reflexivity.
Qed.

Lemma name_valid_lower : forall s, name_valid s = true -> name_valid (lower s) = true.
Proof.
  intros s H. unfold name_valid in *. apply andb_true_iff in H as [H H3]. apply andb_true_iff in H as [H1 H2].
  apply andb_true_iff. split; [apply andb_true_iff; split|].
  - destruct s; [discriminate | reflexivity].
  - unfold lower. rewrite map_length. exact H2.
  - unfold lower. rewrite forallb_forall in *. intros x Hx. apply in_map_iff in Hx as [c [Ec Hc]]. subst x.
    apply qname_char_lower. apply H3. exact Hc.
Qed.
