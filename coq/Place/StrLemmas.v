(* Lemmas about byte strings, paths and the lookup functions (proofs only). *)
From Coq Require Import List NArith Bool Lia Arith.
From YK Require Import Place.Str Place.Acl Place.Rules Place.Placement Place.Spec.
Import ListNotations.
Open Scope N_scope.

Lemma str_eqb_eq : forall x y, str_eqb x y = true <-> x = y.
Proof.
  induction x as [|c t IH]; destruct y as [|d u]; simpl; split; intro H; try reflexivity; try discriminate.
  - apply andb_true_iff in H as [H1 H2]. apply N.eqb_eq in H1. apply IH in H2. subst. reflexivity.
  - inversion H; subst. rewrite N.eqb_refl. simpl. apply IH. reflexivity.
Qed.
Lemma str_eqb_refl : forall x, str_eqb x x = true.
Proof. intro x. apply str_eqb_eq. reflexivity. Qed.

Lemma list_eqb_eq : forall A (eq : A -> A -> bool),
    (forall x y, eq x y = true <-> x = y) -> forall l1 l2, list_eqb eq l1 l2 = true <-> l1 = l2.
Proof.
  intros A eq Heq. induction l1 as [|a t IH]; destruct l2 as [|c u]; simpl; split; intro H;
    try reflexivity; try discriminate.
  - apply andb_true_iff in H as [H1 H2]. apply Heq in H1. apply IH in H2. subst. reflexivity.
  - inversion H; subst. apply andb_true_iff. split. apply Heq. reflexivity. apply IH. reflexivity.
Qed.

Lemma path_eqb_eq : forall x y, path_eqb x y = true <-> x = y.
Proof. apply list_eqb_eq. apply str_eqb_eq. Qed.
Lemma path_eqb_refl : forall x, path_eqb x x = true.
Proof. intro x. apply path_eqb_eq. reflexivity. Qed.
Lemma path_eqb_neq : forall x y, path_eqb x y = false <-> x <> y.
Proof.
  intros x y. split; intro H.
  - intro E. apply path_eqb_eq in E. congruence.
  - destruct (path_eqb x y) eqn:E; [apply path_eqb_eq in E; contradiction | reflexivity].
Qed.

Lemma find_q_path : forall t p q, find_q t p = Some q -> q_path q = p.
Proof.
  induction t as [|x r IH]; simpl; intros p q H; [discriminate|].
  destruct (path_eqb (q_path x) p) eqn:E.
  - inversion H; subst. apply path_eqb_eq. exact E.
  - apply IH. exact H.
Qed.

Lemma find_q_app_l : forall t u p q, find_q t p = Some q -> find_q (t ++ u) p = Some q.
Proof.
  induction t as [|x r IH]; simpl; intros u p q H; [discriminate|].
  destruct (path_eqb (q_path x) p); [exact H | apply IH; exact H].
Qed.
Lemma find_q_app_r : forall t u p, find_q t p = None -> find_q (t ++ u) p = find_q u p.
Proof.
  induction t as [|x r IH]; simpl; intros u p H; [reflexivity|].
  destruct (path_eqb (q_path x) p); [discriminate | apply IH; exact H].
Qed.

(* ---- is_prefix ---- *)
Lemma is_prefix_refl : forall l, is_prefix l l = true.
Proof. induction l as [|x t IH]; simpl; [reflexivity|]. rewrite str_eqb_refl. exact IH. Qed.
Lemma is_prefix_app : forall l m, is_prefix l (l ++ m) = true.
Proof. induction l as [|x t IH]; simpl; intro m; [reflexivity|]. rewrite str_eqb_refl. apply IH. Qed.
Lemma is_prefix_spec : forall p l, is_prefix p l = true <-> exists m, l = p ++ m.
Proof.
  induction p as [|x t IH]; simpl; intros l.
  - split; [intros _; exists l; reflexivity | reflexivity].
  - destruct l as [|y u].
    + split; [discriminate | intros [m H]; discriminate].
    + split.
      * intro H. apply andb_true_iff in H as [H1 H2]. apply str_eqb_eq in H1. apply IH in H2 as [m Hm].
        exists m. subst. reflexivity.
      * intros [m H]. inversion H; subst. rewrite str_eqb_refl. apply IH. exists m. reflexivity.
Qed.
Lemma is_prefix_trans : forall a b c, is_prefix a b = true -> is_prefix b c = true -> is_prefix a c = true.
Proof.
  intros a b c H1 H2. apply is_prefix_spec in H1 as [m1 E1]. apply is_prefix_spec in H2 as [m2 E2].
  apply is_prefix_spec. exists (m1 ++ m2). subst. rewrite app_assoc. reflexivity.
Qed.
(* a prefix of l ++ [x] is a prefix of l or the whole list *)
Lemma is_prefix_snoc : forall r l x, is_prefix r (l ++ [x]) = is_prefix r l || path_eqb r (l ++ [x]).
Proof.
  induction r as [|a r IH]; intros l x.
  - reflexivity.
  - destruct l as [|b l].
    + unfold path_eqb. simpl. destruct r; simpl; reflexivity.
    + simpl. rewrite IH. unfold path_eqb. simpl. destruct (str_eqb a b); simpl; reflexivity.
Qed.

(* ---- prefixes ---- *)
Lemma prefixes_snoc : forall rest pre x,
    prefixes pre (rest ++ [x]) = prefixes pre rest ++ [pre ++ rest ++ [x]].
Proof.
  induction rest as [|y r IH]; intros pre x; simpl.
  - reflexivity.
  - rewrite IH. rewrite <- app_assoc. reflexivity.
Qed.

Lemma prefixes_in : forall rest pre l, In l (prefixes pre rest) -> exists k, (0 < k <= length rest)%nat /\ l = pre ++ firstn k rest.
Proof.
  induction rest as [|y r IH]; intros pre l H; simpl in H; [contradiction|].
  destruct H as [H|H].
  - exists 1%nat. simpl. split; [lia|]. subst. reflexivity.
  - apply IH in H as [k [Hk E]]. exists (S k). simpl. split; [lia|]. subst. rewrite <- app_assoc. reflexivity.
Qed.

Lemma prefixes_app : forall r1 r2 pre, prefixes pre (r1 ++ r2) = prefixes pre r1 ++ prefixes (pre ++ r1) r2.
Proof.
  induction r1 as [|y r IH]; intros r2 pre; simpl.
  - rewrite app_nil_r. reflexivity.
  - rewrite IH. rewrite <- app_assoc. reflexivity.
Qed.
