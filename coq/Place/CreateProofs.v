(* Queue creation (createQueue / NewDynamicQueue / addChildQueue / NewRecoveryQueue) against
   [created_ok], and the invariant [wf_tree]. *)
From Coq Require Import List NArith Bool Lia Arith.
From YK Require Import Place.Str Place.Acl Place.Rules Place.Placement Place.Spec Place.StrLemmas
     Place.AclProofs Place.NameLemmas Place.LoopProofs.
Import ListNotations.
Open Scope N_scope.

Lemma find_q_In : forall t p q, find_q t p = Some q -> In q t.
Proof.
  induction t as [|x r IH]; simpl; intros p q H; [discriminate|].
  destruct (path_eqb (q_path x) p); [inversion H; left; reflexivity | right; apply IH with p; exact H].
Qed.

(* ---- wf_tree: every queue of the list is reachable by the lookup walk ---- *)
Lemma parent_ok_snoc : forall t q p0 x,
    q_path q = p0 ++ [x] -> p0 <> [] -> parent_ok t q = true -> find_q t p0 <> None.
Proof.
  intros t q p0 x E Hne H. unfold parent_ok in H. rewrite E in H.
  destruct p0 as [|y p0']; [contradiction|].
  change ((y :: p0') ++ [x]) with (y :: (p0' ++ [x])) in H.
  destruct (p0' ++ [x]) as [|z l] eqn:E2; [destruct p0'; discriminate|].
  rewrite <- E2 in H. change (y :: p0' ++ [x]) with ((y :: p0') ++ [x]) in H.
  rewrite removelast_last in H. destruct (find_q t (y :: p0')); [discriminate | discriminate].
Qed.

Lemma wf_all_exist : forall t, wf_tree t = true -> forall p q, find_q t p = Some q -> all_exist t p.
Proof.
  intros t Hwf. unfold wf_tree in Hwf. apply andb_true_iff in Hwf as [_ Hwf]. rewrite forallb_forall in Hwf.
  induction p as [|x p0 IH] using rev_ind; intros q H.
  - intros l [].
  - intros l Hl. rewrite prefixes_snoc in Hl. apply in_app_or in Hl as [Hl|[Hl|[]]].
    + destruct p0 as [|y p0']; [simpl in Hl; contradiction|].
      assert (Hp : find_q t (y :: p0') <> None).
      { apply parent_ok_snoc with q x; [apply find_q_path with t; exact H | discriminate |].
        apply Hwf. apply find_q_In with ((y :: p0') ++ [x]). exact H. }
      destruct (find_q t (y :: p0')) as [q0|] eqn:E0; [|congruence].
      apply (IH q0 eq_refl). exact Hl.
    + subst l. simpl. congruence.
Qed.

Lemma wf_root : forall t, wf_tree t = true -> exists root, find_q t [s_root] = Some root.
Proof.
  intros t H. unfold wf_tree in H. apply andb_true_iff in H as [H _].
  destruct (find_q t [s_root]) as [r|]; [exists r; reflexivity | discriminate].
Qed.

(* the lookup walk is monotone in the list and steps one name at a time *)
Lemma walk_app : forall t u rest pre q, walk t pre rest = Some q -> walk (t ++ u) pre rest = Some q.
Proof.
  induction rest as [|x r IH]; intros pre q H; simpl in *.
  - apply find_q_app_l. exact H.
  - destruct (find_q t pre) as [q0|] eqn:E; [|discriminate].
    rewrite (find_q_app_l _ _ _ _ E). apply IH. exact H.
Qed.
Lemma get_parts_app : forall t u parts q, get_parts t parts = Some q -> get_parts (t ++ u) parts = Some q.
Proof.
  intros t u parts q H. unfold get_parts in *. destruct parts as [|x r]; [discriminate|].
  destruct (str_eqb x s_root); [apply walk_app; exact H | discriminate].
Qed.
Lemma walk_snoc : forall t rest pre x,
    walk t pre (rest ++ [x]) = match walk t pre rest with Some _ => find_q t (pre ++ rest ++ [x]) | None => None end.
Proof.
  induction rest as [|y r IH]; intros pre x; simpl.
  - destruct (find_q t pre); reflexivity.
  - destruct (find_q t pre); [|reflexivity]. rewrite IH. rewrite <- app_assoc. reflexivity.
Qed.
Lemma get_parts_snoc : forall t parts x q,
    get_parts t parts = Some q -> get_parts t (parts ++ [x]) = find_q t (parts ++ [x]).
Proof.
  intros t parts x q H. unfold get_parts in *. destruct parts as [|y r]; [discriminate|].
  simpl. destruct (str_eqb y s_root) eqn:E; [|discriminate]. apply str_eqb_eq in E. subst y.
  rewrite walk_snoc. rewrite H. reflexivity.
Qed.

(* under wf_tree the walk finds exactly the queues of the list *)
Lemma wf_get_parts : forall t, wf_tree t = true -> forall p q,
    find_q t p = Some q -> get_parts t p = Some q.
Proof.
  intros t Hwf p q H. pose proof (wf_all_exist t Hwf p q H) as Hall.
  unfold wf_tree in Hwf. apply andb_true_iff in Hwf as [_ Hwf]. rewrite forallb_forall in Hwf.
  pose proof (Hwf q (find_q_In _ _ _ H)) as Hq. pose proof (find_q_path _ _ _ H) as Ep.
  destruct p as [|x r].
  - unfold parent_ok in Hq. rewrite Ep in Hq. discriminate.
  - assert (Hx : x = s_root).
    { clear Hq. revert q H Hall Ep. induction r as [|y r IH] using rev_ind; intros q H Hall Ep.
      - pose proof (Hwf q (find_q_In _ _ _ H)) as Hq. unfold parent_ok in Hq. rewrite Ep in Hq.
        apply str_eqb_eq. exact Hq.
      - assert (Hin : In (x :: r) (prefixes [] ((x :: r) ++ [y]))).
        { rewrite prefixes_snoc. apply in_or_app. left.
          change (x :: r) with ([x] ++ r). rewrite prefixes_app. apply in_or_app.
          destruct r as [|z r'] using rev_ind.
          - left. simpl. left. reflexivity.
          - right. rewrite prefixes_snoc. apply in_or_app. right. left. reflexivity. }
        pose proof (Hall _ Hin) as Hex. destruct (find_q t (x :: r)) as [q0|] eqn:E0; [|congruence].
        apply (IH q0 eq_refl).
        + intros l Hl. apply Hall. change ((x :: r) ++ [y]) with (x :: r ++ [y]). change (x :: r ++ [y]) with ((x :: r) ++ [y]).
          rewrite prefixes_snoc. apply in_or_app. left. exact Hl.
        + apply find_q_path with t. exact E0. }
    subst x. unfold get_parts. rewrite str_eqb_refl.
    rewrite walk_complete.
    + exact H.
    + apply Hall. simpl. destruct r; simpl; left; reflexivity.
    + intros l Hl. apply Hall. simpl. destruct r as [|z r']; [simpl in Hl; contradiction|].
      simpl. right. exact Hl.
Qed.
