(* The theorems of C17 over the model of the repaired code (pinned = false), for all worlds. *)
From Coq Require Import List NArith Bool Lia Arith.
From YK Require Import Place.Str Place.Acl Place.Rules Place.Placement Place.Spec Place.StrLemmas
     Place.AclProofs Place.NameLemmas Place.RulesProofs Place.LoopProofs Place.CreateProofs Place.ChainProofs.
Import ListNotations.
Open Scope N_scope.

Lemma acl_eqb_refl : forall x, acl_eqb x x = true.
Proof.
  intro x. unfold acl_eqb. rewrite !(proj2 (list_eqb_eq _ _ str_eqb_eq _ _) eq_refl). rewrite eqb_reflx. reflexivity.
Qed.
Lemma qstate_eqb_refl : forall s, qstate_eqb s s = true.
Proof. destruct s; reflexivity. Qed.
Lemma queue_eqb_refl : forall q, queue_eqb q q = true.
Proof.
  intro q. unfold queue_eqb. rewrite path_eqb_refl, !eqb_reflx, qstate_eqb_refl, !acl_eqb_refl, !N.eqb_refl. reflexivity.
Qed.
Lemma unchanged_refl : forall t, unchanged t t = true.
Proof. induction t as [|q r IH]; [reflexivity|]. unfold unchanged in *. simpl. rewrite queue_eqb_refl, IH. reflexivity. Qed.

Lemma chosen_admissible : forall t a rs i n,
    chosen_at t a rs i = Some n -> exists m, yield t a rs i = RName m /\ admissible t a m = Some n.
Proof.
  intros t a rs i n H. unfold chosen_at in H. destruct (yield t a rs i) as [|m|e]; try discriminate.
  destruct (forallb (passes t a rs) (seq 0 i)); [|discriminate]. exists m. auto.
Qed.

Lemma admissible_cases : forall t a m n,
    admissible t a m = Some n ->
    (n = s_recovery_full /\ is_recovery m = true /\ forced a = true)
    \/ (n = m /\ is_recovery_path m = false
        /\ ((exists q, get_queue t m = Some q /\ q_leaf q = true /\ acl_admitted t a (q_path q) = true
                       /\ qstate_eqb (q_state q) QDraining = false)
            \/ (get_queue t m = None /\ exists q, existing_parent t m = Some q /\ acl_admitted t a (q_path q) = true))).
Proof.
  intros t a m n H. unfold admissible in H. destruct (is_recovery_path m) eqn:Er.
  - destruct (is_recovery m && forced a) eqn:E; [|discriminate]. apply andb_true_iff in E as [E1 E2].
    inversion H. left. auto.
  - right. destruct (get_queue t m) as [q|] eqn:Eq.
    + destruct (q_leaf q && acl_admitted t a (q_path q) && negb (qstate_eqb (q_state q) QDraining)) eqn:E; [|discriminate].
      apply andb_true_iff in E as [E E3]. apply andb_true_iff in E as [E1 E2]. apply negb_true_iff in E3.
      inversion H. split; [reflexivity|]. split; [reflexivity|]. left. exists q. auto.
    + destruct (existing_parent t m) as [q|] eqn:Ep; [|discriminate].
      destruct (acl_admitted t a (q_path q)) eqn:E; [|discriminate]. inversion H.
      split; [reflexivity|]. split; [reflexivity|]. right. split; [reflexivity|]. exists q. auto.
Qed.

Lemma state_active : forall t q,
    In q t -> qstate_eqb (q_state q) QDraining = false ->
    (if no_stopped t then qstate_eqb (q_state q) QActive else true) = true.
Proof.
  intros t q Hin Hd. destruct (no_stopped t) eqn:E; [|reflexivity].
  unfold no_stopped in E. rewrite forallb_forall in E. specialize (E q Hin).
  destruct (q_state q); simpl in *; congruence.
Qed.

Lemma first_rule_intro : forall t a rs i n p,
    (i < length rs)%nat -> chosen_at t a rs i = Some n -> name_parts n = p -> first_rule_b t a rs p = true.
Proof.
  intros t a rs i n p Hi Hc Ep. unfold first_rule_b. apply existsb_exists. exists i. split.
  - apply in_seq. lia.
  - rewrite Hc. rewrite Ep. apply path_eqb_refl.
Qed.

Lemma not_prefix_not_eq : forall p, is_prefix recovery_parts p = false -> path_eqb p recovery_parts = false.
Proof.
  intros p H. apply path_eqb_neq. intro E. subst p. rewrite is_prefix_refl in H. discriminate.
Qed.

(* ACL admission survives the creation of queues below the admitting queue *)
Lemma acl_admitted_extend : forall t t' a pa l,
    acl_admitted t a pa = true ->
    (forall pre q, find_q t pre = Some q -> find_q t' pre = Some q) ->
    is_prefix recovery_parts (pa ++ l) = false ->
    acl_admitted t' a (pa ++ l) = true.
Proof.
  intros t t' a pa l H Hk Hr. apply acl_admitted_spec in H as [anc [Hin [Hg Hb]]].
  apply acl_admitted_spec. exists anc. split; [|split].
  - rewrite prefixes_app. apply in_or_app. left. exact Hin.
  - unfold grants in *. destruct (find_q t anc) as [q|] eqn:E; [|discriminate]. rewrite (Hk _ _ E). exact Hg.
  - unfold blocked. rewrite Hr. apply andb_false_r.
Qed.

Lemma firstn_len_app : forall A (l m : list A), firstn (length l) (l ++ m) = l.
Proof. intros. rewrite firstn_app, firstn_all, Nat.sub_diag. simpl. apply app_nil_r. Qed.
Lemma skipn_len_app : forall A (l m : list A), skipn (length l) (l ++ m) = m.
Proof. intros. rewrite skipn_app, skipn_all, Nat.sub_diag. reflexivity. Qed.

Lemma created_ok_intro : forall t news p anc k,
    get_parts t (firstn k p) = Some anc -> get_parts t (firstn (S k) p) = None ->
    (1 <= k <= length p)%nat ->
    q_leaf anc = false -> qstate_eqb (q_state anc) QDraining = false ->
    chain_ok (q_path anc) (q_template anc) news p = true ->
    created_ok t (t ++ news) p = true.
Proof.
  intros t news p anc k H1 H2 Hk Hl Hd Hc. unfold created_ok. rewrite firstn_len_app, skipn_len_app, unchanged_refl.
  cbn [andb]. apply existsb_exists. exists k. split; [apply in_seq; lia|].
  rewrite H1, H2, Hl, Hd, Hc. reflexivity.
Qed.

(* nothing exists below a name the lookup does not find *)
Lemma nothing_below : forall t pa anc x,
    wf_tree t = true -> get_parts t pa = Some anc -> get_parts t (pa ++ [x]) = None ->
    forall l, find_q t (pa ++ x :: l) = None.
Proof.
  intros t pa anc x Hwf Hg Hn l. destruct (find_q t (pa ++ x :: l)) as [q0|] eqn:E; [|reflexivity].
  exfalso. pose proof (wf_all_exist t Hwf _ _ E) as Hall.
  rewrite (get_parts_snoc _ _ _ _ Hg) in Hn.
  apply (Hall (pa ++ [x])); [|exact Hn].
  rewrite prefixes_app. apply in_or_app. right. simpl. left. reflexivity.
Qed.

Lemma firstn_S_hd : forall A (d : A) j (l : list A),
    (j < length l)%nat -> firstn (S j) l = firstn j l ++ [hd d (skipn j l)].
Proof.
  intros A d. induction j as [|j IH]; intros l H.
  - destruct l; [simpl in H; lia | reflexivity].
  - destruct l as [|x l]; [simpl in H; lia|]. simpl in H.
    change (firstn (S (S j)) (x :: l)) with (x :: firstn (S j) l). rewrite IH by lia. reflexivity.
Qed.

Lemma create_queue_ok : forall t a qn t' q',
    wf_tree t = true -> get_queue t qn = None -> create_queue t a qn = COk t' q' ->
    exists news anc k,
      t' = t ++ news /\ q_path anc = firstn k (name_parts qn)
      /\ get_parts t' (name_parts qn) = Some q' /\ q_leaf q' = true /\ q_state q' = QActive
      /\ get_parts t (firstn k (name_parts qn)) = Some anc
      /\ get_parts t (firstn (S k) (name_parts qn)) = None
      /\ (1 <= k <= length (name_parts qn))%nat
      /\ q_leaf anc = false /\ qstate_eqb (q_state anc) QDraining = false
      /\ chain_ok (q_path anc) (q_template anc) news (name_parts qn) = true
      /\ check_submit t a anc = true.
Proof.
  intros t a qn t' q' Hwf Hq H. unfold create_queue in H.
  destruct (negb (has_prefix s_root qn) || negb (existsb (N.eqb DOT) qn)); [discriminate|].
  unfold to_create in H. set (parts := split_dot qn) in *.
  destruct (up_from t parts (length parts)) as [[anc j]|] eqn:Eu; [|discriminate].
  destruct (check_submit t a anc) eqn:Ecs; [|discriminate]. cbn [negb] in H.
  destruct (q_leaf anc) eqn:Elf; [discriminate|].
  destruct (create_chain t anc (skipn j parts)) as [tc [qc|]] eqn:Ec; [|discriminate].
  inversion H; subst tc qc. clear H.
  apply up_from_spec in Eu as [Hj [Hg Hnone]].
  assert (Enp : name_parts qn = map lower parts) by apply name_parts_eq.
  assert (Hjlt : (j < length parts)%nat).
  { destruct (Nat.eq_dec j (length parts)) as [->|]; [|lia].
    rewrite firstn_all in Hg. unfold get_queue in Hq. rewrite Enp in Hq. congruence. }
  pose proof (get_parts_exist _ _ _ Hg) as [_ [Epa _]].
  assert (Hnames : skipn j parts <> []).
  { intro E. assert (L : length (skipn j parts) = 0%nat) by (rewrite E; reflexivity). rewrite skipn_length in L. lia. }
  assert (Hnext : get_parts t (q_path anc ++ [lower (hd [] (skipn j parts))]) = None).
  { rewrite Epa. assert (Hn1 : get_parts t (map lower (firstn (S j) parts)) = None) by (apply Hnone; lia).
    rewrite (firstn_S_hd str ([] : str) j parts Hjlt) in Hn1. rewrite map_app in Hn1. exact Hn1. }
  assert (Hga : get_parts t (q_path anc) = Some anc) by (rewrite Epa; exact Hg).
  destruct (create_chain_spec _ _ _ _ _ Hnames Ec Hga (nothing_below _ _ _ _ Hwf Hga Hnext))
    as [news [E1 [E2 [E3 [E4 [E5 [E6 E7]]]]]]].
  assert (Ep : q_path anc ++ map lower (skipn j parts) = name_parts qn).
  { rewrite Epa, <- map_app, firstn_skipn. symmetry. exact Enp. }
  rewrite Ep in E2, E3.
  assert (Ef : firstn j (name_parts qn) = q_path anc) by (rewrite Enp, firstn_map; symmetry; exact Epa).
  exists news, anc, j. rewrite Ef.
  split; [exact E1|]. split; [reflexivity|]. split; [exact E3|]. split; [exact E4|]. split; [exact E5|].
  split; [exact Hga|]. split.
  { rewrite Enp, firstn_map. apply Hnone. lia. }
  split; [rewrite Enp, map_length; lia|]. auto.
Qed.

Lemma get_parts_root : forall t root, find_q t [s_root] = Some root -> get_parts t [s_root] = Some root.
Proof. intros t root H. unfold get_parts. rewrite str_eqb_refl. simpl. exact H. Qed.

Lemma create_recovery_ok : forall t t' q',
    wf_tree t = true -> get_parts t recovery_parts = None -> create_recovery t = COk t' q' ->
    get_parts t' recovery_parts = Some q' /\ q_leaf q' = true /\ created_ok t t' recovery_parts = true.
Proof.
  intros t t' q' Hwf Hn H. unfold create_recovery in H.
  destruct (wf_root t Hwf) as [root Er]. rewrite Er in H.
  destruct (add_dynamic t root s_recovery true) as [[t1 q1]|] eqn:Ea; [|discriminate].
  inversion H; subst t1 q1. clear H.
  pose proof (find_q_path _ _ _ Er) as Epr. pose proof (get_parts_root _ _ Er) as Hgr.
  assert (Hga : get_parts t (q_path root) = Some root) by (rewrite Epr; exact Hgr).
  assert (Hnx : get_parts t (q_path root ++ [lower s_recovery]) = None) by (rewrite Epr; exact Hn).
  pose proof (add_dynamic_lookup _ _ _ _ _ _ Ea Hga (nothing_below _ _ _ _ Hwf Hga Hnx)) as [L1 [L2 _]].
  pose proof (add_dynamic_spec _ _ _ _ _ _ Ea) as [S1 [S2 [S3 S4]]].
  assert (Ep : q_path q' = recovery_parts) by (rewrite L2, Epr; reflexivity).
  rewrite Ep in L1. split; [exact L1|]. split; [rewrite S4; reflexivity|].
  rewrite S3. apply created_ok_intro with root 1%nat.
  - exact Hgr.
  - exact Hn.
  - simpl. lia.
  - exact S1.
  - exact S2.
  - cbn [chain_ok]. rewrite Ep, Epr. rewrite S4. cbn [q_managed q_state q_leaf q_maxapps q_template]. rewrite N.eqb_refl. reflexivity.
Qed.

(* ================= the theorems ================= *)

Theorem placed_ok_model : forall w a p w',
    wf_tree (w_tree w) = true -> add_application false w a = (Accepted p, w') -> placed_ok_b w a p w' = true.
Proof.
  intros [t rs] a p w' Hwf H. cbn [w_tree w_rules] in *. unfold add_application in H. cbn [w_tree w_rules] in H.
  destruct (place_loop false t a rs) as [qn|r|] eqn:El; try discriminate.
  apply loop_placed in El as [i [Hi Hc]].
  destruct (chosen_admissible _ _ _ _ _ Hc) as [m [Hy Ha]].
  unfold placed_ok_b. cbn [w_tree w_rules].
  destruct (admissible_cases _ _ _ _ Ha) as [[En [Hr Hf]] | [En [Hnr Hcase]]].
  - (* forced placement in the recovery queue *)
    subst qn.
    change (get_queue t s_recovery_full) with (get_parts t recovery_parts) in H.
    change (is_recovery s_recovery_full) with true in H. cbv iota in H.
    destruct (get_parts t recovery_parts) as [q|] eqn:Eq.
    + destruct (q_leaf q) eqn:Lf; inversion H; subst p w'. cbn [w_tree].
      pose proof (get_parts_exist _ _ _ Eq) as [_ [Ep _]]. rewrite Ep.
      apply andb_true_iff; split; [apply andb_true_iff; split; [apply andb_true_iff; split|]|].
      * unfold in_leaf_b. rewrite Eq, Lf. reflexivity.
      * apply first_rule_intro with i s_recovery_full; [exact Hi | exact Hc | reflexivity].
      * unfold acl_b. change (path_eqb recovery_parts recovery_parts) with true. exact Hf.
      * unfold tree_b. rewrite Eq, Lf, unchanged_refl. reflexivity.
    + destruct (create_recovery t) as [t1 q1|t1 r1|] eqn:Ecr; try discriminate.
      destruct (q_leaf q1) eqn:Lf; inversion H; subst p w'. cbn [w_tree].
      destruct (create_recovery_ok _ _ _ Hwf Eq Ecr) as [G1 [G2 G3]].
      pose proof (get_parts_exist _ _ _ G1) as [_ [Ep _]]. rewrite Ep.
      apply andb_true_iff; split; [apply andb_true_iff; split; [apply andb_true_iff; split|]|].
      * unfold in_leaf_b. rewrite G1, G2. reflexivity.
      * apply first_rule_intro with i s_recovery_full; [exact Hi | exact Hc | reflexivity].
      * unfold acl_b. change (path_eqb recovery_parts recovery_parts) with true. exact Hf.
      * unfold tree_b. rewrite Eq. exact G3.
  - (* an ordinary queue *)
    subst m.
    pose proof (not_recovery_path_parts _ Hnr) as Hnp. pose proof (not_prefix_not_eq _ Hnp) as Hne.
    destruct Hcase as [[q [Eq [Lf [Hacl Hd]]]] | [Eq [q [Epar Hacl]]]].
    + rewrite Eq, Lf in H. inversion H; subst p w'. cbn [w_tree].
      unfold get_queue in Eq. pose proof (get_parts_exist _ _ _ Eq) as [_ [Ep Ef]]. rewrite Ep in *.
      apply andb_true_iff; split; [apply andb_true_iff; split; [apply andb_true_iff; split|]|].
      * unfold in_leaf_b. rewrite Eq, Lf, Hne, Hd. cbn [negb orb andb].
        apply state_active; [apply find_q_In with (name_parts qn); exact Ef | exact Hd].
      * apply first_rule_intro with i qn; [exact Hi | exact Hc | reflexivity].
      * unfold acl_b. rewrite Hne. exact Hacl.
      * unfold tree_b. rewrite Eq, Lf, Hne, Hd, unchanged_refl. reflexivity.
    + rewrite Eq in H.
      destruct (is_recovery qn) eqn:Er; [apply is_recovery_is_path in Er; congruence|].
      destruct (create_queue t a qn) as [t1 q1|t1 r1|] eqn:Ecq; try discriminate.
      destruct (q_leaf q1) eqn:Lf; inversion H; subst p w'. cbn [w_tree].
      destruct (create_queue_ok _ _ _ _ _ Hwf Eq Ecq)
        as [news [anc [k [E1 [E2 [E3 [E4 [E5 [E6 [E7 [E8 [E9 [E10 [E11 E12]]]]]]]]]]]]]].
      pose proof (get_parts_exist _ _ _ E3) as [_ [Ep _]]. rewrite Ep.
      apply andb_true_iff; split; [apply andb_true_iff; split; [apply andb_true_iff; split|]|].
      * unfold in_leaf_b. rewrite E3, E4, Hne, E5. destruct (no_stopped t); reflexivity.
      * apply first_rule_intro with i qn; [exact Hi | exact Hc | reflexivity].
      * unfold acl_b. rewrite Hne.
        pose proof (get_parts_exist _ _ _ E6) as [Hall _].
        rewrite <- (firstn_skipn k (name_parts qn)). rewrite <- E2.
        apply acl_admitted_extend with t.
        -- rewrite <- (check_submit_spec t a anc Hall). exact E12.
        -- intros pre q0 Hq0. rewrite E1. apply find_q_app_l. exact Hq0.
        -- rewrite E2, firstn_skipn. exact Hnp.
      * unfold tree_b. unfold get_queue in Eq. rewrite Eq. rewrite E1.
        apply created_ok_intro with anc k; assumption.
Qed.

(* what the four clauses say, spelled out *)
Lemma placed_ok_b_sound : forall w a p w',
    placed_ok_b w a p w' = true ->
    in_leaf_b (w_tree w) (w_tree w') p = true /\ first_rule_b (w_tree w) a (w_rules w) p = true
    /\ acl_b (w_tree w') a p = true /\ tree_b (w_tree w) (w_tree w') p = true.
Proof.
  intros w a p w' H. unfold placed_ok_b in H.
  apply andb_true_iff in H as [H H4]. apply andb_true_iff in H as [H H3]. apply andb_true_iff in H as [H1 H2]. auto.
Qed.

Lemma first_rule_b_sound : forall t a rs p,
    first_rule_b t a rs p = true ->
    exists i r m n, nth_error rs i = Some r /\ yield t a rs i = RName m /\ admissible t a m = Some n
                    /\ name_parts n = p /\ forall j, (j < i)%nat -> passes t a rs j = true.
Proof.
  intros t a rs p H. unfold first_rule_b in H. apply existsb_exists in H as [i [Hin H]].
  apply in_seq in Hin. destruct (chosen_at t a rs i) as [n|] eqn:Hc; [|discriminate].
  apply path_eqb_eq in H. unfold chosen_at in Hc.
  destruct (yield t a rs i) as [|m|e] eqn:Hy; try discriminate.
  destruct (forallb (passes t a rs) (seq 0 i)) eqn:Hp; [|discriminate].
  destruct (nth_error rs i) as [r|] eqn:En; [|apply nth_error_None in En; lia].
  exists i, r, m, n. split; [exact En|]. split; [exact Hy|]. split; [exact Hc|]. split; [exact H|].
  intros j Hj. rewrite forallb_forall in Hp. apply Hp. apply in_seq. lia.
Qed.

Theorem recovery_only_forced_model : forall w a p w',
    wf_tree (w_tree w) = true -> add_application false w a = (Accepted p, w') -> recovery_only_forced_b a p = true.
Proof.
  intros w a p w' Hwf H. pose proof (placed_ok_model _ _ _ _ Hwf H) as P.
  apply placed_ok_b_sound in P as [_ [P2 [P3 _]]].
  apply first_rule_b_sound in P2 as [i [r [m [n [_ [_ [Ha [Ep _]]]]]]]].
  unfold recovery_only_forced_b.
  destruct (admissible_cases _ _ _ _ Ha) as [[En [Hr Hf]] | [En [Hnr _]]].
  - subst n. rewrite <- Ep. change (name_parts s_recovery_full) with recovery_parts.
    rewrite is_prefix_refl, Hf. reflexivity.
  - subst n. rewrite <- Ep. rewrite (not_recovery_path_parts _ Hnr). reflexivity.
Qed.

Theorem unmatched_rejected_model : forall w a,
    unmatched_b w a = true -> add_application false w a = (Rejected NoMatch, w).
Proof.
  intros w a H. unfold unmatched_b in H. rewrite forallb_forall in H.
  unfold add_application. rewrite loop_unmatched; [reflexivity|].
  intros i Hi. apply H. apply in_seq. lia.
Qed.

Lemma up_from_more : forall t parts, get_parts t (map lower parts) = None -> parts <> [] ->
    up_from t parts (length parts) = up_from t parts (length parts - 1).
Proof.
  intros t parts Hn Hne. destruct parts as [|x r]; [contradiction|].
  cbn [length]. rewrite Nat.sub_succ, Nat.sub_0_r. cbn [up_from].
  change (S (length r)) with (length (x :: r)). rewrite firstn_all, Hn. reflexivity.
Qed.

Theorem no_crash_model : forall w a w',
    wf_tree (w_tree w) = true -> add_application false w a <> (Crashed, w').
Proof.
  intros [t rs] a w' Hwf H. cbn [w_tree] in Hwf. unfold add_application in H. cbn [w_tree w_rules] in H.
  destruct (place_loop false t a rs) as [qn|r|] eqn:El; try discriminate.
  - apply loop_placed in El as [i [Hi Hc]].
    destruct (chosen_admissible _ _ _ _ _ Hc) as [m [Hy Ha]].
    destruct (get_queue t qn) as [q|] eqn:Eq.
    + destruct (q_leaf q); discriminate.
    + destruct (is_recovery qn) eqn:Er.
      * unfold create_recovery in H. destruct (wf_root t Hwf) as [root Hr]. rewrite Hr in H.
        destruct (add_dynamic t root s_recovery true) as [[t1 q1]|]; [destruct (q_leaf q1)|]; discriminate.
      * destruct (admissible_cases _ _ _ _ Ha) as [[En [Hr' Hf]] | [En [Hnr Hcase]]].
        -- subst qn. discriminate.
        -- subst m. destruct Hcase as [[q [Eq' _]] | [_ [q [Epar _]]]]; [congruence|].
           unfold create_queue in H.
           destruct (negb (has_prefix s_root qn) || negb (existsb (N.eqb DOT) qn)); [discriminate|].
           unfold to_create in H. unfold existing_parent in Epar.
           rewrite up_from_more in H.
           ++ destruct (up_from t (split_dot qn) (length (split_dot qn) - 1)) as [[q0 j]|]; [|discriminate].
              destruct (negb (check_submit t a q0)); [discriminate|]. destruct (q_leaf q0); [discriminate|].
              destruct (create_chain t q0 (skipn j (split_dot qn))) as [tc [qc|]]; [destruct (q_leaf qc)|]; discriminate.
           ++ rewrite <- name_parts_eq. exact Eq.
           ++ apply split_on_nonempty.
  - exact (loop_no_crash _ _ _ El).
Qed.

Theorem wf_preserved_model : forall w a o w',
    wf_tree (w_tree w) = true -> add_application false w a = (o, w') -> wf_tree (w_tree w') = true.
Proof.
  intros [t rs] a o w' Hwf H. cbn [w_tree] in Hwf. unfold add_application in H. cbn [w_tree w_rules] in H.
  destruct (place_loop false t a rs) as [qn|r|]; try (inversion H; subst; exact Hwf).
  destruct (get_queue t qn) as [q|].
  - destruct (q_leaf q); inversion H; subst; exact Hwf.
  - assert (W : forall c, (c = create_recovery t \/ c = create_queue t a qn) ->
                      match c with COk t1 _ | CErr t1 _ => wf_tree t1 = true | CCrash => True end).
    { intros c [Ec|Ec]; subst c.
      - unfold create_recovery. destruct (find_q t [s_root]) as [root|] eqn:Hr; [|exact I].
        destruct (add_dynamic t root s_recovery true) as [[t1 q1]|] eqn:Ea; [|exact Hwf].
        apply (wf_add_dynamic _ _ _ _ _ _ Hwf) in Ea as [W1 _]; [exact W1| |];
          rewrite (find_q_path _ _ _ Hr); [rewrite Hr|]; discriminate.
      - unfold create_queue.
        destruct (negb (has_prefix s_root qn) || negb (existsb (N.eqb DOT) qn)); [exact Hwf|].
        unfold to_create. destruct (up_from t (split_dot qn) (length (split_dot qn))) as [[q0 j]|] eqn:Eu; [|exact I].
        destruct (negb (check_submit t a q0)); [exact Hwf|]. destruct (q_leaf q0); [exact Hwf|].
        apply up_from_spec in Eu as [_ [Hg _]]. apply get_parts_spec in Hg as [G1 [G2 [_ [rest G4]]]].
        destruct (create_chain t q0 (skipn j (split_dot qn))) as [tc [qc|]] eqn:Ec;
          apply (wf_create_chain _ _ _ _ _ Hwf) in Ec; try exact Ec;
          rewrite G1; try (rewrite G2; discriminate); rewrite G4; discriminate. }
    destruct (is_recovery qn).
    + specialize (W (create_recovery t) (or_introl eq_refl)).
      destruct (create_recovery t) as [t1 q1|t1 r1|]; [destruct (q_leaf q1)| |]; inversion H; subst; cbn [w_tree]; assumption.
    + specialize (W (create_queue t a qn) (or_intror eq_refl)).
      destruct (create_queue t a qn) as [t1 q1|t1 r1|]; [destruct (q_leaf q1)| |]; inversion H; subst; cbn [w_tree]; assumption.
Qed.
