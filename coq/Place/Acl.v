(* Model of pkg/common/security/acl.go: NewACL (parsing) and ACL.CheckAccess. *)
From Coq Require Import List NArith Bool.
From YK Require Import Place.Str.
Import ListNotations.
Open Scope N_scope.

Record acl := mkAcl { a_users : list str; a_groups : list str; a_all : bool }.

Definition acl_zero : acl := mkAcl [] [] false.

(* setUsers: a single "*" switches allAllowed on; otherwise the valid names are kept *)
Definition set_users (a : acl) (l : list str) : acl :=
  match l with
  | [x] => if str_eqb x s_star then mkAcl [] (a_groups a) true
           else mkAcl (filter (fun u => negb (is_empty u) && acl_user_re u) l) (a_groups a) (a_all a)
  | _ => mkAcl (filter (fun u => negb (is_empty u) && acl_user_re u) l) (a_groups a) (a_all a)
  end.

(* setGroups: ignored when allAllowed is already set; a single "*" clears the users and allows all *)
Definition set_groups (a : acl) (l : list str) : acl :=
  if a_all a then mkAcl (a_users a) [] true
  else match l with
       | [x] => if str_eqb x s_star then mkAcl [] [] true
                else mkAcl (a_users a) (filter (fun g => negb (is_empty g) && acl_group_re g) l) false
       | _ => mkAcl (a_users a) (filter (fun g => negb (is_empty g) && acl_group_re g) l) false
       end.

(* NewACL: None is the error "multiple spaces found in ACL" *)
Definition new_acl (s : str) : option acl :=
  if is_empty s then Some acl_zero
  else
    let fields := split_on 32 s in
    match fields with
    | [f0] =>
        let a := mkAcl [] [] (str_eqb (trim_space s) s_star) in
        Some (set_users a (split_on 44 f0))
    | [f0; f1] =>
        let a := mkAcl [] [] (str_eqb (trim_space s) s_star) in
        Some (set_groups (set_users a (split_on 44 f0)) (split_on 44 f1))
    | _ => None
    end.

(* ACL.CheckAccess *)
Definition check_access (a : acl) (user : str) (groups : list str) : bool :=
  a_all a || mem_str user (a_users a) || existsb (fun g => mem_str g (a_groups a)) groups.
