(* Proofs about ACLs and the queue lookup: CheckAccess, the lookup walk, and the recursive
   Queue.CheckSubmitAccess against the declarative [acl_admitted] of Place/Spec.v. *)
From Coq Require Import List NArith Bool Lia Arith.
From YK Require Import Place.Str Place.Acl Place.Rules Place.Placement Place.Spec Place.StrLemmas.
Import ListNotations.
Open Scope N_scope.

Lemma mem_str_In : forall x l, mem_str x l = true <-> In x l.
Proof.
  intros x l. unfold mem_str. rewrite existsb_exists. split.
  - intros [y [Hy E]]. apply str_eqb_eq in E. subst. exact Hy.
  - intro H. exists x. split; [exact H | apply str_eqb_refl].
Qed.

(* ACL.CheckAccess: everybody, a listed user, or a member of a listed group *)
Lemma check_access_spec : forall a u gs,
    check_access a u gs = true <-> a_all a = true \/ In u (a_users a) \/ exists g, In g gs /\ In g (a_groups a).
Proof.
  intros a u gs. unfold check_access. rewrite !orb_true_iff, mem_str_In, existsb_exists. split.
  - intros [[H|H]|[g [Hg H]]]; [left; exact H | right; left; exact H | right; right; exists g; split; [exact Hg | apply mem_str_In; exact H]].
  - intros [H|[H|[g [Hg H]]]]; [left; left; exact H | left; right; exact H | right; exists g; split; [exact Hg | apply mem_str_In; exact H]].
Qed.

Lemma existsb_false : forall A (f : A -> bool) l, (forall x, In x l -> f x = false) -> existsb f l = false.
Proof.
  induction l as [|x t IH]; simpl; intro H; [reflexivity|].
  rewrite (H x (or_introl eq_refl)). simpl. apply IH. intros y Hy. apply H. right. exact Hy.
Qed.
Lemma existsb_ext_in : forall A (f g : A -> bool) l, (forall x, In x l -> f x = g x) -> existsb f l = existsb g l.
Proof.
  induction l as [|x t IH]; simpl; intro H; [reflexivity|].
  rewrite (H x (or_introl eq_refl)). f_equal. apply IH. intros y Hy. apply H. right. exact Hy.
Qed.

Lemma is_prefix_antisym : forall a b, is_prefix a b = true -> is_prefix b a = true -> a = b.
Proof.
  intros a b H1 H2. apply is_prefix_spec in H1 as [m E1]. apply is_prefix_spec in H2 as [m' E2].
  assert (L : length b = (length a + length m)%nat) by (rewrite E1; apply app_length).
  assert (L' : length a = (length b + length m')%nat) by (rewrite E2 at 1; apply app_length).
  destruct m as [|z m]; [rewrite app_nil_r in E1; congruence | simpl in L; lia].
Qed.

(* ---- the lookup walk ---- *)
Definition all_exist (t : tree) (p : list str) : Prop :=
  forall l, In l (prefixes [] p) -> find_q t l <> None.

Lemma walk_spec : forall t rest pre q,
    walk t pre rest = Some q ->
    q_path q = pre ++ rest /\ find_q t (pre ++ rest) = Some q /\ find_q t pre <> None
    /\ (forall l, In l (prefixes pre rest) -> find_q t l <> None).
Proof.
  induction rest as [|x r IH]; intros pre q H; simpl in H.
  - rewrite app_nil_r. split; [apply find_q_path with t; exact H|]. split; [exact H|]. split; [congruence|].
    simpl. intros l [].
  - destruct (find_q t pre) eqn:E; [|discriminate].
    apply IH in H as [H1 [H2 [H3 H4]]]. rewrite <- app_assoc in H1, H2. simpl in H1, H2.
    split; [exact H1|]. split; [exact H2|]. split; [congruence|].
    simpl. intros l [Hl|Hl]; [subst; exact H3 | apply H4; exact Hl].
Qed.

Lemma get_parts_spec : forall t parts q,
    get_parts t parts = Some q -> q_path q = parts /\ find_q t parts = Some q /\ all_exist t parts
                                  /\ exists rest, parts = s_root :: rest.
Proof.
  intros t parts q H. unfold get_parts in H. destruct parts as [|x r]; [discriminate|].
  destruct (str_eqb x s_root) eqn:E; [|discriminate]. apply str_eqb_eq in E. subst x.
  apply walk_spec in H as [H1 [H2 [H3 H4]]]. simpl in H1, H2.
  split; [exact H1|]. split; [exact H2|]. split; [|exists r; reflexivity].
  unfold all_exist. simpl. intros l [Hl|Hl]; [subst; exact H3 | apply H4; exact Hl].
Qed.

(* the converse under parent-closure: a queue of the list is found by the walk *)
Lemma walk_complete : forall t rest pre,
    find_q t pre <> None -> (forall l, In l (prefixes pre rest) -> find_q t l <> None) ->
    walk t pre rest = find_q t (pre ++ rest).
Proof.
  induction rest as [|x r IH]; intros pre Hp H; simpl.
  - rewrite app_nil_r. reflexivity.
  - destruct (find_q t pre) eqn:E; [|congruence].
    rewrite IH.
    + rewrite <- app_assoc. reflexivity.
    + apply H. simpl. left. reflexivity.
    + intros l Hl. apply H. simpl. right. exact Hl.
Qed.

(* ---- Queue.CheckSubmitAccess = acl_admitted ---- *)
Lemma check_submit_rev_spec : forall t a p,
    all_exist t p -> check_submit_rev t (ap_user a) (ap_groups a) (rev p) = acl_admitted t a p.
Proof.
  intros t a p. induction p as [|x p0 IH] using rev_ind; intro Hall.
  - reflexivity.
  - rewrite rev_unit. cbn [check_submit_rev].
    replace (rev (x :: rev p0)) with (p0 ++ [x]) by (simpl; rewrite rev_involutive; reflexivity).
    assert (Hin : In (p0 ++ [x]) (prefixes [] (p0 ++ [x]))).
    { rewrite prefixes_snoc. apply in_or_app. right. left. reflexivity. }
    destruct (find_q t (p0 ++ [x])) as [q|] eqn:Eq; [|exfalso; apply (Hall _ Hin); exact Eq].
    unfold acl_admitted. rewrite prefixes_snoc. change ([] ++ p0 ++ [x]) with (p0 ++ [x]). rewrite existsb_app. cbn [existsb].
    destruct (path_eqb (p0 ++ [x]) recovery_parts) eqn:Er.
    + apply path_eqb_eq in Er. symmetry. apply orb_false_iff. split.
      * apply existsb_false. intros l Hl. apply prefixes_in in Hl as [k [Hk El]]. simpl in El. subst l.
        apply andb_false_iff. right. apply negb_false_iff. unfold blocked. apply andb_true_iff. split.
        -- rewrite <- Er. apply is_prefix_spec. exists (skipn k p0 ++ [x]). rewrite app_assoc, firstn_skipn. reflexivity.
        -- rewrite Er. apply is_prefix_refl.
      * rewrite orb_false_r. apply andb_false_iff. right. apply negb_false_iff. unfold blocked.
        rewrite Er. rewrite is_prefix_refl. reflexivity.
    + assert (Hne : path_eqb recovery_parts (p0 ++ [x]) = false).
      { apply path_eqb_neq. intro E. apply path_eqb_neq in Er. apply Er. symmetry. exact E. }
      rewrite IH.
      * unfold acl_admitted.
        rewrite (existsb_ext_in _ (fun anc => grants t a anc && negb (blocked anc (p0 ++ [x])))
                                  (fun anc => grants t a anc && negb (blocked anc p0))).
        -- assert (Hg : grants t a (p0 ++ [x]) = check_access (q_submit q) (ap_user a) (ap_groups a)
                                                   || check_access (q_admin q) (ap_user a) (ap_groups a))
             by (unfold grants; rewrite Eq; reflexivity).
           rewrite Hg.
           assert (Hb : blocked (p0 ++ [x]) (p0 ++ [x]) = false).
           { unfold blocked. destruct (is_prefix (p0 ++ [x]) recovery_parts) eqn:E1; [|reflexivity].
             destruct (is_prefix recovery_parts (p0 ++ [x])) eqn:E2; [|reflexivity].
             exfalso. apply path_eqb_neq in Er. apply Er. apply is_prefix_antisym; assumption. }
           rewrite Hb. simpl. rewrite andb_true_r, orb_false_r. apply orb_comm.
        -- intros l _. unfold blocked. rewrite is_prefix_snoc, Hne, orb_false_r. reflexivity.
      * intros l Hl. apply Hall. rewrite prefixes_snoc. apply in_or_app. left. exact Hl.
Qed.

Lemma check_submit_spec : forall t a q,
    all_exist t (q_path q) -> check_submit t a q = acl_admitted t a (q_path q).
Proof. intros t a q H. unfold check_submit. apply check_submit_rev_spec. exact H. Qed.

(* readable form of the declarative side: some queue on the way to the root grants access and the
   recovery queue does not lie between it and [p] *)
Lemma acl_admitted_spec : forall t a p,
    acl_admitted t a p = true <->
    exists anc, In anc (prefixes [] p) /\ grants t a anc = true /\ blocked anc p = false.
Proof.
  intros t a p. unfold acl_admitted. rewrite existsb_exists. split.
  - intros [anc [Hin H]]. apply andb_true_iff in H as [H1 H2]. apply negb_true_iff in H2. exists anc. auto.
  - intros [anc [Hin [H1 H2]]]. exists anc. split; [exact Hin|]. rewrite H1, H2. reflexivity.
Qed.
