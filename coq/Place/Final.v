(* Statements of C17 at the level of a submitted application (ConvertUGI + AddApplication), the
   creation-flag lemma, the refutations for the pinned code and non-vacuity examples. *)
From Coq Require Import List NArith Bool Lia Arith String.
From YK Require Import Place.Str Place.Acl Place.Rules Place.Placement Place.Spec Place.StrLemmas
     Place.AclProofs Place.NameLemmas Place.RulesProofs Place.LoopProofs Place.CreateProofs Place.ChainProofs
     Place.MainProofs.
Import ListNotations.
Open Scope N_scope.

Lemma submit_inv : forall pinned w a o w',
    submit pinned w a = (o, w') ->
    (convert_ugi a = None /\ o = Rejected UserRejected /\ w' = w)
    \/ exists a', convert_ugi a = Some a' /\ add_application pinned w a' = (o, w').
Proof.
  intros pinned w a o w' H. unfold submit in H. destruct (convert_ugi a) as [a'|].
  - right. exists a'. auto.
  - left. inversion H. auto.
Qed.

Theorem placed_ok_final : forall w a p w',
    wf_tree (w_tree w) = true -> submit false w a = (Accepted p, w') ->
    exists a', convert_ugi a = Some a' /\ placed_ok_b w a' p w' = true.
Proof.
  intros w a p w' Hwf H. apply submit_inv in H as [[_ [H _]]|[a' [E H]]]; [discriminate|].
  exists a'. split; [exact E | apply placed_ok_model; assumption].
Qed.

(* the second clause of placed_ok_b, spelled out: rule i yields m, the application can use it (as n),
   n is the queue it was placed in, and every earlier rule was passed over *)
Theorem placed_first_rule_final : forall w a p w',
    wf_tree (w_tree w) = true -> add_application false w a = (Accepted p, w') ->
    exists i r m n, nth_error (w_rules w) i = Some r /\ yield (w_tree w) a (w_rules w) i = RName m
                    /\ admissible (w_tree w) a m = Some n /\ name_parts n = p
                    /\ forall j, (j < i)%nat -> passes (w_tree w) a (w_rules w) j = true.
Proof.
  intros w a p w' Hwf H. pose proof (placed_ok_model _ _ _ _ Hwf H) as P.
  apply placed_ok_b_sound in P as [_ [P2 _]]. apply first_rule_b_sound. exact P2.
Qed.

Theorem recovery_only_forced_final : forall w a p w',
    wf_tree (w_tree w) = true -> submit false w a = (Accepted p, w') ->
    exists a', convert_ugi a = Some a' /\ recovery_only_forced_b a' p = true.
Proof.
  intros w a p w' Hwf H. apply submit_inv in H as [[_ [H _]]|[a' [E H]]]; [discriminate|].
  exists a'. split; [exact E | apply recovery_only_forced_model with w w'; assumption].
Qed.

Theorem unmatched_rejected_final : forall w a a',
    convert_ugi a = Some a' -> unmatched_b w a' = true -> submit false w a = (Rejected NoMatch, w).
Proof.
  intros w a a' E H. unfold submit. rewrite E. apply unmatched_rejected_model. exact H.
Qed.

Theorem no_crash_final : forall w a w', wf_tree (w_tree w) = true -> submit false w a <> (Crashed, w').
Proof.
  intros w a w' Hwf H. apply submit_inv in H as [[_ [H _]]|[a' [E H]]]; [discriminate|].
  exact (no_crash_model _ _ _ Hwf H).
Qed.

Theorem wf_preserved_final : forall w a o w',
    wf_tree (w_tree w) = true -> submit false w a = (o, w') -> wf_tree (w_tree w') = true.
Proof.
  intros w a o w' Hwf H. apply submit_inv in H as [[_ [_ H]]|[a' [E H]]]; [subst; exact Hwf|].
  exact (wf_preserved_model _ _ _ _ Hwf H).
Qed.

(* ---- creation only with the create flag, on every level of the rule chain ---- *)
Lemma s_rule_create : forall t a k create f parent n,
    s_rule t a (Rule k create f parent) = RName n ->
    match k with KRecovery | KTest => True | _ => create || q_exists t n = true end.
Proof.
  intros t a k create f parent n H. destruct k; try exact I; cbn [s_rule] in H;
    (destruct (s_source _ a) as [src|]; [|discriminate]);
    (destruct (negb (allow_user f a)); [discriminate|]);
    (destruct (negb (s_name_ok _ src)); [discriminate|]);
    match type of H with
    | match ?full with _ => _ end = _ => destruct full as [|n0|e]; try discriminate;
        destruct (create || q_exists t n0) eqn:E; [inversion H; subst; exact E | discriminate]
    end.
Qed.

Theorem levels_create : forall t a r c n, In (c, n) (levels t a r) -> c || q_exists t n = true.
Proof.
  intros t a r. induction r as [k cr f | k cr f p IH] using rule_ind2; intros c n H.
  - destruct k; cbn [levels] in H; try contradiction;
      (destruct (s_rule t a _) as [|n0|e] eqn:Es; try contradiction);
      (destruct H as [H|[]]; inversion H; subst; exact (s_rule_create _ _ _ _ _ _ _ Es)).
  - destruct k; cbn [levels] in H; try contradiction;
      (destruct (s_rule t a _) as [|n0|e] eqn:Es; try contradiction);
      (destruct H as [H|H]; [inversion H; subst; exact (s_rule_create _ _ _ _ _ _ _ Es)|]);
      (destruct (s_source _ a) as [src|]; [|contradiction]);
      (destruct (s_qualified _ src); [contradiction | apply IH; exact H]).
Qed.

(* the first level is the rule itself and its result *)
Theorem levels_head : forall t a k create f parent n,
    s_rule t a (Rule k create f parent) = RName n ->
    match k with KRecovery | KTest => True | _ => exists rest, levels t a (Rule k create f parent) = (create, n) :: rest end.
Proof.
  intros t a k create f parent n H. destruct k; try exact I; cbn [levels]; rewrite H; eexists; reflexivity.
Qed.

(* ================= the pinned code ================= *)
Definition ex_root : qconf :=
  QConf (bs "root") true (bs "*") [] 7
        [QConf (bs "a") true [] [] 3 []; QConf (bs "leaf") false [] [] 0 []].
Definition ex_rules : list rconf := [RConf (bs "provided") true (mkFConf [] [] []) [] None].
Definition ex_world (pinned : bool) : world :=
  match init_world pinned [] ex_root [] ex_rules false with Some w => w | None => mkW [] [] end.
Definition ex_app (q : string) : app := mkApp (bs "bob") [bs "g1"] (bs q) [].

(* finding 16: a non-forced application that asks for root.@recovery@ is accepted into it *)
Theorem recovery_only_forced_pinned_refuted :
  exists w a p w', wf_tree (w_tree w) = true /\ add_application true w a = (Accepted p, w')
                   /\ recovery_only_forced_b a p = false.
Proof.
  exists (ex_world true), (ex_app "root.@recovery@").
  destruct (add_application true (ex_world true) (ex_app "root.@recovery@")) as [o w'] eqn:E.
  vm_compute in E. inversion E; subst. eexists. eexists. split; [vm_compute; reflexivity|].
  split; [reflexivity | vm_compute; reflexivity].
Qed.

(* and the variant that creates a PARENT queue named root.@recovery@ *)
Theorem recovery_parent_pinned_refuted :
  exists w a p w', wf_tree (w_tree w) = true /\ add_application true w a = (Accepted p, w')
                   /\ recovery_only_forced_b a p = false /\ q_is_leaf (w_tree w') s_recovery_full = false
                   /\ q_exists (w_tree w') s_recovery_full = true.
Proof.
  exists (ex_world true), (ex_app "root.@RECOVERY@.x").
  destruct (add_application true (ex_world true) (ex_app "root.@RECOVERY@.x")) as [o w'] eqn:E.
  vm_compute in E. inversion E; subst. eexists. eexists. split; [vm_compute; reflexivity|].
  split; [reflexivity|]. split; [vm_compute; reflexivity|]. split; vm_compute; reflexivity.
Qed.

(* a fixed rule with a value like "rootx" and create: the pinned PlaceApplication panics *)
Theorem no_crash_pinned_refuted :
  exists w a, wf_tree (w_tree w) = true /\ fst (add_application true w a) = Crashed.
Proof.
  exists (match init_world true [] ex_root [] [RConf (bs "fixed") true (mkFConf [] [] []) (bs "rootx") None] false
          with Some w => w | None => mkW [] [] end), (ex_app "").
  split; vm_compute; reflexivity.
Qed.

(* filter type "Deny": the pinned filter allows exactly the users it should deny *)
Theorem deny_filter_pinned_refuted :
  let f := mkFConf (bs "Deny") [bs "bob"] [] in
  allow_user (new_filter true [] f) (ex_app "") = true /\ allow_user (new_filter false [] f) (ex_app "") = false.
Proof. split; vm_compute; reflexivity. Qed.

(* ================= non-vacuity ================= *)
(* an application accepted into a queue created two levels below root.a, with a's template *)
Example placed_ok_example :
  exists p w', wf_tree (w_tree (ex_world false)) = true
               /\ add_application false (ex_world false) (ex_app "root.a.b.c") = (Accepted p, w')
               /\ p = [bs "root"; bs "a"; bs "b"; bs "c"]
               /\ placed_ok_b (ex_world false) (ex_app "root.a.b.c") p w' = true.
Proof.
  destruct (add_application false (ex_world false) (ex_app "root.a.b.c")) as [o w'] eqn:E.
  vm_compute in E. inversion E; subst. eexists. eexists. split; [vm_compute; reflexivity|].
  split; [reflexivity|]. split; vm_compute; reflexivity.
Qed.

(* the repaired code refuses what the pinned code accepted, as an unmatched application *)
Example unmatched_example :
  unmatched_b (ex_world false) (ex_app "root.@recovery@") = true
  /\ add_application false (ex_world false) (ex_app "root.@recovery@") = (Rejected NoMatch, ex_world false).
Proof. split; vm_compute; reflexivity. Qed.

Example recovery_forced_example :
  let a := mkApp (bs "bob") [bs "g1"] (bs "nowhere") [(bs "application.create.force", bs "true")] in
  exists w', add_application false (mkW (w_tree (ex_world false)) [recovery_rule]) a = (Accepted recovery_parts, w')
             /\ recovery_only_forced_b a recovery_parts = true.
Proof.
  cbv zeta.
  destruct (add_application false (mkW (w_tree (ex_world false)) [recovery_rule])
              (mkApp (bs "bob") [bs "g1"] (bs "nowhere") [(bs "application.create.force", bs "true")])) as [o w'] eqn:E.
  vm_compute in E. inversion E; subst. eexists. split; [reflexivity | vm_compute; reflexivity].
Qed.
