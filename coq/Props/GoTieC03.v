(* C03 — conservation: the generated per-queue steps of Queue.IncAllocatedResource / DecAllocatedResource / incPendingResource equal the per-queue functions of Core/Model.v (q_inc, q_dec, q_inc_pending).
   Tie theorems between the Gallina definitions GENERATED from /repo's current Go source by harness/gotrans*.go
   (coq/Generated/Go*.v, rewritten on every run) and the hand-written model the theorems of C03 are about.
   Only statements; proofs: Core/GoTieC03. A semantically relevant edit of a translated Go function changes its generated
   definition and the theorem below that mentions it stops compiling (a broken proof obligation of C03).
   This file imports only tie proofs of C03 (plus the shared representation / resource-operation ties its functions
   really call). Written by the script in notes/gotrans.md (statements printed by Coq). *)
From Coq Require Import String List ZArith NArith Bool.
From YK Require Import Base.Int64 Base.F64 Base.Res Base.ResMore Base.ResSpec Core.Obs Core.Model
  Generated.GoPrelude Base.GoTieLib Base.GoTieRep Core.GoTieQ Core.GoTieC03.
(* the generated modules are not imported: their definitions appear qualified (GoResources.addVal ...) *)
From YK Require Generated.GoResources Generated.GoObjects.
Import ListNotations.

Theorem c03_gotie_resourceFitsAllocated :
    forall (sq : GoObjects.Queue) (q : oqueue) (r : ores),
    qres_rep sq q -> GoObjects.resourceFitsAllocated sq (toR r) = GOk (FitIn (Some (q_alloc q)) r).
Proof. exact GoTieC03.gotie_resourceFitsAllocated. Qed.
Print Assumptions c03_gotie_resourceFitsAllocated.

Theorem c03_gotie_IncAllocatedResource_step :
    forall (sq : GoObjects.Queue) (q : oqueue) (r : res),
    qres_rep sq q ->
    wf (q_alloc q) ->
    exists sq' : GoObjects.Queue,
    GoObjects.IncAllocatedResource_frag sq (Some (mkR r)) = GOk sq' /\
    qres_rep sq' (q_with q (q_max q) (Add (Some (q_alloc q)) (Some r)) (q_pending q)).
Proof. exact GoTieC03.gotie_IncAllocatedResource_step. Qed.
Print Assumptions c03_gotie_IncAllocatedResource_step.

Theorem c03_gotie_DecAllocatedResource_step :
    forall (sq : GoObjects.Queue) (q : oqueue) (r : res),
    qres_rep sq q ->
    wf (q_alloc q) ->
    let ok := FitIn (Some (q_alloc q)) (Some r) in
    exists sq' : GoObjects.Queue,
    GoObjects.DecAllocatedResource_step (Some sq) (Some (mkR r)) = GOk (Some sq', negb ok) /\
    qres_rep sq'
    (if ok then q_with q (q_max q) (Prune (Sub (Some (q_alloc q)) (Some r))) (q_pending q) else q).
Proof. exact GoTieC03.gotie_DecAllocatedResource_step. Qed.
Print Assumptions c03_gotie_DecAllocatedResource_step.

Theorem c03_gotie_DecAllocatedResource_nil :
    forall r : option GoResources.Resource, GoObjects.DecAllocatedResource_step None r = GOk (None, true).
Proof. exact GoTieC03.gotie_DecAllocatedResource_nil. Qed.
Print Assumptions c03_gotie_DecAllocatedResource_nil.

Theorem c03_fit_guards_agree :
    forall a r : res,
    (forall (k : tid) (v : Z), In (k, v) r -> exists lv : Z, get a k = Some lv /\ 0 <= lv) ->
    FitIn (Some a) (Some r) = FitInActual (Some a) (Some r).
Proof. exact GoTieC03.fit_guards_agree. Qed.
Print Assumptions c03_fit_guards_agree.

Theorem c03_gotie_incPendingResource_step :
    forall (sq : GoObjects.Queue) (q : oqueue) (r : res),
    qres_rep sq q ->
    wf (q_pending q) ->
    exists sq' : GoObjects.Queue,
    GoObjects.incPendingResource_step sq (Some (mkR r)) = GOk sq' /\
    qres_rep sq' (q_with q (q_max q) (q_alloc q) (Add (Some (q_pending q)) (Some r))).
Proof. exact GoTieC03.gotie_incPendingResource_step. Qed.
Print Assumptions c03_gotie_incPendingResource_step.

Theorem c03_DecAllocatedResource_skipped_pinned :
    GoObjects.DecAllocatedResource_step_skipped =
       "if sq.parent != nil {
	if err := sq.parent.DecAllocatedResource(alloc); err != nil {
		if sq.isLeaf {
		}
		return err
	}
}"%string.
Proof. exact GoTieC03.DecAllocatedResource_skipped_pinned. Qed.
Print Assumptions c03_DecAllocatedResource_skipped_pinned.

Theorem c03_incPendingResource_skipped_pinned :
    GoObjects.incPendingResource_step_skipped =
       "if sq.parent != nil {
	sq.parent.incPendingResource(delta)
}"%string.
Proof. exact GoTieC03.incPendingResource_skipped_pinned. Qed.
Print Assumptions c03_incPendingResource_skipped_pinned.
