(* Property C20 — event history returns exactly the requested, gap-free range.
   Only statements; proofs are in Events/*Proofs.v, Events/RingRefine.v.
   Model: Events/Ring.v (code fidelity), specification: Events/RingSpec.v. *)
From Coq Require Import List NArith Bool.
From YK Require Import Events.Ring Events.RingSpec Events.RingLemmas Events.RingProofs
  Events.RingQueryProofs Events.RingRefine Events.StoreProofs Events.StreamProofs.
Import ListNotations.
Open Scope N_scope.

(* 1. Ring buffer: for every capacity and resize target in 1..MaxInt64 (what make() accepts) and
   fewer than 2^64 adds, every sequence of add / resize / query / recent operations is answered
   exactly as by the abstract history (ids start.. in order, no gaps, no repeats, at most count;
   outside the window nothing plus (lowest, last)). *)
Theorem c20_ring_refines : forall cap ops,
  size_ok cap -> forallb op_ok ops = true -> forallb op_fits ops = true -> nadds ops < W64 ->
  ring_run cap ops = spec_run (spec_init cap) ops.
Proof. exact ring_refines. Qed.
Print Assumptions c20_ring_refines.

Theorem c20_ring_refines_len : forall cap ops,
  size_ok cap -> forallb op_ok ops = true -> forallb op_fits ops = true ->
  N.of_nat (length ops) < W64 ->
  ring_run cap ops = spec_run (spec_init cap) ops.
Proof. exact ring_refines_len. Qed.
Print Assumptions c20_ring_refines_len.

(* the representation invariant holds in every reachable state and the abstraction commutes *)
Theorem c20_ring_reach : forall cap ops,
  size_ok cap -> forallb op_ok ops = true -> forallb op_fits ops = true -> nadds ops < W64 ->
  let '(r, n) := rfinal (newRing cap, 0) ops in
  Inv r n /\ abs r = spec_final (spec_init cap) ops /\ n = nadds ops.
Proof. exact ring_reach. Qed.
Print Assumptions c20_ring_reach.

(* per-operation forms, for any state satisfying the invariant *)
Theorem c20_query_exact : forall r n id count,
  Inv r n -> snd (rstep (r, n) (RQuery id count)) = spec_query (abs r) id count.
Proof. exact query_exact. Qed.
Print Assumptions c20_query_exact.

Theorem c20_recent_exact : forall r n count,
  Inv r n -> snd (rstep (r, n) (RRecent count)) = spec_recent (abs r) count.
Proof. exact recent_exact. Qed.
Print Assumptions c20_recent_exact.

Theorem c20_add_inv : forall r n,
  Inv r n -> n + 1 < W64 ->
  exists r', add r n = Ok r' /\ Inv r' (n + 1) /\
             abs r' = fst (spec_step (abs r) RAdd) /\
             capacity r' = capacity r /\ resizeOffset r' = resizeOffset r.
Proof. exact add_inv. Qed.
Print Assumptions c20_add_inv.

Theorem c20_resize_inv : forall r n k,
  Inv r n -> size_ok k ->
  exists r', resize r k = Ok r' /\ Inv r' n /\ abs r' = fst (spec_step (abs r) (RResize k)).
Proof. exact resize_inv. Qed.
Print Assumptions c20_resize_inv.

(* no index-out-of-range / make() panic *)
Theorem c20_ring_no_crash : forall cap ops,
  size_ok cap -> forallb op_ok ops = true -> forallb op_fits ops = true -> nadds ops < W64 ->
  ~ In OCrash (ring_run cap ops).
Proof. exact ring_no_crash. Qed.
Print Assumptions c20_ring_no_crash.

(* every recorded event gets the next consecutive id *)
Theorem c20_ring_ids_consecutive : forall cap ops,
  size_ok cap -> forallb op_ok ops = true -> forallb op_fits ops = true -> nadds ops < W64 ->
  let '(r, n) := rfinal (newRing cap, 0) ops in
  rid r = nadds ops /\ n = nadds ops /\
  forall i pos, id2pos r i = Ok (Some pos) -> nth (N.to_nat pos) (events r) None = Some i.
Proof. exact ring_ids_consecutive. Qed.
Print Assumptions c20_ring_ids_consecutive.

(* the buffer holds exactly the most recent h_ret events, also across resizes *)
Theorem c20_ring_holds_recent : forall cap ops,
  size_ok cap -> forallb op_ok ops = true -> forallb op_fits ops = true -> nadds ops < W64 ->
  let '(r, n) := rfinal (newRing cap, 0) ops in
  let s := spec_final (spec_init cap) ops in
  h_n s = nadds ops /\ h_ret s <= h_n s /\ h_ret s <= h_cap s /\
  (forall i, h_n s - h_ret s <= i -> i < h_n s ->
     exists pos, id2pos r i = Ok (Some pos) /\ nth (N.to_nat pos) (events r) None = Some i) /\
  (forall i, i < h_n s - h_ret s \/ h_n s <= i -> id2pos r i = Ok None).
Proof. exact ring_holds_recent. Qed.
Print Assumptions c20_ring_holds_recent.

Theorem c20_spec_ret_no_resize : forall cap ops,
  (forall k, ~ In (RResize k) ops) ->
  let s := spec_final (spec_init cap) ops in
  h_n s = nadds ops /\ h_cap s = cap /\ h_ret s = N.min (nadds ops) cap.
Proof. exact spec_ret_no_resize. Qed.
Print Assumptions c20_spec_ret_no_resize.

(* 2. Event store: the batch handed to the shim *)
Theorem c20_store_refines : forall size ops,
  size < W64 -> forallb sop_ok ops = true ->
  srun (newStore size) 0 ops = store_spec [] size size 0 ops.
Proof. exact store_refines. Qed.
Print Assumptions c20_store_refines.

Theorem c20_store_batch_le : forall size ops,
  size < W64 -> forallb sop_ok ops = true ->
  Forall2 (fun b l => N.of_nat (length b) <= l)
          (srun (newStore size) 0 ops) (batch_limits size size ops).
Proof. exact store_batch_le. Qed.
Print Assumptions c20_store_batch_le.

(* 3. Stream subscriber.  Full clause: forall c, stream_model c = Some (stream_spec c) — refuted;
   proved outside the recorded window. *)
Theorem c20_stream_exact_partial : forall c,
  size_ok (sc_cap c) ->
  sc_before c + (if sc_split c then 1 else 0) + sc_between c < W64 ->
  stream_known_window c = false ->
  stream_model c = Some (stream_spec c).
Proof. exact stream_exact_partial. Qed.
Print Assumptions c20_stream_exact_partial.

Theorem c20_stream_exact_refuted : exists c, stream_model c <> Some (stream_spec c).
Proof. exact stream_exact_refuted. Qed.
Print Assumptions c20_stream_exact_refuted.
