(* C09 — reservations: the generated Queue.Reserve / UnReserve equal Core/Reserve.v (q_reserve, q_unreserve).
   Tie theorems between the Gallina definitions GENERATED from /repo's current Go source by harness/gotrans*.go
   (coq/Generated/Go*.v, rewritten on every run) and the hand-written model the theorems of C09 are about.
   Only statements; proofs: Core/GoTieC09. A semantically relevant edit of a translated Go function changes its generated
   definition and the theorem below that mentions it stops compiling (a broken proof obligation of C09).
   This file imports only tie proofs of C09 (plus the shared representation / resource-operation ties its functions
   really call). Written by the script in notes/gotrans.md (statements printed by Coq). *)
From Coq Require Import String List ZArith NArith Bool.
From YK Require Import Core.Obs Core.Reserve
  Generated.GoPrelude Base.GoTieLib Core.GoTieC09.
(* the generated modules are not imported: their definitions appear qualified (GoResources.addVal ...) *)
From YK Require Generated.GoResources Generated.GoObjects.
Import ListNotations.

Theorem c09_gotie_Reserve :
    forall (sq : GoObjects.Queue) (l : list (N * N)) (app : N),
    GoObjects.Queue_reservedApps sq = cmap l ->
    NoDup (map fst l) ->
    counts_small l -> GoObjects.Queue_reservedApps (GoObjects.Reserve sq app) = cmap (q_reserve app l).
Proof. exact GoTieC09.gotie_Reserve. Qed.
Print Assumptions c09_gotie_Reserve.

Theorem c09_gotie_UnReserve :
    forall (sq : GoObjects.Queue) (l : list (N * N)) (app num : N),
    GoObjects.Queue_reservedApps sq = cmap l ->
    NoDup (map fst l) ->
    counts_small l ->
    GoObjects.Queue_reservedApps (GoObjects.UnReserve sq app (Z.of_N num)) = cmap (q_unreserve app num l).
Proof. exact GoTieC09.gotie_UnReserve. Qed.
Print Assumptions c09_gotie_UnReserve.
