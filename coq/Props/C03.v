(* Property C03 - resource accounting is conserved across application, queue, node and partition.
   Theorems about the operational model Core/Model.v, stated with the predicates of Core/Ledger.v that the oracle
   c03_state (Oracles/CoreC01.v) evaluates on the real scheduler's observations.  Definitions: Core/BooksDefs.v
   (Books, Inv, Bounded), Core/BooksOps.v (KeyFresh), Core/BooksOps4.v (ReqOK), Core/BooksProofs.v (StepOK, m_run, RunOK). *)
From Coq Require Import List ZArith NArith Bool.
From YK Require Import Base.Res Base.ResSpec Core.Obs Core.Model Core.Ledger Core.BooksLemmas Core.BooksDefs Core.BooksState
  Core.BooksDrain Core.BooksOps Core.BooksOps2 Core.BooksOps3 Core.BooksOps4 Core.BooksProofs Core.BooksCheck Core.BooksExamples
  Oracles.CoreC01.
Import ListNotations.
Open Scope Z_scope.

(* ---- 1. reflection: boolean predicates of the oracle <-> pointwise statements ---- *)
Theorem c03_app_books_reflect : forall a, app_books_ok a = true <-> AppBooks a.
Proof. exact app_books_reflect. Qed.
Print Assumptions c03_app_books_reflect.
Theorem c03_queue_books_reflect : forall s q, queue_books_ok s q = true <-> QueueBooks s q.
Proof. exact queue_books_reflect. Qed.
Print Assumptions c03_queue_books_reflect.
Theorem c03_res_is_sum_spec : forall r l, res_is_sum r l = true <-> forall k, getz r k = sumz l k.
Proof. exact res_is_sum_spec. Qed.
Print Assumptions c03_res_is_sum_spec.
Theorem c03_root_matches_spec : forall s, Inv s ->
  (root_matches_nodes s = true <->
   forall r, root_queue s = Some r -> forall k, getz (q_alloc r) k = sumz (map on_allocated (s_nodes s)) k).
Proof. exact root_matches_spec. Qed.
Print Assumptions c03_root_matches_spec.
Theorem c03_books_reflect : forall s, Books s <-> c03_state s = [].
Proof. exact books_reflect. Qed.
Print Assumptions c03_books_reflect.

(* ---- 2. every operation of the model preserves the books (and the auxiliary invariant) ---- *)
Theorem c03_new_ask : forall s a x, Inv s -> Books0 s -> Bounded s -> In a (s_apps s) ->
  AllocOK (ap_id a) x -> rb (oa_res x) -> oa_allocated x = false -> KeyFresh s (oa_key x) ->
  Inv (m_new_ask s a x) /\ Books (m_new_ask s a x).
Proof. exact new_ask_step. Qed.
Print Assumptions c03_new_ask.
Theorem c03_recovered : forall s s' a n x, Inv s -> Books0 s -> Bounded s -> In a (s_apps s) -> In n (s_nodes s) ->
  AllocOK (ap_id a) x -> rb (oa_res x) -> oa_allocated x = true -> oa_node x = on_id n -> KeyFresh s (oa_key x) ->
  m_recovered s a n x = Some s' -> Inv s' /\ Books s'.
Proof. exact recovered_step. Qed.
Print Assumptions c03_recovered.
Theorem c03_sched_alloc : forall deny s s' a k nid, Inv s -> Books0 s -> Bounded s -> In a (s_apps s) ->
  m_sched_alloc deny s a k nid = Some s' -> Inv s' /\ Books s'.
Proof. exact sched_alloc_step. Qed.
Print Assumptions c03_sched_alloc.
Theorem c03_release_alloc : forall s s' a x ttype, Inv s -> Books0 s -> Bounded s -> In a (s_apps s) -> In x (ap_allocs a) ->
  m_release_alloc s a x ttype = Some s' -> Inv s' /\ Books s'.
Proof. exact release_alloc_step. Qed.
Print Assumptions c03_release_alloc.
Theorem c03_release_ask : forall s s' a x, Inv s -> Books0 s -> Bounded s -> In a (s_apps s) -> In x (ap_requests a) ->
  m_release_ask s a x = Some s' -> Inv s' /\ Books s'.
Proof. exact release_ask_step. Qed.
Print Assumptions c03_release_ask.
Theorem c03_node_add : forall s s' id cap drain, Inv s -> Books0 s -> m_node_add s id cap drain = Some s' -> Inv s' /\ Books s'.
Proof. exact node_add_step. Qed.
Print Assumptions c03_node_add.
Theorem c03_node_update : forall s s' id cap, Inv s -> Books0 s -> m_node_update s id cap = Some s' -> Inv s' /\ Books s'.
Proof. exact node_update_step. Qed.
Print Assumptions c03_node_update.
Theorem c03_node_sched : forall s s' id b, Inv s -> Books0 s -> m_node_sched s id b = Some s' -> Inv s' /\ Books s'.
Proof. exact node_sched_step. Qed.
Print Assumptions c03_node_sched.
Theorem c03_foreign_alloc : forall s s' r, Inv s -> Books0 s -> ReqOK s r -> rq_partition_ok r = true -> rq_foreign r = true ->
  m_alloc s r = Some s' -> Inv s' /\ Books s'.
Proof. exact foreign_alloc_step. Qed.
Print Assumptions c03_foreign_alloc.
Theorem c03_foreign_release : forall s s' key ttype, Inv s -> Books0 s -> m_release s 0%N key ttype = Some s' -> Inv s' /\ Books s'.
Proof. exact foreign_release_step. Qed.
Print Assumptions c03_foreign_release.
Theorem c03_alloc : forall s s' r, Inv s -> Books s -> Bounded s -> ReqOK s r -> m_alloc s r = Some s' -> Inv s' /\ Books s'.
Proof. exact alloc_step. Qed.
Print Assumptions c03_alloc.
Theorem c03_release : forall s s' app key ttype, Inv s -> Books s -> Bounded s -> m_release s app key ttype = Some s' -> Inv s' /\ Books s'.
Proof. exact release_step. Qed.
Print Assumptions c03_release.
Theorem c03_m_step_books : forall deny s st s', Books s -> Inv s -> Bounded s -> StepOK s st ->
  m_step deny s st = Some s' -> Books s'.
Proof. exact m_step_books. Qed.
Print Assumptions c03_m_step_books.
Theorem c03_m_step_inv : forall deny s st s', Books s -> Inv s -> Bounded s -> StepOK s st ->
  m_step deny s st = Some s' -> Inv s'.
Proof. exact m_step_inv. Qed.
Print Assumptions c03_m_step_inv.

(* ---- 3. histories, and the empty partition ---- *)
Theorem c03_books_reachable : forall deny steps s0, Books s0 -> Inv s0 -> RunOK deny s0 steps ->
  Books (m_run deny s0 steps) /\ Inv (m_run deny s0 steps).
Proof. exact books_reachable. Qed.
Print Assumptions c03_books_reachable.
Theorem c03_books_init : forall qs, (forall q, In q qs -> q_alloc q = [] /\ q_pending q = []) -> Books (init_state qs).
Proof. exact books_init. Qed.
Print Assumptions c03_books_init.
Theorem c03_inv_init : forall qs, TreeOK (init_state qs) -> (forall q, In q qs -> q_alloc q = [] /\ q_pending q = []) ->
  Inv (init_state qs).
Proof. exact inv_init. Qed.
Print Assumptions c03_inv_init.

(* ---- 4. nothing leaks ---- *)
Theorem c03_drain_to_zero : forall s, Books0 s -> Inv s -> drained_ok s = true.
Proof. exact drain_to_zero. Qed.
Print Assumptions c03_drain_to_zero.
Theorem c03_drain_to_zero_pointwise : forall s, Books0 s -> Inv s -> s_apps s = [] ->
  (forall q, In q (s_queues s) -> forall k, getz (q_alloc q) k = 0 /\ getz (q_pending q) k = 0) /\
  (forall n, In n (s_nodes s) -> on_allocs n = [] /\ forall k, getz (on_allocated n) k = 0) /\
  s_nallocs s = 0.
Proof. exact drain_to_zero_pointwise. Qed.
Print Assumptions c03_drain_to_zero_pointwise.

(* ---- 5. the theorem's predicate is the oracle ---- *)
Theorem c03_oracle_sound_for_model : forall s, Books s -> c03_state s = [].
Proof. exact c03_oracle_sound_for_model. Qed.
Print Assumptions c03_oracle_sound_for_model.
Theorem c03_run_oracle : forall deny steps s0, Books s0 -> Inv s0 -> RunOK deny s0 steps -> c03_state (m_run deny s0 steps) = [].
Proof. exact c03_run_oracle. Qed.
Print Assumptions c03_run_oracle.

(* ---- the hypotheses are satisfiable (a covered eleven step history over a three level tree) ---- *)
Theorem c03_example_hypotheses : Books ex_s0 /\ Inv ex_s0 /\ RunOK [] ex_s0 ex_steps /\ m_run_len [] ex_s0 ex_steps = length ex_steps.
Proof. exact (conj ex_books0 (conj ex_inv0 (conj ex_run_ok ex_covered))). Qed.
Print Assumptions c03_example_hypotheses.

(* ---- allocation keys must be unique in the partition: without that assumption the books of the model break ---- *)
Theorem c03_books_reachable_dup_keys_refuted :
  exists s0 steps, Books s0 /\ Inv s0 /\ m_run_len [] s0 steps = length steps /\
    (forall n, bounded_b (m_run [] s0 (firstn n steps)) = true) /\ c03_state (m_run [] s0 steps) <> [].
Proof. exact books_reachable_dup_keys_refuted. Qed.
Print Assumptions c03_books_reachable_dup_keys_refuted.
