(* Property C16 - configuration reload is atomic and preserves running state.
   Only statements; proofs are in Core/ReloadProofs.v and Core/ReloadProofs2.v.
   Model: Core/Reload.v (queue tree, applyConf / mergeProperties / UpdateQueueProperties / MarkQueueForRemoval /
   cleanQueues at code fidelity); predicates: Core/ReloadSpec.v - the same boolean predicates are evaluated on
   the implementation's observations by Oracles/CoreC16.v.
   Hypotheses: [tree_okb t] (the children map of a queue has one entry per name, only the root has parent 0,
   states are the three states of the object state machine); [qid t = ct_id c] (updatePartitionDetails only
   accepts a configuration whose first queue is root). *)
From Coq Require Import List NArith Bool.
From YK Require Import Base.Res Core.Obs Core.Reload Core.ReloadSpec Core.ReloadProofs Core.ReloadProofs2.
Import ListNotations.
Open Scope N_scope.

(* A rejected reload (document does not load / dry run fails / placement rules rejected) changes nothing:
   every rejection is decided before the first write ... *)
Theorem reject_noop : forall (R : Type) (v : verdict) (c : conf_tree) (s : qtree * R),
  v <> VAccepted -> reload v c s = s.
Proof. exact @reject_noop_thm. Qed.
Print Assumptions reject_noop.
(* ... and once writing has started updateQueues cannot fail (adding a configured child can only fail below a
   leaf or a draining parent; applyConf has made the parent a non-leaf, active queue before). *)
Theorem reject_noop_no_midway_failure : forall c t, reload_tree_chk c t = Some (reload_tree c t).
Proof. exact reload_never_fails_midway. Qed.
Print Assumptions reject_noop_no_midway_failure.

(* An accepted reload leaves everything that is not a queue untouched, *)
Theorem accept_preserves_rest : forall (R : Type) (c : conf_tree) (s : qtree * R), snd (reload VAccepted c s) = snd s.
Proof. exact @accept_keeps_rest. Qed.
Print Assumptions accept_preserves_rest.
(* and every queue keeps its position, ledgers (allocated, pending, preempting, running count, allocating set,
   reservations) and application set; queues it creates start empty. For any tree and any configuration. *)
Theorem accept_preserves : forall c t, tree_okb t = true -> P_preserve (flatten t) (flatten (reload_tree c t)) = true.
Proof. exact accept_preserves_thm. Qed.
Print Assumptions accept_preserves.

(* Every queue the configuration defines exists afterwards, managed and Active, with the configured type, max,
   guaranteed, max applications, and with the properties merged from its (updated) parent and the settings derived
   from them. *)
Theorem accept_applies : forall c t, tree_okb t = true -> qid t = ct_id c -> P_applies c (flatten (reload_tree c t)) = true.
Proof. exact accept_applies_thm. Qed.
Print Assumptions accept_applies.

(* Managed queues missing from the new configuration, and everything below them through managed queues, are
   Draining (unless Stopped) with ledgers untouched; unmanaged queues there are unchanged. *)
Theorem missing_drains : forall c t, P_drains c t (flatten (reload_tree c t)) = true.
Proof. exact missing_drains_thm. Qed.
Print Assumptions missing_drains.

(* A Draining queue takes no new application (the provided rule skips it; a forced application goes to the
   recovery queue). *)
Theorem draining_rejects_new : forall q acl forced, P_no_new_app q (place_existing q acl forced) = true.
Proof. exact draining_rejects_new_thm. Qed.
Print Assumptions draining_rejects_new.

(* A queue that exists in any state and is listed again is Active after the reload. *)
Theorem reappear_reactivates : forall c pq t, ex_ok c (Some t) -> m_state (troot (upd c pq (Some t))) = QS_Active.
Proof. exact reappear_reactivates_thm. Qed.
Print Assumptions reappear_reactivates.

(* Queue cleaning: surviving queues are unchanged; a queue that disappears held no application and was Draining
   or unmanaged (dynamic); cleaning the tree of a running partition does not crash. *)
Theorem removed_only_empty : forall t, P_clean t (flatten_opt (clean t)) = true.
Proof. exact removed_only_empty_thm. Qed.
Print Assumptions removed_only_empty.
Theorem removed_only_empty_no_crash : forall t, m_managed (troot t) = true -> m_state (troot t) = QS_Active -> clean_root t <> Crash.
Proof. exact clean_root_no_crash. Qed.
Print Assumptions removed_only_empty_no_crash.

(* "Existing applications keep running" read as: an application the scheduler can reach (leaf queue below parent
   queues only) can still be reached after an accepted reload. FALSE of the faithful model: a configuration that
   defines a leaf holding applications as a parent (finding 19). Full statement
     forall c t, tree_okb t = true -> qid t = ct_id c -> P_reach t (reload_tree c t) = true
   is refuted by the witness below, which is replayed on the real code by the pinned case of corpus/reload.json. *)
Theorem existing_keep_running_refuted :
  exists c t, tree_okb t = true /\ qid t = ct_id c /\ P_reach t (reload_tree c t) = false /\ window19 c t (reload_tree c t) = true.
Proof. exact apps_stay_reachable_refuted. Qed.
Print Assumptions existing_keep_running_refuted.
