(* Property C14 — concurrent operation is race-free, deadlock-free and preserves the invariants.
   PARTIAL BY NATURE.  Only statements; proofs are in Conc/LockOrderProofs.v, Conc/OracleTie.v.

   What is decided here: deadlock freedom on the traced locks, as a theorem about an abstract machine whose
   threads are constrained only by a lock nesting relation E (Conc/LockOrder.v), for ANY number of threads
   and locks and any grant rule.  Edges carry the role of the goroutine; a role may be declared single (one
   thread), and a cycle confined to one single role is harmless (refined check order_ok).  E is not assumed: it is extracted on every run from the running scheduler
   by the tracing lock wrapper (pkg/locking, build tag verif) and `acyclic (untag E) = true` (else `order_ok`
   with a rank certificate from the harness) is evaluated by vm_compute in the cases file (kind 1401 otherwise).  The theorem is unbounded; its input (E) is bounded by
   what the stress workloads exercised.  RW locks are treated like exclusive locks (conservative).

   What is NOT shown by this technique: absence of data races; absence of blocked goroutines under every
   interleaving (channel operations, sync.Cond, WaitGroup and locks not taken through pkg/locking are outside
   the machine; nestings never exercised by the workloads are not in E).  The accounting invariants after
   quiescence (Oracles/ConcCheck.v: final_state_kinds, the predicates of C01/C03) are evaluated on the final
   state of every stress run as validation, not proof. *)
From Coq Require Import List NArith Bool.
From YK Require Import Conc.LockOrder Conc.LockOrderProofs Conc.OracleTie Oracles.ConcCheck.
Import ListNotations.

(* 1. The boolean check run on the traced relation is sound: it accepts only relations without a cycle. *)
Theorem c14_acyclic_sound : forall E, acyclic E = true -> ~ has_cycle E.
Proof. exact acyclic_sound. Qed.
Print Assumptions c14_acyclic_sound.

(* 2. Lock-order theorem: with an acyclic nesting relation no reachable state of the machine has a wait-for
   cycle (threads t0..tn-1, each waiting for a lock held by the next) - whatever the roles of the threads. *)
Theorem c14_acyclic_no_deadlock : forall E (role_of : thread -> role) (can_grant : state -> thread -> lock -> Prop),
  acyclic (untag E) = true ->
  forall s, reachable E role_of can_grant s -> forall c, ~ wait_cycle s c.
Proof. exact acyclic_no_deadlock. Qed.
Print Assumptions c14_acyclic_no_deadlock.

(* 3. The same for deadlocked sets: no non-empty set of threads each waiting for a lock held inside the set. *)
Theorem c14_acyclic_no_deadlocked_set : forall E (role_of : thread -> role) (can_grant : state -> thread -> lock -> Prop),
  acyclic (untag E) = true ->
  forall s, reachable E role_of can_grant s -> forall D, ~ deadlocked s D.
Proof. exact acyclic_no_deadlocked_set. Qed.
Print Assumptions c14_acyclic_no_deadlocked_set.

(* 4. Refined theorem: cycles are tolerated when all their edges stay on one level of a rank certificate and
   belong to one role that has a single thread (a wait-for cycle needs two threads). *)
Theorem c14_order_ok_no_deadlock : forall E (role_of : thread -> role) (can_grant : state -> thread -> lock -> Prop) single rk,
  order_ok single rk E = true -> singles_respected role_of single ->
  forall s, reachable E role_of can_grant s -> (forall D, ~ deadlocked s D) /\ (forall c, ~ wait_cycle s c).
Proof. exact order_ok_no_deadlock_both. Qed.
Print Assumptions c14_order_ok_no_deadlock.

(* 5. Progress: under any grant rule that grants free locks, a reachable state with finitely many active
   threads in which some thread waits can move by a grant or a release (not only by a new request). *)
Theorem c14_progress : forall E (role_of : thread -> role) (can_grant : state -> thread -> lock -> Prop),
  (forall s t l, free s l -> can_grant s t l) -> forall single rk,
  order_ok single rk E = true -> singles_respected role_of single ->
  forall n s, reachable E role_of can_grant s -> bounded n s ->
  (exists t, waiting (s t) <> None) -> exists s', unblock can_grant s s'.
Proof. exact order_ok_progress. Qed.
Print Assumptions c14_progress.

(* 6. The cycle printed in a replay is certified: a list accepted by is_cycle refutes the plain check. *)
Theorem c14_cycle_certified : forall E c, is_cycle E c = true -> acyclic E = false /\ has_cycle E.
Proof. exact cycle_certified. Qed.
Print Assumptions c14_cycle_certified.

(* 7. The oracle of the conc engine is the hypothesis of the theorem: for a run on which kind 1401 is not
   reported, no program nesting its locks only as observed in that run (per role, one thread per single role)
   can deadlock on them. *)
Theorem c14_oracle_lock_order : forall c, ~ In 1401%N (conc_check_case c) ->
  forall (role_of : thread -> role) (can_grant : state -> thread -> lock -> Prop),
  singles_respected role_of (is_single c) ->
  forall s, reachable (cc_edges c) role_of can_grant s ->
  (forall D, ~ deadlocked s D) /\ (forall cyc, ~ wait_cycle s cyc).
Proof. exact oracle_lock_order. Qed.
Print Assumptions c14_oracle_lock_order.

(* 8. The hypothesis matters: with the classic inversion [(1,2); (2,1)] the check fails and the machine
   reaches a wait-for cycle. *)
Theorem c14_cyclic_can_deadlock :
  acyclic (untag badE) = false /\ exists s, reachable badE one_role excl_grant s /\ wait_cycle s [0; 1]%nat.
Proof. exact cyclic_can_deadlock. Qed.
Print Assumptions c14_cyclic_can_deadlock.
