(* Property C14 — concurrent operation is race-free, deadlock-free and preserves the invariants.
   PARTIAL BY NATURE.  Only statements; proofs are in Conc/LockOrderProofs.v, Conc/OracleTie.v.

   What is decided here: deadlock freedom on the traced locks, as a theorem about an abstract machine whose
   threads are constrained only by a lock nesting relation E (Conc/LockOrder.v), for ANY number of threads
   and locks and any grant rule.  E is not assumed: it is extracted on every run from the running scheduler
   by the tracing lock wrapper (pkg/locking, build tag verif) and `acyclic E = true` is evaluated by
   vm_compute in the cases file (kind 1401 otherwise).  The theorem is unbounded; its input (E) is bounded by
   what the stress workloads exercised.  RW locks are treated like exclusive locks (conservative).

   What is NOT shown by this technique: absence of data races; absence of blocked goroutines under every
   interleaving (channel operations, sync.Cond, WaitGroup and locks not taken through pkg/locking are outside
   the machine; nestings never exercised by the workloads are not in E).  The accounting invariants after
   quiescence (Oracles/ConcCheck.v: final_state_kinds, the predicates of C01/C03) are evaluated on the final
   state of every stress run as validation, not proof. *)
From Coq Require Import List NArith Bool.
From YK Require Import Conc.LockOrder Conc.LockOrderProofs Conc.OracleTie Oracles.ConcCheck.
Import ListNotations.

(* 1. The boolean check run on the traced relation is sound: it accepts only relations without a cycle. *)
Theorem c14_acyclic_sound : forall E, acyclic E = true -> ~ has_cycle E.
Proof. exact acyclic_sound. Qed.
Print Assumptions c14_acyclic_sound.

(* 2. Lock-order theorem: with an acyclic nesting relation no reachable state of the machine has a wait-for
   cycle (threads t0..tn-1, each waiting for a lock held by the next). *)
Theorem c14_acyclic_no_deadlock : forall E (can_grant : state -> thread -> lock -> Prop), acyclic E = true ->
  forall s, reachable E can_grant s -> forall c, ~ wait_cycle s c.
Proof. exact acyclic_no_deadlock. Qed.
Print Assumptions c14_acyclic_no_deadlock.

(* 3. The same for deadlocked sets: no non-empty set of threads each waiting for a lock held inside the set. *)
Theorem c14_acyclic_no_deadlocked_set : forall E (can_grant : state -> thread -> lock -> Prop), acyclic E = true ->
  forall s, reachable E can_grant s -> forall D, ~ deadlocked s D.
Proof. exact acyclic_no_deadlocked_set. Qed.
Print Assumptions c14_acyclic_no_deadlocked_set.

(* 4. Progress: under any grant rule that grants free locks, a reachable state with finitely many active
   threads in which some thread waits can move by a grant or a release (not only by a new request). *)
Theorem c14_progress : forall E (can_grant : state -> thread -> lock -> Prop),
  (forall s t l, free s l -> can_grant s t l) -> acyclic E = true ->
  forall n s, reachable E can_grant s -> bounded n s ->
  (exists t, waiting (s t) <> None) -> exists s', unblock can_grant s s'.
Proof. exact acyclic_progress. Qed.
Print Assumptions c14_progress.

(* 5. The cycle printed in a replay is certified: a list accepted by is_cycle refutes the check. *)
Theorem c14_cycle_certified : forall E c, is_cycle E c = true -> acyclic E = false /\ has_cycle E.
Proof. exact cycle_certified. Qed.
Print Assumptions c14_cycle_certified.

(* 6. The oracle of the conc engine is the hypothesis of the theorem: for a run on which kind 1401 is not
   reported, no program nesting its locks only as observed in that run can deadlock on them. *)
Theorem c14_oracle_lock_order : forall c, ~ In 1401%N (conc_check_case c) ->
  forall (can_grant : state -> thread -> lock -> Prop) s, reachable (cc_edges c) can_grant s ->
  (forall D, ~ deadlocked s D) /\ (forall cyc, ~ wait_cycle s cyc).
Proof. exact oracle_lock_order. Qed.
Print Assumptions c14_oracle_lock_order.

(* 7. The hypothesis matters: with the classic inversion [(1,2); (2,1)] the check fails and the machine
   reaches a wait-for cycle. *)
Theorem c14_cyclic_can_deadlock :
  acyclic badE = false /\ exists s, reachable badE excl_grant s /\ wait_cycle s [0; 1]%nat.
Proof. exact cyclic_can_deadlock. Qed.
Print Assumptions c14_cyclic_can_deadlock.
