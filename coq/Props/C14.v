(* Property C14 — concurrent operation is race-free, deadlock-free and preserves the invariants.
   PARTIAL BY NATURE.  Only statements; proofs are in Conc/LockOrderProofs.v, Conc/OracleTie.v.

   What is decided here: deadlock freedom on the traced locks, as a theorem about an abstract machine whose
   threads are constrained only by a lock nesting relation E (Conc/LockOrder.v), for ANY number of threads
   and locks and any grant rule.  Edges carry the role of the goroutine; a role may be declared single (one
   thread), and a cycle confined to one single role is harmless (refined check order_ok).  E is not assumed: it is extracted on every run from the running scheduler
   by the tracing lock wrapper (pkg/locking, build tag verif) and `acyclic (untag E) = true` (else `order_ok`
   with a rank certificate from the harness) is evaluated by vm_compute in the cases file (kind 1401 otherwise).  The theorem is unbounded; its input (E) is bounded by
   what the stress workloads exercised.  RW locks are treated like exclusive locks (conservative).

   What is NOT shown by this technique: absence of data races; absence of blocked goroutines under every
   interleaving (channel operations, sync.Cond, WaitGroup and locks not taken through pkg/locking are outside
   the machine; nestings never exercised by the workloads are not in E).  The accounting invariants after
   quiescence (Oracles/ConcCheck.v: final_state_kinds, the predicates of C01/C03) are evaluated on the final
   state of every stress run as validation, not proof.

   Atomicity (theorems 9-16): a second abstract machine (Conc/Atomic.v: threads, ONE reader/writer lock, the variable
   it protects, invocations made of lock / unlock / read / check / store instructions, arbitrary interleaving).
   If every invocation keeps the lock discipline and has no SPLIT critical section (lock released and taken again in
   write mode inside one invocation), every reachable value of the variable is the result of some serial order of the
   invocations: no lost update, a guard checked inside the section is an invariant.  `has_split` is computed on
   the real code by the lock wrapper's critical-section monitor on every run; the split sections of the unchanged
   tree are a reviewed baseline (corpus/conc_split_baseline.json); a new one is kind 1420.  Unbounded theorem,
   coverage-bounded input, as for the lock order. *)
From Coq Require Import List ZArith NArith Bool.
From YK Require Import Conc.LockOrder Conc.LockOrderProofs Conc.OracleTie Oracles.ConcCheck.
From YK Require Import Conc.Atomic Conc.AtomicProofs Conc.AtomicTie.
Import ListNotations.

(* 1. The boolean check run on the traced relation is sound: it accepts only relations without a cycle. *)
Theorem c14_acyclic_sound : forall E, acyclic E = true -> ~ has_cycle E.
Proof. exact acyclic_sound. Qed.
Print Assumptions c14_acyclic_sound.

(* 2. Lock-order theorem: with an acyclic nesting relation no reachable state of the machine has a wait-for
   cycle (threads t0..tn-1, each waiting for a lock held by the next) - whatever the roles of the threads. *)
Theorem c14_acyclic_no_deadlock : forall E (role_of : thread -> role) (can_grant : state -> thread -> lock -> Prop),
  acyclic (untag E) = true ->
  forall s, reachable E role_of can_grant s -> forall c, ~ wait_cycle s c.
Proof. exact acyclic_no_deadlock. Qed.
Print Assumptions c14_acyclic_no_deadlock.

(* 3. The same for deadlocked sets: no non-empty set of threads each waiting for a lock held inside the set. *)
Theorem c14_acyclic_no_deadlocked_set : forall E (role_of : thread -> role) (can_grant : state -> thread -> lock -> Prop),
  acyclic (untag E) = true ->
  forall s, reachable E role_of can_grant s -> forall D, ~ deadlocked s D.
Proof. exact acyclic_no_deadlocked_set. Qed.
Print Assumptions c14_acyclic_no_deadlocked_set.

(* 4. Refined theorem: cycles are tolerated when all their edges stay on one level of a rank certificate and
   belong to one role that has a single thread (a wait-for cycle needs two threads). *)
Theorem c14_order_ok_no_deadlock : forall E (role_of : thread -> role) (can_grant : state -> thread -> lock -> Prop) single rk,
  order_ok single rk E = true -> singles_respected role_of single ->
  forall s, reachable E role_of can_grant s -> (forall D, ~ deadlocked s D) /\ (forall c, ~ wait_cycle s c).
Proof. exact order_ok_no_deadlock_both. Qed.
Print Assumptions c14_order_ok_no_deadlock.

(* 5. Progress: under any grant rule that grants free locks, a reachable state with finitely many active
   threads in which some thread waits can move by a grant or a release (not only by a new request). *)
Theorem c14_progress : forall E (role_of : thread -> role) (can_grant : state -> thread -> lock -> Prop),
  (forall s t l, free s l -> can_grant s t l) -> forall single rk,
  order_ok single rk E = true -> singles_respected role_of single ->
  forall n s, reachable E role_of can_grant s -> bounded n s ->
  (exists t, waiting (s t) <> None) -> exists s', unblock can_grant s s'.
Proof. exact order_ok_progress. Qed.
Print Assumptions c14_progress.

(* 6. The cycle printed in a replay is certified: a list accepted by is_cycle refutes the plain check. *)
Theorem c14_cycle_certified : forall E c, is_cycle E c = true -> acyclic E = false /\ has_cycle E.
Proof. exact cycle_certified. Qed.
Print Assumptions c14_cycle_certified.

(* 7. The oracle of the conc engine is the hypothesis of the theorem: for a run on which kind 1401 is not
   reported, no program nesting its locks only as observed in that run (per role, one thread per single role)
   can deadlock on them. *)
Theorem c14_oracle_lock_order : forall c, ~ In 1401%N (conc_check_case c) ->
  forall (role_of : thread -> role) (can_grant : state -> thread -> lock -> Prop),
  singles_respected role_of (is_single c) ->
  forall s, reachable (cc_edges c) role_of can_grant s ->
  (forall D, ~ deadlocked s D) /\ (forall cyc, ~ wait_cycle s cyc).
Proof. exact oracle_lock_order. Qed.
Print Assumptions c14_oracle_lock_order.

(* 8. The hypothesis matters: with the classic inversion [(1,2); (2,1)] the check fails and the machine
   reaches a wait-for cycle. *)
Theorem c14_cyclic_can_deadlock :
  acyclic (untag badE) = false /\ exists s, reachable badE one_role excl_grant s /\ wait_cycle s [0; 1]%nat.
Proof. exact cyclic_can_deadlock. Qed.
Print Assumptions c14_cyclic_can_deadlock.


(* ---------- atomicity of read-modify-write operations ---------- *)

(* 9. Lock discipline + no split critical section => serialisable: in every reachable state in which no writer is
   inside its section, the protected variable is the result of executing a list l of invocations one after the other,
   l being an interleaving of prefixes of the threads' programs (any number of threads, any schedule). *)
Theorem c14_nosplit_serializable : forall x0 progs, disciplined progs -> forall sched,
  let c := run sched (init x0 progs) in
  writer c = None ->
  exists l, xv c = serial l x0 /\ forall t, exists k, proj t l = firstn k (progs t).
Proof. exact nosplit_serializable. Qed.
Print Assumptions c14_nosplit_serializable.

(* 10. ... and when all threads have finished, l contains every invocation of every thread in the thread's own order:
   the final value is the value of SOME serial order of all operations. *)
Theorem c14_nosplit_final : forall x0 progs, disciplined progs -> forall sched,
  let c := run sched (init x0 progs) in
  finished c -> exists l, xv c = serial l x0 /\ forall t, proj t l = progs t.
Proof. exact nosplit_final. Qed.
Print Assumptions c14_nosplit_final.

(* 11. No lost update: increments and decrements, each inside one write-mode section, from any number of threads
   under any schedule: final value = initial value + sum of all deltas. *)
Theorem c14_atomic_increments_sum : forall x0 (ps : list (list Z)) sched,
  let c := run sched (init x0 (progs_of (map (map inc) ps))) in
  finished c -> xv c = (x0 + sumZ (concat ps))%Z.
Proof. exact atomic_increments_sum. Qed.
Print Assumptions c14_atomic_increments_sum.

(* 12. A predicate that every invocation preserves when executed alone holds whenever no writer is inside its section. *)
Theorem c14_nosplit_invariant : forall (P : Z -> Prop) x0 progs, disciplined progs ->
  P x0 -> (forall t o x, In o (progs t) -> P x -> P (op_fun o x)) ->
  forall sched, let c := run sched (init x0 progs) in writer c = None -> P (xv c).
Proof. exact nosplit_invariant. Qed.
Print Assumptions c14_nosplit_invariant.

(* 13. The guard `x + d <= max` checked inside the section that stores x + d is an invariant `x <= max` (guarded
   increments, unguarded decrements, readers; any number of threads, any schedule). *)
Theorem c14_atomic_guard_invariant : forall mx x0 progs, (x0 <= mx)%Z ->
  (forall t o, In o (progs t) -> (exists d, o = ginc mx d) \/ (exists d, (0 <= d)%Z /\ o = inc (- d)) \/ o = peek) ->
  forall sched, let c := run sched (init x0 progs) in writer c = None -> (xv c <= mx)%Z.
Proof. exact atomic_guard_invariant. Qed.
Print Assumptions c14_atomic_guard_invariant.

(* 14. The hypothesis matters (1): new value computed under the READ lock, stored under the write lock (the seeded change
   C14-SEED2 to Queue.TryIncAllocatedResource).  Every access is under the lock, the invocation has a split section,
   and a two-thread schedule ends with 2 although both serial orders give 3: an increment is lost. *)
Theorem c14_split_lost_update_refuted :
  (forall d, locked None (sinc d) = true /\ has_split (sinc d) = true) /\
  exists sched, let c := run sched (init 0 (two (sinc 1) (sinc 2))) in
    finished c /\ xv c = 2%Z /\
    serial [(0%nat, sinc 1); (1%nat, sinc 2)] 0 = 3%Z /\ serial [(1%nat, sinc 2); (0%nat, sinc 1)] 0 = 3%Z.
Proof. exact (conj sinc_disciplined_but_split split_lost_update_refuted). Qed.
Print Assumptions c14_split_lost_update_refuted.

(* 15. The hypothesis matters (2): guard checked under the read lock, increment under the write lock (check-then-act: the
   shape of Queue.TryIncAllocatedResource on the unchanged tree, harmless there only as long as ONE goroutine calls it):
   two threads both pass the check against the maximum 10 and the variable ends at 12. *)
Theorem c14_split_guard_refuted :
  (forall mx d, locked None (cinc mx d) = true /\ has_split (cinc mx d) = true) /\
  exists sched, let c := run sched (init 0 (two (cinc 10 6) (cinc 10 6))) in
    finished c /\ xv c = 12%Z /\ ~ (xv c <= 10)%Z.
Proof. exact (conj cinc_disciplined_but_split split_guard_refuted). Qed.
Print Assumptions c14_split_guard_refuted.

(* 16. The oracle of the conc engine is the hypothesis: a run on which kind 1420 is not reported showed no split
   critical section outside the reviewed baseline (and a split section outside the baseline is always reported). *)
Theorem c14_oracle_no_new_split : forall c, ~ In 1420%N (conc_check_case c) ->
  forall s, In s (cc_splits c) -> In s (cc_baseline c).
Proof. exact oracle_no_new_split. Qed.
Print Assumptions c14_oracle_no_new_split.
