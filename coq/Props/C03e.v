(* Property C03 - resource accounting is conserved - over MIXED runs of the operational model: [m_step3 deny s st] (Core/Model3.v) tries the
   frozen fragments [m_step] / [m_step2] (Core/Model.v, Model2.v) first and the gang fragment [m_step_gang] otherwise.
   Props/C03.v, C03b.v prove the books for m_step / m_step2 under the OLD invariant [Inv]; Props/C03c.v proves them for m_step_gang under the
   gang invariant [InvG2 = InvG /\ LinkOK].  [Inv] is false in reachable gang states, so neither gives a run theorem for m_step3.
   Here: every step answered by m_step2 preserves [InvG2] and the books when started from an [InvG2] state (Core/Model3ProofsR1..R5.v),
   hence ONE run theorem: from any state with [InvG2 /\ Books] (the empty partition; any state of the old invariant: [c03e_inv_to_invg2]),
   along any history whose steps satisfy [StepOK3e] (Bounded3 + [StepOK3m] where m_step2 answers / [StepOK3g] where the gang fragment answers),
   EVERY visited state satisfies [InvG2 /\ Books].  [Books s <-> c03_state s = []] ([c03_books_reflect], Props/C03.v): theorem and oracle are
   the same predicate ([c03e_run3_oracle_partial]).  Only statements; proofs in Core/Model3ProofsR*.v. *)
From Coq Require Import List ZArith NArith Bool.
From YK Require Import Base.Res Base.ResSpec Core.Obs Core.Model Core.Model2 Core.Model3 Core.Ledger Core.BooksLemmas Core.BooksDefs Core.BooksProofs Core.BooksCheck
  Core.Model3ProofsD Core.Model3ProofsD2 Core.Model3ProofsG1 Core.Model3ProofsA2 Core.Model3ProofsA3 Core.Model3ProofsO2b Core.Model3ProofsC1 Core.Model3ProofsC2
  Core.Model3ProofsEx Core.Model3ProofsT Core.Model3ProofsT2
  Core.Model3ProofsR1 Core.Model3ProofsR2 Core.Model3ProofsR3 Core.Model3ProofsR4 Core.Model3ProofsR4b Core.Model3ProofsR5 Core.Model3ProofsR6 Oracles.CoreC01.
Import ListNotations.
Open Scope Z_scope.


(* ---- 1. the run theorem over [m_step3] = [m_step2] orelse [m_step_gang]: every visited state satisfies InvG2 and the books.
   `_partial` ONLY because [StepOK3e] contains [StepOK3g] of Props/C03c.v, which for an OpNodeRemove answered by the GANG fragment asks that no
   application terminates inside removeNodeAllocations ([NoTerminal]; see c03c_gang_step_books_partial).  Nothing new is partial: every operation of
   m_step / m_step2 is proved in full under InvG2 ([c03e_m_step2_invg2], no `_partial`).
   Full statement: the same with TermOK instead of NoTerminal in the node-removal clause of [StepOK3g]. ---- *)
Theorem c03e_books_reachable3_partial :
  forall (deny : list (N * N)) (steps : list ostep) (s0 : ostate), InvG2 s0 -> Books s0 -> RunOK3e deny s0 steps -> forall s : ostate, In s (m_run3_states deny s0 steps) -> InvG2 s /\ Books s.
Proof. exact books_reachable3. Qed.
Print Assumptions c03e_books_reachable3_partial.

Theorem c03e_run3_oracle_partial :
  forall (deny : list (N * N)) (steps : list ostep) (s0 : ostate), InvG2 s0 -> Books s0 -> RunOK3e deny s0 steps -> forall s : ostate, In s (m_run3_states deny s0 steps) -> c03_state s = [].
Proof. exact c03_run3_oracle. Qed.
Print Assumptions c03e_run3_oracle_partial.

Theorem c03e_books_reachable3_final_partial :
  forall (deny : list (N * N)) (steps : list ostep) (s0 : ostate), InvG2 s0 -> Books s0 -> RunOK3e deny s0 steps -> InvG2 (m_run3 deny s0 steps) /\ Books (m_run3 deny s0 steps).
Proof. exact books_reachable3_final. Qed.
Print Assumptions c03e_books_reachable3_final_partial.

Theorem c03e_books_reachable3_init_partial :
  forall (deny : list (N * N)) (steps : list ostep) (qs : list oqueue), TreeOK (init_state qs) -> (forall q : oqueue, In q qs -> q_alloc q = [] /\ q_pending q = []) -> RunOK3e deny (init_state qs) steps -> forall s : ostate, In s (m_run3_states deny (init_state qs) steps) -> InvG2 s /\ Books s.
Proof. exact books_reachable3_init. Qed.
Print Assumptions c03e_books_reachable3_init_partial.

Theorem c03e_books_reachable3_from_inv_partial :
  forall (deny : list (N * N)) (steps : list ostep) (s0 : ostate), Inv s0 -> Books s0 -> (forall (a : oapp) (x : oalloc), In a (s_apps s0) -> In x (app_records a) -> positive (oa_res x)) -> (forall a : oapp, In a (s_apps s0) -> wf (ap_phalloc a)) -> RunOK3e deny s0 steps -> forall s : ostate, In s (m_run3_states deny s0 steps) -> InvG2 s /\ Books s.
Proof. exact books_reachable3_from_inv. Qed.
Print Assumptions c03e_books_reachable3_from_inv_partial.

Theorem c03e_inv_to_invg2 :
  forall s : ostate, Inv s -> Books0 s -> (forall (a : oapp) (x : oalloc), In a (s_apps s) -> In x (app_records a) -> positive (oa_res x)) -> (forall a : oapp, In a (s_apps s) -> wf (ap_phalloc a)) -> InvG2 s /\ BooksG s.
Proof. exact inv_to_invg2. Qed.
Print Assumptions c03e_inv_to_invg2.


(* ---- 2. one step: the missing ingredient (every step m_step2 answers preserves InvG2 and the books from an InvG2 state; full), and m_step3 ---- *)
Theorem c03e_m_step2_invg2 :
  forall (deny : list (N * N)) (s : ostate) (st : ostep) (s' : ostate), InvG2 s -> BooksG s -> Bounded3 s -> StepOK3m s st -> m_step2 deny s st = Some s' -> InvG2 s' /\ BooksG s'.
Proof. exact m_step2_G. Qed.
Print Assumptions c03e_m_step2_invg2.

Theorem c03e_m_step3_books_partial :
  forall (deny : list (N * N)) (s : ostate) (st : ostep) (s' : ostate), InvG2 s -> Books s -> StepOK3e deny s st -> m_step3 deny s st = Some s' -> InvG2 s' /\ Books s'.
Proof. exact m_step3_books. Qed.
Print Assumptions c03e_m_step3_books_partial.


(* ---- 3. ONE boolean checker for the run hypotheses, sound; the theorem with every premise decided by vm_compute and the oracle as conclusion ---- *)
Theorem c03e_run_ok3_b_spec :
  forall (deny : list (N * N)) (steps : list ostep) (s : ostate), run_ok3_b deny s steps = true -> RunOK3e deny s steps.
Proof. exact run_ok3_b_spec. Qed.
Print Assumptions c03e_run_ok3_b_spec.

Theorem c03e_step_ok3e_b_spec :
  forall (deny : list (N * N)) (s : ostate) (st : ostep), step_ok3e_b deny s st = true -> StepOK3e deny s st.
Proof. exact step_ok3e_b_spec. Qed.
Print Assumptions c03e_step_ok3e_b_spec.

Theorem c03e_books_reachable3_b_partial :
  forall (deny : list (N * N)) (steps : list ostep) (s0 : ostate), invg2_b s0 = true -> c03_state s0 = [] -> run_ok3_b deny s0 steps = true -> forall s : ostate, In s (m_run3_states deny s0 steps) -> InvG2 s /\ c03_state s = [].
Proof. exact books_reachable3_b. Qed.
Print Assumptions c03e_books_reachable3_b_partial.


(* ---- 4. the operations of m_step / m_step2 under the gang invariant (all full) ---- *)
Theorem c03e_m_step_invg2 :
  forall (deny : list (N * N)) (s : ostate) (st : ostep) (s' : ostate), InvG2 s -> BooksG s -> Bounded3 s -> (forall r : oreq, st_op st = OpAlloc r -> AllocOK3m s r) -> (st_op st = OpSched -> BindOK3 s st) -> m_step deny s st = Some s' -> InvG2 s' /\ BooksG s'.
Proof. exact m_step_G. Qed.
Print Assumptions c03e_m_step_invg2.

Theorem c03e_m_alloc_invg2 :
  forall (s s' : ostate) (r : oreq), InvG2 s -> BooksG s -> Bounded3 s -> ReqOK3 s r -> RecOK3 s r -> ForeignFresh3 s r -> m_alloc s r = Some s' -> InvG2 s' /\ BooksG s'.
Proof. exact m_alloc_stepG. Qed.
Print Assumptions c03e_m_alloc_invg2.

Theorem c03e_m_release_invg2 :
  forall (s s' : ostate) (app key ttype : N), InvG2 s -> BooksG s -> Bounded3 s -> m_release s app key ttype = Some s' -> InvG2 s' /\ BooksG s'.
Proof. exact m_release_stepG. Qed.
Print Assumptions c03e_m_release_invg2.

Theorem c03e_frame_nodes_invg2 :
  forall (s s' : ostate) (g : oqueue -> oqueue), InvG2 s -> BooksG s -> s_apps s' = s_apps s -> s_queues s' = map g (s_queues s) -> s_nallocs s' = s_nallocs s -> (forall q : oqueue, q_id (g q) = q_id q) -> (forall q : oqueue, q_parent (g q) = q_parent q) -> (forall q : oqueue, q_leaf (g q) = q_leaf q) -> (forall q : oqueue, q_alloc (g q) = q_alloc q) -> (forall q : oqueue, q_pending (g q) = q_pending q) -> (forall (f : oalloc) (a : oapp) (x : oalloc), In f (s_foreign s') -> In a (s_apps s) -> In x (app_records a) -> oa_key f <> oa_key x) -> NoDup (map on_id (s_nodes s')) -> (forall n' : onode, In n' (s_nodes s') -> on_allocs n' = [] /\ on_allocated n' = [] \/ (exists n : onode, In n (s_nodes s) /\ on_id n' = on_id n /\ on_allocs n' = on_allocs n /\ on_allocated n' = on_allocated n)) -> (forall n : onode, In n (s_nodes s) -> exists n' : onode, In n' (s_nodes s') /\ on_id n' = on_id n /\ on_allocs n' = on_allocs n) -> node_records s' = node_records s -> InvG2 s' /\ BooksG s'.
Proof. exact frame_nodesG. Qed.
Print Assumptions c03e_frame_nodes_invg2.

Theorem c03e_m_alloc2_invg2 :
  forall (s s' : ostate) (r : oreq), InvG2 s -> BooksG s -> Bounded3 s -> ReqOK3 s r -> UpdOK3r s r -> m_alloc2 s r = Some s' -> InvG2 s' /\ BooksG s'.
Proof. exact m_alloc2_stepG. Qed.
Print Assumptions c03e_m_alloc2_invg2.

Theorem c03e_upd_real_invg2 :
  forall (s : ostate) (a : oapp) (x : oalloc) (nr : res) (n : onode), InvG2 s -> BooksG s -> Bounded3 s -> In a (s_apps s) -> In x (ap_allocs a) -> oa_ph x = false -> oa_release x = 0%N -> wf nr -> rb nr -> rnonneg nr -> positive nr -> In n (s_nodes s) -> on_id n = oa_node x -> InvG2 (m_upd_alloc_state s a x nr n) /\ BooksG (m_upd_alloc_state s a x nr n).
Proof. exact upd_real_stepG. Qed.
Print Assumptions c03e_upd_real_invg2.

Theorem c03e_m_app_add_invg2 :
  forall (s s' : ostate) (id queue user : N) (forced nougi : bool) (phask : ores) (tagmaxapps : N) (tagmax : ores), InvG2 s -> BooksG s -> m_app_add s id queue user forced nougi phask tagmaxapps tagmax = Some s' -> InvG2 s' /\ BooksG s'.
Proof. exact m_app_add_stepG. Qed.
Print Assumptions c03e_m_app_add_invg2.

Theorem c03e_m_app_remove_invg2 :
  forall (s s' : ostate) (id : N), InvG2 s -> BooksG s -> Bounded3 s -> m_app_remove s id = Some s' -> InvG2 s' /\ BooksG s'.
Proof. exact m_app_remove_stepG. Qed.
Print Assumptions c03e_m_app_remove_invg2.

Theorem c03e_m_node_remove_invg2 :
  forall (s s' : ostate) (id : N), InvG2 s -> BooksG s -> Bounded3 s -> m_node_remove s id = Some s' -> InvG2 s' /\ BooksG s'.
Proof. exact m_node_remove_stepG. Qed.
Print Assumptions c03e_m_node_remove_invg2.

Theorem c03e_m_fire_state_invg2 :
  forall (s s' : ostate) (id : N), InvG2 s -> BooksG s -> m_fire_state s id = Some s' -> InvG2 s' /\ BooksG s'.
Proof. exact m_fire_state_stepG. Qed.
Print Assumptions c03e_m_fire_state_invg2.


(* ---- 5. the hypotheses are satisfiable: two mixed histories from the EMPTY partition (plain application + gang application with a
   replacement; the second ends with the removal of a node by m_node_remove) ---- *)
Theorem c03e_mx_covered :
  m_run3_len [] ex3_s0 mx_steps = length mx_steps /\ length mx_steps = 19%nat.
Proof. exact mx_covered. Qed.
Print Assumptions c03e_mx_covered.

Theorem c03e_mx_fragments :
  map (fun p : ostate * ostep => answered_by [] (fst p) (snd p)) (combine (ex3_s0 :: map st_obs mx_steps) mx_steps) = [1%N; 1%N; 2%N; 3%N; 1%N; 1%N; 3%N; 3%N; 1%N; 2%N; 1%N; 3%N; 2%N; 3%N; 1%N; 1%N; 1%N; 2%N; 2%N].
Proof. exact mx_fragments. Qed.
Print Assumptions c03e_mx_fragments.

Theorem c03e_mx_inflight :
  let s12 := m_run3 [] ex3_s0 (firstn 12 mx_steps) in map (fun x : oalloc => (oa_key x, oa_release x, oa_released x)) (all_allocs s12) = [(30%N, 0%N, false); (10%N, 20%N, true)] /\ answered_by [] s12 (nth 12 mx_steps (g_step OpSched [])) = 2%N.
Proof. exact mx_inflight. Qed.
Print Assumptions c03e_mx_inflight.

Theorem c03e_mx_run_ok_b :
  run_ok3_b [] ex3_s0 mx_steps = true.
Proof. exact mx_run_ok_b. Qed.
Print Assumptions c03e_mx_run_ok_b.

Theorem c03e_mxn_covered :
  m_run3_len [] ex3_s0 mxn_steps = length mxn_steps /\ length mxn_steps = 16%nat.
Proof. exact mxn_covered. Qed.
Print Assumptions c03e_mxn_covered.

Theorem c03e_mxn_last_fragment :
  answered_by [] (m_run3 [] ex3_s0 (firstn 15 mxn_steps)) (nth 15 mxn_steps (g_step OpSched [])) = 2%N.
Proof. exact mxn_last_fragment. Qed.
Print Assumptions c03e_mxn_last_fragment.

Theorem c03e_mxn_run_ok_b :
  run_ok3_b [] ex3_s0 mxn_steps = true.
Proof. exact mxn_run_ok_b. Qed.
Print Assumptions c03e_mxn_run_ok_b.

Theorem c03e_mx_hypotheses :
  InvG2 ex3_s0 /\ Books ex3_s0 /\ RunOK3e [] ex3_s0 mx_steps /\ RunOK3e [] ex3_s0 mxn_steps /\ (forall s : ostate, In s (m_run3_states [] ex3_s0 mx_steps) -> InvG2 s /\ c03_state s = []) /\ (forall s : ostate, In s (m_run3_states [] ex3_s0 mxn_steps) -> InvG2 s /\ c03_state s = []).
Proof. exact mx_hypotheses. Qed.
Print Assumptions c03e_mx_hypotheses.

