(* Property C03 - resource accounting is conserved - over the SECOND fragment of the operational model
   (Core/Model2.v, [m_step2]: application add / remove, node removal, state timer, in-place updates of existing keys,
   RM placement of a pending ask).  Only statements; proofs are in Core/Model2ProofsB1.v ... B6.v (examples: B7).
   [Books], [Inv], [Bounded], [ReqOK] are those of Props/C03.v (Core/BooksDefs.v, Core/BooksOps4.v); [Books s] is literally
   the oracle: [c03_books_reflect : Books s <-> c03_state s = []]. *)
From Coq Require Import List ZArith NArith Bool.
From YK Require Import Base.Res Base.ResSpec Core.Obs Core.Model Core.Model2 Core.Ledger
  Core.BooksLemmas Core.BooksDefs Core.BooksOps Core.BooksOps4 Core.BooksProofs Core.BooksCheck
  Core.Model2ProofsB1 Core.Model2ProofsB2 Core.Model2ProofsB3 Core.Model2ProofsB4 Core.Model2ProofsB5 Core.Model2ProofsB6
  Core.BooksExamples Core.Model2ProofsB7 Oracles.CoreC01.
From YK Require Core.Model2ProofsN.
From YK Require Import Core.Model2ProofsBridge.
Import ListNotations.
Open Scope Z_scope.

(* ---- 1. every new operation preserves the books and the invariant ---- *)
Theorem c03b_app_add : forall s s' id queue user forced nougi phask tagmaxapps tagmax, Inv s -> Books s ->
  m_app_add s id queue user forced nougi phask tagmaxapps tagmax = Some s' -> Inv s' /\ Books s'.
Proof. exact app_add_step. Qed.
Print Assumptions c03b_app_add.

(* a pending ask changes size: pending of the application and of every ancestor moves by new - old *)
Theorem c03b_update_pending : forall s a x nr, Inv s -> Books0 s -> Bounded s -> In a (s_apps s) -> In x (ap_requests a) ->
  oa_allocated x = false -> wf nr -> rb nr -> rnonneg nr ->
  Inv (upd_pending_state s a x nr) /\ Books (upd_pending_state s a x nr).
Proof. exact upd_pending_step. Qed.
Print Assumptions c03b_update_pending.

(* a bound allocation changes size in place: application, ancestors, node and the shared record *)
Theorem c03b_update_allocated : forall s a x nr n, Inv s -> Books0 s -> Bounded s -> In a (s_apps s) -> In x (ap_requests a) ->
  oa_allocated x = true -> oa_ph x = false -> In x (ap_allocs a) -> wf nr -> rb nr -> rnonneg nr ->
  In n (s_nodes s) -> on_id n = oa_node x -> find_alloc (on_allocs n) (oa_key x) = Some x ->
  Inv (upd_alloc_state s a x nr n) /\ Books (upd_alloc_state s a x nr n).
Proof. exact upd_alloc_step. Qed.
Print Assumptions c03b_update_allocated.

(* the RM places a pending ask on a node (no limit is checked) *)
Theorem c03b_place : forall s a ask n, Inv s -> Books0 s -> Bounded s -> In a (s_apps s) -> In ask (ap_requests a) ->
  oa_allocated ask = false -> oa_ph ask = false -> In n (s_nodes s) -> Inv (place_state s a ask n) /\ Books (place_state s a ask n).
Proof. exact place_step. Qed.
Print Assumptions c03b_place.

Theorem c03b_alloc2 : forall s s' r, Inv s -> Books s -> Bounded s -> ReqOK s r -> UpdOK s r -> m_alloc2 s r = Some s' -> Inv s' /\ Books s'.
Proof. exact alloc2_step. Qed.
Print Assumptions c03b_alloc2.

(* removeApplication returns exactly what the application held: no extra hypothesis *)
Theorem c03b_app_remove : forall s s' id, Inv s -> Books s -> Bounded s -> m_app_remove s id = Some s' -> Inv s' /\ Books s'.
Proof. exact app_remove_step. Qed.
Print Assumptions c03b_app_remove.
Theorem c03b_app_remove_apps : forall s id s', m_app_remove s id = Some s' ->
  s_apps s' = filter (fun b => negb (ap_id b =? id)%N) (s_apps s).
Proof. exact m_app_remove_apps. Qed.
Print Assumptions c03b_app_remove_apps.

(* removeNode returns exactly what the node's allocations held: no extra hypothesis *)
Theorem c03b_node_remove : forall s s' id, Inv s -> Books s -> Bounded s -> m_node_remove s id = Some s' -> Inv s' /\ Books s'.
Proof. exact node_remove_step. Qed.
Print Assumptions c03b_node_remove.

(* the Completing timer: the application leaves the live list *)
Theorem c03b_fire_state : forall s s' id, Inv s -> Books s -> (forall a, find_app s id = Some a -> allocs_positive a) ->
  m_fire_state s id = Some s' -> Inv s' /\ Books s'.
Proof. exact fire_state_step. Qed.
Print Assumptions c03b_fire_state.

(* an application that holds nothing joins / leaves the live list (used by add, remove, timer) *)
Theorem c03b_drop_app : forall s s' id, Inv s -> Books0 s ->
  s_apps s' = filter (fun b => negb (ap_id b =? id)%N) (s_apps s) -> s_nodes s' = s_nodes s -> s_queues s' = s_queues s ->
  s_foreign s' = s_foreign s -> s_nallocs s' = s_nallocs s ->
  (forall a, In a (s_apps s) -> ap_id a = id -> AppEmpty a) -> Inv s' /\ Books s'.
Proof. exact drop_app_step. Qed.
Print Assumptions c03b_drop_app.

(* ---- 2. one step, all histories ---- *)
Theorem c03b_m_step2_books : forall deny s st s', Books s -> Inv s -> Bounded s -> StepOK2 s st -> m_step2 deny s st = Some s' -> Books s'.
Proof. exact m_step2_books. Qed.
Print Assumptions c03b_m_step2_books.
Theorem c03b_m_step2_inv : forall deny s st s', Books s -> Inv s -> Bounded s -> StepOK2 s st -> m_step2 deny s st = Some s' -> Inv s'.
Proof. exact m_step2_inv. Qed.
Print Assumptions c03b_m_step2_inv.

Theorem c03b_books_reachable2 : forall deny steps s0, Books s0 -> Inv s0 -> RunOK2 deny s0 steps ->
  Books (m_run2 deny s0 steps) /\ Inv (m_run2 deny s0 steps).
Proof. exact books_reachable2. Qed.
Print Assumptions c03b_books_reachable2.

Theorem c03b_run2_oracle : forall deny steps s0, Books s0 -> Inv s0 -> RunOK2 deny s0 steps -> c03_state (m_run2 deny s0 steps) = [].
Proof. exact c03_run2_oracle. Qed.
Print Assumptions c03b_run2_oracle.

(* ---- 3. nothing leaks: once every application has been removed all ledgers are exactly zero ---- *)
Theorem c03b_books_reachable2_drained : forall deny steps s0, Books s0 -> Inv s0 -> RunOK2 deny s0 steps ->
  s_apps (m_run2 deny s0 steps) = [] ->
  let s := m_run2 deny s0 steps in
  (forall q, In q (s_queues s) -> forall k, getz (q_alloc q) k = 0 /\ getz (q_pending q) k = 0) /\
  (forall n, In n (s_nodes s) -> on_allocs n = [] /\ forall k, getz (on_allocated n) k = 0) /\
  s_nallocs s = 0.
Proof. exact books_reachable2_drained. Qed.
Print Assumptions c03b_books_reachable2_drained.

(* ---- 4. the hypotheses are checkable and satisfiable ---- *)
Theorem c03b_run_ok2_b_spec : forall deny steps s, run_ok2_b deny s steps = true -> RunOK2 deny s steps.
Proof. exact run_ok2_b_spec. Qed.
Print Assumptions c03b_run_ok2_b_spec.

Theorem c03b_example_hypotheses : Books e2_s0 /\ Inv e2_s0 /\ RunOK2 [] e2_s0 e2_steps /\ m_run2_len [] e2_s0 e2_steps = length e2_steps /\
  s_apps (m_run2 [] e2_s0 e2_steps) = [].
Proof. exact (conj e2_books0 (conj e2_inv0 (conj e2_run_ok (conj e2_covered eq_refl)))). Qed.
Print Assumptions c03b_example_hypotheses.

Theorem c03b_example_fire_state : Books fire_s0 /\ Inv fire_s0 /\ StepOK2 fire_s0 (ex_step (OpFireState 5) []) /\
  option_map s_apps (m_step2 [] fire_s0 (ex_step (OpFireState 5) [])) = Some [].
Proof. exact fire_hyps. Qed.
Print Assumptions c03b_example_fire_state.

(* ---- 5. [UpdOK] is necessary: the stale allocated ask (known finding stale-allocated-ask-update, reproduced on the
   real scheduler).  The hypotheses of the first fragment hold along both runs; the final verdict is kind 301 and the
   node ledger of C01 is broken as well. ---- *)
Theorem c03b_update_stale_allocated_refuted :
  exists s0 steps, Books s0 /\ Inv s0 /\ m_run2_len [] s0 steps = length steps /\ run_ok1_b [] s0 steps = true /\
    c03_state (m_run2 [] s0 steps) = [301%N] /\ nodes_ledger_ok (m_run2 [] s0 steps) = false.
Proof. exact update_stale_allocated_refuted. Qed.
Print Assumptions c03b_update_stale_allocated_refuted.
Theorem c03b_update_stale_allocated_noderemove_refuted :
  exists s0 steps, Books s0 /\ Inv s0 /\ m_run2_len [] s0 steps = length steps /\ run_ok1_b [] s0 steps = true /\
    c03_state (m_run2 [] s0 steps) = [301%N] /\ nodes_ledger_ok (m_run2 [] s0 steps) = false.
Proof. exact update_stale_allocated_noderemove_refuted. Qed.
Print Assumptions c03b_update_stale_allocated_noderemove_refuted.

(* ---- 6. the C01 step hypothesis [update_listed] (Props/C01b.v) follows from the C03 invariants and [UpdOK] ---- *)
Theorem c03b_update_listed_of_books : forall s st, Inv s -> Books0 s ->
  (forall r, st_op st = OpAlloc r -> UpdOK s r) -> Model2ProofsN.update_listed s st.
Proof. exact update_listed_of_books. Qed.
Print Assumptions c03b_update_listed_of_books.
