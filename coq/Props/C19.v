(* C19 — scheduling order is a deterministic function of the documented sort keys.
   Property theorems only; proofs are in coq/Sort/*Proofs.v.  Model: Sort/Sort.v (generic sorts,
   Go's insertion sort), Sort/Cmp.v (comparators of sorters.go, Allocation.LessThan, sortedRequests,
   GetFairMaxResource), Sort/Nodes.v (baseNodeCollection + iterators), predicates: Sort/Spec.v. *)
From Coq Require Import List ZArith NArith Bool Permutation.
From YK Require Import Base.Int64 Base.F64 Base.Res Sort.Sort Sort.SortProofs Sort.Cmp Sort.CmpProofs
  Sort.ShareProofs Sort.Spec Sort.C19Proofs Sort.ReqProofs Sort.Nodes Sort.NodesProofs.
Import ListNotations.

(* ---- generic: why sort.SliceStable can be abstracted by the stable insertion sort ---- *)
Theorem c19_stable_sort_unique : forall (A : Type) (lt : A -> A -> bool),
  swo lt -> forall l l', Permutation l l' -> sortedb lt l' = true ->
  (forall z, filter (equivb lt z) l' = filter (equivb lt z) l) -> l' = ssort lt l.
Proof. exact (@stable_sort_unique). Qed.
Print Assumptions c19_stable_sort_unique.

Theorem c19_perm_invariant : forall (A : Type) (lt : A -> A -> bool),
  swo lt -> forall l l' a b, Permutation l l' -> In a l -> In b l -> lt a b = true ->
  precedes a b (ssort lt l').
Proof. exact (@perm_invariant). Qed.
Print Assumptions c19_perm_invariant.

Theorem c19_go_insertion_sort_is_stable_sort : forall (A : Type) (P : A -> Prop) (lt : A -> A -> bool) l,
  swo_on P lt -> Forall P l -> go_isort lt l = ssort lt l.
Proof. exact (@go_isort_ssort). Qed.
Print Assumptions c19_go_insertion_sort_is_stable_sort.

(* ---- queues ---- *)
Theorem c19_swo_queue_priority : swo qByPrio.
Proof. exact swo_qByPrio. Qed.
Print Assumptions c19_swo_queue_priority.

Theorem c19_swo_queue_keys : forall st cp, swo (queue_keys_lt st cp).
Proof. exact swo_queue_keys. Qed.
Print Assumptions c19_swo_queue_keys.

Theorem c19_qPrioFair_not_swo_refuted : ~ swo qPrioFair.
Proof. exact qPrioFair_not_swo_refuted. Qed.
Print Assumptions c19_qPrioFair_not_swo_refuted.

Theorem c19_qFairPrio_not_swo_refuted : ~ swo qFairPrio.
Proof. exact qFairPrio_not_swo_refuted. Qed.
Print Assumptions c19_qFairPrio_not_swo_refuted.

Theorem c19_fair_sort_order_dependent_refuted :
  qPrioFair wx wy = true /\
  map q_id (sortQueue 1 true [wy; wz; wx]) = [2; 3; 1]%N /\
  map q_id (sortQueue 1 true [wy; wx; wz]) = [1; 2; 3]%N.
Proof. exact fair_sort_order_dependent_refuted. Qed.
Print Assumptions c19_fair_sort_order_dependent_refuted.

Theorem c19_sortQueue_perm_invariant_partial : forall st cp l l' a b,
  Permutation l l' -> In a l -> In b l -> queue_keys_lt st cp a b = true ->
  precedes a b (sortQueue st cp l').
Proof. exact sortQueue_perm_invariant_partial. Qed.
Print Assumptions c19_sortQueue_perm_invariant_partial.

Theorem c19_sortQueue_plain_is_ssort : forall st cp l,
  (forall a b, In a l -> In b l -> queue_lt st cp a b = queue_keys_lt st cp a b) ->
  (N.eqb st 1 || cp = true) ->
  sortQueue st cp l = ssort (queue_keys_lt st cp) l.
Proof. exact sortQueue_plain_is_ssort. Qed.
Print Assumptions c19_sortQueue_plain_is_ssort.

Theorem c19_sortQueue_pinned_refuted :
  qFairPrio pc pb = true /\
  map q_id (sortQueue_pinned 1 false [pb; pa; pc]) = [1; 2; 3]%N /\
  map q_id (sortQueue_pinned 1 false [pa; pb; pc]) = [1; 3; 2]%N /\
  forallb (fun l => ids_eqb (map q_id (sortQueue 1 false l)) [1; 3; 2]%N)
          [[pa; pb; pc]; [pa; pc; pb]; [pb; pa; pc]; [pb; pc; pa]; [pc; pa; pb]; [pc; pb; pa]] = true.
Proof. exact sortQueue_pinned_refuted. Qed.
Print Assumptions c19_sortQueue_pinned_refuted.

(* ---- applications ---- *)
Theorem c19_swo_app : forall which g, swo_on (fun a => app_ok which g a = true) (app_lt which g).
Proof. exact swo_app. Qed.
Print Assumptions c19_swo_app.

Theorem c19_swo_app_submission_priority : swo aSubPrio.
Proof. exact swo_aSubPrio. Qed.
Print Assumptions c19_swo_app_submission_priority.

Theorem c19_swo_app_priority_submission : swo aPrioSub.
Proof. exact swo_aPrioSub. Qed.
Print Assumptions c19_swo_app_priority_submission.

Theorem c19_sortApps_perm_invariant : forall which g l l' a b,
  (which <? 4)%N = true -> Forall (fun a => app_ok which g a = true) l -> Permutation l l' ->
  In a l -> In b l -> app_lt which g a b = true -> precedes a b (sortApps which g l').
Proof. exact sortApps_perm_invariant. Qed.
Print Assumptions c19_sortApps_perm_invariant.

(* ---- asks ---- *)
Theorem c19_swo_ask_order : swo askBefore /\ forall a b, LessThan a b = negb (askBefore a b).
Proof. exact (conj swo_askBefore LessThan_askBefore). Qed.
Print Assumptions c19_swo_ask_order.

Theorem c19_sorted_requests_inv : forall ops : list req_op,
  req_sorted (req_run ops) = true /\
  (wf_req [] ops = true ->
   Permutation (req_run ops) (spec_asks ops) /\ NoDup (map k_id (req_run ops))).
Proof. exact sorted_requests_inv. Qed.
Print Assumptions c19_sorted_requests_inv.

(* ---- node collection ---- *)
Theorem c19_views_agree : forall p ops,
  let c := run p ops in
  NoDup (map fst (c_refs c)) /\ ksorted (c_tree c) = true /\
  Permutation (c_tree c) (map (fun kv => (snd kv, fst kv)) (c_refs c)).
Proof. exact views_agree. Qed.
Print Assumptions c19_views_agree.

Theorem c19_iterate_once : forall p ops,
  let c := run p ops in
  visits_once (map fst (c_refs c)) (full_iter c) = true /\
  unreserved_ok (is_reserved c) (full_iter c) (unreserved_iter c) = true.
Proof. exact iterate_once. Qed.
Print Assumptions c19_iterate_once.

Theorem c19_score_current : forall p ops id,
  let cd := run_g p ops in
  registered (fst cd) id = true -> ~ In id (snd cd) -> is_current (fst cd) id = true.
Proof. exact score_current. Qed.
Print Assumptions c19_score_current.

Theorem c19_order_current : forall p ops,
  forallb op_notifies ops = true ->
  let c := run p ops in
  order_by (fun id => match current_score c id with Some v => v | None => 0%Z end) (full_iter c) = true.
Proof. exact order_current. Qed.
Print Assumptions c19_order_current.

Theorem c19_score_current_foreign_refuted :
  exists ops id, let c := run 0 ops in
    registered c id = true /\ is_current c id = false /\
    order_by (fun id => match current_score c id with Some v => v | None => 0%Z end) (full_iter c) = false.
Proof. exact score_current_foreign_refuted. Qed.
Print Assumptions c19_score_current_foreign_refuted.
