(* C07 — preemption: the priority bookkeeping fragment of Queue.findPreemptionFenceRoot is one step of Preempt/Victims.v fenceRoot.
   Tie theorems between the Gallina definitions GENERATED from /repo's current Go source by harness/gotrans*.go
   (coq/Generated/Go*.v, rewritten on every run) and the hand-written model the theorems of C07 are about.
   Only statements; proofs: Core/GoTieC07. A semantically relevant edit of a translated Go function changes its generated
   definition and the theorem below that mentions it stops compiling (a broken proof obligation of C07).
   This file imports only tie proofs of C07 (plus the shared representation / resource-operation ties its functions
   really call). Written by the script in notes/gotrans.md (statements printed by Coq). *)
From Coq Require Import String List ZArith NArith Bool.
From YK Require Import Base.Res Preempt.Snapshot Preempt.Victims
  Generated.GoPrelude Base.GoTieLib Core.GoTieC07.
(* the generated modules are not imported: their definitions appear qualified (GoResources.addVal ...) *)
From YK Require Generated.GoResources Generated.GoObjects.
Import ListNotations.

Theorem c07_gotie_fence_step :
    forall (sq : GoObjects.Queue) (pm : list (N * Z)) (cur : Z),
    prio_small cur ->
    prio_small (GoObjects.Queue_priorityOffset sq) ->
    let
    '(pm', cur') := GoObjects.findPreemptionFenceRoot_frag sq pm cur in
    cur' =
    (if GoObjects.Queue_priorityPolicy sq =? 1
    then GoObjects.Queue_priorityOffset sq
    else cur + GoObjects.Queue_priorityOffset sq) /\
    (forall id : N, mget pm' id = pm_get ((GoObjects.Queue_QueuePath sq, cur') :: pm) id).
Proof. exact GoTieC07.gotie_fence_step. Qed.
Print Assumptions c07_gotie_fence_step.
