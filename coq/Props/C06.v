(* C06 - gang scheduling: placeholders are swapped, timed out and cleaned up consistently.
   Theorems about the component model Core/Gang.v (the placeholder bookkeeping of one application with the
   ledgers it touches); the oracle Oracles/CoreC06.v evaluates the same predicates (res_le, replaced_le_count,
   the state paths, the announcements) on the implementation's observations and replays timer firings,
   releases, swap decisions and allocations through the model (kind 691). *)
From Coq Require Import List ZArith NArith Bool.
From YK Require Import Base.Res Base.ResSpec Core.Obs Core.GangPred Core.MaxApps Core.Gang.
From YK Require Import Core.GangProofs Core.GangProofs2 Core.GangProofs3.
Import ListNotations.
Open Scope N_scope.

Theorem swap_guard : forall s rk pk other s' evs,
  gstep s (GSwap rk pk other) = GOk s' evs ->
  exists r p, find_obj s rk = Some r /\ find_obj s pk = Some p /\
    g_ph r = false /\ g_req r = true /\ g_allocated r = false /\
    g_ph p = true /\ g_alloc p = true /\ g_released p = false /\ g_preempted p = false /\
    g_tg r = g_tg p /\ g_tg r <> 0 /\ swap_size_ok (g_res p) (g_res r) = true /\
    (wf (g_res r) -> res_in_range (g_res p) -> res_in_range (g_res r) -> res_le (g_res r) (g_res p) = true) /\
    evs = [GRel pk TT_PlaceholderReplaced].
Proof. exact swap_guard_l. Qed.
Print Assumptions swap_guard.

Theorem swap_effect : forall s pk p r s' evs,
  find_obj s pk = Some p -> g_alloc p = true -> g_ph p = true -> g_link p = g_key r -> g_link p <> 0 ->
  find_obj s (g_key r) = Some r -> g_ph r = false ->
  res_le (g_res r) (g_res p) = true -> (forall t, (0 <= getz (g_res p) t)%Z) ->
  release_step s pk TT_PlaceholderReplaced = (s', evs) ->
  (forall t, gs_queue s' t = (gs_queue s t - getz (g_res p) t + getz (g_res r) t)%Z /\ (gs_queue s' t <= gs_queue s t)%Z) /\
  (forall t, gs_user s' t = (gs_user s t - getz (g_res p) t + getz (g_res r) t)%Z /\ (gs_user s' t <= gs_user s t)%Z) /\
  (forall t, if g_node r =? g_node p
             then gs_nodeuse s' (g_node p) t = (gs_nodeuse s (g_node p) t - getz (g_res p) t + getz (g_res r) t)%Z
             else gs_nodeuse s' (g_node p) t = (gs_nodeuse s (g_node p) t - getz (g_res p) t)%Z /\
                  gs_nodeuse s' (g_node r) t = gs_nodeuse s (g_node r) t) /\
  (forall t n, (gs_nodeuse s' n t <= gs_nodeuse s n t)%Z) /\
  on_node s' (g_node p) pk = false /\
  In (GNew (g_key r) (g_node r)) evs.
Proof. exact swap_effect_l. Qed.
Print Assumptions swap_effect.

Theorem replaced_le_count : forall hard ops s, grun (g_init hard) ops = Some s ->
  GangPred.replaced_le_count (gs_pd s) = true /\
  forall e, In e (gs_pd s) -> (pd_replaced e + present s (fst e) <= pd_count e)%Z.
Proof. exact replaced_le_count_l. Qed.
Print Assumptions replaced_le_count.

Theorem timeout_hard : forall s s' evs,
  gs_phtimer s = true -> gs_hard s = true -> (gs_state s = ST_New \/ gs_state s = ST_Accepted) ->
  gstep s GTimeout = GOk s' evs ->
  gs_state s' = ST_Failing /\ gs_phtimer s' = false /\ In (GState ST_Failing) evs /\
  (forall o, In o (gs_objs s) -> ph_to_release o = true -> In (GRel (g_key o) TT_Timeout) evs) /\
  (forall o, In o (gs_objs s) -> ph_ask_pending o = true -> In (GRel (g_key o) TT_Timeout) evs) /\
  (forall o', In o' (gs_objs s') -> g_req o' = false).
Proof. exact timeout_hard_l. Qed.
Print Assumptions timeout_hard.

Theorem timeout_soft : forall s s' evs,
  gs_phtimer s = true -> gs_hard s = false -> (gs_state s = ST_New \/ gs_state s = ST_Accepted) ->
  gstep s GTimeout = GOk s' evs ->
  gs_state s' = ST_Resuming /\ gs_phtimer s' = false /\ In (GState ST_Resuming) evs /\
  (forall o, In o (gs_objs s) -> ph_to_release o = true -> In (GRel (g_key o) TT_Timeout) evs) /\
  (forall o, In o (gs_objs s) -> ph_ask_pending o = true -> In (GRel (g_key o) TT_Timeout) evs) /\
  (forall o', In o' (gs_objs s') -> g_req o' = false).
Proof. exact timeout_soft_l. Qed.
Print Assumptions timeout_soft.

(* Failing ... Failed and Resuming -> Accepted when the shim confirms the release of the last placeholder *)
Theorem timeout_paths_end : forall s k p s' evs (st want : N) (ev : mev),
  (st = ST_Failing /\ want = ST_Failed /\ ev = EvFail) \/ (st = ST_Resuming /\ want = ST_Accepted /\ ev = EvRun) ->
  gs_state s = st -> find_obj s k = Some p -> g_alloc p = true -> g_ph p = true ->
  existsb (fun x => g_alloc x && g_ph x && negb (g_key x =? k)) (gs_objs s) = false ->
  release_step s k TT_Timeout = (s', evs) ->
  gs_state s' = want /\ In (GState want) evs /\ gs_phtimer s' = false.
Proof. exact last_placeholder_path. Qed.
Print Assumptions timeout_paths_end.

Theorem no_placeholder_outlives_app : forall s s' evs,
  (forall o, In o (gs_objs s) -> g_alloc o = true -> on_node s (g_node o) (g_key o) = true) ->
  remove_app_step s = (s', evs) ->
  (forall o, In o (gs_objs s') -> g_alloc o = false) /\ has_ph_alloc s' = false /\
  (forall n k o, In (n, k) (gs_nodes s') -> In o (gs_objs s) -> g_alloc o = true -> g_key o = k -> g_node o = n -> False).
Proof. exact remove_app_clean. Qed.
Print Assumptions no_placeholder_outlives_app.

Theorem timer_no_crash : forall s, gstep s GTimeout <> GCrash /\ gstep s GStateTimeout <> GCrash.
Proof. exact timer_no_crash_l. Qed.
Print Assumptions timer_no_crash.

(* the defect repaired by fix ef5c585: the model of the old code dereferences a missing entry on this state *)
Theorem timer_crash_before_fix :
  timeout_crashes_before_fix crash_state = true /\
  exists s' evs, gstep crash_state GTimeout = GOk s' evs /\ gs_state s' = ST_Failing /\ gs_pd s' = [(7, (1%Z, (0%Z, 0%Z)))].
Proof. exact GangProofs.timer_crash_before_fix. Qed.
Print Assumptions timer_crash_before_fix.
