(* Property C12 - restart recovery rebuilds the same accounting.
   Only statements; proofs are in Core/RecoverProofs.v. Model: Core/Recover.v - a ledger of totals (per node
   allocated/occupied, per queue allocated/pending along the queue path, per application allocated/placeholder/
   pending, per (user, queue) usage) and the shim's replay operations, each checking what UpdateAllocation /
   handleForeignAllocation check on the recovery branches and posting its resource with the saturating vector
   addition of Base/Res.v. NOT in the model: placement of the re-submitted applications, application states,
   quota checks (the recovery branches have none), reservations. The oracle (Oracles/CoreC12.v) evaluates
   [totals_from_knowledge (shim_knowledge A)] against the fresh core B and against the old core A. *)
From Coq Require Import List ZArith NArith Bool Permutation.
From YK Require Import Base.Int64 Base.Res Core.Obs Core.Recover Core.RecoverProofs.
Import ListNotations.

(* Every item the shim replays is accepted - there is no quota, max-applications or queue-max check on the
   branches a replay takes - and contributes additively: for ANY order that puts a node before the allocations on
   it and an application before its allocations and asks, the fresh core ends with exactly the totals computed
   from the knowledge. Hypotheses: distinct node ids, application ids and allocation keys, resources strictly
   positive and int64 (replay_wf); every total fits int64 (bounded). *)
Theorem recover_totals : forall K ops,
  replay_wf (replay_ops K) -> bounded (replay_ops K) ->
  Permutation ops (replay_ops K) -> admissible ops ->
  exists s', run rinit ops = Some s' /\ forall k ty, lookup (rs_tot s') k ty = totals_from_knowledge K k ty.
Proof. exact recover_totals_thm. Qed.
Print Assumptions recover_totals.

(* For a crash point without an in-flight placeholder swap whose books agree with its own allocations and asks
   (the conservation property, C03/C05), the totals computed from the shim's knowledge are the old core's totals. *)
Theorem recover_matches_old : forall tys s, no_inflight s = true -> books_agree_on tys s = true ->
  forall k ty, In k (obs_keys s) -> In ty tys -> totals_from_knowledge (shim_knowledge s) k ty = obs_total s k ty.
Proof. exact recover_matches_old_thm. Qed.
Print Assumptions recover_matches_old.

(* The stated exception: with a swap in flight the real ask is unbound for the shim and is replayed as an ask; the
   new core counts it as pending again. Only the pending totals (per application, per queue) can differ: every
   other total computed from the knowledge equals the one computed from the old core's own view. *)
Theorem recover_inflight_only_pending : forall s k ty, pending_kind k = false ->
  totals_from_knowledge (shim_knowledge s) k ty = totals_from_knowledge (own_view s) k ty.
Proof. exact recover_inflight_only_pending_thm. Qed.
Print Assumptions recover_inflight_only_pending.

(* The boolean forms of the hypotheses (evaluated by the oracle on every observed case) are sound. *)
Theorem recover_hypotheses_checkable : forall R ops,
  replay_wfb R = true -> boundedb R = true -> admissibleb ops = true -> replay_wf R /\ bounded R /\ admissible ops.
Proof.
  exact (fun R ops H1 H2 H3 => conj (replay_wfb_sound R H1)
           (conj (boundedb_sound R (proj2 (proj2 (proj2 (replay_wfb_sound R H1)))) H2) (admissibleb_sound ops H3))).
Qed.
Print Assumptions recover_hypotheses_checkable.
