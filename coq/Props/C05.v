(* placeholder, replaced when the proofs are in *)
From YK Require Import Ugm.UgmSpec.
