(* C05 — User and group quotas are enforced and follow the active configuration.
   Property theorems only; the proofs are in Ugm/Enforce.v, Ugm/ConserveM.v, Ugm/ConserveEx.v,
   Ugm/Reload.v and Ugm/ReloadFirst.v, examples that the hypotheses are satisfiable in
   Ugm/Examples.v. *)
From Coq Require Import List NArith ZArith Bool.
From YK Require Import Base.Int64 Base.Res Base.ResSpec
     Ugm.Tracker Ugm.Manager Ugm.UgmSpec Ugm.TrackerFacts Ugm.Enforce Ugm.Conserve Ugm.ConserveM Ugm.ConserveEx
     Ugm.Reload Ugm.ReloadFirst Oracles.UgmCheck.
Import ListNotations.
Open Scope N_scope.

(* Enforcement.  If the ask fits the answer of Manager.Headroom, then the Increase keeps
   usage <= limit (on the resource types the limit defines) on every queue of the path, for the
   user and for the group the application is charged to, wherever it held before the Increase.
   [enforce_step] is the predicate the oracle evaluates on the implementation's states.
   Hypotheses: the ask and the trackers on the path hold int64 values without duplicate types. *)
Theorem headroom_sound : forall s p a r (user : ugi) s1 hr,
  ugm_headroom s p a user = (s1, hr) ->
  wf r -> res_in_range r ->
  path_wf s1 (User (fst user)) p ->
  (forall g, link s1 (fst user) a = Some g -> path_wf s1 (Group g) p) ->
  FitInMaxUndef hr (Some r) = true ->
  enforce_step s1 (ugm_increase s1 p a (Some r) user) (fst user) a p = true.
Proof. exact headroom_sound_lemma. Qed.
Print Assumptions headroom_sound.

(* Max applications.  If Manager.CanRunApp admits the application, the Increase keeps
   running applications <= max applications on every queue of the path (user and group). *)
Theorem canrun_sound : forall s p a u (user : ugi) s1,
  ugm_can_run_app s p a user = (s1, true) ->
  canrun_step s1 (ugm_increase s1 p a u user) (fst user) a p = true.
Proof. exact canrun_sound_lemma. Qed.
Print Assumptions canrun_sound.

(* Conservation.  From a state without usage (Inv s0 []: no usage, no application, the groups the
   configuration can resolve have trackers with a limit), after every history of Increase /
   Decrease / Headroom / CanRunApp calls that keeps the pairing discipline (hist_all_ok: one
   user and queue per application, removeApp exactly when the application releases all it
   holds, all sums within int64; no reload inside the history), tracked usage of every user and
   group on every queue equals the sum of the live allocations. *)
Theorem usage_is_sum : forall s0 ops s,
  Inv s0 [] -> hist_all_ok [] ops -> run s0 ops = Some s ->
  forall w names k, usage_exact s (ledger_of ops) w (ROOT :: names) k = true.
Proof. exact usage_is_sum_lemma. Qed.
Print Assumptions usage_is_sum.

(* ... and it is back to zero when everything has been released *)
Theorem usage_back_to_zero : forall s0 ops s,
  Inv s0 [] -> hist_all_ok [] ops -> run s0 ops = Some s -> ledger_of ops = [] ->
  forall w names k, tracked s w (ROOT :: names) k = 0%Z.
Proof. exact usage_back_to_zero. Qed.
Print Assumptions usage_back_to_zero.

(* the starting condition is decidable *)
Theorem usage_is_sum_start : forall s paths, inv0b s paths = true -> Inv s [].
Proof. exact inv0b_Inv. Qed.
Print Assumptions usage_is_sum_start.

(* FULL STATEMENT with reloads inside the history is false (finding C05-group-reset-usage) *)
Theorem usage_with_reload_refuted :
  exists hist s w h k, run ugm_init hist = Some s /\ usage_exact s (ledger_hist hist) w h k = false.
Proof. exact usage_with_reload_refuted_lemma. Qed.
Print Assumptions usage_with_reload_refuted.

(* The group is resolved once per application: while the application is running, only the
   Decrease that removes it (or a reload) changes the group it is charged to. *)
Theorem group_stable : forall s o s' u a x ut,
  fst (step s o) = Some s' ->
  nlookup (users s) u = Some ut -> In a (q_apps (ut_qt ut)) -> resolved s u a = Some x ->
  match o with
  | OConfig _ _ => False
  | ODec _ b _ usr true => ~ (b = a /\ fst usr = u)
  | _ => True
  end ->
  resolved s' u a = Some x.
Proof. exact group_stable_lemma. Qed.
Print Assumptions group_stable.

(* Configuration.  FULL STATEMENT (false):
     forall hist s conf, run ugm_init hist = Some s -> last_conf hist None = Some conf ->
       forall w h, limit_exact s conf w h = true.
   Refuted (finding C05-lost-named-limit): *)
Theorem reload_exact_refuted :
  exists hist s conf w h,
    run ugm_init hist = Some s /\ last_conf hist None = Some conf /\ limit_exact s conf w h = false.
Proof. exact reload_exact_refuted_lemma. Qed.
Print Assumptions reload_exact_refuted.

(* the result of a reload depends on the iteration order of the reset phase (finding C05-reload-order) *)
Theorem reload_order_refuted :
  exists hist s c rn s1 s2,
    run ugm_init hist = Some s /\
    update_config_gen true (fun l => l) false s c rn = UOk s1 /\
    update_config_gen true (@rev _) true s c rn = UOk s2 /\
    state_eqb s1 s2 = false.
Proof. exact reload_order_refuted_lemma. Qed.
Print Assumptions reload_order_refuted.

(* Limits that are exact stay exact until the next reload: from any state in which every tracker
   carries the limit of the configuration (KInv: expected limit on every tracker, trackers of
   named limits exist, the wild card configuration gives the expected limit everywhere else),
   for a configuration whose named limits count (conf_real), every history without a reload
   leaves the limit in force for every user and group on every queue equal to the
   configuration's.  Nested queues included. *)
Theorem limits_stable : forall conf s0 ops s,
  conf_real conf -> KInv conf s0 -> no_config ops -> run s0 ops = Some s ->
  forall w names, who_ok w -> limit_exact s conf w (ROOT :: names) = true.
Proof. exact limits_stable_lemma. Qed.
Print Assumptions limits_stable.

(* PARTIAL: the class on which the configuration clause is proved from the initial state: the
   first configuration loaded into a fresh manager, with all limits on the root queue (named
   users, wild card user, named groups, wild card group; limits that count; quantities that
   parse), followed by any history without a reload.  Then the limit in force for every
   user/group on every queue equals the limit of that configuration.  Missing: the load of
   configurations with limits on nested queues (limits_stable covers what follows such a load),
   and reload sequences (refuted in general above). *)
Theorem reload_exact_partial : forall conf rn ops s,
  root_only conf -> qlower rn = ROOT ->
  no_config ops -> run ugm_init (OConfig conf rn :: ops) = Some s ->
  forall w names, who_ok w -> limit_exact s conf w (ROOT :: names) = true.
Proof. exact reload_exact_partial_lemma. Qed.
Print Assumptions reload_exact_partial.
