(* C19 — scheduling order: the generated comparators / priority functions of pkg/scheduler/objects equal Sort/Cmp.v.
   Tie theorems between the Gallina definitions GENERATED from /repo's current Go source by harness/gotrans*.go
   (coq/Generated/Go*.v, rewritten on every run) and the hand-written model the theorems of C19 are about.
   Only statements; proofs: Sort/GoTieSort. A semantically relevant edit of a translated Go function changes its generated
   definition and the theorem below that mentions it stops compiling (a broken proof obligation of C19).
   This file imports only tie proofs of C19 (plus the shared representation / resource-operation ties its functions
   really call). Written by the script in notes/gotrans.md (statements printed by Coq). *)
From Coq Require Import String List ZArith NArith Bool.
From YK Require Import Base.Int64 Base.F64 Base.Res Base.ResMore Base.ResSpec Sort.Sort Sort.Cmp
  Generated.GoPrelude Base.GoTieLib Sort.GoTieSort.
(* the generated modules are not imported: their definitions appear qualified (GoResources.addVal ...) *)
From YK Require Generated.GoResources Generated.GoObjects.
Import ListNotations.

Theorem c19_gotie_priorityValueByPolicy :
    forall policy off cur : Z,
    i32 off -> i32 cur -> GoObjects.priorityValueByPolicy policy off cur = prioValue (policy =? 1) off cur.
Proof. exact GoTieSort.gotie_priorityValueByPolicy. Qed.
Print Assumptions c19_gotie_priorityValueByPolicy.

Theorem c19_gotie_getCurrentPriority :
    forall sq : GoObjects.Queue, q_ok sq -> GoObjects.getCurrentPriority sq = qprio (absQ sq).
Proof. exact GoTieSort.gotie_getCurrentPriority. Qed.
Print Assumptions c19_gotie_getCurrentPriority.

Theorem c19_gotie_GetCurrentPriority :
    forall sq : GoObjects.Queue, q_ok sq -> GoObjects.GetCurrentPriority sq = qprio (absQ sq).
Proof. exact GoTieSort.gotie_GetCurrentPriority. Qed.
Print Assumptions c19_gotie_GetCurrentPriority.

Theorem c19_gotie_sortQueuesByPriority_less :
    forall (queues : list (option GoObjects.Queue)) (i j : nat) (l r : GoObjects.Queue),
    nth_error queues i = Some (Some l) ->
    nth_error queues j = Some (Some r) ->
    q_ok l ->
    q_ok r ->
    GoObjects.sortQueuesByPriority_lit1 queues (Z.of_nat i) (Z.of_nat j) = GOk (qByPrio (absQ l) (absQ r)).
Proof. exact GoTieSort.gotie_sortQueuesByPriority_less. Qed.
Print Assumptions c19_gotie_sortQueuesByPriority_less.

Theorem c19_gotie_sortQueuesByPriority_less_panics :
    forall (queues : list (option GoObjects.Queue)) (i j : nat),
    nth_error queues i = None \/ nth_error queues i = Some None ->
    GoObjects.sortQueuesByPriority_lit1 queues (Z.of_nat i) (Z.of_nat j) = GPanic.
Proof. exact GoTieSort.gotie_sortQueuesByPriority_less_panics. Qed.
Print Assumptions c19_gotie_sortQueuesByPriority_less_panics.

Theorem c19_gotie_GetAskMaxPriority :
    forall sa : GoObjects.Application, GoObjects.GetAskMaxPriority sa = a_prio (absA sa).
Proof. exact GoTieSort.gotie_GetAskMaxPriority. Qed.
Print Assumptions c19_gotie_GetAskMaxPriority.

Theorem c19_gotie_GetSubmissionTime :
    forall sa : GoObjects.Application, GoObjects.GetSubmissionTime sa = a_sub (absA sa).
Proof. exact GoTieSort.gotie_GetSubmissionTime. Qed.
Print Assumptions c19_gotie_GetSubmissionTime.

Theorem c19_gotie_sortApplicationsBySubmissionTimeAndPriority_less :
    forall (apps : list (option GoObjects.Application)) (i j : nat) (l r : GoObjects.Application),
    nth_error apps i = Some (Some l) ->
    nth_error apps j = Some (Some r) ->
    GoObjects.sortApplicationsBySubmissionTimeAndPriority_lit1 apps (Z.of_nat i) (Z.of_nat j) =
    GOk (aSubPrio (absA l) (absA r)).
Proof. exact GoTieSort.gotie_sortApplicationsBySubmissionTimeAndPriority_less. Qed.
Print Assumptions c19_gotie_sortApplicationsBySubmissionTimeAndPriority_less.

Theorem c19_gotie_sortApplicationsByPriorityAndSubmissionTime_less :
    forall (apps : list (option GoObjects.Application)) (i j : nat) (l r : GoObjects.Application),
    nth_error apps i = Some (Some l) ->
    nth_error apps j = Some (Some r) ->
    GoObjects.sortApplicationsByPriorityAndSubmissionTime_lit1 apps (Z.of_nat i) (Z.of_nat j) =
    GOk (aPrioSub (absA l) (absA r)).
Proof. exact GoTieSort.gotie_sortApplicationsByPriorityAndSubmissionTime_less. Qed.
Print Assumptions c19_gotie_sortApplicationsByPriorityAndSubmissionTime_less.

Theorem c19_gotie_LessThan :
    forall a o : GoObjects.Allocation, GoObjects.LessThan a (Some o) = GOk (LessThan (absK a) (absK o)).
Proof. exact GoTieSort.gotie_LessThan. Qed.
Print Assumptions c19_gotie_LessThan.

Theorem c19_gotie_LessThan_nil :
    forall a : GoObjects.Allocation, GoObjects.LessThan a None = GPanic.
Proof. exact GoTieSort.gotie_LessThan_nil. Qed.
Print Assumptions c19_gotie_LessThan_nil.

Theorem c19_gotie_recalculatePriority :
    forall sq : GoObjects.Queue,
    let items :=
    if GoObjects.Queue_isLeaf sq
    then GoObjects.Queue_appPriorities sq
    else GoObjects.Queue_childPriorities sq in
    let curr := fold_left (fun (c : Z) (kv : N * Z) => Z.max (snd kv) c) items (-2147483648) in
    GoObjects.recalculatePriority sq =
    (GoObjects.set_Queue_currentPriority sq curr,
    GoObjects.priorityValueByPolicy (GoObjects.Queue_priorityPolicy sq)
    (GoObjects.Queue_priorityOffset sq) curr).
Proof. exact GoTieSort.gotie_recalculatePriority. Qed.
Print Assumptions c19_gotie_recalculatePriority.
