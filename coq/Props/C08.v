(* C08 — preemption respects guarantees and never kills without effect.  Property theorems only; proofs in
   Preempt/GuaranteeProofs.v and Preempt/QuotaProofs.v, predicates in Preempt/Spec.v.
   preempting_returns_to_zero (DecPreemptingResource on release / node removal / application removal) belongs to
   the release path and is left to the core engine. *)
From Coq Require Import List ZArith NArith Bool.
From YK Require Import Base.Res Preempt.Snapshot Preempt.Victims Preempt.ReqNode Preempt.Quota Preempt.Timing Preempt.Spec
  Preempt.GuaranteeProofs Preempt.QuotaProofs Preempt.TimingProofs.
Import ListNotations.
Open Scope Z_scope.

Theorem attempt_only_under_guarantee : forall w o, admits w o = true -> o_ok o = true ->
  exists pv, findVictims w = Some pv /\ under_guarantee w pv = true.
Proof. exact attempt_only_under_guarantee_adm. Qed.
Print Assumptions attempt_only_under_guarantee.

(* what under_guarantee says: the remaining guaranteed resource of the ask queue path is defined and the ask fits in
   it, or it is defined and not negative for any type of the ask once the ask is added and a prefix of the potential
   victims is gone *)
Theorem attempt_under_guarantee_meaning : forall w pv, under_guarantee w pv = true ->
  (exists r, remainingOf w (init_snaps w) (ask_qid w) = Some r /\ FitInActual (Some r) (ask_res w) = true) \/
  (exists pre r, (exists post, flat_pv pv = pre ++ post) /\
     remainingOf w (fold_left (fun s a => RemoveAllocation w s (a_queue a) (a_res a)) pre
                              (AddAllocation w (init_snaps w) (ask_qid w) (ask_res w))) (ask_qid w) = Some r /\
     isAskQueueUnderGuaranteed (ask_res w) (Some r) = true).
Proof. exact under_guarantee_meaning. Qed.
Print Assumptions attempt_under_guarantee_meaning.

(* FULL STATEMENT (evaluated as oracle on observations): taken_over_guarantee w (init_snaps w) (final victims in the
   order they were announced) = true, i.e. each victim's queue is above its guaranteed share for a type of the ask
   on the snapshot from which exactly the earlier final victims were removed.
   PROVED PART: every victim accepted by the second pass of calculateVictimsByNode passed that test on the running
   snapshot of the pass (which also lacks the victims that the final filter drops later).  Missing: monotonicity of
   GetRemainingGuaranteedResource in the usage (with saturating arithmetic and its ask-queue special cases), the
   cancellation of RemoveAllocation/AddAllocation for rejected candidates, and the usage transferred to the ask queue
   by calculateAdditionalVictims. *)
Theorem victim_queue_over_guarantee_when_taken_partial : forall w avail head,
  let r := second_pass_tr w avail head in
  fst r = second_pass w avail head /\ map fst (snd r) = sp_res (second_pass w avail head) /\
  forall v sn, In (v, sn) (snd r) -> over_guaranteed_at w sn (a_queue v) = true.
Proof. exact second_pass_over_guarantee. Qed.
Print Assumptions victim_queue_over_guarantee_when_taken_partial.

Theorem commit_covers_ask : forall w o, wf_world w = true -> admits w o = true -> o_ok o = true ->
  covers_ask w (o_node o) (victims_of w (o_victims o)) = true.
Proof. exact commit_covers_ask_adm. Qed.
Print Assumptions commit_covers_ask.

(* ... else nothing is marked or announced *)
Theorem commit_else_nothing : forall w o, o_ok o = false -> apply_outcome w o = w /\ announced o = [].
Proof. exact failed_changes_nothing. Qed.
Print Assumptions commit_else_nothing.
Theorem failed_outcome_is_bare : forall w o, In o (attempt w) -> o_ok o = false -> o = failed.
Proof. exact failed_has_no_victims. Qed.
Print Assumptions failed_outcome_is_bare.

(* the code before commit 8513f58 violated commit_covers_ask (witness replayed on the real code: corpus/preempt.json queue[0]) *)
Theorem commit_covers_ask_refuted_pinned :
  exists w o, wf_world w = true /\ In o (tryPreemptionF false w) /\ o_ok o = true /\
              covers_ask w (o_node o) (victims_of w (o_victims o)) = false.
Proof. exact commit_covers_ask_pinned_refuted. Qed.
Print Assumptions commit_covers_ask_refuted_pinned.

(* ---- quota change preemption ---- *)
(* FULL STATEMENT (oracle): qp_victims (quota_victims p sorted) <> [] -> claimed_within p (qp_total (quota_victims p sorted)) = true.
   PROVED: right after every acceptance; and for all lists in which no candidate is rejected after being added. *)
Theorem claimed_le_excess_partial : forall p st v,
  qp_victims (quota_step p st v) <> qp_victims st -> claimed_within p (qp_total (quota_step p st v)) = true.
Proof. exact QuotaProofs.claimed_le_excess_partial. Qed.
Print Assumptions claimed_le_excess_partial.
Theorem claimed_le_excess_when_no_reject : forall p sorted,
  (forall st v, In v sorted -> FitInMaxUndef p (a_res v) = true -> StrictlyGreaterThanOrEqualsOnlyExisting p (AddTo (qp_total st) (a_res v)) = true) ->
  let st := quota_victims p sorted in qp_victims st <> [] -> claimed_within p (qp_total st) = true.
Proof. exact claimed_le_excess_no_reject. Qed.
Print Assumptions claimed_le_excess_when_no_reject.
(* the preemptable amount of the queue is at most what it uses above its (lowered) maximum *)
Theorem preemptable_le_excess : forall w q p,
  NoDup (keys (oget (q_max q))) -> setPreemptable w q = Some p -> within_excess q (Some p) = true.
Proof. exact preemptable_within_excess. Qed.
Print Assumptions preemptable_le_excess.

(* the code before commit 78b7ad8 claimed more than the excess for a type without guaranteed quantity in the child
   (witness replayed on the real code: corpus/preempt.json quota[2]) *)
Theorem claimed_le_excess_refuted_pinned :
  exists w q lq p order, wf_world w = true /\ In q (w_queues w) /\ In lq (w_queues w) /\
    quota_contextsF true w q = QVal [(q_id lq, p)] /\ quota_order_ok w lq p order = true /\
    claimed_within (setPreemptable w q) (lo_claimed (quota_leaf_order w lq p order)) = false.
Proof. exact claimed_le_excess_pinned_refuted. Qed.
Print Assumptions claimed_le_excess_refuted_pinned.

(* only child queues above their guaranteed share receive a share of what the parent has to give back *)
Theorem never_below_guarantee : forall w q l, wf_world w = true -> q_leaf q = false ->
  quota_contexts w q = QVal l -> forall ir, In ir l ->
  exists c, In c (w_queues w) /\ q_id c = fst ir /\ q_leaf c = true /\ at_or_below_guarantee c = false.
Proof. exact QuotaProofs.never_below_guarantee. Qed.
Print Assumptions never_below_guarantee.

Theorem only_managed_enabled_elapsed : forall now q t t', tryAcquire now q t = (true, t') -> quota_may_run now q t = true.
Proof. exact QuotaProofs.only_managed_enabled_elapsed. Qed.
Print Assumptions only_managed_enabled_elapsed.
Theorem start_time_is_arming_time_plus_delay : forall now q oldMax oldDelay t s,
  qt_start t = None -> qt_start (setPreemptionTime now q oldMax oldDelay t) = Some s -> s = now + qt_delay t /\ qt_delay t <> 0.
Proof. exact arm_is_now_plus_delay. Qed.
Print Assumptions start_time_is_arming_time_plus_delay.
Theorem rearm_time_is_now_plus_delay : forall now enabled q t s,
  qt_start t = None -> qt_start (incAllocatedTime now enabled q t) = Some s ->
  s = now + qt_delay t /\ qt_delay t <> 0 /\ enabled = true /\ q_managed q = true.
Proof. exact rearm_is_now_plus_delay. Qed.
Print Assumptions rearm_time_is_now_plus_delay.

(* "... and the delay elapsed": over ALL histories of one queue (reloads of max and delay through setPreemptionTime in
   every branch, usage increments with the re-arming of IncAllocatedResource, any other change of the queue, acquisitions
   and completions, time passing) tryAcquirePreemption says yes only when the delay in force has elapsed since the change
   that armed the start time; ts_arm is the ghost variable "time of the change after which a start time appeared"
   (arm_upd), the same ghost the oracle maintains on the start times the implementation shows (Oracles/PreemptCheck.v,
   time_ok_step) *)
Theorem acquired_only_after_delay : forall ops q delay now0,
  let s := trun true (tinit q delay now0) ops in
  fst (tryAcquire (ts_now s) (ts_q s) (ts_t s)) = true ->
  delay_elapsed (ts_arm s) (qt_delay (ts_t s)) (ts_now s) = true /\ qt_delay (ts_t s) <> 0.
Proof. exact TimingProofs.acquired_only_after_delay. Qed.
Print Assumptions acquired_only_after_delay.
(* after any sequence of setPreemptionTime calls (and everything else) the armed start time of a queue that is not
   running is exactly (time of the change that armed it) + (delay in force) *)
Theorem start_is_arming_time_plus_delay_in_force : forall ops q delay now0 st,
  let s := trun true (tinit q delay now0) ops in
  qt_running (ts_t s) = false -> qt_start (ts_t s) = Some st ->
  exists a, ts_arm s = Some a /\ st = a + qt_delay (ts_t s) /\ qt_delay (ts_t s) <> 0.
Proof. exact TimingProofs.start_is_arming_time_plus_delay_in_force. Qed.
Print Assumptions start_is_arming_time_plus_delay_in_force.
Theorem arming_time_not_in_future : forall fixed ops s, (forall d, In (TAdvance d) ops -> 0 <= d) -> arm_past s -> arm_past (trun fixed s ops).
Proof. exact TimingProofs.arming_time_not_in_future. Qed.
Print Assumptions arming_time_not_in_future.
(* the code before the commit "fix: a quota change in different directions ..." kept the start time computed with the old
   delay when the maximum was lowered for one type and raised for another (witness replayed on the real code:
   corpus/preempt.json, last quota case) *)
Theorem acquired_only_after_delay_refuted_pinned :
  exists ops q delay now0, let s := trun false (tinit q delay now0) ops in
    fst (tryAcquire (ts_now s) (ts_q s) (ts_t s)) = true /\
    delay_elapsed (ts_arm s) (qt_delay (ts_t s)) (ts_now s) = false.
Proof. exact acquired_only_after_delay_pinned_refuted. Qed.
Print Assumptions acquired_only_after_delay_refuted_pinned.

Theorem quota_never_crashes : forall w q, quota_contexts w q <> QCrash.
Proof. exact QuotaProofs.quota_never_crashes. Qed.
Print Assumptions quota_never_crashes.
(* the code before commit 832f432 dereferenced a nil resource (witness replayed on the real code: corpus/preempt.json quota[0]) *)
Theorem quota_never_crashes_refuted_pinned :
  exists w q, wf_world w = true /\ In q (w_queues w) /\ quota_contextsF true w q = QCrash.
Proof. exact quota_never_crashes_pinned_refuted. Qed.
Print Assumptions quota_never_crashes_refuted_pinned.
