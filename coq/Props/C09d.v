(* Property C09 - reservations stay consistent and exclusive - over the OPERATIONAL model (Core/Model.v, Model2.v, Model4.v:
   runs of [m_step4]).  Only statements; proofs are in Core/Model4ProofsR1.v ... R9.v.
   [RInv s] (Core/Model4ProofsR1.v) is the conjunction of
     views agree        r_an / r_na     an application reserves (node, key)  <->  the node lists (application, key)
                        r_qcount, r_qhome, r_qnodup   Queue.reservedApps of the application's queue counts exactly its reservations,
                        every entry is positive and belongs to a live application of that queue
     one per ask        r_akeys / r_nkeys   at most one reservation per allocation key in an application map / a node map
     node rule          r_nrule   two different reservations on one node only for asks that require a node
     only outstanding   r_out     the ask is registered, NOT allocated, and does not require another node
     cleanup            r_an, r_na, r_out: no reservation refers to a removed node / application / ask
   ([Ids]: unique identifiers and allocation keys, part of the invariant [Inv] of C03.) *)
From Coq Require Import List ZArith NArith Bool.
From YK Require Import Base.Res Core.Obs Core.Model Core.Model2 Core.Model4 Core.Ledger
  Core.Model4ProofsF Core.Model4ProofsR1 Core.Model4ProofsR2 Core.Model4ProofsR3 Core.Model4ProofsR4 Core.Model4ProofsR5 Core.Model4ProofsR6
  Core.Model4ProofsR7 Core.Model4ProofsR8 Core.Model4ProofsR10 Core.Model4ProofsR11 Core.Model4ProofsR12.
From YK Require Import Core.BooksDefs Core.Model2ProofsB6 Core.Model4ProofsB2 Core.Model4ProofsR9 Core.Model4ProofsEx.
Import ListNotations.
Open Scope N_scope.

(* ---- 1. the writers of the reservation views ---- *)
(* a cancellation (removeAsksInternal, unReserveAllocatedAsk, cancelReservations, wait timeout, preemption) in ANY state *)
Theorem c09d_cancel : forall e s aid k, Ids0 s -> RInvE e s -> RInvE e (fst (r_cancel s aid k)).
Proof. exact r_cancel_rinv. Qed.
Print Assumptions c09d_cancel.
(* PartitionContext.unReserve *)
Theorem c09d_part_unreserve : forall e s aid k, Ids0 s -> RInvE e s -> RInvE e (r_part_unreserve s aid k).
Proof. exact r_part_unreserve_rinv. Qed.
Print Assumptions c09d_part_unreserve.
(* PartitionContext.reserve for a validated Reserved decision *)
Theorem c09d_reserve : forall deny s pre aid nid k s', Ids s -> RInv s -> m_reserve4 deny s pre aid nid k = Some s' -> Ids s' /\ RInv s'.
Proof. exact m_reserve4_ok. Qed.
Print Assumptions c09d_reserve.
(* an Allocated / AllocatedReserved decision: the allocated ask holds no reservation afterwards *)
Theorem c09d_sched_alloc : forall deny s a k nid s', Ids s -> RInv s -> In a (s_apps s) -> m_sched_alloc4 deny s a k nid = Some s' -> Ids s' /\ RInv s'.
Proof. exact m_sched_alloc4_ok. Qed.
Print Assumptions c09d_sched_alloc.

(* ---- 2. steps ---- *)
(* every scheduling cycle of the fourth fragment (reservations given up for any of the modelled reasons, victims, one
   allocation, one new reservation): no side condition *)
Theorem c09d_sched4 : forall deny s st s', m_sched4 deny s st = Some s' -> Ids s -> RInv s -> Ids s' /\ RInv s'.
Proof. exact m_sched4_rinv. Qed.
Print Assumptions c09d_sched4.
(* the release of a bound allocation / of a pending ask in a state with reservations *)
Theorem c09d_release_alloc4 : forall s a x ttype s', Ids s -> RInv s -> In a (s_apps s) -> (forall p, In p (ap_reservations a) -> snd p <> oa_key x) ->
  m_release_alloc4 s a x ttype = Some s' -> RInv s'.
Proof. exact m_release_alloc4_rinv. Qed.
Print Assumptions c09d_release_alloc4.
Theorem c09d_release_ask4 : forall s a x s', Ids s -> RInv s -> find_app s (ap_id a) = Some a -> m_release_ask4 s a x = Some s' -> RInv s'.
Proof. exact m_release_ask4_rinv. Qed.
Print Assumptions c09d_release_ask4.
(* removeNode, whatever reservations the node carries: the unreserve loop leaves none, no application refers to the node afterwards *)
Theorem c09d_node_remove4 : forall s id s', Ids s -> RInv s -> m_node_remove4 s id = Some s' -> RInv s'.
Proof. exact m_node_remove4_rinv. Qed.
Print Assumptions c09d_node_remove4.
(* the first and the second fragment never write a reservation view *)
Theorem c09d_m_step : forall deny s st s', m_step deny s st = Some s' -> Ids s -> RInv s -> RInv s'.
Proof. exact m_step_rinv. Qed.
Print Assumptions c09d_m_step.
Theorem c09d_m_step2 : forall deny s st s', m_step2 deny s st = Some s' -> Ids s -> RInv s -> fire_ok9 s st -> RInv s'.
Proof. exact m_step2_rinv. Qed.
Print Assumptions c09d_m_step2.
(* steps that write no reservation view, in general (non-positional form, checkable on two states) *)
Theorem c09d_neutral : forall s s', Ids0 s -> Ids0 s' -> Neutral s s' -> RInv s -> RInv s'.
Proof. exact neutral_rinv. Qed.
Print Assumptions c09d_neutral.

(* removeApplication and the release of ALL allocations of an application (removeAsksInternal("")), whatever the application
   reserves: the loop over the reservations followed by ONE Queue.UnReserve equals cancelling them one after the other *)
Theorem c09d_cancel_all : forall s a, Ids0 s -> RInv s -> In a (s_apps s) ->
  Ids0 (r_cancel_all s a) /\ RInv (r_cancel_all s a) /\ (forall b, In b (s_apps (r_cancel_all s a)) -> ap_id b = ap_id a -> ap_reservations b = []).
Proof. exact r_cancel_all_rinv. Qed.
Print Assumptions c09d_cancel_all.
Theorem c09d_app_remove4 : forall s id s', Ids s -> RInv s -> m_app_remove4 s id = Some s' -> RInv s'.
Proof. exact m_app_remove4_rinv. Qed.
Print Assumptions c09d_app_remove4.
Theorem c09d_release_all4 : forall s a ttype s', Ids s -> RInv s -> find_app s (ap_id a) = Some a -> m_release_all4 s a ttype = Some s' -> RInv s'.
Proof. exact m_release_all4_rinv. Qed.
Print Assumptions c09d_release_all4.

(* ---- 3. one step of m_step4, all histories.  PARTIAL: [step_ok9'] contains the side condition [alloc_ok9] - an si.Allocation for a
   key the application already holds (resize / placement by the shim) addresses an application without reservations.  Full
   statement: the same without [alloc_ok9] ([unReserveAllocatedAsk] after a shim placement of a reserved ask is validated by
   the correspondence, kind 991, but its invariant proof is not done).  [fire_ok9] and [release_ok9] are consequences of the
   C03 invariants ([c09d_release_ok9_of_inv]). ---- *)
Theorem c09d_m_step4_partial : forall deny s st s', m_step4 deny s st = Some s' -> Ids s -> RInv s -> step_ok9' s st -> RInv s'.
Proof. exact m_step4_rinv_partial'. Qed.
Print Assumptions c09d_m_step4_partial.
Theorem c09d_release_ok9_of_inv : forall s st, Inv s -> RInv s -> release_ok9 s st.
Proof. exact release_ok9_of_inv. Qed.
Print Assumptions c09d_release_ok9_of_inv.
Theorem c09d_inv_ids : forall s, Inv s -> Ids s.
Proof. exact inv_ids. Qed.
Print Assumptions c09d_inv_ids.
Theorem c09d_reachable4_partial : forall deny steps s0, Books s0 -> Inv s0 -> RInv s0 -> RunOK4 deny s0 steps -> Run9 deny s0 steps ->
  RInv (m_run4 deny s0 steps) /\ Books (m_run4 deny s0 steps) /\ Inv (m_run4 deny s0 steps).
Proof. exact rinv_reachable4_partial. Qed.
Print Assumptions c09d_reachable4_partial.

(* ---- 4. the hypotheses are checkable and satisfiable: a nine step history from the empty partition, completely covered by m_step4,
   in which a node is reserved (step 6), an allocation is released while the reservation is held (7) and the reserved ask is
   allocated on its node (8); steps 6-8 are rejected by m_step2 and handled by m_step_resv (Core/Model4ProofsEx.v) ---- *)
Theorem c09d_run_ok4_b_spec : forall deny steps s, run_ok4_b deny s steps = true -> RunOK4 deny s steps /\ Run9 deny s steps.
Proof. exact run_ok4_b_spec. Qed.
Print Assumptions c09d_run_ok4_b_spec.
Theorem c09d_example_hypotheses : Books e4_s0 /\ Inv e4_s0 /\ RInv e4_s0 /\ RunOK4 [] e4_s0 e4_steps /\ Run9 [] e4_s0 e4_steps /\
  m_run4_len [] e4_s0 e4_steps = length e4_steps.
Proof. exact e4_hyps. Qed.
Print Assumptions c09d_example_hypotheses.
Theorem c09d_example_reserved : RInv (m_run4 [] e4_s0 (firstn 6 e4_steps)).
Proof. exact e4_mid. Qed.
Print Assumptions c09d_example_reserved.

(* ---- 5. histories independent of C03: the identifiers / keys [Ids] carried per visited state (checkable: [ids_b]).  The example
   releases ALL allocations of an application that holds a reservation (removeAsksInternal("")), then removes the node ---- *)
Theorem c09d_run_ids_partial : forall deny steps s0, RInv s0 -> Run9i deny s0 steps -> RInv (m_run4s deny s0 steps).
Proof. exact rinv_run_ids. Qed.
Print Assumptions c09d_run_ids_partial.
Theorem c09d_ids_b_sound : forall s, ids_b s = true -> Ids s.
Proof. exact ids_b_sound. Qed.
Print Assumptions c09d_ids_b_sound.
Theorem c09d_example2_hypotheses : RInv e4_s0 /\ Run9i [] e4_s0 e5_steps /\ m_run4_len [] e4_s0 e5_steps = length e5_steps.
Proof. exact e5_hyps. Qed.
Print Assumptions c09d_example2_hypotheses.
