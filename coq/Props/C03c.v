(* Property C03 - resource accounting is conserved - over the GANG fragment of the operational model
   (Core/Model3.v, [m_step_gang] / [m_step3]: placeholder asks, placeholder scheduling, start and confirmation of a
   placeholder replacement on the same / another node, placeholder releases, placeholder and state timers, application
   and node removal with placeholders and in-flight replacements).  Only statements; proofs are in Core/Model3Proofs*.v.
   [Books] is the predicate of Props/C03.v (Core/BooksDefs.v; [books_reflect : Books s <-> c03_state s = []]).
   The old invariant [Inv] cannot hold in gang states (in-flight links; allocations whose request is gone): the gang
   invariant is [InvG2 = InvG /\ LinkOK] (Core/Model3ProofsD.v, D2.v), validated on the observed states of the real scheduler.
   Carried per-step hypotheses: [Bounded3] and [StepOK3g] (Core/Model3ProofsT.v, T2.v), all decidable ([…_b] forms). *)
From Coq Require Import List ZArith NArith Bool.
From YK Require Import Base.Res Base.ResSpec Core.Obs Core.Model Core.Model2 Core.Model3 Core.Ledger Core.BooksLemmas Core.BooksDefs Core.BooksCheck
  Core.Model3ProofsD Core.Model3ProofsD2 Core.Model3ProofsG1 Core.Model3ProofsG2 Core.Model3ProofsG3 Core.Model3ProofsG4 Core.Model3ProofsA1 Core.Model3ProofsA2
  Core.Model3ProofsC1 Core.Model3ProofsEx Core.Model3ProofsO1 Core.Model3ProofsO1b Core.Model3ProofsO2 Core.Model3ProofsO2b
  Core.Model3ProofsO3 Core.Model3ProofsO3c Core.Model3ProofsO4 Core.Model3ProofsO4b Core.Model3ProofsO4d Core.Model3ProofsO5 Core.Model3ProofsO5b Core.Model3ProofsO5d Core.Model3ProofsO5x
  Core.Model3ProofsT Core.Model3ProofsC2 Core.Model3ProofsT2 Oracles.CoreC01.
Import ListNotations.
Open Scope Z_scope.

(* ---- 1. the statement: under the gang invariant [Books] (= the oracle c03_state) is the pointwise [BooksG] ---- *)
Theorem c03c_books_G :
  forall s : ostate, InvG s -> Books s <-> BooksG s.
Proof. exact books_G. Qed.
Print Assumptions c03c_books_G.

(* states reached by the first two fragments (Props/C03.v, C03b.v) enter the gang fragment *)
Theorem c03c_inv_to_invg :
  forall s : ostate,
  Inv s ->
  Books0 s ->
  (forall (a : oapp) (x : oalloc), In a (s_apps s) -> In x (app_records a) -> positive (oa_res x)) ->
  (forall a : oapp, In a (s_apps s) -> wf (ap_phalloc a)) -> InvG s /\ BooksG s.
Proof. exact inv_to_invg. Qed.
Print Assumptions c03c_inv_to_invg.

(* ---- 2. every step of the gang fragment preserves the invariant and the books ----
   `_partial` in ONE respect: for OpNodeRemove the hypothesis [StepOK3g] (its [NodeRemoveOK3] part) demands that no
   application terminates inside removeNodeAllocations ([NoTerminal] in every state of the walk); the full statement
   would ask only [TermOK] as the release theorems do.  Every other operation of m_step_gang is covered in full. *)
Theorem c03c_gang_step_G_partial :
  forall (deny : list (N * N)) (s : ostate) (st : ostep) (s' : ostate),
  InvG2 s -> BooksG s -> Bounded3 s -> StepOK3g s st -> m_step_gang deny s st = Some s' -> InvG2 s' /\ BooksG s'.
Proof. exact gang_step_G. Qed.
Print Assumptions c03c_gang_step_G_partial.

Theorem c03c_gang_step_books_partial :
  forall (deny : list (N * N)) (s : ostate) (st : ostep) (s' : ostate),
  InvG2 s -> Books s -> Bounded3 s -> StepOK3g s st -> m_step_gang deny s st = Some s' -> InvG2 s' /\ Books s'.
Proof. exact gang_step_books. Qed.
Print Assumptions c03c_gang_step_books_partial.

Theorem c03c_gang_step_books_b_partial :
  forall (deny : list (N * N)) (s : ostate) (st : ostep) (s' : ostate),
  invg2_b s = true -> c03_state s = [] -> bounded3_b s = true -> step_ok3g_b s st = true -> m_step_gang deny s st = Some s' -> InvG2 s' /\ c03_state s' = [].
Proof. exact gang_step_books_b. Qed.
Print Assumptions c03c_gang_step_books_b_partial.

Theorem c03c_m_step3_gang_books_partial :
  forall (deny : list (N * N)) (s : ostate) (st : ostep) (s' : ostate),
  InvG2 s -> Books s -> Bounded3 s -> StepOK3g s st -> m_step2 deny s st = None -> m_step3 deny s st = Some s' -> InvG2 s' /\ Books s'.
Proof. exact m_step3_gang_books. Qed.
Print Assumptions c03c_m_step3_gang_books_partial.

(* ---- 3. per operation (none of these is partial except the node removal) ---- *)
Theorem c03c_g_app_add_step2 :
  forall (s s' : ostate) (evs : list oevent) (id queue user : N) (forced nougi : bool) (phask : ores) (tagmaxapps : N) (tagmax : ores),
  InvG2 s -> BooksG s -> g_app_add s evs id queue user forced nougi phask tagmaxapps tagmax = Some s' -> InvG2 s' /\ BooksG s'.
Proof. exact g_app_add_step2. Qed.
Print Assumptions c03c_g_app_add_step2.

Theorem c03c_g_new_ask_step2 :
  forall (s : ostate) (a : oapp) (x : oalloc),
  InvG2 s ->
  BooksG s ->
  Bounded3 s ->
  In a (s_apps s) -> AllocOK3 (ap_id a) x -> rb (oa_res x) -> oa_allocated x = false -> KeyFresh3 s (oa_key x) -> InvG2 (g_new_ask s a x) /\ BooksG (g_new_ask s a x).
Proof. exact g_new_ask_step2. Qed.
Print Assumptions c03c_g_new_ask_step2.

Theorem c03c_g_alloc_step :
  forall (s : ostate) (r : oreq) (s' : ostate), InvG2 s -> BooksG s -> Bounded3 s -> ReqOK3 s r -> UpdOK3 s r -> RecOK3 s r -> g_alloc s r = Some s' -> InvG2 s' /\ BooksG s'.
Proof. exact g_alloc_step. Qed.
Print Assumptions c03c_g_alloc_step.

Theorem c03c_g_sched_ph_step :
  forall (deny : list (N * N)) (s s' : ostate) (a : oapp) (k nid : N),
  InvG2 s ->
  BooksG s ->
  Bounded3 s ->
  In a (s_apps s) ->
  (forall ask : oalloc, find_alloc (ap_requests a) k = Some ask -> oa_release ask = 0%N) ->
  unlinked (ap_allocs a) k -> g_sched_ph deny s a k nid = Some s' -> InvG2 s' /\ BooksG s'.
Proof. exact g_sched_ph_step. Qed.
Print Assumptions c03c_g_sched_ph_step.

Theorem c03c_m_sched_alloc_stepG :
  forall (deny : list (N * N)) (s s' : ostate) (a : oapp) (k nid : N),
  InvG2 s ->
  BooksG s ->
  Bounded3 s ->
  In a (s_apps s) ->
  (forall ask : oalloc, find_alloc (ap_requests a) k = Some ask -> oa_release ask = 0%N) ->
  unlinked (ap_allocs a) k -> m_sched_alloc deny s a k nid = Some s' -> InvG2 s' /\ BooksG s'.
Proof. exact m_sched_alloc_stepG. Qed.
Print Assumptions c03c_m_sched_alloc_stepG.

Theorem c03c_g_recovered_step :
  forall (s s' : ostate) (a : oapp) (n : onode) (x : oalloc),
  InvG2 s ->
  BooksG s ->
  Bounded3 s ->
  In a (s_apps s) ->
  In n (s_nodes s) ->
  AllocOK3 (ap_id a) x ->
  rb (oa_res x) ->
  oa_allocated x = true ->
  oa_node x = on_id n -> oa_release x = 0%N -> KeyFresh3 s (oa_key x) -> unlinked (ap_allocs a) (oa_key x) -> g_recovered s a n x = Some s' -> InvG2 s' /\ BooksG s'.
Proof. exact g_recovered_step. Qed.
Print Assumptions c03c_g_recovered_step.

Theorem c03c_g_update_existing_step :
  forall (s s' : ostate) (a : oapp) (x : oalloc) (r : oreq),
  InvG2 s ->
  BooksG s ->
  Bounded3 s ->
  wf (oget (rq_res r)) ->
  rb (oget (rq_res r)) ->
  StrictlyGreaterThanZero (rq_res r) = true ->
  In a (s_apps s) ->
  In x (ap_requests a) ->
  (oa_allocated x = true -> res_changed (oget (rq_res r)) x = true -> In x (ap_allocs a) /\ oa_release x = 0%N) ->
  (oa_allocated x = false -> rq_node r <> 0%N -> oa_release x = 0%N /\ unlinked (ap_allocs a) (oa_key x) /\ Bounded3 (g_upd_mid s a x (oget (rq_res r)))) ->
  g_update_existing s a x r = Some s' -> InvG2 s' /\ BooksG s'.
Proof. exact g_update_existing_step. Qed.
Print Assumptions c03c_g_update_existing_step.

Theorem c03c_flag_step2 :
  forall (s : ostate) (app k : N) (f : oalloc -> oalloc), InvG2 s -> BooksG s -> FlagOnly f -> InvG2 (obj_upd s app k f) /\ BooksG (obj_upd s app k f).
Proof. exact flag_step2. Qed.
Print Assumptions c03c_flag_step2.

Theorem c03c_g_cancel_all_step2 :
  forall (l : list (N * N * N)) (s s' : ostate), InvG2 s -> BooksG s -> g_cancel_all s l = Some s' -> InvG2 s' /\ BooksG s'.
Proof. exact g_cancel_all_step2. Qed.
Print Assumptions c03c_g_cancel_all_step2.

Theorem c03c_g_swap_start_step :
  forall (deny : list (N * N)) (s obs : ostate) (app phk : N) (s' : ostate),
  InvG2 s -> BooksG s -> Bounded3 s -> SwapOK s obs app phk -> g_swap_start deny s obs app phk = Some s' -> InvG2 s' /\ BooksG s'.
Proof. exact g_swap_start_step. Qed.
Print Assumptions c03c_g_swap_start_step.

Theorem c03c_g_release_confirm_step :
  forall (s : ostate) (app key ttype : N) (s' : ostate) (a : oapp) (x : oalloc),
  InvG2 s ->
  BooksG s ->
  Bounded3 s ->
  find_app s app = Some a ->
  find_alloc (ap_allocs a) key = Some x ->
  (ttype =? TT_PlaceholderReplaced)%N && negb (oa_release x =? 0)%N = true ->
  is_terminal (ap_state (app_remove_alloc a x ttype)) = false -> g_release s app key ttype = Some s' -> InvG2 s' /\ BooksG s' /\ Bounded3 s'.
Proof. exact g_release_confirm_step. Qed.
Print Assumptions c03c_g_release_confirm_step.

Theorem c03c_g_release_plain_step :
  forall (s : ostate) (app key ttype : N) (s' : ostate) (a : oapp),
  InvG2 s ->
  BooksG s ->
  Bounded3 s ->
  find_app s app = Some a ->
  is_terminal (ap_state a) = false ->
  NodeKeysNZ s ->
  TermOK a ->
  CompletingOK a ->
  (forall x : oalloc, find_alloc (ap_allocs a) key = Some x -> oa_release x = 0%N) ->
  (find_alloc (ap_allocs a) key = None -> forall (n : onode) (y : oalloc), In n (s_nodes s) -> In y (on_allocs n) -> oa_app y = app -> oa_key y <> key) ->
  g_release s app key ttype = Some s' -> InvG2 s' /\ BooksG s'.
Proof. exact g_release_plain_step. Qed.
Print Assumptions c03c_g_release_plain_step.

Theorem c03c_g_release_all_step :
  forall (s : ostate) (app ttype : N) (s' : ostate) (a : oapp),
  InvG2 s ->
  BooksG s ->
  Bounded3 s -> find_app s app = Some a -> is_terminal (ap_state a) = false -> xnode_inflight_reals a = [] -> g_release_all s app ttype = Some s' -> InvG2 s' /\ BooksG s'.
Proof. exact g_release_all_step. Qed.
Print Assumptions c03c_g_release_all_step.

Theorem c03c_g_fire_ph_step2 :
  forall (s : ostate) (evs : list oevent) (id : N) (s' : ostate),
  InvG2 s ->
  BooksG s ->
  Bounded3 s ->
  (forall a : oapp, find_app s id = Some a -> ap_state a = ST_Failing -> has_state_event evs id ST_Failing = false) -> g_fire_ph s evs id = Some s' -> InvG2 s' /\ BooksG s'.
Proof. exact g_fire_ph_step2. Qed.
Print Assumptions c03c_g_fire_ph_step2.

Theorem c03c_g_fire_state_step2 :
  forall (s : ostate) (id : N) (s' : ostate), InvG2 s -> BooksG s -> g_fire_state s id = Some s' -> InvG2 s' /\ BooksG s'.
Proof. exact g_fire_state_step2. Qed.
Print Assumptions c03c_g_fire_state_step2.

Theorem c03c_g_app_remove_step :
  forall (s s' : ostate) (id : N),
  InvG2 s -> BooksG s -> Bounded3 s -> (forall a : oapp, find_app s id = Some a -> xnode_inflight_reals a = []) -> g_app_remove s id = Some s' -> InvG2 s' /\ BooksG s'.
Proof. exact g_app_remove_step. Qed.
Print Assumptions c03c_g_app_remove_step.

Theorem c03c_g_node_remove_step_partial :
  forall (s : ostate) (evs : list oevent) (id : N) (s' : ostate),
  InvG2 s ->
  BooksG s ->
  Bounded3 s ->
  KeysNZ s ->
  NoDup (release_keys evs) ->
  (forall (n : onode) (order : list oalloc),
  find_node s id = Some n ->
  node_remove_order evs (on_allocs n) = Some order -> rna_ok PLoop QuotaOK (set_nodes s (filter (fun m : onode => negb (on_id m =? id)%N) (s_nodes s))) order) ->
  g_node_remove s evs id = Some s' -> InvG2 s' /\ BooksG s'.
Proof. exact g_node_remove_step. Qed.
Print Assumptions c03c_g_node_remove_step_partial.

Theorem c03c_g_sched_step :
  forall (deny : list (N * N)) (s : ostate) (st : ostep) (s' : ostate),
  InvG2 s -> BooksG s -> Bounded3 s -> SchedOK3 s st -> g_sched deny s st = Some s' -> InvG2 s' /\ BooksG s'.
Proof. exact g_sched_step. Qed.
Print Assumptions c03c_g_sched_step.

Theorem c03c_g_release_step :
  forall (s : ostate) (st : ostep) (app key ttype : N) (s' : ostate),
  InvG2 s ->
  BooksG s ->
  Bounded3 s ->
  StateOK3 s ->
  known_trigger s st = None ->
  st_op st = OpRelease app key ttype ->
  (forall a : oapp, find_app s app = Some a -> TermOK a) -> ReleaseOK3 s app key ttype -> g_release s app key ttype = Some s' -> InvG2 s' /\ BooksG s'.
Proof. exact g_release_step. Qed.
Print Assumptions c03c_g_release_step.

(* ---- 4. the hypotheses are checkable ... ---- *)
Theorem c03c_invg2_b_spec :
  forall s : ostate, invg2_b s = true -> InvG2 s.
Proof. exact invg2_b_spec. Qed.
Print Assumptions c03c_invg2_b_spec.

Theorem c03c_bounded3_b_spec :
  forall s : ostate, bounded3_b s = true -> Bounded3 s.
Proof. exact bounded3_b_spec. Qed.
Print Assumptions c03c_bounded3_b_spec.

Theorem c03c_step_ok3g_b_spec :
  forall (s : ostate) (st : ostep), step_ok3g_b s st = true -> StepOK3g s st.
Proof. exact step_ok3g_b_spec. Qed.
Print Assumptions c03c_step_ok3g_b_spec.

Theorem c03c_books_b_spec :
  forall s : ostate, books_b s = true -> Books s.
Proof. exact books_b_spec. Qed.
Print Assumptions c03c_books_b_spec.

(* ---- 5. ... and satisfiable: worked gang histories from the EMPTY partition (two replacements, one across nodes with the
   placeholder larger than the real allocation; placeholder timeout of a Hard gang application; node removal that confirms an
   in-flight replacement) ---- *)
Theorem c03c_ex3_hypotheses :
  InvG2 ex3_s0 /\
  Books ex3_s0 /\
  RunOK3x NodeRemoveOK3 ex3_deny ex3_s0 ex3_steps /\
  m_run3_len ex3_deny ex3_s0 ex3_steps = length ex3_steps /\ InvG2 (m_run3 ex3_deny ex3_s0 ex3_steps) /\ Books (m_run3 ex3_deny ex3_s0 ex3_steps).
Proof. exact ex3_hypotheses. Qed.
Print Assumptions c03c_ex3_hypotheses.

Theorem c03c_to3_run_okg :
  run3g_ok_b [] ex3_s0 to3_steps = true.
Proof. exact to3_run_okg. Qed.
Print Assumptions c03c_to3_run_okg.

Theorem c03c_nr3_run_okg :
  run3g_ok_b ex3_deny ex3_s0 nr3_steps = true.
Proof. exact nr3_run_okg. Qed.
Print Assumptions c03c_nr3_run_okg.

Theorem c03c_nr3_node_removed :
  exists s10 : ostate,
  g_node_remove nr3_s9 nr3_evs 2 = Some s10 /\
  InvG2 s10 /\ BooksG s10 /\ app_remove_ok_b s10 1 = true /\ (exists s11 : ostate, g_app_remove s10 1 = Some s11 /\ s_apps s11 = []).
Proof. exact nr3_node_removed. Qed.
Print Assumptions c03c_nr3_node_removed.

(* ---- 6. necessity witnesses (vm_compute): TermOK; key freshness against ALLOCATIONS; no resize of a placeholder whose
   replacement is in flight (a defect of the Go code reproduced on the real scheduler, notes/m3gang.md finding 8) ---- *)
Theorem c03c_term_ok_refuted :
  exists (s : ostate) (st : ostep) (s' : ostate),
  s = m_run3 [] ex3_s0 term_steps /\
  m_run3_len [] ex3_s0 term_steps = length term_steps /\
  run3_ok_b [] ex3_s0 term_steps = true /\
  invg2_b s = true /\
  c03_state s = [] /\
  rootg_b s = true /\
  bounded3_b s = true /\
  map (fun a : oapp => (ap_state a, map (fun x : oalloc => (oa_key x, oa_ph x)) (ap_allocs a))) (s_apps s) = [(ST_Failing, [(31%N, true); (40%N, false)])] /\
  st_op st = OpRelease 2 31 TT_Timeout /\
  step_noterm_b s st = true /\
  step_ok2if_b [] s st = true /\
  step_ok3_b s st = false /\
  m_step2 [] s st = None /\
  m_step_gang [] s st = Some s' /\
  s_apps s' = [] /\
  map (fun n : onode => akeys (on_allocs n)) (s_nodes s') = [[40%N]] /\ map on_allocated (s_nodes s') = [R1] /\ c03_state s' = [303%N; 305%N; 306%N] /\ invg_b s' = false.
Proof. exact term_ok_refuted. Qed.
Print Assumptions c03c_term_ok_refuted.

Theorem c03c_key_fresh3_allocs_refuted :
  exists (deny : list (N * N)) (s0 : ostate) (steps : list ostep),
  invg2_b s0 = true /\
  c03_state s0 = [] /\
  m_run3_len deny s0 steps = length steps /\
  run3_hyp_b step_reqfresh_b deny s0 steps = true /\
  run3_ok_b deny s0 (firstn 5 steps) = true /\
  (let s5 := m_run3 deny s0 (firstn 5 steps) in
  map (fun a : oapp => (ap_state a, akeys (ap_requests a), akeys (ap_allocs a))) (s_apps s5) = [(ST_Resuming, [], [30%N])] /\
  option_map (step_ok3_b s5) (nth_error steps 5) = Some false /\ option_map (Model2ProofsB6.step_ok2_b s5) (nth_error steps 5) = Some true) /\
  invg_b (m_run3 deny s0 (firstn 6 steps)) = false /\
  c03_state (m_run3 deny s0 (firstn 6 steps)) = [] /\ c03_state (m_run3 deny s0 steps) = [301%N] /\ nodes_ledger_ok (m_run3 deny s0 steps) = false.
Proof. exact key_fresh3_allocs_refuted. Qed.
Print Assumptions c03c_key_fresh3_allocs_refuted.

Theorem c03c_linked_placeholder_resize_refuted :
  exists (deny : list (N * N)) (s0 : ostate) (steps : list ostep),
  invg2_b s0 = true /\
  c03_state s0 = [] /\
  m_run3_len deny s0 steps = length steps /\
  run3g_ok_b deny s0 (firstn 9 steps) = true /\
  (let s9 := m_run3 deny s0 (firstn 9 steps) in step_ok3_b s9 (nth 9 steps (g_step OpSched [])) = true /\ step_ok3g_b s9 (nth 9 steps (g_step OpSched [])) = false) /\
  c03_state (m_run3 deny s0 (firstn 10 steps)) = [] /\ c03_state (m_run3 deny s0 steps) = [302%N; 305%N].
Proof. exact linked_placeholder_resize_refuted. Qed.
Print Assumptions c03c_linked_placeholder_resize_refuted.
