(* C09 - reservations stay consistent and exclusive.  Theorems about the component model Core/Reserve.v;
   the same predicates are evaluated on the implementation's observations by Oracles/CoreC09.v. *)
From Coq Require Import List ZArith NArith Bool.
From YK Require Import Core.Obs Core.Reserve Core.ReserveProofs Core.ReserveProofs2.
Import ListNotations.
Open Scope N_scope.

(* application view = node view as relations; queue count per application = cardinality; partition
   counter >= 1 whenever the relation is non-empty (the code lets the counter drift upwards) *)
Theorem views_agree : forall ops v, rrun rv_init ops = Some v -> Reserve.views_agree v = true.
Proof. exact views_agree_l. Qed.
Print Assumptions views_agree.

(* the exact inequality kept by the model: the counter never falls below the number of reservations *)
Theorem counter_ge_card : forall ops v, rrun rv_init ops = Some v -> Reserve.counter_ge_card v = true.
Proof. exact counter_ge_card_l. Qed.
Print Assumptions counter_ge_card.

Theorem one_per_ask : forall ops v, rrun rv_init ops = Some v -> Reserve.one_per_ask v = true.
Proof. exact one_per_ask_l. Qed.
Print Assumptions one_per_ask.

Theorem one_per_node_unless_required : forall ops v, rrun rv_init ops = Some v -> Reserve.one_per_node_unless_required v = true.
Proof. exact one_per_node_l. Qed.
Print Assumptions one_per_node_unless_required.

Theorem only_outstanding : forall ops v, rrun rv_init ops = Some v -> Reserve.only_outstanding v = true.
Proof. exact only_outstanding_l. Qed.
Print Assumptions only_outstanding.

Theorem reserved_not_given_away : forall v a k n v', rstep v (RAllocate a k n) = Some v' -> reserved_for_other v n a k = false.
Proof. exact reserved_not_given_away_l. Qed.
Print Assumptions reserved_not_given_away.

(* every reservation refers to a live application and a registered node, at every reachable state *)
Theorem cleanup : forall ops v, rrun rv_init ops = Some v -> Reserve.cleanup v = true.
Proof. exact cleanup_state_l. Qed.
Print Assumptions cleanup.

(* and, event by event: allocation / removal of the ask, removal or termination of the application and
   removal of the node leave no reservation for it in any view *)
Theorem cleanup_events : forall ops v, rrun rv_init ops = Some v ->
  (forall a k n v', rstep v (RAllocate a k n) = Some v' -> no_res v' (is_res a k)) /\
  (forall a k v', rstep v (RAllocateKeep a k) = Some v' -> no_res v' (is_res a k)) /\
  (forall a k v', rstep v (RRemoveAsk a k) = Some v' -> no_res v' (is_res a k)) /\
  (forall a v', rstep v (RRemoveAllAsks a) = Some v' -> no_res v' (fun x => r_app x =? a)) /\
  (forall a v', rstep v (RRemoveApp a) = Some v' -> no_res v' (fun x => r_app x =? a)) /\
  (forall a v', rstep v (RTerminate a) = Some v' -> no_res v' (fun x => r_app x =? a)) /\
  (forall n v', rstep v (RRemoveNode n) = Some v' -> no_res v' (fun x => r_node x =? n)).
Proof. exact cleanup_events_l. Qed.
Print Assumptions cleanup_events.
