(* Property C18: resource arithmetic and quantity parsing are exact or saturate, never wrap;
   predicates agree with their component-wise definitions; nil-safe; order independent.
   Property theorems only: every proof is `exact <lemma>` of Base/*Laws*.v; each is followed by
   Print Assumptions (expected: Closed under the global context).
   The theorems are about the executable model Base/Int64.v, F64.v, Res.v, Quantity.v (transcribed
   from pkg/common/resources); the model is tied to the Go code by the correspondence run of engine
   `res`, whose oracles (Oracles/ResCheck.v) evaluate the right-hand sides used here
   (Base/ResSpec.v, Base/QuantitySpec.v) on the implementation's observed results.
   Naming: <Op>_get = value and key set at every key; _refuted = the pinned (pre-fix) code violates
   the clause. f_valid r = r is a canonical binary64 datum other than NaN. *)
From Coq Require Import List ZArith NArith Bool Lia Permutation Floats.SpecFloat.
From YK Require Import Base.Int64 Base.F64 Base.Res Base.ResMore Base.ResSpec Base.Quantity Base.QuantitySpec.
From YK Require Import Base.Int64Laws Base.F64Laws Base.ResLemmas Base.ResLaws Base.ResLaws2 Base.ResLawsPred Base.QuantityLaws Base.F64Valid Base.F64Laws2.
Import ListNotations.
Open Scope Z_scope.


(* ---- calculators ---- *)
Theorem c18_addVal_clamp :
  forall a b : Z, in_range a -> in_range b -> addVal a b = clamp (a + b).
Proof. exact addVal_clamp. Qed.
Print Assumptions c18_addVal_clamp.
Theorem c18_subVal_clamp :
  forall a b : Z, in_range a -> in_range b -> subVal a b = clamp (a - b).
Proof. exact subVal_clamp. Qed.
Print Assumptions c18_subVal_clamp.
Theorem c18_subVal_pinned_refuted :
  exists a b : Z, in_range a /\ in_range b /\ subVal_pinned a b <> clamp (a - b).
Proof. exact subVal_pinned_refuted. Qed.
Print Assumptions c18_subVal_pinned_refuted.
Theorem c18_mulVal_clamp :
  forall a b : Z, in_range a -> in_range b -> mulVal a b = clamp (a * b).
Proof. exact mulVal_clamp. Qed.
Print Assumptions c18_mulVal_clamp.
Theorem c18_mulValRatio_in_range :
  forall (v : Z) (r : f64), in_range (mulValRatio v r).
Proof. exact mulValRatio_in_range. Qed.
Print Assumptions c18_mulValRatio_in_range.
Theorem c18_mulValRatio_clamp :
  forall (v : Z) (r : f64), f_valid r = true -> mulValRatio v r = mulValRatio_spec v r.
Proof. exact mulValRatio_clamp. Qed.
Print Assumptions c18_mulValRatio_clamp.
Theorem c18_f_mul_valid :
  forall x y : f64, valid_binary prec emax x = true -> valid_binary prec emax y = true -> valid_binary prec emax (f_mul x y) = true.
Proof. exact f_mul_valid. Qed.
Print Assumptions c18_f_mul_valid.
Theorem c18_f_of_Z_valid :
  forall v : Z, valid_binary prec emax (f_of_Z v) = true.
Proof. exact f_of_Z_valid. Qed.
Print Assumptions c18_f_of_Z_valid.
Theorem c18_mulValRatio_pinned_refuted :
  exists (v : Z) (r : f64), in_range v /\ f_valid r = true /\ f_valid (f_mul (f_of_Z v) r) = true /\ mulValRatio_pinned v r <> mulValRatio_spec v r.
Proof. exact mulValRatio_pinned_refuted. Qed.
Print Assumptions c18_mulValRatio_pinned_refuted.

(* ---- vector operations: value and key set at every key ---- *)
Theorem c18_Add_get :
  forall (l r : ores) (k : tid), owf r -> ores_in_range l -> ores_in_range r -> get (Add l r) k = add_at (get (oget l) k) (get (oget r) k).
Proof. exact Add_get. Qed.
Print Assumptions c18_Add_get.
Theorem c18_Add_getz :
  forall (l r : ores) (k : tid), owf r -> ores_in_range l -> ores_in_range r -> getz (Add l r) k = clamp (getz (oget l) k + getz (oget r) k).
Proof. exact Add_getz. Qed.
Print Assumptions c18_Add_getz.
Theorem c18_Add_keys :
  forall (l r : ores) (k : tid), owf r -> has (Add l r) k = has (oget l) k || has (oget r) k.
Proof. exact Add_keys. Qed.
Print Assumptions c18_Add_keys.
Theorem c18_Sub_get :
  forall (l r : ores) (k : tid), owf r -> ores_in_range l -> ores_in_range r -> get (Sub l r) k = sub_at (get (oget l) k) (get (oget r) k).
Proof. exact Sub_get. Qed.
Print Assumptions c18_Sub_get.
Theorem c18_Sub_getz :
  forall (l r : ores) (k : tid), owf r -> ores_in_range l -> ores_in_range r -> getz (Sub l r) k = clamp (getz (oget l) k - getz (oget r) k).
Proof. exact Sub_getz. Qed.
Print Assumptions c18_Sub_getz.
Theorem c18_Sub_keys :
  forall (l r : ores) (k : tid), owf r -> has (Sub l r) k = has (oget l) k || has (oget r) k.
Proof. exact Sub_keys. Qed.
Print Assumptions c18_Sub_keys.
Theorem c18_AddTo_Add :
  forall (l : res) (r : ores), AddTo (Some l) r = Some (Add (Some l) r) /\ AddTo None r = None.
Proof. exact AddTo_Add. Qed.
Print Assumptions c18_AddTo_Add.
Theorem c18_SubFrom_Sub :
  forall (l : res) (r : ores), SubFrom (Some l) r = Some (Sub (Some l) r) /\ SubFrom None r = None.
Proof. exact SubFrom_Sub. Qed.
Print Assumptions c18_SubFrom_Sub.
Theorem c18_SubOnlyExisting_get :
  forall (b : res) (d : ores) (k : tid), ores_in_range (Some b) -> ores_in_range d -> get (oget (SubOnlyExisting (Some b) d)) k = subOnly_at (get b k) (get (oget d) k).
Proof. exact SubOnlyExisting_get. Qed.
Print Assumptions c18_SubOnlyExisting_get.
Theorem c18_SubOnlyExisting_keys :
  forall (b : res) (d : ores), keys (oget (SubOnlyExisting (Some b) d)) = keys b.
Proof. exact SubOnlyExisting_keys. Qed.
Print Assumptions c18_SubOnlyExisting_keys.
Theorem c18_AddOnlyExisting_get :
  forall (b : res) (d : ores) (k : tid), ores_in_range (Some b) -> ores_in_range d -> get (oget (AddOnlyExisting (Some b) d)) k = addOnly_at (get b k) (get (oget d) k).
Proof. exact AddOnlyExisting_get. Qed.
Print Assumptions c18_AddOnlyExisting_get.
Theorem c18_AddOnlyExisting_keys :
  forall (b : res) (d : ores), keys (oget (AddOnlyExisting (Some b) d)) = keys b.
Proof. exact AddOnlyExisting_keys. Qed.
Print Assumptions c18_AddOnlyExisting_keys.
Theorem c18_OnlyExisting_nil :
  forall d : ores, SubOnlyExisting None d = None /\ AddOnlyExisting None d = None /\ (forall b : res, is_nil (SubOnlyExisting (Some b) d) = false /\ is_nil (AddOnlyExisting (Some b) d) = false).
Proof. exact OnlyExisting_nil. Qed.
Print Assumptions c18_OnlyExisting_nil.
Theorem c18_SubEliminateNegative_get :
  forall (l r : ores) (k : tid), owf r -> ores_in_range l -> ores_in_range r -> get (SubEliminateNegative l r) k = subElim_at (get (oget l) k) (get (oget r) k).
Proof. exact SubEliminateNegative_get. Qed.
Print Assumptions c18_SubEliminateNegative_get.
Theorem c18_SubEliminateNegative_doc_refuted :
  exists (l r : ores) (k : tid), owf l /\ owf r /\ ores_in_range l /\ ores_in_range r /\
    get (SubEliminateNegative l r) k <> subElimDoc_at (get (oget l) k) (get (oget r) k) /\
    snd (SubErrorNegative l r) <> some_key subNegDoc_at (oget l) (oget r).
Proof. exact SubEliminateNegative_doc_refuted. Qed.
Print Assumptions c18_SubEliminateNegative_doc_refuted.
Theorem c18_SubEliminateNegative_doc_partial :
  forall (l r : ores) (k : tid), owf r -> ores_in_range l -> ores_in_range r ->
    left_only_negative_at (get (oget l) k) (get (oget r) k) = false ->
    get (SubEliminateNegative l r) k = subElimDoc_at (get (oget l) k) (get (oget r) k).
Proof. exact SubEliminateNegative_doc_partial. Qed.
Print Assumptions c18_SubEliminateNegative_doc_partial.
Theorem c18_SubEliminateNegative_keys :
  forall (l r : ores) (k : tid), owf r -> has (SubEliminateNegative l r) k = has (oget l) k || has (oget r) k.
Proof. exact SubEliminateNegative_keys. Qed.
Print Assumptions c18_SubEliminateNegative_keys.
Theorem c18_SubErrorNegative_res :
  forall l r : ores, fst (SubErrorNegative l r) = SubEliminateNegative l r.
Proof. exact SubErrorNegative_res. Qed.
Print Assumptions c18_SubErrorNegative_res.
Theorem c18_SubErrorNegative_err :
  forall l r : ores, owf r -> ores_in_range l -> ores_in_range r -> snd (SubErrorNegative l r) = some_key subNeg_at (oget l) (oget r).
Proof. exact SubErrorNegative_err. Qed.
Print Assumptions c18_SubErrorNegative_err.
Theorem c18_Multiply_get :
  forall (b : ores) (ratio : Z) (k : tid), ores_in_range b -> in_range ratio -> get (Multiply b ratio) k = mul_at ratio (get (oget b) k).
Proof. exact Multiply_get. Qed.
Print Assumptions c18_Multiply_get.
Theorem c18_Multiply_getz :
  forall (b : ores) (ratio : Z) (k : tid), ores_in_range b -> in_range ratio -> getz (Multiply b ratio) k = clamp (getz (oget b) k * ratio).
Proof. exact Multiply_getz. Qed.
Print Assumptions c18_Multiply_getz.
Theorem c18_Multiply_keys :
  forall (b : ores) (ratio : Z) (k : tid), has (Multiply b ratio) k = has (oget b) k && negb (ratio =? 0).
Proof. exact Multiply_keys. Qed.
Print Assumptions c18_Multiply_keys.
Theorem c18_MultiplyBy_spec :
  forall (b : ores) (ratio : f64) (k : tid), f_valid ratio = true -> get (MultiplyBy b ratio) k = mulBy_at ratio (get (oget b) k).
Proof. exact MultiplyBy_spec. Qed.
Print Assumptions c18_MultiplyBy_spec.
Theorem c18_ComponentWiseMin_get :
  forall (l r : ores) (k : tid), owf l -> owf r -> get (oget (ComponentWiseMin l r)) k = cwmin_at (get (oget l) k) (get (oget r) k).
Proof. exact ComponentWiseMin_get. Qed.
Print Assumptions c18_ComponentWiseMin_get.
Theorem c18_ComponentWiseMin_nil :
  forall l r : ores, is_nil (ComponentWiseMin l r) = is_nil l && is_nil r.
Proof. exact ComponentWiseMin_nil. Qed.
Print Assumptions c18_ComponentWiseMin_nil.
Theorem c18_ComponentWiseMinOnlyExisting_get :
  forall (a : res) (r : ores) (k : tid), get (oget (ComponentWiseMinOnlyExisting (Some a) r)) k = cwminOnly_at (get a k) (get (oget r) k).
Proof. exact ComponentWiseMinOnlyExisting_get. Qed.
Print Assumptions c18_ComponentWiseMinOnlyExisting_get.
Theorem c18_ComponentWiseMinOnlyExisting_nil :
  forall l r : ores, is_nil (ComponentWiseMinOnlyExisting l r) = is_nil l.
Proof. exact ComponentWiseMinOnlyExisting_nil. Qed.
Print Assumptions c18_ComponentWiseMinOnlyExisting_nil.
Theorem c18_ComponentWiseMinOnlyExisting_keys :
  forall (a : res) (r : ores), keys (oget (ComponentWiseMinOnlyExisting (Some a) r)) = keys a.
Proof. exact ComponentWiseMinOnlyExisting_keys. Qed.
Print Assumptions c18_ComponentWiseMinOnlyExisting_keys.
Theorem c18_ComponentWiseMax_get :
  forall (a b : res) (k : tid), wf a -> wf b -> get (ComponentWiseMax (Some a) (Some b)) k = cwmax_at (get a k) (get b k).
Proof. exact ComponentWiseMax_get. Qed.
Print Assumptions c18_ComponentWiseMax_get.
Theorem c18_ComponentWiseMax_getz :
  forall (a b : res) (k : tid), wf a -> wf b -> getz (ComponentWiseMax (Some a) (Some b)) k = Z.max (getz a k) (getz b k).
Proof. exact ComponentWiseMax_getz. Qed.
Print Assumptions c18_ComponentWiseMax_getz.
Theorem c18_ComponentWiseMax_nil :
  forall l r : ores, is_nil l || is_nil r = true -> ComponentWiseMax l r = [].
Proof. exact ComponentWiseMax_nil. Qed.
Print Assumptions c18_ComponentWiseMax_nil.
Theorem c18_MergeIfNotPresent_get :
  forall (l r : ores) (k : tid), owf r -> get (oget (MergeIfNotPresent l r)) k = merge_at (get (oget l) k) (get (oget r) k).
Proof. exact MergeIfNotPresent_get. Qed.
Print Assumptions c18_MergeIfNotPresent_get.
Theorem c18_MergeIfNotPresent_nil :
  forall l r : ores, is_nil (MergeIfNotPresent l r) = is_nil l && is_nil r.
Proof. exact MergeIfNotPresent_nil. Qed.
Print Assumptions c18_MergeIfNotPresent_nil.
Theorem c18_Prune_get :
  forall (r : res) (k : tid), wf r -> get (Prune r) k = prune_at (get r k).
Proof. exact Prune_get. Qed.
Print Assumptions c18_Prune_get.

(* ---- well-formedness and range are preserved ---- *)
Theorem c18_Add_wf :
  forall l r : ores, owf l -> wf (Add l r).
Proof. exact Add_wf. Qed.
Print Assumptions c18_Add_wf.
Theorem c18_Sub_wf :
  forall l r : ores, owf l -> wf (Sub l r).
Proof. exact Sub_wf. Qed.
Print Assumptions c18_Sub_wf.
Theorem c18_SubEliminateNegative_wf :
  forall l r : ores, owf l -> wf (SubEliminateNegative l r).
Proof. exact SubEliminateNegative_wf. Qed.
Print Assumptions c18_SubEliminateNegative_wf.
Theorem c18_ComponentWiseMin_wf :
  forall l r : ores, owf l -> owf r -> owf (ComponentWiseMin l r).
Proof. exact ComponentWiseMin_wf. Qed.
Print Assumptions c18_ComponentWiseMin_wf.
Theorem c18_ComponentWiseMax_wf :
  forall l r : ores, wf (ComponentWiseMax l r).
Proof. exact ComponentWiseMax_wf. Qed.
Print Assumptions c18_ComponentWiseMax_wf.
Theorem c18_SubOnlyExisting_wf :
  forall b d : ores, owf b -> owf (SubOnlyExisting b d).
Proof. exact SubOnlyExisting_wf. Qed.
Print Assumptions c18_SubOnlyExisting_wf.
Theorem c18_AddOnlyExisting_wf :
  forall b d : ores, owf b -> owf (AddOnlyExisting b d).
Proof. exact AddOnlyExisting_wf. Qed.
Print Assumptions c18_AddOnlyExisting_wf.
Theorem c18_Multiply_wf :
  forall (b : ores) (ratio : Z), owf b -> wf (Multiply b ratio).
Proof. exact Multiply_wf. Qed.
Print Assumptions c18_Multiply_wf.
Theorem c18_ComponentWiseMinOnlyExisting_wf :
  forall l r : ores, owf l -> owf (ComponentWiseMinOnlyExisting l r).
Proof. exact ComponentWiseMinOnlyExisting_wf. Qed.
Print Assumptions c18_ComponentWiseMinOnlyExisting_wf.
Theorem c18_MergeIfNotPresent_wf :
  forall l r : ores, owf l -> owf r -> owf (MergeIfNotPresent l r).
Proof. exact MergeIfNotPresent_wf. Qed.
Print Assumptions c18_MergeIfNotPresent_wf.
Theorem c18_Prune_wf :
  forall r : res, wf r -> wf (Prune r).
Proof. exact Prune_wf. Qed.
Print Assumptions c18_Prune_wf.
Theorem c18_Add_in_range :
  forall l r : ores, owf l -> owf r -> ores_in_range l -> ores_in_range r -> res_in_range (Add l r).
Proof. exact Add_in_range. Qed.
Print Assumptions c18_Add_in_range.
Theorem c18_Sub_in_range :
  forall l r : ores, owf l -> owf r -> ores_in_range l -> ores_in_range r -> res_in_range (Sub l r).
Proof. exact Sub_in_range. Qed.
Print Assumptions c18_Sub_in_range.

(* ---- predicates ---- *)
Theorem c18_fitIn_forall :
  forall (r s : ores) (skip actual : bool), owf s -> fitIn r s skip actual = true <-> (forall k : tid, fit_at skip actual (get (oget r) k) (get (oget s) k) = true).
Proof. exact fitIn_forall. Qed.
Print Assumptions c18_fitIn_forall.
Theorem c18_FitIn_spec :
  forall r s : ores, owf s -> FitIn r s = true <-> (forall (k : tid) (v : Z), get (oget s) k = Some v -> v <= Z.max 0 (getz (oget r) k)).
Proof. exact FitIn_spec. Qed.
Print Assumptions c18_FitIn_spec.
Theorem c18_FitInMaxUndef_spec :
  forall r s : ores, owf s -> FitInMaxUndef r s = true <-> (forall (k : tid) (v l : Z), get (oget s) k = Some v -> get (oget r) k = Some l -> v <= Z.max 0 l).
Proof. exact FitInMaxUndef_spec. Qed.
Print Assumptions c18_FitInMaxUndef_spec.
Theorem c18_FitInActual_spec :
  forall r s : ores, owf s -> FitInActual r s = true <-> (forall (k : tid) (v l : Z), get (oget s) k = Some v -> get (oget r) k = Some l -> v <= l).
Proof. exact FitInActual_spec. Qed.
Print Assumptions c18_FitInActual_spec.
Theorem c18_fitIn_nil_smaller :
  forall (r : ores) (skip actual : bool), fitIn r None skip actual = true.
Proof. exact fitIn_nil_smaller. Qed.
Print Assumptions c18_fitIn_nil_smaller.
Theorem c18_StrictlyGreaterThan_spec :
  forall l s : ores, owf l -> owf s -> StrictlyGreaterThan l s = true <-> (forall k : tid, getz (oget s) k <= getz (oget l) k) /\ (exists k : tid, getz (oget s) k <> getz (oget l) k).
Proof. exact StrictlyGreaterThan_spec. Qed.
Print Assumptions c18_StrictlyGreaterThan_spec.
Theorem c18_StrictlyGreaterThanOrEquals_spec :
  forall l s : ores, owf l -> owf s -> StrictlyGreaterThanOrEquals l s = true <-> (forall k : tid, getz (oget s) k <= getz (oget l) k).
Proof. exact StrictlyGreaterThanOrEquals_spec. Qed.
Print Assumptions c18_StrictlyGreaterThanOrEquals_spec.
Theorem c18_sgtOnly_eq_spec :
  forall (r s : ores) (eq0 : bool), owf r -> internalStrictlyOnlyExisting r s eq0 = sgtOnly_spec r s eq0.
Proof. exact sgtOnly_eq_spec. Qed.
Print Assumptions c18_sgtOnly_eq_spec.
Theorem c18_Equals_spec :
  forall a b : res, wf a -> wf b -> Equals (Some a) (Some b) = true <-> (forall k : tid, getz a k = getz b k).
Proof. exact Equals_spec. Qed.
Print Assumptions c18_Equals_spec.
Theorem c18_DeepEquals_spec :
  forall a b : res, wf a -> wf b -> DeepEquals (Some a) (Some b) = true <-> (forall k : tid, get a k = get b k).
Proof. exact DeepEquals_spec. Qed.
Print Assumptions c18_DeepEquals_spec.
Theorem c18_Equals_nil :
  Equals None None = true /\ (forall a : res, Equals (Some a) None = false) /\ (forall a : res, Equals None (Some a) = false).
Proof. exact Equals_nil. Qed.
Print Assumptions c18_Equals_nil.
Theorem c18_DeepEquals_nil :
  DeepEquals None None = true /\ (forall a : res, DeepEquals (Some a) None = false) /\ (forall a : res, DeepEquals None (Some a) = false).
Proof. exact DeepEquals_nil. Qed.
Print Assumptions c18_DeepEquals_nil.
Theorem c18_IsZero_spec :
  forall o : ores, owf o -> IsZero o = true <-> (forall k : tid, getz (oget o) k = 0).
Proof. exact IsZero_spec. Qed.
Print Assumptions c18_IsZero_spec.
Theorem c18_MatchAny_spec :
  forall a b : res, wf a -> wf b -> MatchAny (Some a) (Some b) = true <-> (exists k : tid, has a k = true /\ has b k = true).
Proof. exact MatchAny_spec. Qed.
Print Assumptions c18_MatchAny_spec.
Theorem c18_HasNegativeValue_spec :
  forall o : ores, owf o -> HasNegativeValue o = true <-> (exists k : tid, getz (oget o) k < 0).
Proof. exact HasNegativeValue_spec. Qed.
Print Assumptions c18_HasNegativeValue_spec.
Theorem c18_StrictlyGreaterThanZero_spec :
  forall r : res, wf r -> StrictlyGreaterThanZero (Some r) = true <-> (forall k : tid, 0 <= getz r k) /\ (exists k : tid, 0 < getz r k).
Proof. exact StrictlyGreaterThanZero_spec. Qed.
Print Assumptions c18_StrictlyGreaterThanZero_spec.

(* ---- model = executable specification (what the oracle evaluates) ---- *)
Theorem c18_fitIn_eq_spec :
  forall (r s : ores) (skip actual : bool), owf s -> fitIn r s skip actual = fitIn_spec r s skip actual.
Proof. exact fitIn_eq_spec. Qed.
Print Assumptions c18_fitIn_eq_spec.
Theorem c18_StrictlyGreaterThan_eq_spec :
  forall l s : ores, owf l -> owf s -> StrictlyGreaterThan l s = sgt_spec l s.
Proof. exact StrictlyGreaterThan_eq_spec. Qed.
Print Assumptions c18_StrictlyGreaterThan_eq_spec.
Theorem c18_StrictlyGreaterThanOrEquals_eq_spec :
  forall l s : ores, owf l -> owf s -> StrictlyGreaterThanOrEquals l s = sgte_spec l s.
Proof. exact StrictlyGreaterThanOrEquals_eq_spec. Qed.
Print Assumptions c18_StrictlyGreaterThanOrEquals_eq_spec.
Theorem c18_Equals_eq_spec :
  forall l r : ores, owf l -> owf r -> Equals l r = equals_spec l r.
Proof. exact Equals_eq_spec. Qed.
Print Assumptions c18_Equals_eq_spec.
Theorem c18_DeepEquals_eq_spec :
  forall l r : ores, owf l -> owf r -> DeepEquals l r = deepEquals_spec l r.
Proof. exact DeepEquals_eq_spec. Qed.
Print Assumptions c18_DeepEquals_eq_spec.
Theorem c18_IsZero_eq_spec :
  forall o : ores, owf o -> IsZero o = isZero_spec o.
Proof. exact IsZero_eq_spec. Qed.
Print Assumptions c18_IsZero_eq_spec.
Theorem c18_EqualsOrEmpty_eq_spec :
  forall l r : ores, owf l -> owf r -> EqualsOrEmpty l r = equalsOrEmpty_spec l r.
Proof. exact EqualsOrEmpty_eq_spec. Qed.
Print Assumptions c18_EqualsOrEmpty_eq_spec.
Theorem c18_MatchAny_eq_spec :
  forall a b : ores, MatchAny a b = matchAny_spec a b.
Proof. exact MatchAny_eq_spec. Qed.
Print Assumptions c18_MatchAny_eq_spec.
Theorem c18_HasNegativeValue_eq_spec :
  forall o : ores, owf o -> HasNegativeValue o = hasNegative_spec o.
Proof. exact HasNegativeValue_eq_spec. Qed.
Print Assumptions c18_HasNegativeValue_eq_spec.
Theorem c18_StrictlyGreaterThanZero_eq_spec :
  forall o : ores, owf o -> StrictlyGreaterThanZero o = negb (is_nil o) && sgtZero_spec o.
Proof. exact StrictlyGreaterThanZero_eq_spec. Qed.
Print Assumptions c18_StrictlyGreaterThanZero_eq_spec.
Theorem c18_pw_ok_iff :
  forall (f : option Z -> option Z -> option Z) (x y out : res), f None None = None -> pw_ok f x y out = true <-> (forall k : tid, get out k = f (get x k) (get y k)).
Proof. exact pw_ok_iff. Qed.
Print Assumptions c18_pw_ok_iff.
Theorem c18_pw1_ok_iff :
  forall (f : option Z -> option Z) (x out : res), f None = None -> pw1_ok f x out = true <-> (forall k : tid, get out k = f (get x k)).
Proof. exact pw1_ok_iff. Qed.
Print Assumptions c18_pw1_ok_iff.
Theorem c18_all_keys_iff :
  forall (P : option Z -> option Z -> bool) (x y : res), P None None = true -> all_keys P x y = true <-> (forall k : tid, P (get x k) (get y k) = true).
Proof. exact all_keys_iff. Qed.
Print Assumptions c18_all_keys_iff.
Theorem c18_some_key_iff :
  forall (P : option Z -> option Z -> bool) (x y : res), P None None = false -> some_key P x y = true <-> (exists k : tid, P (get x k) (get y k) = true).
Proof. exact some_key_iff. Qed.
Print Assumptions c18_some_key_iff.

(* ---- order independence ---- *)
Theorem c18_Add_perm :
  forall (a a' b : res) (b' : list (tid * Z)), wf b -> Permutation b b' -> same_map a a' -> same_map (Add (Some a) (Some b)) (Add (Some a') (Some b')).
Proof. exact Add_perm. Qed.
Print Assumptions c18_Add_perm.
Theorem c18_Sub_perm :
  forall (a a' b : res) (b' : list (tid * Z)), wf b -> Permutation b b' -> same_map a a' -> same_map (Sub (Some a) (Some b)) (Sub (Some a') (Some b')).
Proof. exact Sub_perm. Qed.
Print Assumptions c18_Sub_perm.
Theorem c18_SubEliminateNegative_perm :
  forall (a a' b : res) (b' : list (tid * Z)), wf b -> Permutation b b' -> same_map a a' -> same_map (SubEliminateNegative (Some a) (Some b)) (SubEliminateNegative (Some a') (Some b')).
Proof. exact SubEliminateNegative_perm. Qed.
Print Assumptions c18_SubEliminateNegative_perm.
Theorem c18_SubOnlyExisting_perm :
  forall a a' b b' : res, same_map a a' -> same_map b b' -> same_map (oget (SubOnlyExisting (Some a) (Some b))) (oget (SubOnlyExisting (Some a') (Some b'))).
Proof. exact SubOnlyExisting_perm. Qed.
Print Assumptions c18_SubOnlyExisting_perm.
Theorem c18_AddOnlyExisting_perm :
  forall a a' b b' : res, same_map a a' -> same_map b b' -> same_map (oget (AddOnlyExisting (Some a) (Some b))) (oget (AddOnlyExisting (Some a') (Some b'))).
Proof. exact AddOnlyExisting_perm. Qed.
Print Assumptions c18_AddOnlyExisting_perm.
Theorem c18_Multiply_perm :
  forall (a a' : res) (ratio : Z), same_map a a' -> same_map (Multiply (Some a) ratio) (Multiply (Some a') ratio).
Proof. exact Multiply_perm. Qed.
Print Assumptions c18_Multiply_perm.
Theorem c18_ComponentWiseMin_perm :
  forall (a : res) (a' : list (tid * Z)) (b : res) (b' : list (tid * Z)), wf a -> wf b -> Permutation a a' -> Permutation b b' -> same_map (cwMin a b) (cwMin a' b').
Proof. exact ComponentWiseMin_perm. Qed.
Print Assumptions c18_ComponentWiseMin_perm.
Theorem c18_ComponentWiseMax_perm :
  forall (a : res) (a' : list (tid * Z)) (b : res) (b' : list (tid * Z)), wf a -> wf b -> Permutation a a' -> Permutation b b' -> same_map (ComponentWiseMax (Some a) (Some b)) (ComponentWiseMax (Some a') (Some b')).
Proof. exact ComponentWiseMax_perm. Qed.
Print Assumptions c18_ComponentWiseMax_perm.
Theorem c18_ComponentWiseMinOnlyExisting_perm :
  forall a a' b b' : res, same_map a a' -> same_map b b' -> same_map (oget (ComponentWiseMinOnlyExisting (Some a) (Some b))) (oget (ComponentWiseMinOnlyExisting (Some a') (Some b'))).
Proof. exact ComponentWiseMinOnlyExisting_perm. Qed.
Print Assumptions c18_ComponentWiseMinOnlyExisting_perm.
Theorem c18_MergeIfNotPresent_perm :
  forall (a a' b : res) (b' : list (tid * Z)), wf b -> Permutation b b' -> same_map a a' -> same_map (oget (MergeIfNotPresent (Some a) (Some b))) (oget (MergeIfNotPresent (Some a') (Some b'))).
Proof. exact MergeIfNotPresent_perm. Qed.
Print Assumptions c18_MergeIfNotPresent_perm.
Theorem c18_perm_same_map :
  forall (a : res) (a' : list (tid * Z)), wf a -> Permutation a a' -> same_map a a'.
Proof. exact perm_same_map. Qed.
Print Assumptions c18_perm_same_map.
Theorem c18_fitIn_perm :
  forall (a a' b b' : res) (skip actual : bool), wf a -> wf b -> Permutation a a' -> Permutation b b' -> fitIn (Some a) (Some b) skip actual = fitIn (Some a') (Some b') skip actual.
Proof. exact fitIn_perm. Qed.
Print Assumptions c18_fitIn_perm.
Theorem c18_StrictlyGreaterThan_perm :
  forall a a' b b' : res, wf a -> wf b -> Permutation a a' -> Permutation b b' -> StrictlyGreaterThan (Some a) (Some b) = StrictlyGreaterThan (Some a') (Some b').
Proof. exact StrictlyGreaterThan_perm. Qed.
Print Assumptions c18_StrictlyGreaterThan_perm.
Theorem c18_StrictlyGreaterThanOrEquals_perm :
  forall a a' b b' : res, wf a -> wf b -> Permutation a a' -> Permutation b b' -> StrictlyGreaterThanOrEquals (Some a) (Some b) = StrictlyGreaterThanOrEquals (Some a') (Some b').
Proof. exact StrictlyGreaterThanOrEquals_perm. Qed.
Print Assumptions c18_StrictlyGreaterThanOrEquals_perm.
Theorem c18_sgtOnly_perm :
  forall (a a' b b' : res) (eq0 : bool), wf a -> wf b -> Permutation a a' -> Permutation b b' -> internalStrictlyOnlyExisting (Some a) (Some b) eq0 = internalStrictlyOnlyExisting (Some a') (Some b') eq0.
Proof. exact sgtOnly_perm. Qed.
Print Assumptions c18_sgtOnly_perm.
Theorem c18_Equals_perm :
  forall a a' b b' : res, wf a -> wf b -> Permutation a a' -> Permutation b b' -> Equals (Some a) (Some b) = Equals (Some a') (Some b').
Proof. exact Equals_perm. Qed.
Print Assumptions c18_Equals_perm.
Theorem c18_DeepEquals_perm :
  forall a a' b b' : res, wf a -> wf b -> Permutation a a' -> Permutation b b' -> DeepEquals (Some a) (Some b) = DeepEquals (Some a') (Some b').
Proof. exact DeepEquals_perm. Qed.
Print Assumptions c18_DeepEquals_perm.
Theorem c18_EqualsOrEmpty_perm :
  forall a a' b b' : res, wf a -> wf b -> Permutation a a' -> Permutation b b' -> EqualsOrEmpty (Some a) (Some b) = EqualsOrEmpty (Some a') (Some b').
Proof. exact EqualsOrEmpty_perm. Qed.
Print Assumptions c18_EqualsOrEmpty_perm.
Theorem c18_MatchAny_perm :
  forall a a' b b' : res, wf a -> wf b -> Permutation a a' -> Permutation b b' -> MatchAny (Some a) (Some b) = MatchAny (Some a') (Some b').
Proof. exact MatchAny_perm. Qed.
Print Assumptions c18_MatchAny_perm.
Theorem c18_IsZero_perm :
  forall a a' : res, Permutation a a' -> IsZero (Some a) = IsZero (Some a').
Proof. exact IsZero_perm. Qed.
Print Assumptions c18_IsZero_perm.
Theorem c18_HasNegativeValue_perm :
  forall a a' : res, Permutation a a' -> HasNegativeValue (Some a) = HasNegativeValue (Some a').
Proof. exact HasNegativeValue_perm. Qed.
Print Assumptions c18_HasNegativeValue_perm.
Theorem c18_StrictlyGreaterThanZero_perm :
  forall a a' : res, Permutation a a' -> StrictlyGreaterThanZero (Some a) = StrictlyGreaterThanZero (Some a').
Proof. exact StrictlyGreaterThanZero_perm. Qed.
Print Assumptions c18_StrictlyGreaterThanZero_perm.

(* ---- nil arguments ---- *)
Theorem c18_nil_as_empty_vectors :
  forall l r : ores, Add l r = Add (Some (oget l)) (Some (oget r)) /\ Sub l r = Sub (Some (oget l)) (Some (oget r)) /\ SubEliminateNegative l r = SubEliminateNegative (Some (oget l)) (Some (oget r)) /\ SubErrorNegative l r = SubErrorNegative (Some (oget l)) (Some (oget r)).
Proof. exact nil_as_empty_vectors. Qed.
Print Assumptions c18_nil_as_empty_vectors.
Theorem c18_nil_results :
  (forall r : Z, Multiply None r = []) /\ (forall r : f64, MultiplyBy None r = []) /\ (forall r : ores, AddTo None r = None) /\ (forall r : ores, SubFrom None r = None) /\ (forall l : ores, AddTo l None = l) /\ (forall l : ores, SubFrom l None = l) /\ (forall d : ores, SubOnlyExisting None d = None) /\ (forall b : ores, SubOnlyExisting b None = b) /\ (forall d : ores, AddOnlyExisting None d = None) /\ (forall b : ores, AddOnlyExisting b None = b) /\ (forall r : ores, ComponentWiseMin None r = r) /\ (forall l : ores, ComponentWiseMin l None = l) /\ (forall r : ores, ComponentWiseMinOnlyExisting None r = None) /\ (forall l : ores, ComponentWiseMinOnlyExisting l None = l) /\ (forall r : ores, ComponentWiseMax None r = []) /\ (forall l : ores, ComponentWiseMax l None = []) /\ (forall r : ores, MergeIfNotPresent None r = r) /\ (forall l : ores, MergeIfNotPresent l None = l).
Proof. exact nil_results. Qed.
Print Assumptions c18_nil_results.
Theorem c18_nil_as_empty_predicates :
  forall (r s : ores) (sk ac : bool), fitIn r s sk ac = fitIn (Some (oget r)) (Some (oget s)) sk ac /\ StrictlyGreaterThan r s = StrictlyGreaterThan (Some (oget r)) (Some (oget s)) /\ StrictlyGreaterThanOrEquals r s = StrictlyGreaterThanOrEquals (Some (oget r)) (Some (oget s)) /\ (forall e : bool, internalStrictlyOnlyExisting r s e = internalStrictlyOnlyExisting (Some (oget r)) (Some (oget s)) e) /\ IsZero r = IsZero (Some (oget r)) /\ IsEmpty r = IsEmpty (Some (oget r)) /\ HasNegativeValue r = HasNegativeValue (Some (oget r)).
Proof. exact nil_as_empty_predicates. Qed.
Print Assumptions c18_nil_as_empty_predicates.

(* ---- quantity parsing ---- *)
Theorem c18_generated_regexp_matches :
  Quantity.legal_regexp = legal_src.
Proof. exact generated_regexp_matches. Qed.
Print Assumptions c18_generated_regexp_matches.
Theorem c18_generated_table_matches :
  Quantity.multipliers = mult_table.
Proof. exact generated_table_matches. Qed.
Print Assumptions c18_generated_table_matches.
Theorem c18_trim_space_sub :
  forall s : list N, exists pre post : list N, s = pre ++ trim_space s ++ post.
Proof. exact trim_space_sub. Qed.
Print Assumptions c18_trim_space_sub.
Theorem c18_entry_value_spec :
  forall (t : list N) (milli : bool) (suf : list N) (scale v : Z), entry_value t milli (suf, scale) = Some v <-> (exists num ws : list N, t = num ++ ws ++ suf /\ num <> [] /\ forallb is_digit num = true /\ forallb is_re_space ws = true /\ (is_m suf = true -> milli = true) /\ v = digits_val num * scale * (if milli && negb (is_m suf) then 1000 else 1) /\ in_range v).
Proof. exact entry_value_spec. Qed.
Print Assumptions c18_entry_value_spec.
Theorem c18_parse_exact :
  forall (s : list N) (milli : bool) (v : Z), parse s milli = POk v -> is_quantity (trim_space s) milli v.
Proof. exact parse_exact. Qed.
Print Assumptions c18_parse_exact.
Theorem c18_parse_total_error :
  forall (s : list N) (milli : bool) (c : Z), parse s milli = PErr c -> no_quantity (trim_space s) milli.
Proof. exact parse_total_error. Qed.
Print Assumptions c18_parse_total_error.
Theorem c18_parse_complete :
  forall (s : list N) (milli : bool) (v : Z), is_quantity (trim_space s) milli v -> parse s milli = POk v.
Proof. exact parse_complete. Qed.
Print Assumptions c18_parse_complete.
Theorem c18_parse_in_range :
  forall (s : list N) (milli : bool) (v : Z), parse s milli = POk v -> in_range v.
Proof. exact parse_in_range. Qed.
Print Assumptions c18_parse_in_range.
Theorem c18_parse_error_codes :
  forall (s : list N) (milli : bool) (c : Z), parse s milli = PErr c -> c = 1 \/ c = 2 \/ c = 3.
Proof. exact parse_error_codes. Qed.
Print Assumptions c18_parse_error_codes.
Theorem c18_is_quantity_b_iff :
  forall (t : list N) (milli : bool) (v : Z), is_quantity_b t milli v = true <-> is_quantity t milli v.
Proof. exact is_quantity_b_iff. Qed.
Print Assumptions c18_is_quantity_b_iff.
Theorem c18_no_quantity_b_iff :
  forall (t : list N) (milli : bool), no_quantity_b t milli = true <-> no_quantity t milli.
Proof. exact no_quantity_b_iff. Qed.
Print Assumptions c18_no_quantity_b_iff.
