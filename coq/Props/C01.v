(* Property C01 - the scheduler never over-commits a node.
   Only statements; proofs are in Core/NodeProofs.v, Core/StepProofs.v (examples: Core/LedgerExamples.v).
   Model: Core/Model.v (operational model over the observation records of Core/Obs.v, validated against the real
   scheduler by the correspondence run); predicates: Core/Ledger.v (the SAME boolean functions the oracle
   Oracles/CoreC01.v evaluates on the implementation's observations). *)
From Coq Require Import List ZArith NArith Bool.
From YK Require Import Base.Res Base.ResSpec Core.Obs Core.Model Core.Ledger Core.NodeProofs Core.QueueProofs Core.StepProofs
  Core.LedgerExamples Oracles.CoreC01.
Import ListNotations.
Open Scope Z_scope.

(* 1. the oracle predicate says what it should: allocated = sum of the listed allocations, occupied = sum of the
   listed foreign allocations, available = total - allocated - occupied, as functions of the resource type *)
Theorem c01_node_ledger_reflect : forall n, node_ledger_ok n = true <-> NodeLedger n.
Proof. exact node_ledger_reflect. Qed.
Print Assumptions c01_node_ledger_reflect.

Theorem c01_res_is_sum_spec : forall r l, res_is_sum r l = true <-> forall k, getz r k = sumz l k.
Proof. exact res_is_sum_spec. Qed.
Print Assumptions c01_res_is_sum_spec.

(* 2. every node operation preserves the ledger *)
Theorem c01_n_add_ledger : forall n x force n',
  n_add n x force = Some n' -> NodeLedger n -> NodeWF n -> NodeSmall n -> wf (oa_res x) -> rsmall (oa_res x) ->
  ~ In (oa_key x) (akeys (alloc_list_of n x)) -> NodeLedger n'.
Proof. exact n_add_ledger. Qed.
Print Assumptions c01_n_add_ledger.

Theorem c01_n_remove_ledger : forall n key, NodeLedger n -> NodeWF n -> NodeSmall n -> NodeLedger (n_remove n key).
Proof. exact n_remove_ledger. Qed.
Print Assumptions c01_n_remove_ledger.

Theorem c01_n_set_capacity_ledger : forall n cap, NodeLedger n -> NodeWF n -> NodeSmall n -> wf cap -> rsmall cap ->
  NodeLedger (fst (n_set_capacity n cap)).
Proof. exact n_set_capacity_ledger. Qed.
Print Assumptions c01_n_set_capacity_ledger.

Theorem c01_n_update_alloc_ledger : forall n key newres delta old,
  NodeLedger n -> NodeWF n -> NodeSmall n -> find_alloc (on_allocs n) key = Some old ->
  wf delta -> rsmall delta -> (forall k, getz delta k = getz newres k - getz (oa_res old) k) ->
  NodeLedger (n_update_alloc n key newres delta).
Proof. exact n_update_alloc_ledger. Qed.
Print Assumptions c01_n_update_alloc_ledger.

Theorem c01_n_update_foreign_ledger : forall n x old,
  NodeLedger n -> NodeWF n -> NodeSmall n -> find_alloc (on_foreign n) (oa_key x) = Some old ->
  wf (oa_res x) -> rsmall (oa_res x) -> NodeLedger (n_update_foreign n x).
Proof. exact n_update_foreign_ledger. Qed.
Print Assumptions c01_n_update_foreign_ledger.

(* recorded known finding C01-foreign-moved: updating a foreign allocation the node does not list breaks the ledger *)
Theorem c01_n_update_foreign_unknown_refuted :
  exists n x, node_ledger_ok n = true /\ find_alloc (on_foreign n) (oa_key x) = None /\ wf (oa_res x) /\ rsmall (oa_res x) /\
              node_ledger_ok (n_update_foreign n x) = false.
Proof. exact n_update_foreign_unknown_refuted. Qed.
Print Assumptions c01_n_update_foreign_unknown_refuted.

(* 3. the scheduler's own (unforced) binding fits capacity - occupied - allocated *)
Theorem c01_n_add_fits : forall n x n', n_add n x false = Some n' -> NodeLedger n -> fits_free n (oa_res x) = true.
Proof. exact n_add_fits. Qed.
Print Assumptions c01_n_add_fits.

(* 4. every scheduling decision the model accepts passes all binding checks of the property on the pre-state:
   registered node, fits, not reserved for another ask, required node respected, predicate accepted, schedulable *)
Theorem c01_sched_bind_safe : forall deny s a k nid s',
  m_sched_alloc deny s a k nid = Some s' -> find_app s (ap_id a) = Some a ->
  (forall n, In n (s_nodes s) -> NodeLedger n) ->
  exists ask, find_ask s (ap_id a) k = Some ask /\
              bind_check deny s (ap_id a) k nid (oa_res ask) (oa_reqnode ask) = BindOk.
Proof. exact sched_bind_safe. Qed.
Print Assumptions c01_sched_bind_safe.

(* 5. the ledger is an invariant of every step the model covers (the foreign update of an allocation the named node
   does not list is excluded by [foreign_update_known], part of [step_ok]) and holds in every state a run reaches *)
Theorem c01_m_step_nodes_ledger : forall deny s st s',
  nodes_ledger_ok s = true -> (forall n, In n (s_nodes s) -> NodeWF n) -> reqs_from req_ok s -> Bounded s -> step_ok s st ->
  m_step deny s st = Some s' -> nodes_ledger_ok s' = true.
Proof. exact m_step_nodes_ledger. Qed.
Print Assumptions c01_m_step_nodes_ledger.

Theorem c01_m_step_inv : forall deny s st s', m_step deny s st = Some s' -> SInv s -> Bounded s -> step_ok s st -> SInv s'.
Proof. exact m_step_inv. Qed.
Print Assumptions c01_m_step_inv.

Theorem c01_m_run_nodes_ledger : forall deny steps s, SInv s -> run_ok deny s steps ->
  forall s', In s' (m_run deny s steps) -> nodes_ledger_ok s' = true.
Proof. exact m_run_nodes_ledger. Qed.
Print Assumptions c01_m_run_nodes_ledger.

(* the hypotheses hold on a concrete nine-step run (scheduling, release, capacity update, foreign add / update /
   removal, node addition, new ask, forced recovered allocation) *)
Theorem c01_run_hyps_satisfiable : SInv ex_state /\ run_ok [] ex_state ex_steps /\ length (m_run [] ex_state ex_steps) = 9%nat.
Proof. exact ex_run_hyps. Qed.
Print Assumptions c01_run_hyps_satisfiable.

(* 6. a negative available entry appears only in a forced change (RM-placed allocation, capacity update) *)
Theorem c01_negative_only_forced : forall deny s st s',
  m_step deny s st = Some s' -> SInv s -> Bounded s -> allocs_nonneg s ->
  match st_op st with OpNodeAdd _ cap _ => wf cap /\ res_nonnegP cap | _ => True end ->
  forced_node_change (st_op st) = false -> no_negative s -> no_negative s'.
Proof. exact negative_only_forced. Qed.
Print Assumptions c01_negative_only_forced.

(* necessity of two hypotheses (witnesses by computation) *)
Theorem c01_negative_only_forced_without_nonneg_refuted :
  exists s st s', m_step [] s st = Some s' /\ SInv s /\ Bounded s /\ forced_node_change (st_op st) = false /\
                  no_negative s /\ ~ no_negative s'.
Proof. exact negative_only_forced_without_nonneg_refuted. Qed.
Print Assumptions c01_negative_only_forced_without_nonneg_refuted.

Theorem c01_n_add_existing_key_refuted :
  exists n x n', node_ledger_ok n = true /\ n_add n x false = Some n' /\ node_ledger_ok n' = false.
Proof. exact n_add_existing_key_refuted. Qed.
Print Assumptions c01_n_add_existing_key_refuted.
