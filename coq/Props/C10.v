(* Property C10 - applications follow the documented life cycle.
   Only statements; proofs are in Core/AppLifeProofs.v (and Core/AppEventsProofs.v).
   Model: Core/AppLife.v over the transition table Generated/AppFsm.v, which the translator
   harness/extract_fsm.go writes on every run by exhaustively enumerating the real fsm object.
   The oracle (Oracles/CoreC10.v) evaluates the same relation `documented` on the observed state logs and
   UpdatedApplication streams of the implementation. *)
From Coq Require Import List NArith Bool.
From YK Require Import Core.Obs Generated.AppFsm Core.AppLife Core.AppLifeProofs.
Import ListNotations.
Open Scope N_scope.

(* 1. Every transition of the real state machine (all 10 states x 6 events) that changes the state is a documented
   move, and every documented move is produced by some event. A change of eventDesc() in /repo changes the
   generated table and breaks this obligation. *)
Theorem c10_fsm_documented :
  (forall s e d, In (s, e, d) app_fsm_table -> s = d \/ documented s d = true) /\
  (forall a b, documented a b = true -> exists e, In (a, e, b) app_fsm_table).
Proof. exact fsm_documented. Qed.
Print Assumptions c10_fsm_documented.

(* 2. HandleApplicationEvent (looplab semantics: invalid event and same-state event leave the state and the log
   unchanged): one event either leaves the state alone or makes a documented move. *)
Theorem c10_handle_event_documented : forall s e,
  match handle_event s e with
  | (d, Moved) => documented s d = true /\ d <> s
  | (d, _) => d = s
  end.
Proof. exact handle_event_documented. Qed.
Print Assumptions c10_handle_event_documented.

(* 3. For EVERY sequence of events raised on an application from New (whatever the ~15 call sites do): consecutive
   distinct states are documented moves, the state log (one entry per real move) is a chain of documented moves
   from New, and the reported state is the last log entry. *)
Theorem c10_trace_documented : forall es,
  chain_ok ST_New (visited ST_New es) = true /\
  chain_strict ST_New (al_log (al_run al_init es)) = true /\
  al_state (al_run al_init es) = last (al_log (al_run al_init es)) ST_New.
Proof. exact trace_documented. Qed.
Print Assumptions c10_trace_documented.

(* 4. Terminal states: nothing leaves Expired; Rejected, Completed and Failed only move to Expired. *)
Theorem c10_terminal_only_expires : forall s e,
  is_terminal s = true -> let d := fst (handle_event s e) in d = s \/ (d = ST_Expired /\ s <> ST_Expired).
Proof. exact terminal_only_expires. Qed.
Print Assumptions c10_terminal_only_expires.
