(* Property C10 - applications follow the documented life cycle.
   Only statements; proofs are in Core/AppLifeProofs.v (and Core/AppEventsProofs.v).
   Model: Core/AppLife.v over the transition table Generated/AppFsm.v, which the translator
   harness/extract_fsm.go writes on every run by exhaustively enumerating the real fsm object.
   The oracle (Oracles/CoreC10.v) evaluates the same relation `documented` on the observed state logs and
   UpdatedApplication streams of the implementation. *)
From Coq Require Import List NArith Bool.
From YK Require Import Base.Res Core.Obs Generated.AppFsm Core.AppLife Core.AppLifeProofs Core.AppEvents Core.AppEventsProofs.
Import ListNotations.
Open Scope N_scope.

(* 1. Every transition of the real state machine (all 10 states x 6 events) that changes the state is a documented
   move, and every documented move is produced by some event. A change of eventDesc() in /repo changes the
   generated table and breaks this obligation. *)
Theorem c10_fsm_documented :
  (forall s e d, In (s, e, d) app_fsm_table -> s = d \/ documented s d = true) /\
  (forall a b, documented a b = true -> exists e, In (a, e, b) app_fsm_table).
Proof. exact fsm_documented. Qed.
Print Assumptions c10_fsm_documented.

(* 2. HandleApplicationEvent (looplab semantics: invalid event and same-state event leave the state and the log
   unchanged): one event either leaves the state alone or makes a documented move. *)
Theorem c10_handle_event_documented : forall s e,
  match handle_event s e with
  | (d, Moved) => documented s d = true /\ d <> s
  | (d, _) => d = s
  end.
Proof. exact handle_event_documented. Qed.
Print Assumptions c10_handle_event_documented.

(* 3. For EVERY sequence of events raised on an application from New (whatever the ~15 call sites do): consecutive
   distinct states are documented moves, the state log (one entry per real move) is a chain of documented moves
   from New, and the reported state is the last log entry. *)
Theorem c10_trace_documented : forall es,
  chain_ok ST_New (visited ST_New es) = true /\
  chain_strict ST_New (al_log (al_run al_init es)) = true /\
  al_state (al_run al_init es) = last (al_log (al_run al_init es)) ST_New.
Proof. exact trace_documented. Qed.
Print Assumptions c10_trace_documented.

(* 4. Terminal states: nothing leaves Expired; Rejected, Completed and Failed only move to Expired. *)
Theorem c10_terminal_only_expires : forall s e,
  is_terminal s = true -> let d := fst (handle_event s e) in d = s \/ (d = ST_Expired /\ s <> ST_Expired).
Proof. exact terminal_only_expires. Qed.
Print Assumptions c10_terminal_only_expires.

(* 5. Release path (removeAllocation for one key: removeAllocationInternal, ReplaceAllocation + addAllocationInternal,
   removeAsksInternal; model Core/AppEvents.v, compared with the implementation after every single-key release,
   kind 1091): whatever it does to the state is a sequence of documented moves. *)
Theorem c10_release_documented : forall r key ty, dstar (rs_state r) (rs_state (release_key r key ty)).
Proof. exact release_documented. Qed.
Print Assumptions c10_release_documented.

(* 6. "An application with live real allocations is never Completed" - completed_clean.
   Refuted by the faithful model with a placeholder swap in flight (recorded finding C10-completed-live-alloc, replayed
   on the real code by corpus/core_c10.json case 0): Completing, completing timer cleared, the shim confirms the
   placeholder -> Completed, and the real allocation is added afterwards. *)
Theorem c10_completed_clean_refuted :
  let r := release_key w13 7 TT_PlaceholderReplaced in
  rs_state w13 = ST_Completing /\ rs_state r = ST_Completed /\ existsb (fun x => negb (oa_ph x)) (rs_allocs r) = true /\
  zero (rs_allocated r) = false.
Proof. exact completed_clean_refuted. Qed.
Print Assumptions c10_completed_clean_refuted.

(* Proved part (completed_clean_partial): without a swap in flight a release that takes the application to Completed
   leaves no real allocation booked, given the ledger invariant of the Completing state. Missing for the full clause:
   the other writers of the state and the link ledger <-> allocation list (see Core/AppEventsProofs.v). *)
Theorem c10_completed_clean_partial : forall r key ty,
  (rs_state r = ST_Completing -> zero (rs_allocated r) = true) ->
  (forall x, find_alloc (rs_allocs r) key = Some x -> (ty =? TT_PlaceholderReplaced) && negb (oa_release x =? 0) = false) ->
  rs_state r <> ST_Completed ->
  rs_state (release_key r key ty) = ST_Completed ->
  zero (rs_allocated (release_key r key ty)) = true.
Proof. exact completed_clean_partial. Qed.
Print Assumptions c10_completed_clean_partial.
