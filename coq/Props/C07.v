(* C07 — only eligible allocations are ever chosen as preemption victims.  Property theorems only; the proofs are
   in Preempt/VictimsProofs.v and Preempt/HistoryProofs.v, the predicates in Preempt/Spec.v. *)
From Coq Require Import List ZArith NArith Bool.
From YK Require Import Base.Res Preempt.Snapshot Preempt.Victims Preempt.ReqNode Preempt.Quota Preempt.Spec Preempt.History
  Preempt.VictimsProofs Preempt.HistoryProofs.
Import ListNotations.

(* every allocation in the potential-victim set of FindEligiblePreemptionVictims is a bound allocation of the world,
   not released, not preempted, without required node, in another leaf queue inside the asker's preemption fence
   whose preemption policy is not disabled, shares a resource type with the ask and does not outrank it unless a
   priority fence applies *)
Theorem victim_eligible : forall w pv qid vs a,
  wf_world w = true -> findVictims w = Some pv -> In (qid, vs) pv -> In a vs ->
  In a (w_allocs w) /\ a_queue a = qid /\ queue_victim_eligible w a = true.
Proof. exact potential_victim_eligible. Qed.
Print Assumptions victim_eligible.

(* ... hence every victim of any outcome the model admits, and the asker satisfied CheckPreconditions (allowed to
   preempt others, did not trigger before, no required node, waited the delay of its queue) *)
Theorem victim_eligible_admitted : forall w o,
  wf_world w = true -> admits w o = true -> o_ok o = true ->
  asker_ok w = true /\
  forall k, In k (o_victims o) -> exists a, find_alloc (w_allocs w) k = Some a /\ queue_victim_eligible w a = true.
Proof. exact admitted_victims_eligible. Qed.
Print Assumptions victim_eligible_admitted.

Theorem asker_triggers_at_most_once : forall w o, o_ok o = true -> checkPreconditions (apply_outcome w o) = false.
Proof. exact triggers_at_most_once. Qed.
Print Assumptions asker_triggers_at_most_once.

(* required node preemption: victims are bound allocations on that node which do not outrank the ask *)
Theorem victim_eligible_reqnode : forall w nid order o k,
  wf_world w = true -> rn_try w nid order = Some o -> In k (o_victims o) ->
  exists a, find_alloc (w_allocs w) k = Some a /\ reqnode_victim_eligible w nid a = true.
Proof. exact reqnode_outcome_eligible. Qed.
Print Assumptions victim_eligible_reqnode.

(* quota preemption: candidates are bound allocations of the queue, not released, not preempted, no required node *)
Theorem victim_eligible_quota : forall w q p a,
  In a (quota_filter w q p) -> In a (w_allocs w) /\ a_queue a = q_id q /\ victim_base_ok a = true.
Proof. exact quota_victim_ok. Qed.
Print Assumptions victim_eligible_quota.

(* over any valid history (attempts of successive asks, required node / quota marks, releases) no allocation is
   named in two release requests *)
Theorem announced_once : forall h w anns, run_history w h = Some anns -> NoDup (concat anns).
Proof. exact announced_at_most_once. Qed.
Print Assumptions announced_once.
