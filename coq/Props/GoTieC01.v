(* C01 — node capacity: the generated Node.refreshAvailableResource / CanAllocate / FitInNode and the ledger parts of addAllocationInternal / RemoveAllocation / ReplaceAllocation equal Core/Model.v (n_refresh, n_add, n_remove), Core/Model3.v (n_replace).
   Tie theorems between the Gallina definitions GENERATED from /repo's current Go source by harness/gotrans*.go
   (coq/Generated/Go*.v, rewritten on every run) and the hand-written model the theorems of C01 are about.
   Only statements; proofs: Core/GoTieC01. A semantically relevant edit of a translated Go function changes its generated
   definition and the theorem below that mentions it stops compiling (a broken proof obligation of C01).
   This file imports only tie proofs of C01 (plus the shared representation / resource-operation ties its functions
   really call). Written by the script in notes/gotrans.md (statements printed by Coq). *)
From Coq Require Import String List ZArith NArith Bool.
From YK Require Import Base.Int64 Base.F64 Base.Res Base.ResMore Base.ResSpec Core.Obs Core.Model Core.Model3
  Generated.GoPrelude Base.GoTieLib Base.GoTieRep Core.GoTieC01.
(* the generated modules are not imported: their definitions appear qualified (GoResources.addVal ...) *)
From YK Require Generated.GoResources Generated.GoObjects.
Import ListNotations.

Theorem c01_gotie_refreshAvailableResource :
    forall (sn : GoObjects.Node) (n : onode),
    n_rep sn n ->
    wf (on_total n) ->
    exists sn' : GoObjects.Node,
    GoObjects.refreshAvailableResource sn = GOk sn' /\ n_rep sn' (n_refresh n).
Proof. exact GoTieC01.gotie_refreshAvailableResource. Qed.
Print Assumptions c01_gotie_refreshAvailableResource.

Theorem c01_gotie_CanAllocate :
    forall (sn : GoObjects.Node) (n : onode) (r : ores),
    n_rep sn n -> GoObjects.CanAllocate sn (toR r) = GOk (FitIn (Some (on_available n)) r).
Proof. exact GoTieC01.gotie_CanAllocate. Qed.
Print Assumptions c01_gotie_CanAllocate.

Theorem c01_gotie_FitInNode :
    forall (sn : GoObjects.Node) (n : onode) (r : ores),
    n_rep sn n -> GoObjects.FitInNode sn (toR r) = GOk (FitIn (Some (on_total n)) r).
Proof. exact GoTieC01.gotie_FitInNode. Qed.
Print Assumptions c01_gotie_FitInNode.

Theorem c01_gotie_IsSchedulable :
    forall (sn : GoObjects.Node) (n : onode), n_rep sn n -> GoObjects.IsSchedulable sn = on_sched n.
Proof. exact GoTieC01.gotie_IsSchedulable. Qed.
Print Assumptions c01_gotie_IsSchedulable.

Theorem c01_gotie_IsReserved :
    forall sn : GoObjects.Node,
    GoObjects.IsReserved sn = negb (Datatypes.length (GoObjects.Node_reservations sn) =? 0)%nat.
Proof. exact GoTieC01.gotie_IsReserved. Qed.
Print Assumptions c01_gotie_IsReserved.

Theorem c01_gotie_addAllocation_ledger :
    forall (sn : GoObjects.Node) (n : onode) (a : GoObjects.Allocation) (x : oalloc) (force res0 : bool),
    n_rep sn n ->
    wf (on_available n) ->
    wf (on_occupied n) ->
    GoObjects.Allocation_allocatedResource a = Some (mkR (oa_res x)) ->
    exists (sn' : GoObjects.Node) (b : bool),
    GoObjects.addAllocationInternal_frag sn (Some a) force res0 (oa_foreign x) = GOk (sn', b) /\
    match n_add n x force with
    | Some n' => b = true /\ n_rep sn' n'
    | None => b = false /\ sn' = sn
    end.
Proof. exact GoTieC01.gotie_addAllocation_ledger. Qed.
Print Assumptions c01_gotie_addAllocation_ledger.

Theorem c01_gotie_removeAllocation_ledger :
    forall (sn : GoObjects.Node) (n : onode) (key : N) (a : GoObjects.Allocation)
    (r : res) (alloc0 : option GoObjects.Allocation),
    n_rep sn n ->
    wf (on_allocated n) ->
    wf (on_occupied n) ->
    mget (GoObjects.Node_allocations sn) key = Some (Some a) ->
    GoObjects.Allocation_allocatedResource a = Some (mkR r) ->
    exists sn' : GoObjects.Node,
    GoObjects.RemoveAllocation_frag sn key alloc0 = GOk (sn', Some a) /\
    n_rep sn' (n_removed n (GoObjects.Allocation_foreign a) r).
Proof. exact GoTieC01.gotie_removeAllocation_ledger. Qed.
Print Assumptions c01_gotie_removeAllocation_ledger.

Theorem c01_gotie_removeAllocation_model :
    forall (n : onode) (k : N) (x : oalloc),
    (find_alloc (on_allocs n) k = Some x -> n_rep_eq (n_remove n k) (n_removed n false (oa_res x))) /\
    (find_alloc (on_allocs n) k = None ->
    find_alloc (on_foreign n) k = Some x -> n_rep_eq (n_remove n k) (n_removed n true (oa_res x))).
Proof. exact GoTieC01.gotie_removeAllocation_model. Qed.
Print Assumptions c01_gotie_removeAllocation_model.

Theorem c01_gotie_removeAllocation_missing :
    forall (sn : GoObjects.Node) (key : N) (alloc0 : option GoObjects.Allocation),
    mget0 None (GoObjects.Node_allocations sn) key = None ->
    GoObjects.RemoveAllocation_frag sn key alloc0 = GOk (sn, None).
Proof. exact GoTieC01.gotie_removeAllocation_missing. Qed.
Print Assumptions c01_gotie_removeAllocation_missing.

Theorem c01_gotie_replaceAllocation_ledger :
    forall (sn : GoObjects.Node) (n : onode) (delta : res),
    n_rep sn n ->
    wf (on_allocated n) ->
    wf (on_available n) ->
    exists (sn' : GoObjects.Node) (before : option GoResources.Resource),
    GoObjects.ReplaceAllocation_frag sn (Some (mkR delta)) = GOk (sn', before) /\
    (forall (k : N) (x : oalloc) (n' : onode), n_replace n k x delta = Some n' -> n_rep sn' n').
Proof. exact GoTieC01.gotie_replaceAllocation_ledger. Qed.
Print Assumptions c01_gotie_replaceAllocation_ledger.
