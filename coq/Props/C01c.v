(* Property C01 - the scheduler never over-commits a node - over the GANG fragment of the operational model
   (Core/Model3.v, [m_step_gang] / [m_step3]: gang application add, placeholder asks, recovered / updated / RM-placed
   placeholders, placeholder scheduling, cancelled placeholders, start and confirmation of a placeholder replacement on
   the same or another node, placeholder and state timers, releases incl. the empty key, application and node removal
   with placeholders / in-flight replacements).  Only statements; proofs are in Core/Model3ProofsN1.v .. N5.v.
   Invariants ([SInv], [Bounded], [NodeLedger] ...) are those of Props/C01.v / Core/StepProofs.v, [step_ok2] is that of
   Props/C01b.v, [step_ok3] (Core/Model3ProofsN2.v) adds the hypotheses of the gang steps. *)
From Coq Require Import List ZArith NArith Bool.
From YK Require Import Base.Res Base.ResSpec Core.Obs Core.Model Core.Model2 Core.Ledger Core.Model3 Core.NodeProofs Core.QueueProofs
  Core.StepProofs Core.LedgerExamples Core.Model2ProofsN Core.Model2ProofsNEx Core.Model3ProofsN1 Core.Model3ProofsN2 Core.Model3ProofsN3
  Core.Model3ProofsN4 Core.Model3ProofsN5 Oracles.CoreC01.
Import ListNotations.
Open Scope Z_scope.

(* 1. Node.ReplaceAllocation keeps the node ledger (delta = replacement - listed placeholder, as functions) *)
Theorem c01c_n_replace_ledger : forall n k x delta old n',
  n_replace n k x delta = Some n' -> NodeLedger n -> NodeWF n -> NodeSmall n ->
  find_alloc (on_allocs n) k = Some old -> wf (oa_res x) -> rsmall (oa_res x) ->
  (oa_key x = k \/ ~ In (oa_key x) (akeys (on_allocs n))) ->
  wf delta -> (forall t, getz delta t = getz (oa_res x) t - getz (oa_res old) t) ->
  NodeLedger n'.
Proof. exact n_replace_ledger. Qed.
Print Assumptions c01c_n_replace_ledger.

Theorem c01c_n_replace_wf : forall n k x delta n', n_replace n k x delta = Some n' -> NodeWF n -> wf (oa_res x) -> NodeWF n'.
Proof. exact n_replace_wf. Qed.
Print Assumptions c01c_n_replace_wf.

(* the delta the partition passes: Sub(real, placeholder copy of the application), not pruned *)
Theorem c01c_n_replace_sub_ledger : forall n k real ph old n',
  n_replace n k real (Sub (Some (oa_res real)) (Some (oa_res ph))) = Some n' -> NodeLedger n -> NodeWF n -> NodeSmall n ->
  find_alloc (on_allocs n) k = Some old -> oa_res old = oa_res ph -> wf (oa_res real) -> rsmall (oa_res real) ->
  (oa_key real = k \/ ~ In (oa_key real) (akeys (on_allocs n))) ->
  NodeLedger n' /\ NodeWF n'.
Proof. exact n_replace_sub_ledger. Qed.
Print Assumptions c01c_n_replace_sub_ledger.

(* 2. a change of flags / link / node id of the shared Allocation object preserves everything *)
Theorem c01c_obj_upd_sinv : forall s app k f, flagf f -> SInv s -> SInv (obj_upd s app k f).
Proof. exact obj_upd_sinv. Qed.
Print Assumptions c01c_obj_upd_sinv.
Theorem c01c_obj_upd_bounded : forall s app k f, flagf f -> Bounded s -> Bounded (obj_upd s app k f).
Proof. exact obj_upd_bounded. Qed.
Print Assumptions c01c_obj_upd_bounded.

(* 3. every step of the gang fragment preserves the node ledger and the auxiliary node invariants *)
Theorem c01c_m_step_gang_inv : forall deny s st s',
  m_step_gang deny s st = Some s' -> SInv s -> Bounded s -> step_ok3 s st -> SInv s'.
Proof. exact m_step_gang_inv. Qed.
Print Assumptions c01c_m_step_gang_inv.

Theorem c01c_m_step3_inv : forall deny s st s',
  m_step3 deny s st = Some s' -> SInv s -> Bounded s -> step_ok2 s st -> step_ok3 s st -> SInv s'.
Proof. exact m_step3_inv. Qed.
Print Assumptions c01c_m_step3_inv.

Theorem c01c_m_step3_nodes_ledger : forall deny s st s',
  nodes_ledger_ok s = true -> (forall n, In n (s_nodes s) -> NodeWF n) -> reqs_from req_ok s -> Bounded s -> step_ok2 s st -> step_ok3 s st ->
  m_step3 deny s st = Some s' -> nodes_ledger_ok s' = true.
Proof. exact m_step3_nodes_ledger. Qed.
Print Assumptions c01c_m_step3_nodes_ledger.

(* 4. histories: the ledger holds in every state a run of m_step3 visits *)
Theorem c01c_m_run3_inv : forall deny steps s, SInv s -> run_ok3 deny s steps -> forall s', In s' (m_run3 deny s steps) -> SInv s'.
Proof. exact m_run3_inv. Qed.
Print Assumptions c01c_m_run3_inv.

Theorem c01c_m_run3_nodes_ledger : forall deny steps s, SInv s -> run_ok3 deny s steps ->
  forall s', In s' (m_run3 deny s steps) -> nodes_ledger_ok s' = true.
Proof. exact m_run3_nodes_ledger. Qed.
Print Assumptions c01c_m_run3_nodes_ledger.

(* 5. executable forms of the hypotheses are sound *)
Theorem c01c_step_ok3_b_sound : forall s st, step_ok3_b s st = true -> step_ok2 s st /\ step_ok3 s st.
Proof. exact step_ok3_b_sound. Qed.
Print Assumptions c01c_step_ok3_b_sound.
Theorem c01c_run_ok3_b_sound : forall deny steps s, run_ok3_b deny s steps = true -> run_ok3 deny s steps.
Proof. exact run_ok3_b_sound. Qed.
Print Assumptions c01c_run_ok3_b_sound.

(* 6. the hypotheses are satisfiable: a 22 step gang history from the empty partition, completely covered by m_step3
   (17 of its steps only by the gang fragment), every observation being the state the model computes *)
Theorem c01c_example_hypotheses : SInv n2_s0 /\ run_ok3 g3_deny n2_s0 g3_steps /\ length (m_run3 g3_deny n2_s0 g3_steps) = 22%nat /\
  map st_obs g3_steps = m_run3 g3_deny n2_s0 g3_steps /\ gang_count g3_deny n2_s0 g3_steps = 17%nat.
Proof. exact g3_run_hyps. Qed.
Print Assumptions c01c_example_hypotheses.
Theorem c01c_example_ledger : forall s', In s' (m_run3 g3_deny n2_s0 g3_steps) -> nodes_ledger_ok s' = true.
Proof. exact g3_run_ledger. Qed.
Print Assumptions c01c_example_ledger.

(* 7. [confirm_listed] and [swap_fresh] are necessary: with every other hypothesis in place the ledger breaks when
   (a) the application's copy of the placeholder carries another resource than the copy the node lists,
   (b) the node already lists the key of the real allocation at the confirmation,
   (c) the target node of a replacement started on another node already lists the key of the real ask *)
Theorem c01c_confirm_res_differs_refuted : exists s st s', all_but_confirm s st /\ m_step3 g3_deny s st = Some s' /\
  nodes_ledger_ok s = true /\ nodes_ledger_ok s' = false.
Proof. exact confirm_res_differs_refuted. Qed.
Print Assumptions c01c_confirm_res_differs_refuted.
Theorem c01c_confirm_key_listed_refuted : exists s st s', all_but_confirm s st /\ m_step3 g3_deny s st = Some s' /\
  nodes_ledger_ok s = true /\ nodes_ledger_ok s' = false.
Proof. exact confirm_key_listed_refuted. Qed.
Print Assumptions c01c_confirm_key_listed_refuted.
Theorem c01c_swap_key_listed_refuted : exists s st s', all_but_swap s st /\ m_step3 g3_deny s st = Some s' /\
  nodes_ledger_ok s = true /\ nodes_ledger_ok s' = false.
Proof. exact swap_key_listed_refuted. Qed.
Print Assumptions c01c_swap_key_listed_refuted.
