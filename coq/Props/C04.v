(* Property C04 - the allocation protocol seen by the shim is exactly-once and well-formed.
   Only statements; proofs are in Core/ShimMonitorProofs.v. The judge is the monitor automaton
   Core/ShimMonitor.mon_run over the interleaved stream of shim requests and core messages; the oracle
   Oracles/CoreC04.v runs exactly this automaton on the recorded traffic of the real scheduler (every history of the
   core engine), plus the state-based clause "a rejected item leaves no trace" and the simulation obligation between
   observed core state and monitor state (kinds 491-495).

   Full statement aimed at (DESIGN 5, C04):
     protocol_ok : forall ops, monitor_ok (traffic (run init ops)) = true
   for an operational model `run` of all SI handlers and the scheduling cycle. That model does not exist as one
   Gallina function (the scheduling cycle is validated per decision, not predicted); what is proved here is the part
   that does not depend on it - the judge itself is sound for ALL traces - and the tie to the code is the run of the
   judge on every observed trace together with the per-step simulation check. So the theorems below are about the
   monitor (protocol_ok_partial): whatever the core does, if the oracle accepted the traffic then the protocol clauses
   of the property hold of that traffic. *)
From Coq Require Import List NArith Bool.
From YK Require Import Base.Res Core.Obs Core.ShimMonitor Core.ShimMonitorProofs.
Import ListNotations.
Open Scope N_scope.

(* 1. the monitor is a safety judge: accepted traces are prefix closed, an error is final *)
Theorem c04_monitor_prefix_closed : forall t1 t2, monitor_ok (t1 ++ t2) = true -> monitor_ok t1 = true.
Proof. exact monitor_ok_prefix_closed. Qed.
Print Assumptions c04_monitor_prefix_closed.

Theorem c04_monitor_err_final : forall t1 t2, monitor_ok t1 = false -> monitor_ok (t1 ++ t2) = false.
Proof. exact monitor_err_final. Qed.
Print Assumptions c04_monitor_err_final.

(* 2. an allocation key is bound at most once until it is released: in ANY accepted trace, between two new-allocation
   messages for the same key there is a release of it (announced by the core, requested by the shim, or implied by
   the removal / termination of an application) *)
Theorem c04_no_double_bind : forall t1 t2 k a1 n1 r1 p1 a2 n2 r2 p2,
  monitor_ok (t1 ++ IEv (ENewAlloc k a1 n1 r1 p1) :: t2 ++ [IEv (ENewAlloc k a2 n2 r2 p2)]) = true ->
  existsb (may_release k) t2 = true.
Proof. exact no_double_bind. Qed.
Print Assumptions c04_no_double_bind.

(* 3. every new allocation in an accepted trace is for an ask the shim submitted for that application, whose
   application was accepted and on a node that was accepted *)
Theorem c04_bind_sound : forall t k app node r p,
  monitor_ok (t ++ [IEv (ENewAlloc k app node r p)]) = true ->
  asked t k app /\ In (IEv (EAppAccepted app)) t /\ In (IEv (ENodeAccepted node)) t.
Proof. exact bind_sound. Qed.
Print Assumptions c04_bind_sound.

(* 4. exactly one accepted-or-rejected answer per submitted application and node: two answers for the same id are
   separated by a new submission of it, and no answer is pending when a request has been processed *)
Theorem c04_answer_once_app : forall t1 t2 a x y,
  is_app_answer a x = true -> is_app_answer a y = true ->
  monitor_ok (t1 ++ x :: t2 ++ [y]) = true -> existsb (is_app_submit a) t2 = true.
Proof. exact answer_once_app. Qed.
Print Assumptions c04_answer_once_app.

Theorem c04_answer_once_node : forall t1 t2 n x y,
  is_node_answer n x = true -> is_node_answer n y = true ->
  monitor_ok (t1 ++ x :: t2 ++ [y]) = true -> existsb (is_node_submit n) t2 = true.
Proof. exact answer_once_node. Qed.
Print Assumptions c04_answer_once_node.

Theorem c04_answered_at_end : forall t m a n,
  mon_run mon_init (t ++ [IEnd]) = MOk m -> Qa m a /\ Qn m n.
Proof. exact answered_at_end. Qed.
Print Assumptions c04_answered_at_end.
