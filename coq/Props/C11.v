(* C11 - queue max-applications gate.  Theorems about the component model Core/MaxApps.v; the same
   predicates are evaluated on the implementation's observations by Oracles/CoreC11.v. *)
From Coq Require Import List NArith Bool.
From YK Require Import Core.Obs Core.MaxApps Core.MaxAppsProofs.
Import ListNotations.
Open Scope N_scope.

Theorem gate_sound : forall s id to s' a,
  step s (MSched id to) = Some s' -> m_find_app s id = Some a -> ma_state a = ST_Accepted -> gate s a = true.
Proof. exact gate_sound_l. Qed.
Print Assumptions gate_sound.

Theorem gate_other_states_refuted :
  exists s a s', run m_init (firstn 6 ungated_witness) = Some s /\ m_find_app s 2 = Some a /\
                 ma_state a <> ST_Running /\ gate s a = false /\ step s (MSched 2 (Some ST_Accepted)) = Some s'.
Proof. exact MaxAppsProofs.gate_other_states_refuted. Qed.
Print Assumptions gate_other_states_refuted.

Theorem running_le_max_step : forall s o s', step s o = Some s' -> max_step_pred s s' = true.
Proof. exact max_step_l. Qed.
Print Assumptions running_le_max_step.

Theorem running_le_max : forall ops s, run_nolower m_init ops = Some s -> MaxApps.running_le_max s = true.
Proof. exact running_le_max_l. Qed.
Print Assumptions running_le_max.

Theorem running_le_max_refuted : exists s, run m_init lower_witness = Some s /\ MaxApps.running_le_max s = false.
Proof. exact MaxAppsProofs.running_le_max_refuted. Qed.
Print Assumptions running_le_max_refuted.

Theorem running_le_actual : forall ops s, run m_init ops = Some s -> MaxApps.running_le_actual s = true.
Proof. exact running_le_actual_l. Qed.
Print Assumptions running_le_actual.

Theorem allocating_live : forall ops s, run m_init ops = Some s -> MaxApps.allocating_live s = true.
Proof. exact allocating_live_l. Qed.
Print Assumptions allocating_live.

Theorem empty_zero : forall ops s, run m_init ops = Some s -> MaxApps.empty_zero s = true.
Proof. exact empty_zero_l. Qed.
Print Assumptions empty_zero.
