(* C05 — user/group quotas: the generated per-tracker tails of QueueTracker.canRunApp / headroom (pkg/scheduler/ugm) equal Ugm/Tracker.v (canrun_here, hr_here).
   Tie theorems between the Gallina definitions GENERATED from /repo's current Go source by harness/gotrans*.go
   (coq/Generated/Go*.v, rewritten on every run) and the hand-written model the theorems of C05 are about.
   Only statements; proofs: Core/GoTieC05. A semantically relevant edit of a translated Go function changes its generated
   definition and the theorem below that mentions it stops compiling (a broken proof obligation of C05).
   This file imports only tie proofs of C05 (plus the shared representation / resource-operation ties its functions
   really call). Written by the script in notes/gotrans.md (statements printed by Coq). *)
From Coq Require Import String List ZArith NArith Bool.
From YK Require Import Base.Int64 Base.F64 Base.Res Base.ResMore Base.ResSpec Ugm.Tracker
  Generated.GoPrelude Base.GoTieLib Base.GoTieRep Core.GoTieC05.
(* the generated modules are not imported: their definitions appear qualified (GoResources.addVal ...) *)
From YK Require Generated.GoResources Generated.GoUgm.
Import ListNotations.

Theorem c05_gotie_ugm_canRunApp :
    forall (g : GoUgm.QueueTracker) (q : qt) (a : N),
    qt_rep g q ->
    Z.of_nat (Datatypes.length (q_apps q)) < 2 ^ 62 -> GoUgm.canRunApp_frag g a = canrun_here a q.
Proof. exact GoTieC05.gotie_ugm_canRunApp. Qed.
Print Assumptions c05_gotie_ugm_canRunApp.

Theorem c05_gotie_ugm_headroom :
    forall (g : GoUgm.QueueTracker) (q : qt) (child : ores),
    qt_rep g q ->
    owf (q_max q) ->
    owf child ->
    owf (SubOnlyExisting (q_max q) (q_usage q)) ->
    GoUgm.headroom_frag g None (toR child) = GOk (toR (hr_here q child)).
Proof. exact GoTieC05.gotie_ugm_headroom. Qed.
Print Assumptions c05_gotie_ugm_headroom.
