(* C18 — resource arithmetic: the generated calculators and vector operations of pkg/common/resources equal Base/Int64.v, Base/Res.v, Base/ResMore.v.
   Tie theorems between the Gallina definitions GENERATED from /repo's current Go source by harness/gotrans*.go
   (coq/Generated/Go*.v, rewritten on every run) and the hand-written model the theorems of C18 are about.
   Only statements; proofs: Base/GoTieCalc Base/GoTieRep Base/GoTieClone Base/GoTieRes Base/GoTieMul Base/GoTieFit Base/GoTieShare Base/GoTiePred Base/GoTieCw. A semantically relevant edit of a translated Go function changes its generated
   definition and the theorem below that mentions it stops compiling (a broken proof obligation of C18).
   This file imports only tie proofs of C18 (plus the shared representation / resource-operation ties its functions
   really call). Written by the script in notes/gotrans.md (statements printed by Coq). *)
From Coq Require Import String List ZArith NArith Bool.
From YK Require Import Base.Int64 Base.F64 Base.Res Base.ResMore Base.ResSpec
  Generated.GoPrelude Base.GoTieLib Base.GoTieCalc Base.GoTieRep Base.GoTieClone Base.GoTieRes Base.GoTieMul Base.GoTieFit Base.GoTieShare Base.GoTiePred Base.GoTieCw.
(* the generated modules are not imported: their definitions appear qualified (GoResources.addVal ...) *)
From YK Require Generated.GoResources.
Import ListNotations.

Theorem c18_gotie_addVal :
    forall a b : Z, GoResources.addVal a b = addVal a b.
Proof. exact GoTieCalc.gotie_addVal. Qed.
Print Assumptions c18_gotie_addVal.

Theorem c18_gotie_subVal :
    forall a b : Z, GoResources.subVal a b = subVal a b.
Proof. exact GoTieCalc.gotie_subVal. Qed.
Print Assumptions c18_gotie_subVal.

Theorem c18_gotie_mulVal :
    forall a b : Z, GoResources.mulVal a b = GOk (mulVal a b).
Proof. exact GoTieCalc.gotie_mulVal. Qed.
Print Assumptions c18_gotie_mulVal.

Theorem c18_gotie_mulValRatio :
    forall (v : Z) (r : f64), GoResources.mulValRatio v r = mulValRatio v r.
Proof. exact GoTieCalc.gotie_mulValRatio. Qed.
Print Assumptions c18_gotie_mulValRatio.

Theorem c18_gotie_NewResource :
    GoResources.NewResource = toR (Some []).
Proof. exact GoTieRep.gotie_NewResource. Qed.
Print Assumptions c18_gotie_NewResource.

Theorem c18_gotie_Zero :
    GoResources.Zero = toR (Some []).
Proof. exact GoTieRep.gotie_Zero. Qed.
Print Assumptions c18_gotie_Zero.

Theorem c18_gotie_Clone :
    forall o : ores, owf o -> GoResources.Clone (toR o) = GOk (toR (Clone o)).
Proof. exact GoTieClone.gotie_Clone. Qed.
Print Assumptions c18_gotie_Clone.

Theorem c18_gotie_Prune :
    forall o : ores, owf o -> GoResources.Prune (toR o) = GOk (toR (option_map Prune o)).
Proof. exact GoTieClone.gotie_Prune. Qed.
Print Assumptions c18_gotie_Prune.

Theorem c18_gotie_AddTo :
    forall l r : ores, GoResources.AddTo (toR l) (toR r) = GOk (toR (AddTo l r)).
Proof. exact GoTieRes.gotie_AddTo. Qed.
Print Assumptions c18_gotie_AddTo.

Theorem c18_gotie_SubFrom :
    forall l r : ores, GoResources.SubFrom (toR l) (toR r) = GOk (toR (SubFrom l r)).
Proof. exact GoTieRes.gotie_SubFrom. Qed.
Print Assumptions c18_gotie_SubFrom.

Theorem c18_gotie_Add :
    forall l r : ores, owf l -> GoResources.Add (toR l) (toR r) = GOk (Some (mkR (Add l r))).
Proof. exact GoTieRes.gotie_Add. Qed.
Print Assumptions c18_gotie_Add.

Theorem c18_gotie_Sub :
    forall l r : ores, owf l -> GoResources.Sub (toR l) (toR r) = GOk (Some (mkR (Sub l r))).
Proof. exact GoTieRes.gotie_Sub. Qed.
Print Assumptions c18_gotie_Sub.

Theorem c18_gotie_SubOnlyExisting :
    forall b d : ores,
    owf b -> GoResources.SubOnlyExisting (toR b) (toR d) = GOk (toR (SubOnlyExisting b d)).
Proof. exact GoTieRes.gotie_SubOnlyExisting. Qed.
Print Assumptions c18_gotie_SubOnlyExisting.

Theorem c18_gotie_AddOnlyExisting :
    forall b d : ores,
    owf b -> GoResources.AddOnlyExisting (toR b) (toR d) = GOk (toR (AddOnlyExisting b d)).
Proof. exact GoTieRes.gotie_AddOnlyExisting. Qed.
Print Assumptions c18_gotie_AddOnlyExisting.

Theorem c18_gotie_MultiplyTo :
    forall (o : ores) (ratio : f64),
    owf o -> GoResources.MultiplyTo (toR o) ratio = GOk (toR (MultiplyTo o ratio)).
Proof. exact GoTieMul.gotie_MultiplyTo. Qed.
Print Assumptions c18_gotie_MultiplyTo.

Theorem c18_gotie_Multiply :
    forall (b : ores) (ratio : Z),
    owf b -> GoResources.Multiply (toR b) ratio = GOk (Some (mkR (Multiply b ratio))).
Proof. exact GoTieMul.gotie_Multiply. Qed.
Print Assumptions c18_gotie_Multiply.

Theorem c18_gotie_MultiplyBy :
    forall (b : ores) (ratio : f64),
    owf b -> GoResources.MultiplyBy (toR b) ratio = GOk (Some (mkR (MultiplyBy b ratio))).
Proof. exact GoTieMul.gotie_MultiplyBy. Qed.
Print Assumptions c18_gotie_MultiplyBy.

Theorem c18_gotie_fitIn :
    forall (r s : ores) (skipUndef actual : bool),
    GoResources.fitIn (toR r) (toR s) skipUndef actual = GOk (fitIn r s skipUndef actual).
Proof. exact GoTieFit.gotie_fitIn. Qed.
Print Assumptions c18_gotie_fitIn.

Theorem c18_gotie_FitIn :
    forall r s : ores, GoResources.FitIn (toR r) (toR s) = GOk (FitIn r s).
Proof. exact GoTieFit.gotie_FitIn. Qed.
Print Assumptions c18_gotie_FitIn.

Theorem c18_gotie_FitInMaxUndef :
    forall r s : ores, GoResources.FitInMaxUndef (toR r) (toR s) = GOk (FitInMaxUndef r s).
Proof. exact GoTieFit.gotie_FitInMaxUndef. Qed.
Print Assumptions c18_gotie_FitInMaxUndef.

Theorem c18_gotie_FitInActual :
    forall r s : ores, GoResources.FitInActual (toR r) (toR s) = GOk (FitInActual r s).
Proof. exact GoTieFit.gotie_FitInActual. Qed.
Print Assumptions c18_gotie_FitInActual.

Theorem c18_gotie_getShareFairForDenominator :
    forall (k : N) (alloc : Z) (den : ores),
    GoResources.getShareFairForDenominator k alloc (toR den) = GOk (shareFairDenom k alloc den).
Proof. exact GoTieShare.gotie_getShareFairForDenominator. Qed.
Print Assumptions c18_gotie_getShareFairForDenominator.

Theorem c18_gotie_getFairShare :
    forall a g f : ores,
    owf a -> GoResources.getFairShare (toR a) (toR g) (toR f) = GOk (getFairShare a g f).
Proof. exact GoTieShare.gotie_getFairShare. Qed.
Print Assumptions c18_gotie_getFairShare.

Theorem c18_gotie_CompUsageRatioSeparately :
    forall la lg lf ra rg rf : ores,
    owf la ->
    owf ra ->
    GoResources.CompUsageRatioSeparately (toR la) (toR lg) (toR lf) (toR ra) (toR rg) (toR rf) =
    GOk (CompUsageRatioSeparately la lg lf ra rg rf).
Proof. exact GoTieShare.gotie_CompUsageRatioSeparately. Qed.
Print Assumptions c18_gotie_CompUsageRatioSeparately.

Theorem c18_gotie_IsZero :
    forall o : ores, GoResources.IsZero (toR o) = GOk (IsZero o).
Proof. exact GoTiePred.gotie_IsZero. Qed.
Print Assumptions c18_gotie_IsZero.

Theorem c18_gotie_HasNegativeValue :
    forall o : ores, GoResources.HasNegativeValue (toR o) = GOk (HasNegativeValue o).
Proof. exact GoTiePred.gotie_HasNegativeValue. Qed.
Print Assumptions c18_gotie_HasNegativeValue.

Theorem c18_gotie_IsEmpty :
    forall o : ores, GoResources.IsEmpty (toR o) = GOk (IsEmpty o).
Proof. exact GoTiePred.gotie_IsEmpty. Qed.
Print Assumptions c18_gotie_IsEmpty.

Theorem c18_gotie_StrictlyGreaterThanZero :
    forall o : ores, GoResources.StrictlyGreaterThanZero (toR o) = GOk (StrictlyGreaterThanZero o).
Proof. exact GoTiePred.gotie_StrictlyGreaterThanZero. Qed.
Print Assumptions c18_gotie_StrictlyGreaterThanZero.

Theorem c18_gotie_StrictlyGreaterThanOrEquals :
    forall l s : ores,
    GoResources.StrictlyGreaterThanOrEquals (toR l) (toR s) = GOk (StrictlyGreaterThanOrEquals l s).
Proof. exact GoTiePred.gotie_StrictlyGreaterThanOrEquals. Qed.
Print Assumptions c18_gotie_StrictlyGreaterThanOrEquals.

Theorem c18_gotie_StrictlyGreaterThan :
    forall l s : ores, GoResources.StrictlyGreaterThan (toR l) (toR s) = GOk (StrictlyGreaterThan l s).
Proof. exact GoTiePred.gotie_StrictlyGreaterThan. Qed.
Print Assumptions c18_gotie_StrictlyGreaterThan.

Theorem c18_gotie_ComponentWiseMinOnlyExisting :
    forall l r : ores,
    owf l ->
    GoResources.ComponentWiseMinOnlyExisting (toR l) (toR r) =
    GOk (toR (ComponentWiseMinOnlyExisting l r)).
Proof. exact GoTieCw.gotie_ComponentWiseMinOnlyExisting. Qed.
Print Assumptions c18_gotie_ComponentWiseMinOnlyExisting.

Theorem c18_gotie_MergeIfNotPresent :
    forall l r : ores,
    owf l -> owf r -> GoResources.MergeIfNotPresent (toR l) (toR r) = GOk (toR (MergeIfNotPresent l r)).
Proof. exact GoTieCw.gotie_MergeIfNotPresent. Qed.
Print Assumptions c18_gotie_MergeIfNotPresent.

Theorem c18_gotie_ComponentWiseMin :
    forall l r : ores,
    owf l -> owf r -> GoResources.ComponentWiseMin (toR l) (toR r) = GOk (toR (ComponentWiseMin l r)).
Proof. exact GoTieCw.gotie_ComponentWiseMin. Qed.
Print Assumptions c18_gotie_ComponentWiseMin.

Theorem c18_gotie_ComponentWiseMax :
    forall l r : ores,
    GoResources.ComponentWiseMax (toR l) (toR r) = GOk (Some (mkR (ComponentWiseMax l r))).
Proof. exact GoTieCw.gotie_ComponentWiseMax. Qed.
Print Assumptions c18_gotie_ComponentWiseMax.
