(* Property C01 - the scheduler never over-commits a node - over the SECOND fragment of the operational model
   (Core/Model2.v, [m_step2]: application add / remove, node removal, state timer, in-place updates of existing keys,
   RM placement of a pending ask).  Only statements; proofs are in Core/Model2ProofsN.v (examples and the executable
   forms of the hypotheses: Core/Model2ProofsNEx.v).  Invariants ([SInv], [Bounded], [NodeLedger] ...) and predicates are
   those of Props/C01.v / Core/StepProofs.v / Core/Ledger.v (the oracle's own boolean functions). *)
From Coq Require Import List ZArith NArith Bool.
From YK Require Import Base.Res Base.ResSpec Core.Obs Core.Model Core.Model2 Core.Ledger Core.NodeProofs Core.QueueProofs Core.StepProofs
  Core.LedgerExamples Core.Model2ProofsN Core.Model2ProofsNEx Oracles.CoreC01.
Import ListNotations.
Open Scope Z_scope.

(* 1. every step the second fragment covers preserves the node ledger and the auxiliary node invariants *)
Theorem c01b_m_step2_inv : forall deny s st s',
  m_step2 deny s st = Some s' -> SInv s -> Bounded s -> step_ok2 s st -> SInv s'.
Proof. exact m_step2_inv. Qed.
Print Assumptions c01b_m_step2_inv.

Theorem c01b_m_step2_nodes_ledger : forall deny s st s',
  nodes_ledger_ok s = true -> (forall n, In n (s_nodes s) -> NodeWF n) -> reqs_from req_ok s -> Bounded s -> step_ok2 s st ->
  m_step2 deny s st = Some s' -> nodes_ledger_ok s' = true.
Proof. exact m_step2_nodes_ledger. Qed.
Print Assumptions c01b_m_step2_nodes_ledger.

(* the hypotheses of the first fragment are a special case *)
Theorem c01b_step_ok_ok2 : forall s st, step_ok s st -> update_listed s st -> delta_small s st -> remove_nonneg s st -> step_ok2 s st.
Proof. exact step_ok_ok2. Qed.
Print Assumptions c01b_step_ok_ok2.

(* 2. histories: the ledger holds in every state a run of m_step2 visits *)
Theorem c01b_m_run2_inv : forall deny steps s, SInv s -> run_ok2 deny s steps -> forall s', In s' (m_run2 deny s steps) -> SInv s'.
Proof. exact m_run2_inv. Qed.
Print Assumptions c01b_m_run2_inv.

Theorem c01b_m_run2_nodes_ledger : forall deny steps s, SInv s -> run_ok2 deny s steps ->
  forall s', In s' (m_run2 deny s steps) -> nodes_ledger_ok s' = true.
Proof. exact m_run2_nodes_ledger. Qed.
Print Assumptions c01b_m_run2_nodes_ledger.

(* 3. the node operations behind the new steps *)
Theorem c01b_n_remove_repeated : forall n key, NodeJ n ->
  NodeJ (n_remove n key) /\ forall k, getz (on_available n) k <= getz (on_available (n_remove n key)) k.
Proof. exact n_remove_J. Qed.
Print Assumptions c01b_n_remove_repeated.

Theorem c01b_m_app_remove_sinv : forall s id s', m_app_remove s id = Some s' -> SInv s -> Bounded s -> allocs_nonneg s -> SInv s'.
Proof. exact m_app_remove_sinv. Qed.
Print Assumptions c01b_m_app_remove_sinv.

Theorem c01b_m_node_remove_sinv : forall s id s', m_node_remove s id = Some s' -> SInv s -> SInv s'.
Proof. exact m_node_remove_sinv. Qed.
Print Assumptions c01b_m_node_remove_sinv.

Theorem c01b_m_update_existing_sinv : forall s a x r, SInv s -> Bounded s ->
  find_app s (rq_app r) = Some a -> find_alloc (ap_requests a) (rq_key r) = Some x -> rq_foreign r = false ->
  wf (oget (rq_res r)) -> rsmall (oget (rq_res r)) ->
  (oa_allocated x = true -> forall n, find_node s (oa_node x) = Some n ->
     exists old, find_alloc (on_allocs n) (rq_key r) = Some old /\ oa_res old = oa_res x) ->
  (oa_allocated x = true -> forall k, small (getz (oget (rq_res r)) k - getz (oa_res x) k)) ->
  (oa_allocated x = false -> forall n, find_node s (rq_node r) = Some n -> ~ In (rq_key r) (akeys (on_allocs n))) ->
  forall s', m_update_existing s a x r = Some s' -> SInv s'.
Proof. exact m_update_existing_sinv. Qed.
Print Assumptions c01b_m_update_existing_sinv.

(* 4. a negative available entry appears only with OpAlloc / OpNodeUpdate *)
Theorem c01b_negative_only_forced2 : forall deny s st s',
  m_step2 deny s st = Some s' -> SInv s -> Bounded s -> allocs_nonneg s ->
  match st_op st with OpNodeAdd _ cap _ => wf cap /\ res_nonnegP cap | _ => True end ->
  forced_node_change (st_op st) = false -> no_negative s -> no_negative s'.
Proof. exact negative_only_forced2. Qed.
Print Assumptions c01b_negative_only_forced2.

(* 5. the hypotheses are satisfiable: a sixteen step history from the empty partition (application add, ask, resize,
   scheduling, in-place resize, RM placement, node removal, application removal), completely covered *)
Theorem c01b_example_hypotheses : SInv n2_s0 /\ run_ok2 [] n2_s0 n2_steps /\ length (m_run2 [] n2_s0 n2_steps) = 16%nat.
Proof. exact n2_run_hyps. Qed.
Print Assumptions c01b_example_hypotheses.

Theorem c01b_step_ok2_b_sound : forall s st, step_ok2_b s st = true -> step_ok2 s st.
Proof. exact step_ok2_b_sound. Qed.
Print Assumptions c01b_step_ok2_b_sound.

(* 6. [update_listed] is necessary: an allocated ask its node does not list (left behind by a TIMEOUT release) is updated
   in place and the node ledger breaks - reproduced on the real scheduler (known finding stale-allocated-ask-update) *)
Theorem c01b_update_unlisted_refuted :
  exists s st s', SInv s /\ Bounded s /\ inputs_ok st /\ bind_key_fresh2 s st /\ foreign_update_known s st /\ delta_small s st /\
    remove_nonneg s st /\ m_step2 [] s st = Some s' /\ nodes_ledger_ok s = true /\ nodes_ledger_ok s' = false.
Proof. exact update_unlisted_refuted. Qed.
Print Assumptions c01b_update_unlisted_refuted.
