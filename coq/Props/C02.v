(* Property C02 - scheduling never takes a queue above its maximum.
   Only statements; proofs are in Core/QueueProofs.v, Core/QueueStepProofs.v (examples: Core/LedgerExamples.v).
   Model: Core/Model.v; predicates: Core/Ledger.v (the same boolean functions the oracle Oracles/CoreC01.v evaluates
   on the implementation's observations). *)
From Coq Require Import List ZArith NArith Bool.
From YK Require Import Base.Res Base.ResSpec Core.Obs Core.Model Core.Ledger Core.NodeProofs Core.QueueProofs Core.StepProofs
  Core.QueueStepProofs Core.LedgerExamples Core.Reload Core.QueueConfProofs Oracles.CoreC01 Oracles.CoreC02Conf.
Import ListNotations.
Open Scope Z_scope.

(* 7. allocatedResFits: an accepted request keeps usage + request within every type the maximum defines (leaf,
   parent and root alike); at the root a positively requested type must be defined by the root maximum, i.e. be
   provided by some registered node *)
Theorem c02_q_fits_sound : forall q r, wf r -> rsmall r -> rsmall (q_alloc q) -> q_fits q r = true ->
  forall m k l, q_max q = Some m -> get m k = Some l -> 0 <= l -> has r k = true ->
  getz (Add (Some (q_alloc q)) (Some r)) k <= l.
Proof. exact q_fits_sound. Qed.
Print Assumptions c02_q_fits_sound.

Theorem c02_q_fits_sound_root : forall q r, q_parent q = 0%N -> wf r -> rsmall r -> rsmall (q_alloc q) ->
  res_nonnegP (q_alloc q) -> q_fits q r = true -> forall k, 0 < getz r k -> has (oget (q_max q)) k = true.
Proof. exact q_fits_sound_root. Qed.
Print Assumptions c02_q_fits_sound_root.

(* 8. TryIncAllocatedResource *)
Theorem c02_q_try_inc_sound : forall s leaf r s', q_try_inc s leaf r = Some s' ->
  wf r -> rsmall r -> has_positive r -> PathOK s leaf -> queue_max_ok_after s' leaf r = true.
Proof. exact q_try_inc_sound. Qed.
Print Assumptions c02_q_try_inc_sound.

Theorem c02_q_try_inc_only_path : forall s leaf r s', q_try_inc s leaf r = Some s' ->
  s_queues s' = map (on_path_fn s leaf (q_plus r)) (s_queues s) /\
  s_nodes s' = s_nodes s /\ s_apps s' = s_apps s /\ s_foreign s' = s_foreign s /\ s_total s' = s_total s /\
  forall id, find_queue s' id =
             match find_queue s id with
             | Some q => Some (if memN id (path_ids s leaf) then q_plus r q else q)
             | None => None
             end.
Proof. exact q_try_inc_only_path. Qed.
Print Assumptions c02_q_try_inc_only_path.

Theorem c02_q_plus_spec : forall q r, q_id (q_plus r q) = q_id q /\ q_parent (q_plus r q) = q_parent q /\
  q_max (q_plus r q) = q_max q /\ q_pending (q_plus r q) = q_pending q /\ q_guar (q_plus r q) = q_guar q /\
  (wf r -> rsmall r -> rsmall (q_alloc q) -> forall k, getz (q_alloc (q_plus r q)) k = getz (q_alloc q) k + getz r k).
Proof. exact q_plus_spec. Qed.
Print Assumptions c02_q_plus_spec.

(* 9. every scheduling decision the model accepts leaves all ancestors within their maxima *)
Theorem c02_sched_queue_max_ok : forall deny s a k nid s', m_sched_alloc deny s a k nid = Some s' -> In a (s_apps s) ->
  SInv s -> Bounded s -> PathOK s (ap_queue a) ->
  exists ask, find_alloc (ap_requests a) k = Some ask /\ queue_max_ok_after s' (ap_queue a) (oa_res ask) = true.
Proof. exact sched_queue_max_ok. Qed.
Print Assumptions c02_sched_queue_max_ok.

(* 10. usage above a defined maximum appears only in steps the oracle classifies as forced changes *)
Theorem c02_over_max_only_forced : forall deny s st s' id q0 q1 k, m_step deny s st = Some s' ->
  SInv s -> Bounded s -> QInv s ->
  find_queue s id = Some q0 -> find_queue s' id = Some q1 -> over_max_at q0 k = false -> over_max_at q1 k = true ->
  forced_queue_change (q_parent q1 =? 0)%N (st_op st) = true.
Proof. exact over_max_only_forced. Qed.
Print Assumptions c02_over_max_only_forced.

Theorem c02_hyps_satisfiable :
  find_app ex_state (ap_id ex_app) = Some ex_app /\ In ex_app (s_apps ex_state) /\ Bounded ex_state /\
  PathOK ex_state (ap_queue ex_app) /\ QInv ex_state /\ allocs_nonneg ex_state /\ no_negative ex_state /\
  (exists s', m_sched_alloc [] ex_state ex_app 13%N 1%N = Some s').
Proof. exact ex_sched_hyps. Qed.
Print Assumptions c02_hyps_satisfiable.

(* 11. the effective limit (GetMaxResource) of a queue is never looser than its parent's on the parent's types
   (model of GetMaxResource not covered by the correspondence run) *)
Theorem c02_effective_max_monotone : forall s fuel qid q k l, (forall q, In q (s_queues s) -> owf (q_max q)) ->
  find_queue s qid = Some q -> (q_parent q =? 0)%N = false ->
  get (oget (get_max_fuel fuel s (q_parent q))) k = Some l ->
  exists v, get (oget (get_max_fuel (S fuel) s qid)) k = Some v /\ v <= l.
Proof. exact effective_max_monotone. Qed.
Print Assumptions c02_effective_max_monotone.

(* 12. the configured maximum: when the queue objects on the path carry the maximum the configuration in force gives
   them (established for accepted reloads by Props/C16.v accept_applies), the queue-object clause of a decision
   (theorem 9) yields the clause judged against the configuration (oracle kind 204, Oracles/CoreC02Conf.v) *)
Theorem c02_confmax_ok_from_objmax : forall cur pre post qid r, carries_conf cur post qid ->
  queue_max_ok_after post qid r = true -> queue_confmax_ok_after cur pre post qid r = true.
Proof. exact confmax_ok_from_objmax. Qed.
Print Assumptions c02_confmax_ok_from_objmax.
