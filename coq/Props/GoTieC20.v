(* C20 — event ring buffer and event store: the generated methods of pkg/events equal Events/Ring.v.
   Tie theorems between the Gallina definitions GENERATED from /repo's current Go source by harness/gotrans*.go
   (coq/Generated/Go*.v, rewritten on every run) and the hand-written model the theorems of C20 are about.
   Only statements; proofs: Events/GoTieRing. A semantically relevant edit of a translated Go function changes its generated
   definition and the theorem below that mentions it stops compiling (a broken proof obligation of C20).
   This file imports only tie proofs of C20 (plus the shared representation / resource-operation ties its functions
   really call). Written by the script in notes/gotrans.md (statements printed by Coq). *)
From Coq Require Import String List ZArith NArith Bool.
From YK Require Import Events.Ring
  Generated.GoPrelude Base.GoTieLib Events.GoTieRing.
(* the generated modules are not imported: their definitions appear qualified (GoResources.addVal ...) *)
From YK Require Generated.GoEvents.
Import ListNotations.

Theorem c20_gotie_getLowestID :
    forall r : ring, GoEvents.getLowestID (toGo r) = lowestId r.
Proof. exact GoTieRing.gotie_getLowestID. Qed.
Print Assumptions c20_gotie_getLowestID.

Theorem c20_gotie_getLastEventID :
    forall r : ring, rid r < Ring.W64 -> GoEvents.getLastEventID (toGo r) = lastEventID r.
Proof. exact GoTieRing.gotie_getLastEventID. Qed.
Print Assumptions c20_gotie_getLastEventID.

Theorem c20_gotie_GetLastEventID :
    forall r : ring, rid r < Ring.W64 -> GoEvents.GetLastEventID (toGo r) = lastEventID r.
Proof. exact GoTieRing.gotie_GetLastEventID. Qed.
Print Assumptions c20_gotie_GetLastEventID.

Theorem c20_gotie_id2pos :
    forall (r : ring) (id : N), GoEvents.id2pos (toGo r) id = lift pos_out (id2pos r id).
Proof. exact GoTieRing.gotie_id2pos. Qed.
Print Assumptions c20_gotie_id2pos.

Theorem c20_gotie_updateLowestID :
    forall (r : ring) (b e : N),
    GoEvents.updateLowestID (toGo r) b e = toGo (setLow r (updateLowestID r b e)).
Proof. exact GoTieRing.gotie_updateLowestID. Qed.
Print Assumptions c20_gotie_updateLowestID.

Theorem c20_gotie_Add :
    forall (r : ring) (ev : N), GoEvents.Add (toGo r) (Some ev) = lift toGo (add r ev).
Proof. exact GoTieRing.gotie_Add. Qed.
Print Assumptions c20_gotie_Add.

Theorem c20_gotie_getEntriesFromRanges :
    forall (r : ring) (s1 e1 : N) (r2 : option (N * N)),
    GoEvents.getEntriesFromRanges (toGo r)
    (Some {| GoEvents.eventRange_start := s1; GoEvents.eventRange_end := e1 |})
    (option_map toRange r2) = lift (fun x : list (option N) => x) (entriesFromRanges r s1 e1 r2).
Proof. exact GoTieRing.gotie_getEntriesFromRanges. Qed.
Print Assumptions c20_gotie_getEntriesFromRanges.

Theorem c20_gotie_getEventsFromID :
    forall (r : ring) (id count : N),
    rid r < Ring.W64 ->
    GoEvents.getEventsFromID (toGo r) id count = lift q_out (getEventsFromID r id count).
Proof. exact GoTieRing.gotie_getEventsFromID. Qed.
Print Assumptions c20_gotie_getEventsFromID.

Theorem c20_gotie_GetEventsFromID :
    forall (r : ring) (id count : N),
    rid r < Ring.W64 ->
    GoEvents.GetEventsFromID (toGo r) id count = lift q_out (getEventsFromID r id count).
Proof. exact GoTieRing.gotie_GetEventsFromID. Qed.
Print Assumptions c20_gotie_GetEventsFromID.

Theorem c20_gotie_GetRecentEvents :
    forall (r : ring) (count : N),
    rid r < Ring.W64 ->
    GoEvents.GetRecentEvents (toGo r) count =
    lift (fun x : list (option N) => x) (getRecentEvents r count).
Proof. exact GoTieRing.gotie_GetRecentEvents. Qed.
Print Assumptions c20_gotie_GetRecentEvents.

Theorem c20_gotie_Resize :
    forall (r : ring) (k : N), GoEvents.Resize (toGo r) k = lift toGo (resize r k).
Proof. exact GoTieRing.gotie_Resize. Qed.
Print Assumptions c20_gotie_Resize.

Theorem c20_gotie_Store :
    forall (s : store) (ev : N),
    store_ok s -> GoEvents.Store (toS s) (Some ev) = GOk (toS (store_put s ev)).
Proof. exact GoTieRing.gotie_Store. Qed.
Print Assumptions c20_gotie_Store.

Theorem c20_gotie_CollectEvents :
    forall s : store,
    store_ok s ->
    s_size s <= 9223372036854775807 ->
    GoEvents.CollectEvents (toS s) = GOk (toS (snd (store_collect s)), fst (store_collect s)).
Proof. exact GoTieRing.gotie_CollectEvents. Qed.
Print Assumptions c20_gotie_CollectEvents.

Theorem c20_gotie_CountStoredEvents :
    forall s : store, GoEvents.CountStoredEvents (toS s) = s_idx s.
Proof. exact GoTieRing.gotie_CountStoredEvents. Qed.
Print Assumptions c20_gotie_CountStoredEvents.

Theorem c20_gotie_SetStoreSize :
    forall (s : store) (n : N), GoEvents.SetStoreSize (toS s) n = toS (store_setSize s n).
Proof. exact GoTieRing.gotie_SetStoreSize. Qed.
Print Assumptions c20_gotie_SetStoreSize.
