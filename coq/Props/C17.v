(* C17 — Placement puts applications only where rules and ACLs allow.
   Property theorems only; the model is in Place/{Str,Acl,Rules,Placement}.v, the specification
   (the predicates the theorems are stated with, which are also the oracles of the correspondence
   run) in Place/Spec.v, the proofs in Place/*Proofs.v, Place/Final.v.
   All statements are about the model of the REPAIRED code (pinned = false) and hold for every
   hierarchy closed under parents (wf_tree), every rule list, every application; the *_pinned_refuted
   theorems are witnesses found on the model of the pinned code (pinned = true) and replayed on it. *)
From Coq Require Import List NArith Bool String.
From YK Require Import Place.Str Place.Acl Place.Rules Place.Placement Place.Spec
     Place.AclProofs Place.RulesProofs Place.MainProofs Place.Final Place.LoadProofs.
Import ListNotations.

(* An accepted application is in a leaf queue that was not draining (Active when no queue is Stopped),
   chosen by the first rule in configured order that yields a queue the application can use, admitted
   by a submit or admin ACL of that queue or an ancestor; an existing queue leaves the hierarchy
   unchanged, a new one was created below a non-leaf, non-draining queue as a chain of valid-named
   dynamic queues carrying that queue's child template. *)
Theorem placed_ok : forall w a p w',
    wf_tree (w_tree w) = true -> submit false w a = (Accepted p, w') ->
    exists a', convert_ugi a = Some a' /\ placed_ok_b w a' p w' = true.
Proof. exact placed_ok_final. Qed.
Print Assumptions placed_ok.

(* the "first rule" clause spelled out *)
Theorem placed_first_rule : forall w a p w',
    wf_tree (w_tree w) = true -> add_application false w a = (Accepted p, w') ->
    exists i r m n, nth_error (w_rules w) i = Some r /\ yield (w_tree w) a (w_rules w) i = RName m
                    /\ admissible (w_tree w) a m = Some n /\ name_parts n = p
                    /\ forall j, (j < i)%nat -> passes (w_tree w) a (w_rules w) j = true.
Proof. exact placed_first_rule_final. Qed.
Print Assumptions placed_first_rule.

(* the four transcribed rule functions compute the generic rule specification, for every nesting *)
Theorem rules_refine_spec : forall t a r, place_rule t a r = s_rule t a r.
Proof. exact place_rule_spec. Qed.
Print Assumptions rules_refine_spec.

(* creation needs the create flag on every level of the rule chain that contributed *)
Theorem created_only_with_create : forall t a r c n, In (c, n) (levels t a r) -> c || q_exists t n = true.
Proof. exact levels_create. Qed.
Print Assumptions created_only_with_create.

(* the recursive Queue.CheckSubmitAccess is: some queue on the way to the root grants submit or admin
   access and the recovery queue is not in between *)
Theorem acl_check_is_ancestor_grant : forall t a q,
    all_exist t (q_path q) -> check_submit t a q = acl_admitted t a (q_path q).
Proof. exact check_submit_spec. Qed.
Print Assumptions acl_check_is_ancestor_grant.

Theorem acl_check_access : forall a u gs,
    check_access a u gs = true <-> a_all a = true \/ In u (a_users a) \/ exists g, In g gs /\ In g (a_groups a).
Proof. exact check_access_spec. Qed.
Print Assumptions acl_check_access.

(* The recovery queue is only ever used for force-created applications (and nothing is placed below it). *)
Theorem recovery_only_forced : forall w a p w',
    wf_tree (w_tree w) = true -> submit false w a = (Accepted p, w') ->
    exists a', convert_ugi a = Some a' /\ recovery_only_forced_b a' p = true.
Proof. exact recovery_only_forced_final. Qed.
Print Assumptions recovery_only_forced.

(* finding 16 on the pinned code (repaired by 2ecc725) *)
Theorem recovery_only_forced_pinned_refuted :
  exists w a p w', wf_tree (w_tree w) = true /\ add_application true w a = (Accepted p, w')
                   /\ recovery_only_forced_b a p = false.
Proof. exact Final.recovery_only_forced_pinned_refuted. Qed.
Print Assumptions recovery_only_forced_pinned_refuted.

Theorem recovery_parent_pinned_refuted :
  exists w a p w', wf_tree (w_tree w) = true /\ add_application true w a = (Accepted p, w')
                   /\ recovery_only_forced_b a p = false /\ q_is_leaf (w_tree w') s_recovery_full = false
                   /\ q_exists (w_tree w') s_recovery_full = true.
Proof. exact Final.recovery_parent_pinned_refuted. Qed.
Print Assumptions recovery_parent_pinned_refuted.

(* An application that no rule can place is rejected with "no placement rule matched"; nothing changes. *)
Theorem unmatched_rejected : forall w a a',
    convert_ugi a = Some a' -> unmatched_b w a' = true -> submit false w a = (Rejected NoMatch, w).
Proof. exact unmatched_rejected_final. Qed.
Print Assumptions unmatched_rejected.

(* no submission panics (repaired by dba4ed6; witness for the pinned code below) *)
Theorem no_crash : forall w a w', wf_tree (w_tree w) = true -> submit false w a <> (Crashed, w').
Proof. exact no_crash_final. Qed.
Print Assumptions no_crash.

Theorem no_crash_pinned_refuted :
  exists w a, wf_tree (w_tree w) = true /\ fst (add_application true w a) = Crashed.
Proof. exact Final.no_crash_pinned_refuted. Qed.
Print Assumptions no_crash_pinned_refuted.

(* filter type in another letter case (repaired by 1b56bed) *)
Theorem deny_filter_pinned_refuted :
  let f := mkFConf (bs "Deny") [bs "bob"] [] in
  allow_user (new_filter true [] f) (ex_app "") = true /\ allow_user (new_filter false [] f) (ex_app "") = false.
Proof. exact Final.deny_filter_pinned_refuted. Qed.
Print Assumptions deny_filter_pinned_refuted.

(* the hypothesis of the theorems above is an invariant of application submission *)
Theorem wf_preserved : forall w a o w',
    wf_tree (w_tree w) = true -> submit false w a = (o, w') -> wf_tree (w_tree w') = true.
Proof. exact wf_preserved_final. Qed.
Print Assumptions wf_preserved.

(* ... and holds for every hierarchy built from a configuration whose top queue is named root
   (what validation guarantees), whatever set-up operations (drain, stop) follow *)
Theorem wf_initial : forall pinned tb name par s a tm ch ops rc via w,
    lower name = s_root ->
    init_world pinned tb (QConf name par s a tm ch) ops rc via = Some w -> wf_tree (w_tree w) = true.
Proof. exact init_world_wf. Qed.
Print Assumptions wf_initial.
