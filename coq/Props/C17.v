(* C17 (placeholder while the proofs are being written) *)
From YK Require Import Place.Spec.
