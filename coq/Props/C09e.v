(* Property C09 - reservations stay consistent and exclusive - the BRIDGE between the two formalisations:
     (1) the component model Core/Reserve.v, whose boolean predicates the C09 oracle evaluates on [proj09 s] of every observed
         state ([c09_state s = []], Oracles/CoreC09.v; invariants over all [rop] sequences: Props/C09.v);
     (2) the structured invariant [RInv] over an [ostate], kept by the runs of the operational model [m_step4] (Props/C09d.v).
   Only statements; proofs are in Core/Model4ProofsBr1.v ... Br5.v.

   [c09_state s] = [c09_struct s] (kinds 901 902 904 905 906 908: views_app_node, views_queue, one_per_ask, only_outstanding,
   one_per_node_unless_required, cleanup) ++ the two clauses about the partition counter (903 views_counter, 991 counter_ge_card).
   [RInv] implies every clause of [c09_struct]; it does not speak about the partition counter [s_nres] (refuted below), which
   enters as the separate hypothesis [NresOK s]: number of reservations of live applications <= s_nres.

   Side conditions [WF9 s] (Core/Model4ProofsBr1.v): [Ids s] (unique identifiers and allocation keys: part of [Inv] of C03),
   [ComplClean s] (completed applications hold no reservation: [proj09] reads the application view from [s_apps ++ s_completed],
   [RInv] from [s_apps]), [QueuesReg s] (the queue of every live application is registered: [inv_app_leaf] of [Inv]). *)
From Coq Require Import List ZArith NArith Bool.
From YK Require Import Base.Res Core.Obs Core.Reserve Oracles.CoreC09 Core.Model2 Core.Model4 Core.BooksDefs
  Core.Model4ProofsR1 Core.Model4ProofsR12 Core.Model4ProofsR9 Core.Model4ProofsB2 Core.Model4ProofsEx
  Core.Model4ProofsBr1 Core.Model4ProofsBr2 Core.Model4ProofsBr3 Core.Model4ProofsBr4 Core.Model4ProofsBr5 Core.Model4ProofsBr6.
Import ListNotations.
Open Scope N_scope.

(* ---- 1. RInv implies the oracle, clause by clause ---- *)
Theorem c09e_views_app_node : forall s, RInv s -> ComplClean s -> views_app_node (proj09 s) = true.
Proof. exact rinv_views_app_node. Qed.
Print Assumptions c09e_views_app_node.
Theorem c09e_views_queue : forall s, RInv s -> Ids0 s -> ComplClean s -> QueuesReg s -> views_queue (proj09 s) = true.
Proof. exact rinv_views_queue. Qed.
Print Assumptions c09e_views_queue.
Theorem c09e_one_per_ask : forall s, RInv s -> Ids0 s -> ComplClean s -> one_per_ask (proj09 s) = true.
Proof. exact rinv_one_per_ask. Qed.
Print Assumptions c09e_one_per_ask.
Theorem c09e_only_outstanding : forall s, RInv s -> Ids s -> ComplClean s -> only_outstanding (proj09 s) = true.
Proof. exact rinv_only_outstanding. Qed.
Print Assumptions c09e_only_outstanding.
Theorem c09e_one_per_node_unless_required : forall s, RInv s -> Ids s -> one_per_node_unless_required (proj09 s) = true.
Proof. exact rinv_one_per_node. Qed.
Print Assumptions c09e_one_per_node_unless_required.
Theorem c09e_cleanup : forall s, RInv s -> ComplClean s -> cleanup (proj09 s) = true.
Proof. exact rinv_cleanup. Qed.
Print Assumptions c09e_cleanup.

(* the oracle, split into the structural clauses and the counter clauses (991 implies 903) *)
Theorem c09e_oracle_split : forall s, c09_state s = [] <-> c09_struct s = [] /\ counter_ge_card (proj09 s) = true.
Proof. exact c09_state_spec'. Qed.
Print Assumptions c09e_oracle_split.
Theorem c09e_struct_spec : forall s, c09_struct s = [] <->
  views_app_node (proj09 s) = true /\ views_queue (proj09 s) = true /\ one_per_ask (proj09 s) = true /\ only_outstanding (proj09 s) = true /\
  one_per_node_unless_required (proj09 s) = true /\ cleanup (proj09 s) = true.
Proof. exact c09_struct_spec. Qed.
Print Assumptions c09e_struct_spec.
Theorem c09e_nres_counter : forall s, ComplClean s -> (counter_ge_card (proj09 s) = true <-> NresOK s).
Proof. exact nres_ok_counter. Qed.
Print Assumptions c09e_nres_counter.

(* the bridge *)
Theorem c09e_rinv_oracle_struct : forall s, RInv s -> WF9 s -> c09_struct s = [].
Proof. exact rinv_oracle_struct. Qed.
Print Assumptions c09e_rinv_oracle_struct.
Theorem c09e_rinv_oracle : forall s, RInv s -> WF9 s -> NresOK s -> c09_state s = [].
Proof. exact rinv_oracle. Qed.
Print Assumptions c09e_rinv_oracle.
(* without the counter hypothesis the oracle can report nothing but the two counter kinds ... *)
Theorem c09e_rinv_oracle_only_counter : forall s, RInv s -> WF9 s -> forall k, In k (c09_state s) -> k = 903 \/ k = 991.
Proof. exact rinv_oracle_only_counter. Qed.
Print Assumptions c09e_rinv_oracle_only_counter.
(* ... and it does: [RInv] does not imply the counter clauses (the reserved state of the example with the counter set to 0) *)
Theorem c09e_counter_refuted : exists s, RInv s /\ WF9 s /\ c09_struct s = [] /\ c09_state s = [903; 991].
Proof. exact rinv_counter_refuted. Qed.
Print Assumptions c09e_counter_refuted.

(* ---- 2. the converse.  The structural clauses decide [RInvO] (Core/Model4ProofsBr3.v), which is [RInv] without: "the reserved ask does
   not require ANOTHER node" (r_out), "the queue entry is in the application's OWN queue" (r_qhome, r_qcount), "one entry per application
   in a queue" (r_qnodup).  Each of the three is refuted by a state on which the whole oracle is silent. ---- *)
Theorem c09e_oracle_rinvo : forall s, c09_struct s = [] -> Ids s -> ComplClean s -> NodeIds s -> RInvO s.
Proof. exact oracle_rinvo. Qed.
Print Assumptions c09e_oracle_rinvo.
Theorem c09e_rinv_rinvo : forall s, RInv s -> Ids s -> QueuesReg s -> RInvO s.
Proof. exact rinv_rinvo. Qed.
Print Assumptions c09e_rinv_rinvo.
Theorem c09e_converse_refuted_required : exists s, c09_state s = [] /\ WF9 s /\ NodeIds s /\ ~ RInv s.
Proof. exact oracle_rinv_refuted_required. Qed.
Print Assumptions c09e_converse_refuted_required.
Theorem c09e_converse_refuted_home : exists s, c09_state s = [] /\ WF9 s /\ NodeIds s /\ ~ RInv s.
Proof. exact oracle_rinv_refuted_home. Qed.
Print Assumptions c09e_converse_refuted_home.
Theorem c09e_converse_refuted_dup : exists s, c09_state s = [] /\ WF9 s /\ NodeIds s /\ ~ RInv s.
Proof. exact oracle_rinv_refuted_dup. Qed.
Print Assumptions c09e_converse_refuted_dup.
(* the three witnesses, by name *)
Theorem c09e_witnesses : (c09_state w1 = [] /\ ~ RInv w1) /\ (c09_state w2 = [] /\ ~ RInv w2) /\ (c09_state w3 = [] /\ ~ RInv w3).
Proof. exact witnesses_all. Qed.
Print Assumptions c09e_witnesses.

(* ---- 3. the side conditions along the runs of m_step4 ---- *)
(* no step of the operational model writes the completed list *)
Theorem c09e_step4_completed : forall deny s st s', m_step4 deny s st = Some s' -> s_completed s' = s_completed s.
Proof. exact m_step4_completed. Qed.
Print Assumptions c09e_step4_completed.
Theorem c09e_inv_wf9 : forall s, Inv s -> ComplClean s -> WF9 s.
Proof. exact inv_wf9. Qed.
Print Assumptions c09e_inv_wf9.
Theorem c09e_wf9_b_sound : forall s, wf9_b s = true -> WF9 s.
Proof. exact wf9_b_sound. Qed.
Print Assumptions c09e_wf9_b_sound.

(* ---- 4. the oracle's predicate is a theorem for all runs of the reservation fragment: in EVERY visited state of a run of m_step4 that
   satisfies the hypotheses of [c09d_reachable4_partial] and starts with a clean completed list, the structural clauses of the oracle hold;
   the whole oracle is silent wherever the counter is at least the number of reservations; it can report nothing but 903 / 991.
   PARTIAL in the same sense as C09d ([Run9] contains [alloc_ok9]); the counter invariant [NresOK] along runs is NOT proved. ---- *)
Theorem c09e_run_oracle : forall deny steps s0, Books s0 -> Inv s0 -> RInv s0 -> ComplClean s0 -> RunOK4 deny s0 steps -> Run9 deny s0 steps ->
  forall n, c09_struct (m_run4 deny s0 (firstn n steps)) = [].
Proof. exact run_oracle_struct_visited. Qed.
Print Assumptions c09e_run_oracle.
Theorem c09e_run_oracle_counter : forall deny steps s0, Books s0 -> Inv s0 -> RInv s0 -> ComplClean s0 -> RunOK4 deny s0 steps -> Run9 deny s0 steps ->
  forall n, NresOK (m_run4 deny s0 (firstn n steps)) -> c09_state (m_run4 deny s0 (firstn n steps)) = [].
Proof. exact run_oracle_visited. Qed.
Print Assumptions c09e_run_oracle_counter.
Theorem c09e_run_oracle_end : forall deny steps s0, Books s0 -> Inv s0 -> RInv s0 -> ComplClean s0 -> RunOK4 deny s0 steps -> Run9 deny s0 steps ->
  c09_struct (m_run4 deny s0 steps) = [].
Proof. exact run_oracle_struct. Qed.
Print Assumptions c09e_run_oracle_end.
Theorem c09e_run_only_counter : forall deny steps s0, Books s0 -> Inv s0 -> RInv s0 -> ComplClean s0 -> RunOK4 deny s0 steps -> Run9 deny s0 steps ->
  forall k, In k (c09_state (m_run4 deny s0 steps)) -> k = 903 \/ k = 991.
Proof. exact run_oracle_only_counter. Qed.
Print Assumptions c09e_run_only_counter.
(* the run theorem independent of C03 ([c09d_run_ids_partial]): the side conditions of the visited state are decidable hypotheses *)
Theorem c09e_run_ids_oracle : forall deny steps s0, RInv s0 -> Run9i deny s0 steps -> forall n,
  WF9 (m_run4s deny s0 (firstn n steps)) -> c09_struct (m_run4s deny s0 (firstn n steps)) = [].
Proof. exact run_ids_oracle_struct. Qed.
Print Assumptions c09e_run_ids_oracle.

(* ---- 5. examples: the state after six steps of the history of Core/Model4ProofsEx.v (node 1 reserved for ask 10 of application 1,
   queue entry (1,1), counter 1) satisfies RInv, the side conditions and the counter fact, and the oracle is silent - by computation and
   by the bridge; the run theorem applies to the whole history and agrees with the direct evaluation on all ten visited states ---- *)
Theorem c09e_example : rv_app (proj09 e6) = [mkR 1 10 1] /\ rv_node (proj09 e6) = [mkR 1 10 1] /\ rv_queue (proj09 e6) = [(1, 1)] /\
  RInv e6 /\ WF9 e6 /\ NresOK e6 /\ c09_state e6 = [] /\ RInvO e6.
Proof. exact e6_example. Qed.
Print Assumptions c09e_example.
Theorem c09e_example_run : (forall n, c09_struct (m_run4 [] e4_s0 (firstn n e4_steps)) = []) /\
  forallb (fun n => match c09_state (m_run4 [] e4_s0 (firstn n e4_steps)) with [] => true | _ => false end) (seq 0 10) = true.
Proof. exact e4_example_run. Qed.
Print Assumptions c09e_example_run.

(* ---- 6. the partition counter and the writers of the reservation views (Core/Model4ProofsBr6.v): [NresOK] is kept by every writer that
   removes or adds a reservation.  The run-level invariant is NOT proved (see notes/c09bridge.md). ---- *)
Theorem c09e_counter_part_unreserve : forall s aid k, NresOK s -> NresOK (r_part_unreserve s aid k).
Proof. exact nres_ok_part_unreserve. Qed.
Print Assumptions c09e_counter_part_unreserve.
Theorem c09e_counter_cancel : forall s aid k, NresOK s -> NresOK (fst (r_cancel s aid k)).
Proof. exact nres_ok_cancel. Qed.
Print Assumptions c09e_counter_cancel.
Theorem c09e_counter_cancel_all : forall s a, NresOK s -> NresOK (r_cancel_all s a).
Proof. exact nres_ok_cancel_all. Qed.
Print Assumptions c09e_counter_cancel_all.
Theorem c09e_counter_cancel_phase : forall s0 cnt mv l, NresOK s0 -> NresOK (m_cancel_phase s0 cnt mv l).
Proof. exact nres_ok_cancel_phase. Qed.
Print Assumptions c09e_counter_cancel_phase.
Theorem c09e_counter_reserve : forall deny s pre aid nid k s', NoDup (map ap_id (s_apps s)) -> m_reserve4 deny s pre aid nid k = Some s' -> NresOK s -> NresOK s'.
Proof. exact nres_ok_reserve4. Qed.
Print Assumptions c09e_counter_reserve.
Theorem c09e_counter_mark_victims : forall l s s', m_mark_victims s l = Some s' -> NresOK s -> NresOK s'.
Proof. exact nres_ok_mark_victims. Qed.
Print Assumptions c09e_counter_mark_victims.
(* no step of the first two fragments writes the completed list or the partition counter *)
Theorem c09e_step2_counter : forall deny s st s', m_step2 deny s st = Some s' -> s_completed s' = s_completed s /\ s_nres s' = s_nres s.
Proof. exact m_step2_cn. Qed.
Print Assumptions c09e_step2_counter.
