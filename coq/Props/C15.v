(* C15  Configuration validation is sound: what it accepts is loadable and well-formed.
   Model: Conf/Validate.v (configvalidator.go), Conf/Load.v (load path), Conf/WF.v (documented rules).
   [compiles] is the external predicate "regexp.Compile succeeds" (placement filters); every theorem holds for any.
   Refuted clauses carry their witness; each witness is replayed on the real code (corpus/conf.json). *)
From Coq Require Import List NArith ZArith Bool.
From YK Require Import Base.Res Conf.Str Conf.Config Conf.Validate Conf.Load Conf.WF.
From YK Require Import Conf.ConfSound Conf.ConfSoundRes Conf.ConfSoundLimits Conf.ConfSoundRules Conf.ConfLoad Conf.ConfPerm2 Conf.ConfPerm3 Conf.ConfMain.
Import ListNotations.

(* ---- validate_sound : Validate c = VOk c' -> WF c'   (conjunct by conjunct) ---- *)
Theorem validate_sound_root : forall compiles c c',
  Validate compiles c = VOk c' -> Forall (fun p => wf_root p = true) c'.
Proof. exact ConfMain.validate_sound_root. Qed.
Print Assumptions validate_sound_root.

Theorem validate_sound_names : forall compiles c c',
  Validate compiles c = VOk c' -> Forall (fun p => wf_names (rootq p) = true) c'.
Proof. exact ConfMain.validate_sound_names. Qed.
Print Assumptions validate_sound_names.

Theorem validate_sound_quantities : forall compiles c c',
  Validate compiles c = VOk c' -> Forall (fun p => wf_quantities (rootq p) = true) c'.
Proof. exact ConfMain.validate_sound_quantities. Qed.
Print Assumptions validate_sound_quantities.

Theorem validate_sound_max_parent : forall compiles c c',
  Validate compiles c = VOk c' -> Forall (fun p => wf_max_parent (rootq p) = true) c'.
Proof. exact ConfMain.validate_sound_max_parent. Qed.
Print Assumptions validate_sound_max_parent.

Theorem validate_sound_gua_max : forall compiles c c',
  Validate compiles c = VOk c' -> Forall (fun p => wf_gua_max (rootq p) = true) c'.
Proof. exact ConfMain.validate_sound_gua_max. Qed.
Print Assumptions validate_sound_gua_max.

Theorem validate_sound_sum_gua : forall compiles c c',
  Validate compiles c = VOk c' -> Forall (fun p => wf_sum_gua (rootq p) = true) c'.
Proof. exact ConfMain.validate_sound_sum_gua. Qed.
Print Assumptions validate_sound_sum_gua.

Theorem validate_sound_maxapps : forall compiles c c',
  Validate compiles c = VOk c' -> Forall (fun p => wf_maxapps (rootq p) = true) c'.
Proof. exact ConfMain.validate_sound_maxapps. Qed.
Print Assumptions validate_sound_maxapps.

Theorem validate_sound_limit_queue : forall compiles c c',
  Validate compiles c = VOk c' -> Forall (fun p => wf_limit_queue (rootq p) = true) c'.
Proof. exact ConfMain.validate_sound_limit_queue. Qed.
Print Assumptions validate_sound_limit_queue.

(* conjuncts 9, 10 (limits within the limit that applies on every ancestor): refuted, partial form proved *)
Theorem validate_sound_limit_anc_res_refuted :
  exists c c', Validate (fun _ => false) c = VOk c' /\ existsb (fun p => negb (wf_limit_anc_res (rootq p))) c' = true.
Proof. exact sound_limit_anc_res_refuted. Qed.
Print Assumptions validate_sound_limit_anc_res_refuted.

Theorem validate_sound_limit_anc_apps_refuted :
  exists c c', Validate (fun _ => false) c = VOk c' /\ existsb (fun p => negb (wf_limit_anc_apps (rootq p))) c' = true.
Proof. exact sound_limit_anc_apps_refuted. Qed.
Print Assumptions validate_sound_limit_anc_apps_refuted.

Theorem validate_sound_limits_partial : forall compiles c c',
  Validate compiles c = VOk c' ->
  Forall (fun p => wf_limit_named_res (rootq p) = true /\ wf_limit_wild_res (rootq p) = true /\
                   wf_limit_named_apps (rootq p) = true /\ wf_limit_wild_apps (rootq p) = true) c'.
Proof. exact ConfMain.validate_sound_limits_partial. Qed.
Print Assumptions validate_sound_limits_partial.

(* conjunct 11 (placement rules resolvable): refuted, partial form proved *)
Theorem validate_sound_rules_refuted :
  exists c c', Validate (fun _ => false) c = VOk c' /\ existsb (fun p => negb (wf_rules (rootq p) (p_rules p))) c' = true.
Proof. exact sound_rules_refuted. Qed.
Print Assumptions validate_sound_rules_refuted.

Theorem validate_sound_rules_partial : forall compiles c c',
  Validate compiles c = VOk c' ->
  Forall (fun p => forallb (fun r => resolvable (rootq p) r || rule_offroot r) (p_rules p) = true) c'.
Proof. exact ConfMain.validate_sound_rules_partial. Qed.
Print Assumptions validate_sound_rules_partial.

(* the whole: refuted as stated, proved in the partial form and under the side conditions that exclude the windows *)
Theorem validate_sound_refuted : exists c c', Validate (fun _ => false) c = VOk c' /\ ~ WF c'.
Proof. exact ConfMain.validate_sound_refuted. Qed.
Print Assumptions validate_sound_refuted.

Theorem validate_sound_partial : forall compiles c c',
  Validate compiles c = VOk c' -> Forall WFp_proved c'.
Proof. exact ConfMain.validate_sound_partial. Qed.
Print Assumptions validate_sound_partial.

Theorem validate_sound_conditional : forall compiles c c',
  Validate compiles c = VOk c' ->
  Forall (fun p => wf_limit_anc_res (rootq p) = true /\ wf_limit_anc_apps (rootq p) = true /\
                   forallb (fun r => negb (rule_offroot r)) (p_rules p) = true) c' -> WF c'.
Proof. exact ConfMain.validate_sound_conditional. Qed.
Print Assumptions validate_sound_conditional.

(* ---- validate_loadable : Validate c = VOk c' -> Load c' <> Error /\ Load c' <> Crash  (new and running scheduler) ---- *)
Theorem validate_loadable_refuted_rules :
  exists c c', Validate (fun _ => false) c = VOk c' /\ LoadNew c' = LOk false /\ LoadReload [s_default] c' = LErr LERule.
Proof. exact ConfLoad.validate_loadable_refuted_rules. Qed.
Print Assumptions validate_loadable_refuted_rules.

Theorem validate_loadable_refuted_partition :
  exists c c', Validate (fun _ => false) c = VOk c' /\ LoadNew c' = LOk true /\ LoadReload [s_default] c' = LHang.
Proof. exact ConfLoad.validate_loadable_refuted_partition. Qed.
Print Assumptions validate_loadable_refuted_partition.

Theorem validate_loadable_partial : forall compiles c c' base,
  Validate compiles c = VOk c' -> base <> [] ->
  rules_buildable c' = true -> keeps_partitions base c' = true ->
  loaded_ok (LoadNew c') = true /\ loaded_ok (LoadReload base c') = true.
Proof. exact ConfLoad.validate_loadable_partial. Qed.
Print Assumptions validate_loadable_partial.

(* without side conditions: the only possible outcomes *)
Theorem validate_load_errors : forall compiles c c' base,
  Validate compiles c = VOk c' -> base <> [] ->
  (LoadNew c' = LOk true \/ LoadNew c' = LOk false) /\
  (LoadReload base c' = LOk true \/ LoadReload base c' = LOk false \/ LoadReload base c' = LErr LERule \/ LoadReload base c' = LHang).
Proof. exact ConfLoad.validate_load_errors. Qed.
Print Assumptions validate_load_errors.

(* ---- validate_perm ---- *)
Theorem validate_perm : forall compiles c c',
  cperm c c' -> accepts (Validate compiles c) = accepts (Validate compiles c').
Proof. exact ConfPerm3.validate_perm. Qed.
Print Assumptions validate_perm.

(* ---- the repaired defects (finding 14), shown on the pinned check functions ---- *)
Theorem root_case_pinned_refuted :
  exists p root0, checkQueuesStructureG false p = VOk root0 /\
                  loadQueues (mkPartition s_default (Some [root0]) [] [] [] []) = Some LERoot /\
                  exists root1, checkQueuesStructureG true p = VOk root1 /\
                                loadQueues (mkPartition s_default (Some [root1]) [] [] [] []) = None.
Proof. exact ConfLoad.root_case_pinned_refuted. Qed.
Print Assumptions root_case_pinned_refuted.

Theorem acl_pinned_refuted :
  exists s, checkACL_pinned s = VOk tt /\ NewACL_ok s = false /\ checkACL s = VErr EACL.
Proof. exact ConfLoad.acl_pinned_refuted. Qed.
Print Assumptions acl_pinned_refuted.

Theorem template_pinned_refuted :
  (exists gm, checkResourceConfig_pinned tmpl_q = VOk gm) /\ applyConf tmpl_q = Some LEQuantity /\
  checkResourceConfig tmpl_q = VErr EQuantity.
Proof. exact ConfLoad.template_pinned_refuted. Qed.
Print Assumptions template_pinned_refuted.

Theorem rules_pinned_refuted :
  checkPlacementRules_pinned (fun _ => false) [root_users] [rule_users] = VOk tt /\
  resolvable root_users rule_users = false /\
  checkPlacementRules (fun _ => false) [root_users] [rule_users] = VErr ERuleNotLeaf.
Proof. exact ConfSoundRules.rules_pinned_refuted. Qed.
Print Assumptions rules_pinned_refuted.

Theorem nested_root_pinned_refuted :
  checkChildNames_pinned (q_queues nested_root) [] = VOk tt /\
  each checkQueues (q_queues nested_root) = VOk tt /\
  wf_limit_queue nested_root = false /\
  checkQueues nested_root = VErr ERootReserved.
Proof. exact ConfLoad.nested_root_pinned_refuted. Qed.
Print Assumptions nested_root_pinned_refuted.
