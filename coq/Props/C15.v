(* C15 property theorems (placeholder while the proofs are being written) *)
From YK Require Import Conf.Str Conf.Config Conf.Validate Conf.Load Conf.WF.
