(* Property C01 - the scheduler never over-commits a node - over the FOURTH fragment of the operational model
   (Core/Model4.v, [m_step_resv] / [m_step4]: reservations, required-node asks, allocations of reserved asks, releases
   and removals in states with reservations, the ledger effects of preemption).  Only statements; proofs are in
   Core/Model4ProofsF.v (frames), Core/Model4ProofsN.v, Core/Model4ProofsN2.v, Core/Model4ProofsExN.v (example).
   [SInv], [Bounded], [NodeLedger] are those of Props/C01.v (Core/StepProofs.v, Core/NodeProofs.v), [step_ok2] the one of
   Props/C01b.v; predicates of the oracle are Core/Ledger.v's own boolean functions. *)
From Coq Require Import List ZArith NArith Bool.
From YK Require Import Base.Res Base.ResSpec Core.Obs Core.Model Core.Model2 Core.Model4 Core.Ledger Core.NodeProofs Core.QueueProofs
  Core.StepProofs Core.LedgerExamples Core.Model2ProofsN Core.Model2ProofsNEx Core.Model4ProofsF Core.Model4ProofsN Core.Model4ProofsN2 Core.Model4ProofsExN Oracles.CoreC01.
Import ListNotations.
Open Scope Z_scope.

(* 1. every step the fragment accepts preserves the node ledger and the auxiliary node invariants *)
Theorem c01d_m_step_resv_inv : forall deny s st s',
  m_step_resv deny s st = Some s' -> SInv s -> Bounded s -> step_ok2 s st -> step_ok4 s st -> SInv s'.
Proof. exact m_step_resv_inv. Qed.
Print Assumptions c01d_m_step_resv_inv.

Theorem c01d_m_step_resv_nodes_ledger : forall deny s st s',
  nodes_ledger_ok s = true -> (forall n, In n (s_nodes s) -> NodeWF n) -> reqs_from req_ok s -> Bounded s -> step_ok2 s st -> step_ok4 s st ->
  m_step_resv deny s st = Some s' -> nodes_ledger_ok s' = true.
Proof. exact m_step_resv_nodes_ledger. Qed.
Print Assumptions c01d_m_step_resv_nodes_ledger.

Theorem c01d_m_step4_inv : forall deny s st s',
  m_step4 deny s st = Some s' -> SInv s -> Bounded s -> step_ok2 s st -> step_ok4 s st -> SInv s'.
Proof. exact m_step4_inv. Qed.
Print Assumptions c01d_m_step4_inv.

(* 2. histories: the ledger holds in every state a run of m_step4 visits *)
Theorem c01d_m_run4_inv : forall deny steps s, SInv s -> run_ok4 deny s steps -> forall s', In s' (m_run4 deny s steps) -> SInv s'.
Proof. exact m_run4_inv. Qed.
Print Assumptions c01d_m_run4_inv.

Theorem c01d_m_run4_nodes_ledger : forall deny steps s, SInv s -> run_ok4 deny s steps ->
  forall s', In s' (m_run4 deny s steps) -> nodes_ledger_ok s' = true.
Proof. exact m_run4_nodes_ledger. Qed.
Print Assumptions c01d_m_run4_nodes_ledger.

(* 3. bind safety of an admitted Allocated / AllocatedReserved decision: the ask is pending, fits what is free on the
   node (capacity - occupied - allocated), the node is unreserved or reserved under THIS allocation key (never a node
   reserved for other asks only), the predicate admits it, the node is the required one if the ask requires a node (or
   the node the ask itself holds reserved), and an unschedulable node is reached only through the reservation /
   required-node path (recorded known finding C01-reserved-drained) *)
Theorem c01d_sched4_bind_safe : forall deny s a k nid s', m_sched_alloc4 deny s a k nid = Some s' ->
  (forall n, In n (s_nodes s) -> NodeLedger n) ->
  exists ask n, find_alloc (ap_requests a) k = Some ask /\ find_node s nid = Some n /\
    oa_allocated ask = false /\
    fits_free n (oa_res ask) = true /\
    reserved_ok n k /\
    existsb (fun p => (fst p =? k)%N && (snd p =? nid)%N) deny = false /\
    (oa_reqnode ask = 0%N \/ oa_reqnode ask = nid \/ In (nid, k) (ap_reservations a)) /\
    (on_sched n = true \/ In (nid, k) (ap_reservations a) \/ oa_reqnode ask = nid).
Proof. exact sched4_bind_safe. Qed.
Print Assumptions c01d_sched4_bind_safe.

(* the same in the terms of the oracle ([bind_check]): under the reservation invariant of C09d (a reservation a node
   lists under a key belongs to the application that holds the ask; the application view is mirrored by the node; a
   reservation of a required-node ask is on the required node) the verdict is BindOk, or the known window 50 *)
Theorem c01d_sched4_bind_check : forall deny s a k nid s', m_sched_alloc4 deny s a k nid = Some s' ->
  find_app s (ap_id a) = Some a -> (forall n, In n (s_nodes s) -> NodeLedger n) ->
  (forall n p, find_node s nid = Some n -> In p (on_reservations n) -> snd p = k -> fst p = ap_id a) ->
  (forall ask, find_alloc (ap_requests a) k = Some ask -> In (nid, k) (ap_reservations a) -> oa_reqnode ask = 0%N \/ oa_reqnode ask = nid) ->
  (forall n, find_node s nid = Some n -> In (nid, k) (ap_reservations a) -> In (ap_id a, k) (on_reservations n)) ->
  exists ask, find_ask s (ap_id a) k = Some ask /\
    (bind_check deny s (ap_id a) k nid (oa_res ask) (oa_reqnode ask) = BindOk \/
     bind_check deny s (ap_id a) k nid (oa_res ask) (oa_reqnode ask) = BindKnown 50).
Proof. exact sched4_bind_check. Qed.
Print Assumptions c01d_sched4_bind_check.

(* 4. the writers of the reservation views, of the preempting ledger and of the preempted marks never touch a node ledger:
   they are frames, and frames preserve the invariant, the bound and the sign conditions *)
Theorem c01d_frame_sinv : forall s s', LFrame s s' -> SInv s -> SInv s'.
Proof. exact LFrame_sinv. Qed.
Print Assumptions c01d_frame_sinv.
Theorem c01d_frame_bounded : forall s s', LFrame s s' -> Bounded s -> Bounded s'.
Proof. exact LFrame_bounded. Qed.
Print Assumptions c01d_frame_bounded.
Theorem c01d_frames : forall s,
  (forall aid k, LFrame s (fst (r_cancel s aid k))) /\ (forall aid k, LFrame s (r_part_unreserve s aid k)) /\
  (forall a, LFrame s (r_cancel_all s a)) /\ (forall a n ask s', r_part_reserve s a n ask = Some s' -> LFrame s s') /\
  (forall l s', m_mark_victims s l = Some s' -> LFrame s s') /\
  (forall leaf r, LFrame s (q_dec_preempting s leaf r)) /\ (forall cnt mv l, LFrame s (m_cancel_phase s cnt mv l)).
Proof. exact frames_summary. Qed.
Print Assumptions c01d_frames.

(* 5. the hypotheses are checkable and satisfiable: nine steps from the empty partition, completely covered by m_step4; a node is
   reserved (step 6), an allocation is released while the reservation is held (7), the reserved ask is allocated on its node (8) *)
Theorem c01d_run_ok4_b_sound : forall deny steps s, run_ok4_b deny s steps = true -> run_ok4 deny s steps.
Proof. exact run_ok4_b_sound. Qed.
Print Assumptions c01d_run_ok4_b_sound.
Theorem c01d_example_hypotheses : SInv x4_s0 /\ run_ok4 [] x4_s0 x4_steps /\ length (m_run4 [] x4_s0 x4_steps) = 9%nat.
Proof. exact x4_hyps. Qed.
Print Assumptions c01d_example_hypotheses.
