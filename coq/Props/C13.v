(* Property C13 - no SI request can crash the core or corrupt its state.
   Only statements; proofs are in Core/GuardProofs.v. Model: Core/Guard.v, the validation front of the SI handlers
   (UpdateAllocation, handleForeignAllocation, removeAllocation, processNodes, application add / remove) as a
   function of the observed pre-state: which requests are refused, with which answer, and where the code before the
   fixes dereferenced nil. `invalid_core` is the specification of an invalid request taken from the property text.
   The oracle Oracles/CoreC13.v evaluates `invalid` on every observed step of the core and coremal engines (no panic,
   no trace, matching rejection) and compares the verdict of the implementation with `guard` (kinds 1391/1392).

   Full statement aimed at (DESIGN 5, C13): no_crash / invalid_rejected / invalid_no_trace for a step function over ALL
   handlers including their effects. Proved here for the front (the guards, which run before any mutation):
   the effect part of the handlers is not modelled in this file, so "no trace" is a theorem about the front
   (a refused request returns the state untouched) and an oracle clause about the implementation. *)
From Coq Require Import List ZArith NArith Bool.
From YK Require Import Base.Res Core.Obs Core.Guard Core.GuardProofs.
Import ListNotations.
Open Scope N_scope.

(* 1. every invalid request is refused, and answered with the rejection message exactly when the protocol has one *)
Theorem c13_invalid_rejected : forall s op, invalid_core s op = true ->
  match answer_of op with
  | Some _ => guard s op = VReject
  | None => guard s op = VIgnore
  end.
Proof. exact invalid_rejected. Qed.
Print Assumptions c13_invalid_rejected.

(* 2. an invalid request leaves no trace: the front returns the state it was given together with the matching answer *)
Theorem c13_invalid_no_trace : forall s op, invalid_core s op = true -> front s op = Refused s (answer_of op).
Proof. exact invalid_no_trace. Qed.
Print Assumptions c13_invalid_no_trace.

Theorem c13_refused_no_trace : forall fixed s op s' ans, front_gen fixed s op = Refused s' ans -> s' = s.
Proof. exact refused_no_trace. Qed.
Print Assumptions c13_refused_no_trace.

(* 3. the guards refuse nothing valid: a refusal means invalid, or an update of an allocation whose node is gone *)
Theorem c13_refused_only_invalid : forall s op,
  (guard s op = VReject \/ guard s op = VIgnore) -> invalid_core s op = true \/ stale_node_update s op = true.
Proof. exact refused_only_invalid. Qed.
Print Assumptions c13_refused_only_invalid.

(* 4. no request makes the (repaired) front panic; before the fixes three requests did, and two invalid requests
   were dropped silently / accepted *)
Theorem c13_no_crash : forall s op, front s op <> Crash.
Proof. exact no_crash. Qed.
Print Assumptions c13_no_crash.

Theorem c13_crash_before_fix :
  front_gen false w_state (OpAppAdd 30 3 6 true true None false 0 None) = Crash /\
  front_gen false w_state (OpRelease 5 7 TT_PlaceholderReplaced) = Crash /\
  front_gen false w_state (OpAlloc (mkReq 40 5 0 (Some [(1, 1%Z)]) 0%Z true 0 0 false true false false true)) = Refused w_state None /\
  front_gen false w_state (OpAlloc (mkReq 41 0 1 (Some [(1, (-5)%Z)]) 0%Z false 0 0 true true false false true)) = Passed.
Proof. exact crash_before_fix. Qed.
Print Assumptions c13_crash_before_fix.

(* 5. refuted clause (known finding C13-foreign-update-other-node): a foreign allocation re-sent with another node is
   invalid for the property and passes every guard *)
Theorem c13_foreign_move_refuted : exists s op,
  foreign_moved s op = true /\ invalid s op = true /\ front s op = Passed.
Proof. exact foreign_move_not_refused. Qed.
Print Assumptions c13_foreign_move_refuted.
