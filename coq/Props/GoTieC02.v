(* C02 — queue maxima: the generated Queue.allocatedResFits, the per-queue step of TryIncAllocatedResource and internalHeadRoom equal Core/Model.v (q_fits, step of q_try_inc).
   Tie theorems between the Gallina definitions GENERATED from /repo's current Go source by harness/gotrans*.go
   (coq/Generated/Go*.v, rewritten on every run) and the hand-written model the theorems of C02 are about.
   Only statements; proofs: Core/GoTieC02. A semantically relevant edit of a translated Go function changes its generated
   definition and the theorem below that mentions it stops compiling (a broken proof obligation of C02).
   This file imports only tie proofs of C02 (plus the shared representation / resource-operation ties its functions
   really call). Written by the script in notes/gotrans.md (statements printed by Coq). *)
From Coq Require Import String List ZArith NArith Bool.
From YK Require Import Base.Int64 Base.F64 Base.Res Base.ResMore Base.ResSpec Core.Obs Core.Model
  Generated.GoPrelude Base.GoTieLib Base.GoTieRep Core.GoTieQ Core.GoTieC02.
(* the generated modules are not imported: their definitions appear qualified (GoResources.addVal ...) *)
From YK Require Generated.GoResources Generated.GoObjects.
Import ListNotations.

Theorem c02_gotie_isRoot :
    forall (sq : GoObjects.Queue) (q : oqueue), qres_rep sq q -> GoObjects.isRoot sq = (q_parent q =? 0)%N.
Proof. exact GoTieC02.gotie_isRoot. Qed.
Print Assumptions c02_gotie_isRoot.

Theorem c02_gotie_allocatedResFits :
    forall (sq : GoObjects.Queue) (q : oqueue) (r : res),
    qres_rep sq q -> wf r -> GoObjects.allocatedResFits sq (Some (mkR r)) = GOk (q_fits q r).
Proof. exact GoTieC02.gotie_allocatedResFits. Qed.
Print Assumptions c02_gotie_allocatedResFits.

Theorem c02_gotie_TryIncAllocatedResource_step :
    forall (sq : GoObjects.Queue) (q : oqueue) (r : res),
    qres_rep sq q ->
    wf r ->
    wf (q_alloc q) ->
    exists sq' : GoObjects.Queue,
    GoObjects.TryIncAllocatedResource_step sq (Some (mkR r)) = GOk (sq', negb (q_fits q r)) /\
    qres_rep sq' (if q_fits q r then q_inc_step q r else q).
Proof. exact GoTieC02.gotie_TryIncAllocatedResource_step. Qed.
Print Assumptions c02_gotie_TryIncAllocatedResource_step.

Theorem c02_TryIncAllocatedResource_skipped_pinned :
    GoObjects.TryIncAllocatedResource_step_skipped =
       "if sq.parent != nil {
	if err := sq.parent.TryIncAllocatedResource(alloc); err != nil {
		if sq.isLeaf {
		}
		return err
	}
}"%string.
Proof. exact GoTieC02.TryIncAllocatedResource_skipped_pinned. Qed.
Print Assumptions c02_TryIncAllocatedResource_skipped_pinned.

Theorem c02_gotie_internalHeadRoom :
    forall (sq : GoObjects.Queue) (q : oqueue) (parent : ores),
    qres_rep sq q ->
    owf (q_max q) ->
    owf parent ->
    owf (SubOnlyExisting (q_max q) (Some (q_alloc q))) ->
    GoObjects.internalHeadRoom sq (toR parent) =
    GOk
    (toR
    match q_max q with
    | Some _ =>
    let h := SubOnlyExisting (q_max q) (Some (q_alloc q)) in
    match parent with
    | Some _ => ComponentWiseMin h parent
    | None => h
    end
    | None => parent
    end).
Proof. exact GoTieC02.gotie_internalHeadRoom. Qed.
Print Assumptions c02_gotie_internalHeadRoom.
