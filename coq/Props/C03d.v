(* Property C03 - resource accounting is conserved - over the FOURTH fragment of the operational model
   (Core/Model4.v, [m_step_resv] / [m_step4]: reservations, required-node asks, allocations of reserved asks, releases and
   removals in states with reservations, the ledger effects of preemption).  Only statements; proofs are in
   Core/Model4ProofsF.v (frames), Core/Model4ProofsG.v (the books do not depend on the reservation views, the preempting
   ledger or the marks), Core/Model4ProofsB.v, Core/Model4ProofsB2.v.
   [Books], [Inv], [Bounded], [ReqOK], [UpdOK], [StepOK2] are those of Props/C03.v / Props/C03b.v; [Books s] is literally
   the oracle: [c03_books_reflect : Books s <-> c03_state s = []]. *)
From Coq Require Import List ZArith NArith Bool.
From YK Require Import Base.Res Base.ResSpec Core.Obs Core.Model Core.Model2 Core.Model4 Core.Ledger
  Core.BooksLemmas Core.BooksDefs Core.BooksOps Core.BooksOps4 Core.BooksProofs
  Core.Model2ProofsB3 Core.Model2ProofsB6 Core.Model4ProofsF Core.Model4ProofsG Core.Model4ProofsB Core.Model4ProofsB2 Core.Model4ProofsR8 Core.Model4ProofsR10 Core.Model4ProofsR9
  Core.Model4ProofsEx Oracles.CoreC01.
Import ListNotations.
Open Scope Z_scope.

(* ---- 1. the books do not see the reservation views, the reservation counter, the preempting ledger, the marks ---- *)
Theorem c03d_frame_oracle : forall s s', LFrame s s' -> c03_state s' = c03_state s.
Proof. exact LFrame_c03_state. Qed.
Print Assumptions c03d_frame_oracle.
Theorem c03d_frame_books : forall s s', LFrame s s' -> Books s -> Books s'.
Proof. exact LFrame_books. Qed.
Print Assumptions c03d_frame_books.
Theorem c03d_frame_inv : forall s s', LFrame s s' -> Inv s -> Inv s'.
Proof. exact LFrame_inv. Qed.
Print Assumptions c03d_frame_inv.
Theorem c03d_frame_bounded : forall s s', LFrame s s' -> Bounded s -> Bounded s'.
Proof. exact LFrame_bounded3. Qed.
Print Assumptions c03d_frame_bounded.

(* ---- 2. the operations of the fragment ---- *)
(* tryNode + partition.allocate for ANY pending ask on ANY registered node (the guards of the three code paths are not needed) *)
Theorem c03d_bind : forall s s' a ask n, Inv s -> Books0 s -> Bounded s -> In a (s_apps s) -> In ask (ap_requests a) ->
  oa_allocated ask = false -> oa_ph ask = false -> In n (s_nodes s) -> m_bind s a ask n (on_id n) = Some s' -> Inv s' /\ Books s'.
Proof. exact m_bind_step. Qed.
Print Assumptions c03d_bind.
Theorem c03d_sched_alloc4 : forall deny s s' a k nid, Inv s -> Books0 s -> Bounded s -> In a (s_apps s) ->
  m_sched_alloc4 deny s a k nid = Some s' -> Inv s' /\ Books s'.
Proof. exact m_sched_alloc4_step. Qed.
Print Assumptions c03d_sched_alloc4.
(* a whole scheduling cycle: reservations given up, victims marked (preempting ledger), one allocation, one reservation *)
Theorem c03d_sched4 : forall deny s st s', Inv s -> Books s -> Bounded s -> m_sched4 deny s st = Some s' -> Inv s' /\ Books s'.
Proof. exact m_sched4_step. Qed.
Print Assumptions c03d_sched4.
Theorem c03d_release_alloc4 : forall s s' a x ttype, Inv s -> Books s -> Bounded s -> find_app s (ap_id a) = Some a -> In x (ap_allocs a) ->
  m_release_alloc4 s a x ttype = Some s' -> Inv s' /\ Books s'.
Proof. exact m_release_alloc4_step. Qed.
Print Assumptions c03d_release_alloc4.
Theorem c03d_release_ask4 : forall s s' a x, Inv s -> Books s -> Bounded s -> In x (ap_requests a) -> find_app s (ap_id a) = Some a ->
  m_release_ask4 s a x = Some s' -> Inv s' /\ Books s'.
Proof. exact m_release_ask4_step. Qed.
Print Assumptions c03d_release_ask4.
Theorem c03d_app_remove4 : forall s s' id, Inv s -> Books s -> Bounded s -> m_app_remove4 s id = Some s' -> Inv s' /\ Books s'.
Proof. exact m_app_remove4_step. Qed.
Print Assumptions c03d_app_remove4.
Theorem c03d_node_remove4 : forall s s' id, Inv s -> Books s -> Bounded s -> m_node_remove4 s id = Some s' -> Inv s' /\ Books s'.
Proof. exact m_node_remove4_step. Qed.
Print Assumptions c03d_node_remove4.
Theorem c03d_alloc4 : forall s s' r, Inv s -> Books s -> Bounded s -> ReqOK s r -> UpdOK4 s r -> m_alloc4 s r = Some s' -> Inv s' /\ Books s'.
Proof. exact m_alloc4_step. Qed.
Print Assumptions c03d_alloc4.

(* ---- 3. one step, all histories.  PARTIAL: [StepOK4] demands [key <> 0] for OpRelease, i.e. the release of ALL allocations of
   an application at once ([m_release_all4]) is not covered by the books proof (it is covered by the correspondence, kinds
   191 ... 393 / 993, and by C01d).  Full statement: the same without that side condition. ---- *)
Theorem c03d_m_step_resv_preserves_partial : forall deny s st s', Books s -> Inv s -> Bounded s -> StepOK4 s st ->
  m_step_resv deny s st = Some s' -> Inv s' /\ Books s'.
Proof. exact m_step_resv_preserves_partial. Qed.
Print Assumptions c03d_m_step_resv_preserves_partial.
Theorem c03d_m_step4_preserves_partial : forall deny s st s', Books s -> Inv s -> Bounded s -> StepOK2 s st -> StepOK4 s st ->
  m_step4 deny s st = Some s' -> Inv s' /\ Books s'.
Proof. exact m_step4_preserves_partial. Qed.
Print Assumptions c03d_m_step4_preserves_partial.
Theorem c03d_books_reachable4_partial : forall deny steps s0, Books s0 -> Inv s0 -> RunOK4 deny s0 steps ->
  Books (m_run4 deny s0 steps) /\ Inv (m_run4 deny s0 steps).
Proof. exact books_reachable4_partial. Qed.
Print Assumptions c03d_books_reachable4_partial.
Theorem c03d_run4_oracle_partial : forall deny steps s0, Books s0 -> Inv s0 -> RunOK4 deny s0 steps -> c03_state (m_run4 deny s0 steps) = [].
Proof. exact c03_run4_oracle_partial. Qed.
Print Assumptions c03d_run4_oracle_partial.

(* ---- 4. the hypotheses are checkable and satisfiable (Core/Model4ProofsEx.v: nine steps from the empty partition, a reservation is
   created, an allocation is released while it is held, the reserved ask is allocated on its node; steps 6-8 go through m_step_resv) ---- *)
Theorem c03d_example_hypotheses : Books e4_s0 /\ Inv e4_s0 /\ RunOK4 [] e4_s0 e4_steps /\ m_run4_len [] e4_s0 e4_steps = length e4_steps.
Proof. exact (conj e4_books0 (conj e4_inv0 (conj (proj1 e4_run_ok) e4_covered))). Qed.
Print Assumptions c03d_example_hypotheses.
