(* C11 — max-applications gate: the generated critical sections of Queue.canRunApp / incRunningApps / decRunningApps equal Core/MaxApps.v (gate_q, inc1, dec1); the skipped prefixes are pinned.
   Tie theorems between the Gallina definitions GENERATED from /repo's current Go source by harness/gotrans*.go
   (coq/Generated/Go*.v, rewritten on every run) and the hand-written model the theorems of C11 are about.
   Only statements; proofs: Core/GoTieC11. A semantically relevant edit of a translated Go function changes its generated
   definition and the theorem below that mentions it stops compiling (a broken proof obligation of C11).
   This file imports only tie proofs of C11 (plus the shared representation / resource-operation ties its functions
   really call). Written by the script in notes/gotrans.md (statements printed by Coq). *)
From Coq Require Import String List ZArith NArith Bool.
From YK Require Import Core.Obs Core.MaxApps
  Generated.GoPrelude Base.GoTieLib Core.GoTieC11.
(* the generated modules are not imported: their definitions appear qualified (GoResources.addVal ...) *)
From YK Require Generated.GoResources Generated.GoObjects.
Import ListNotations.

Theorem c11_gotie_canRunApp :
    forall (sq : GoObjects.Queue) (q : mq) (app : N),
    q_rep sq q -> q_small q -> GoObjects.canRunApp_crit sq app = gate_q q app.
Proof. exact GoTieC11.gotie_canRunApp. Qed.
Print Assumptions c11_gotie_canRunApp.

Theorem c11_gotie_incRunningApps :
    forall (sq : GoObjects.Queue) (q : mq) (app : N),
    q_rep sq q ->
    q_small q -> NoDup (mq_allocating q) -> q_rep (GoObjects.incRunningApps_crit sq app) (inc1 app q).
Proof. exact GoTieC11.gotie_incRunningApps. Qed.
Print Assumptions c11_gotie_incRunningApps.

Theorem c11_gotie_decRunningApps :
    forall (sq : GoObjects.Queue) (q : mq),
    q_rep sq q -> q_small q -> q_rep (GoObjects.decRunningApps_crit sq) (dec1 q).
Proof. exact GoTieC11.gotie_decRunningApps. Qed.
Print Assumptions c11_gotie_decRunningApps.

Theorem c11_canRunApp_prefix_pinned :
    GoObjects.canRunApp_crit_prefix =
       "if sq == nil {
	return true
}
if sq.parent != nil {
	parentCanRun := sq.parent.canRunApp(appID)
	if !parentCanRun {
		return false
	}
}"%string.
Proof. exact GoTieC11.canRunApp_prefix_pinned. Qed.
Print Assumptions c11_canRunApp_prefix_pinned.

Theorem c11_incRunningApps_prefix_pinned :
    GoObjects.incRunningApps_crit_prefix =
       "if sq == nil {
	return
}
if sq.parent != nil {
	sq.parent.incRunningApps(appID)
}"%string.
Proof. exact GoTieC11.incRunningApps_prefix_pinned. Qed.
Print Assumptions c11_incRunningApps_prefix_pinned.

Theorem c11_decRunningApps_prefix_pinned :
    GoObjects.decRunningApps_crit_prefix =
       "if sq == nil {
	return
}
if sq.parent != nil {
	sq.parent.decRunningApps()
}"%string.
Proof. exact GoTieC11.decRunningApps_prefix_pinned. Qed.
Print Assumptions c11_decRunningApps_prefix_pinned.
