(* C14 (c): what the oracle of the conc engine establishes about split critical sections (kind 1420), and how it
   relates to the atomicity theorem of Conc/AtomicProofs.v.

   The lock wrapper computes, on every run of the real scheduler, the relation `has_split` of Conc/Atomic.v for the
   invocations it sees: inside ONE invocation of a function the lock of an object is released and taken again in write
   mode.  The (function, object class) pairs found on the unchanged tree were reviewed one by one and are listed in
   corpus/conc_split_baseline.json (why each is benign).  For every other function the run shows no split section:
   that is the hypothesis `disciplined` (no split section; the lock discipline itself is what the race detector checks)
   under which `nosplit_serializable` excludes lost updates and `nosplit_invariant` makes a guard checked inside the
   section an invariant.  A run on which kind 1420 is not reported saw no split section outside the baseline. *)
From Coq Require Import List NArith Bool.
From YK Require Import Core.Obs Conc.LockOrder Oracles.ConcCheck.
Import ListNotations.

Lemma memN_In : forall x l, memN x l = true -> In x l.
Proof.
  intros x l H. unfold memN in H. apply existsb_exists in H as (y & Hy & E). apply N.eqb_eq in E. subst y. exact Hy.
Qed.

Theorem oracle_no_new_split : forall c, ~ In 1420%N (conc_check_case c) ->
  forall s, In s (cc_splits c) -> In s (cc_baseline c).
Proof.
  intros c H s Hs. destruct (split_ok c) eqn:E.
  - unfold split_ok in E. rewrite forallb_forall in E. apply memN_In. apply E. exact Hs.
  - exfalso. apply H. unfold conc_check_case. rewrite E.
    apply in_or_app. right. apply in_or_app. right. apply in_or_app. left. left. reflexivity.
Qed.

(* the converse: a split section outside the baseline is reported *)
Theorem new_split_reported : forall c s, In s (cc_splits c) -> ~ In s (cc_baseline c) -> In 1420%N (conc_check_case c).
Proof.
  intros c s Hs Hn. destruct (in_dec N.eq_dec 1420%N (conc_check_case c)) as [H|H]; [exact H|].
  exfalso. apply Hn. apply (oracle_no_new_split c H s Hs).
Qed.
