(* C14: the oracle evaluated by the conc engine (Oracles/ConcCheck.v, kind 1401) decides exactly the
   hypothesis of the lock-order theorem (Conc/LockOrderProofs.v). *)
From Coq Require Import List NArith Bool.
From YK Require Import Conc.LockOrder Conc.LockOrderProofs Oracles.ConcCheck.
Import ListNotations.

(* ---------- the oracle of the conc engine decides the hypothesis of the theorem ---------- *)

Lemma no_1401_acyclic : forall c, ~ In 1401%N (conc_check_case c) -> acyclic (cc_edges c) = true.
Proof.
  intros c H. unfold conc_check_case, lock_order_ok in H.
  destruct (acyclic (cc_edges c)); [reflexivity|].
  exfalso. apply H. cbn. left. reflexivity.
Qed.

(* a run on which kind 1401 is not reported has a nesting relation under which no program that nests its
   locks only as observed can deadlock on them *)
Theorem oracle_lock_order : forall c, ~ In 1401%N (conc_check_case c) ->
  forall can_grant s, reachable (cc_edges c) can_grant s ->
  (forall D, ~ deadlocked s D) /\ (forall cyc, ~ wait_cycle s cyc).
Proof.
  intros c H g s Hr. pose proof (no_1401_acyclic c H) as Ha. split.
  - intro D. apply (acyclic_no_deadlocked_set (cc_edges c) g Ha s Hr).
  - intro cyc. apply (acyclic_no_deadlock (cc_edges c) g Ha s Hr).
Qed.
