(* C14: the oracle evaluated by the conc engine (Oracles/ConcCheck.v, kind 1401) decides exactly the
   hypothesis of the lock-order theorem (Conc/LockOrderProofs.v). *)
From Coq Require Import List NArith Bool.
From YK Require Import Conc.LockOrder Conc.LockOrderProofs Oracles.ConcCheck.
Import ListNotations.

(* ---------- the oracle of the conc engine decides the hypothesis of the theorem ---------- *)

Lemma no_1401_order_ok : forall c, ~ In 1401%N (conc_check_case c) ->
  exists rk, order_ok (is_single c) rk (cc_edges c) = true.
Proof.
  intros c H. unfold conc_check_case in H.
  destruct (lock_order_ok c) eqn:Hok.
  - unfold lock_order_ok in Hok. destruct (acyclic (untag (cc_edges c))) eqn:Ha.
    + exists (rank (untag (cc_edges c))).
      (* the plain check implies the refined one for every choice of single roles *)
      pose proof (acyclic_order_ok (cc_edges c) Ha) as H0.
      unfold order_ok in *. rewrite forallb_forall in *. intros e He. specialize (H0 e He).
      destruct (Nat.ltb (rank (untag (cc_edges c)) (tfrom e)) (rank (untag (cc_edges c)) (tto e))).
      reflexivity.
      destruct (negb (flat (rank (untag (cc_edges c))) e)). discriminate H0. discriminate H0.
    + exists (cert_rank c). exact Hok.
  - exfalso. apply H. cbn. left. reflexivity.
Qed.

(* a run on which kind 1401 is not reported has a nesting relation under which no program that nests its
   locks only as observed (per role), with one thread per single role, can deadlock on them *)
Theorem oracle_lock_order : forall c, ~ In 1401%N (conc_check_case c) ->
  forall (role_of : thread -> role) (can_grant : state -> thread -> lock -> Prop),
  singles_respected role_of (is_single c) ->
  forall s, reachable (cc_edges c) role_of can_grant s ->
  (forall D, ~ deadlocked s D) /\ (forall cyc, ~ wait_cycle s cyc).
Proof.
  intros c H role_of g Hs s Hr. destruct (no_1401_order_ok c H) as [rk Hok]. split.
  - intro D. apply (order_ok_no_deadlocked_set (cc_edges c) role_of g (is_single c) rk Hok Hs s Hr).
  - intro cyc. apply (order_ok_no_deadlock (cc_edges c) role_of g (is_single c) rk Hok Hs s Hr).
Qed.
