(* C14 (a): lock-order machine.  Definitions only; proofs are in Conc/LockOrderProofs.v.

   The machine abstracts everything about the program except its lock nesting: any number of threads,
   any number of locks, each thread requests / is granted / releases locks.  The ONLY constraint on
   a thread's behaviour is the nesting relation E: a thread of role r may request lock b while holding a
   only if (r, (a, b)) is in E (for EVERY lock a it holds at that moment).  E is what the tracing lock wrapper
   (/repo/pkg/locking/locking_verif.go, build tag verif) records from the running scheduler: one edge
   from every lock still held by the goroutine to the lock it requests, instance level, distinct locks only,
   tagged with the role of the goroutine (scheduling loop, RM event handler, REST reader, ...).
   Roles matter only for the refined check `order_ok`: a role may be declared SINGLE (the program has at most
   one thread of that role, e.g. the scheduling loop); a cycle of E all of whose edges belong to one single
   role cannot deadlock, because a wait-for cycle needs two different threads.  The plain check `acyclic`
   ignores roles (any thread may use any edge).

   RW locks: read and write acquisitions are treated alike (conservative: a wait between two readers is
   possible in Go when a writer queues in between).  The grant rule is a parameter of the machine
   (any rule that grants a free lock: sync.Mutex, sync.RWMutex with shared readers, ...); the
   deadlock theorem does not depend on it.  Releases need not be LIFO. *)
From Coq Require Import List NArith PArith Bool Arith FMapPositive.
Import ListNotations.

Definition lock := N.
Definition edge := (lock * lock)%type.
Definition role := N.
Definition tedge := (role * edge)%type.      (* role of the requesting thread, (held, requested) *)
Definition thread := nat.
Definition untag (E : list tedge) : list edge := map snd E.

(* ---------- the machine ---------- *)
Record tstate := mkT { held : list lock; waiting : option lock }.
Definition state := thread -> tstate.
Definition idle : tstate := mkT [] None.
Definition init : state := fun _ => idle.
Definition upd (s : state) (t : thread) (x : tstate) : state :=
  fun u => if Nat.eqb u t then x else s u.

(* lock l is held by nobody *)
Definition free (s : state) (l : lock) : Prop := forall u, ~ In l (held (s u)).

Section Machine.
  Variable E : list tedge.
  Variable role_of : thread -> role.
  (* grant rule; the only requirement used (by the progress theorem) is that a free lock can be granted *)
  Variable can_grant : state -> thread -> lock -> Prop.

  (* a thread of role r holding hs may request l *)
  Definition allowed (r : role) (hs : list lock) (l : lock) : Prop := forall h, In h hs -> In (r, (h, l)) E.

  Inductive step : state -> state -> Prop :=
  | StepRequest : forall s t l,
      waiting (s t) = None -> ~ In l (held (s t)) -> allowed (role_of t) (held (s t)) l ->
      step s (upd s t (mkT (held (s t)) (Some l)))
  | StepGrant : forall s t l,
      waiting (s t) = Some l -> can_grant s t l ->
      step s (upd s t (mkT (l :: held (s t)) None))
  | StepRelease : forall s t l,
      waiting (s t) = None -> In l (held (s t)) ->
      step s (upd s t (mkT (remove N.eq_dec l (held (s t))) None)).

  (* the steps that do not add a new request: a waiting thread is granted its lock, or a thread that is not
     waiting releases one.  (A request by an idle thread is always possible and is no sign of progress.) *)
  Inductive unblock : state -> state -> Prop :=
  | UnblockGrant : forall s t l,
      waiting (s t) = Some l -> can_grant s t l ->
      unblock s (upd s t (mkT (l :: held (s t)) None))
  | UnblockRelease : forall s t l,
      waiting (s t) = None -> In l (held (s t)) ->
      unblock s (upd s t (mkT (remove N.eq_dec l (held (s t))) None)).

  Inductive reachable : state -> Prop :=
  | ReachInit : reachable init
  | ReachStep : forall s s', reachable s -> step s s' -> reachable s'.
End Machine.

(* ---------- wait-for structure of a state ---------- *)
(* t waits for a lock that u holds *)
Definition waits_for (s : state) (t u : thread) : Prop :=
  exists l, waiting (s t) = Some l /\ In l (held (s u)).

(* a wait-for cycle: t0 waits for t1, t1 for t2, ..., the last one for t0 *)
Definition wait_cycle (s : state) (c : list thread) : Prop :=
  c <> [] /\ forall i, i < length c -> waits_for s (nth i c 0) (nth (S i mod length c) c 0).

(* a deadlocked set: non-empty, every member waits for a lock held by a member *)
Definition deadlocked (s : state) (D : list thread) : Prop :=
  D <> [] /\ forall t, In t D -> exists u, In u D /\ waits_for s t u.

(* ---------- cycles of the nesting relation ---------- *)
Inductive path (E : list edge) : lock -> lock -> Prop :=
| PathEdge : forall a b, In (a, b) E -> path E a b
| PathStep : forall a b c, In (a, b) E -> path E b c -> path E a c.

Definition has_cycle (E : list edge) : Prop := exists a, path E a a.

(* ---------- executable acyclicity check ----------
   Layer peeling (Kahn): in every round the locks that have an outgoing but no incoming edge among the
   remaining edges get the round number as rank and their outgoing edges are dropped.  Locks never ranked
   (pure sinks, or locks on / behind a cycle) get the default rank, which is larger than every round number.
   The verdict is the CHECK that every edge goes from a smaller to a larger rank, so its soundness does not
   depend on how the ranks were found. *)
Definition key (l : lock) : positive := N.succ_pos l.
Definition pset := PositiveMap.t unit.
Definition pmem (l : lock) (m : pset) : bool := PositiveMap.mem (key l) m.
Definition targets (es : list edge) : pset :=
  fold_left (fun m e => PositiveMap.add (key (snd e)) tt m) es (PositiveMap.empty unit).

Fixpoint peel (fuel round : nat) (es : list edge) (acc : PositiveMap.t nat) : PositiveMap.t nat :=
  match fuel with
  | O => acc
  | S f =>
      match es with
      | [] => acc
      | _ =>
          let tg := targets es in
          let rest := filter (fun e => pmem (fst e) tg) es in
          if Nat.eqb (length rest) (length es) then acc   (* no source left: a cycle *)
          else peel f (S round) rest
                 (fold_left (fun m e => if pmem (fst e) tg then m else PositiveMap.add (key (fst e)) round m) es acc)
      end
  end.

Definition ranks (E : list edge) : PositiveMap.t nat := peel (S (length E)) 0 E (PositiveMap.empty nat).
Definition rank_in (tbl : PositiveMap.t nat) (dflt : nat) (l : lock) : nat :=
  match PositiveMap.find (key l) tbl with Some r => r | None => dflt end.
Definition rank (E : list edge) : lock -> nat := rank_in (ranks E) (S (length E)).

Definition acyclic (E : list edge) : bool :=
  let rk := rank E in forallb (fun e => Nat.ltb (rk (fst e)) (rk (snd e))) E.

(* ---------- refined check: cycles confined to one single role are harmless ----------
   rk is a rank certificate (found by the harness, or `rank`): every edge must climb strictly, or stay on its
   level provided its role is single and every other level edge of that level has the same role. *)
Definition tfrom (e : tedge) : lock := fst (snd e).
Definition tto (e : tedge) : lock := snd (snd e).
Definition flat (rk : lock -> nat) (e : tedge) : bool := Nat.eqb (rk (tfrom e)) (rk (tto e)).
Definition order_ok (single : role -> bool) (rk : lock -> nat) (E : list tedge) : bool :=
  forallb (fun e =>
    if Nat.ltb (rk (tfrom e)) (rk (tto e)) then true
    else if negb (flat rk e) then false
    else if negb (single (fst e)) then false
    else forallb (fun e' =>
           if flat rk e' then (if Nat.eqb (rk (tfrom e')) (rk (tfrom e)) then N.eqb (fst e') (fst e) else true)
           else true) E) E.

(* a claimed cycle c = [l0; l1; ...; ln-1] (ln = l0) consists of edges of E *)
Fixpoint chain_in (E : list edge) (first : lock) (c : list lock) : bool :=
  match c with
  | [] => false
  | [a] => existsb (fun e => N.eqb (fst e) a && N.eqb (snd e) first) E
  | a :: ((b :: _) as t) => existsb (fun e => N.eqb (fst e) a && N.eqb (snd e) b) E && chain_in E first t
  end.
Definition is_cycle (E : list edge) (c : list lock) : bool :=
  match c with [] => false | a :: _ => chain_in E a c end.
