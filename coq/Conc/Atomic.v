(* C14 (c): atomicity of read-modify-write operations on a lock-protected variable.  Definitions only; proofs are in
   Conc/AtomicProofs.v.

   The machine: any number of threads, ONE object with a reader/writer lock (sync.RWMutex: any number of readers or
   one writer) protecting one variable x (a ledger such as Queue.allocatedResource, or "the entry of the tracker map").
   Every thread executes a list of INVOCATIONS (one call of a method of the object, `op`), each a list of
   instructions: take / release the lock, read x into the invocation's register, check a guard on the register,
   store a function of the register into x.  Instructions of different threads interleave arbitrarily (one
   instruction per step); a lock request that cannot be granted makes no step.  Nothing forces an access to happen
   under the lock: that is what the discipline `locked` says, and what the Go race detector checks.

   The relation the lock wrapper's critical-section monitor computes on the real code
   (/repo/pkg/locking/locking_verif_sections.go) is `has_split`: inside ONE invocation the lock is released and taken
   again in write mode.  Theorem (AtomicProofs.v): if every invocation follows the lock discipline and has no split
   section, every reachable value of x, whenever no writer is inside its section, is the result of executing
   the invocations one after the other in SOME order that respects each thread's own order - no lost update, and a
   guard checked inside the section is an invariant.  With a split section (check or read under the read lock, store
   under the write lock) both fail for a two-thread schedule although every access is still under the lock. *)
From Coq Require Import List ZArith Bool Arith.
Import ListNotations.
Open Scope Z_scope.

Inductive mode := MR | MW.

Inductive instr :=
| Acq (m : mode)            (* sq.RLock() / sq.Lock() *)
| Rel                       (* the matching unlock *)
| Load                      (* reg := x *)
| Check (g : Z -> bool)     (* ok := ok && g reg : the invocation gives up (stores nothing) when a guard fails *)
| Store (f : Z -> Z).       (* if ok then x := f reg *)

Definition op := list instr.       (* one invocation *)
Definition prog := list op.        (* what one thread does, one invocation after the other *)

Record tstate := mkTS {
  pc : list instr;      (* rest of the current invocation *)
  cur : op;             (* the current invocation *)
  todo : prog;          (* invocations not started yet *)
  reg : Z; ok : bool;   (* register and guard flag of the current invocation *)
  hold : option mode }.

Record cfg := mkCfg {
  xv : Z;                   (* the protected variable *)
  writer : option nat;      (* the thread inside a write-mode section *)
  readers : nat;            (* number of read-mode holders *)
  thr : nat -> tstate }.

Definition set_thr (c : cfg) (t : nat) (ts : tstate) : nat -> tstate :=
  fun u => if Nat.eqb u t then ts else thr c u.

(* one step of thread t; None: t is finished, blocked on the lock, or misuses it (nested request, release without hold) *)
Definition step (c : cfg) (t : nat) : option cfg :=
  let ts := thr c t in
  match pc ts with
  | [] =>
      match todo ts with
      | [] => None
      | o :: rest => Some (mkCfg (xv c) (writer c) (readers c) (set_thr c t (mkTS o o rest 0 true (hold ts))))
      end
  | i :: rest =>
      let next r k h := mkTS rest (cur ts) (todo ts) r k h in
      match i with
      | Acq m =>
          match hold ts with
          | Some _ => None
          | None =>
              match m with
              | MW => match writer c, readers c with
                      | None, O => Some (mkCfg (xv c) (Some t) O (set_thr c t (next (reg ts) (ok ts) (Some MW))))
                      | _, _ => None
                      end
              | MR => match writer c with
                      | None => Some (mkCfg (xv c) None (S (readers c)) (set_thr c t (next (reg ts) (ok ts) (Some MR))))
                      | Some _ => None
                      end
              end
          end
      | Rel =>
          match hold ts with
          | Some MW => Some (mkCfg (xv c) None (readers c) (set_thr c t (next (reg ts) (ok ts) None)))
          | Some MR => Some (mkCfg (xv c) (writer c) (pred (readers c)) (set_thr c t (next (reg ts) (ok ts) None)))
          | None => None
          end
      | Load => Some (mkCfg (xv c) (writer c) (readers c) (set_thr c t (next (xv c) (ok ts) (hold ts))))
      | Check g => Some (mkCfg (xv c) (writer c) (readers c) (set_thr c t (next (reg ts) (ok ts && g (reg ts)) (hold ts))))
      | Store f => Some (mkCfg (if ok ts then f (reg ts) else xv c) (writer c) (readers c)
                               (set_thr c t (next (reg ts) (ok ts) (hold ts))))
      end
  end.

(* a schedule is any list of thread numbers; a thread that cannot move is skipped *)
Definition step_or_skip (c : cfg) (t : nat) : cfg := match step c t with Some c' => c' | None => c end.
Definition run (sched : list nat) (c : cfg) : cfg := fold_left step_or_skip sched c.

Definition init (x0 : Z) (progs : nat -> prog) : cfg :=
  mkCfg x0 None O (fun t => mkTS [] [] (progs t) 0 true None).

Definition finished (c : cfg) : Prop := forall t, pc (thr c t) = [] /\ todo (thr c t) = [].

(* ---------- an invocation executed alone ---------- *)
Definition dstate := (Z * Z * bool)%type.     (* x, register, guard flag *)
Definition dstep (s : dstate) (i : instr) : dstate :=
  match s with
  | (x, r, k) =>
      match i with
      | Load => (x, x, k)
      | Check g => (x, r, k && g r)
      | Store f => ((if k then f r else x), r, k)
      | _ => s
      end
  end.
Definition drun (l : list instr) (s : dstate) : dstate := fold_left dstep l s.
Definition dx (s : dstate) : Z := fst (fst s).
Definition op_fun (o : op) (x : Z) : Z := dx (drun o (x, 0, true)).

(* serial execution of a list of (thread, invocation) *)
Definition serial (l : list (nat * op)) (x0 : Z) : Z := fold_left (fun x p => op_fun (snd p) x) l x0.
(* the invocations of thread t in l, in order *)
Definition proj (t : nat) (l : list (nat * op)) : list op := map snd (filter (fun p => Nat.eqb (fst p) t) l).

(* ---------- the lock discipline and the monitor's relation ---------- *)
(* every read inside a section, every store inside a write-mode section, sections bracketed and not nested *)
Fixpoint locked (h : option mode) (l : list instr) : bool :=
  match l with
  | [] => match h with None => true | Some _ => false end
  | Acq m :: t => match h with None => locked (Some m) t | Some _ => false end
  | Rel :: t => match h with Some _ => locked None t | None => false end
  | Store _ :: t => match h with Some MW => locked h t | _ => false end
  | _ :: t => match h with Some _ => locked h t | None => false end
  end.

(* the invocation releases the lock and takes it again in write mode: a split critical section *)
Fixpoint split_from (released : bool) (l : list instr) : bool :=
  match l with
  | [] => false
  | Rel :: t => split_from true t
  | Acq MW :: t => released || split_from released t
  | _ :: t => split_from released t
  end.
Definition has_split (o : op) : bool := split_from false o.

(* what the two together amount to: one write-mode section first (or none), then read-mode sections without stores *)
Fixpoint ro (h : bool) (l : list instr) : bool :=
  match l with
  | [] => negb h
  | Acq MR :: t => negb h && ro true t
  | Rel :: t => h && ro false t
  | Load :: t => h && ro h t
  | Check _ :: t => h && ro h t
  | _ => false
  end.
Fixpoint wsec (l : list instr) : bool :=
  match l with
  | Rel :: t => ro false t
  | Load :: t => wsec t
  | Check _ :: t => wsec t
  | Store _ :: t => wsec t
  | _ => false
  end.
Definition shape (o : op) : bool :=
  match o with
  | Acq MW :: t => wsec t
  | _ => ro false o
  end.

Definition disciplined (progs : nat -> prog) : Prop :=
  forall t o, In o (progs t) -> locked None o = true /\ has_split o = false.

(* ---------- the invocations of the examples ---------- *)
(* unconditional increment / decrement inside one write-mode section (Queue.IncAllocatedResource) *)
Definition inc (d : Z) : op := [Acq MW; Load; Store (fun r => r + d); Rel].
(* guarded increment inside ONE write-mode section: check and store cannot be separated *)
Definition ginc (mx d : Z) : op := [Acq MW; Load; Check (fun r => r + d <=? mx); Store (fun r => r + d); Rel].
(* a reader *)
Definition peek : op := [Acq MR; Load; Rel].
(* SPLIT, stale store: new value computed under the read lock, stored under the write lock (seeded change C14-SEED2) *)
Definition sinc (d : Z) : op := [Acq MR; Load; Rel; Acq MW; Store (fun r => r + d); Rel].
(* SPLIT, check-then-act: guard checked under the read lock, increment (with a fresh read) under the write lock
   (Queue.TryIncAllocatedResource on the unchanged tree: allocatedResFits, then Lock and Add) *)
Definition cinc (mx d : Z) : op :=
  [Acq MR; Load; Check (fun r => r + d <=? mx); Rel; Acq MW; Load; Store (fun r => r + d); Rel].

Definition progs_of (ps : list prog) : nat -> prog := fun t => nth t ps [].
Fixpoint sumZ (l : list Z) : Z := match l with [] => 0 | a :: t => a + sumZ t end.
