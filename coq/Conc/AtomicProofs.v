(* C14 (c): proofs about the machine of Conc/Atomic.v.
   Main result `nosplit_serializable`: lock discipline + no split critical section => every reachable value of the
   protected variable (no writer inside its section) is the result of SOME serial order of the invocations.
   Corollaries: sum of commutative increments, guard checked in the section is an invariant.
   Refutations by a two-thread schedule: stale store (lost update), check-then-act (above the maximum). *)
From Coq Require Import List ZArith Bool Arith Lia.
From YK Require Import Conc.Atomic.
Import ListNotations.
Open Scope Z_scope.

(* ---------- discipline + no split = shape ---------- *)
Lemma locked_ro_both : forall l,
  (forall r, locked (Some MR) l = true -> split_from r l = false -> ro true l = true) /\
  (locked None l = true -> split_from true l = false -> ro false l = true).
Proof.
  induction l as [|i t [IH1 IH2]]; split.
  - intros r H. discriminate H.
  - reflexivity.
  - intros r Hl Hs. destruct i as [m| | | |]; cbn in *; try discriminate.
    + apply IH2; assumption.
    + eapply IH1; eassumption.
    + eapply IH1; eassumption.
  - intros Hl Hs. destruct i as [m| | | |]; cbn in *; try discriminate.
    destruct m; cbn in *; try discriminate. eapply IH1; eassumption.
Qed.

Lemma locked_mw_wsec : forall l r, locked (Some MW) l = true -> split_from r l = false -> wsec l = true.
Proof.
  induction l as [|i t IH]; intros r Hl Hs; cbn in *; try discriminate.
  destruct i as [m| | | |]; cbn in *; try discriminate.
  - apply (proj2 (locked_ro_both t)); assumption.
  - eapply IH; eassumption.
  - eapply IH; eassumption.
  - eapply IH; eassumption.
Qed.

Lemma discipline_shape : forall o, locked None o = true -> has_split o = false -> shape o = true.
Proof.
  intros o Hl Hs. destruct o as [|i t]; [reflexivity|].
  destruct i as [m| | | |]; cbn in *; try discriminate.
  destruct m; cbn in *.
  - eapply (proj1 (locked_ro_both t)); eassumption.
  - eapply locked_mw_wsec; eassumption.
Qed.

Lemma ro_not_acqw : forall h l, ro h l = true -> match l with Acq MW :: _ => False | _ => True end.
Proof. intros h l H. destruct l as [|[[|]| | | |] t]; cbn in *; auto. discriminate. Qed.

Lemma ro_shape : forall l, ro false l = true -> shape l = true.
Proof. intros l H. destruct l as [|[[|]| | | |] t]; cbn in *; auto; discriminate. Qed.

(* ---------- data facts ---------- *)
Lemma drun_cons : forall i l s, drun (i :: l) s = drun l (dstep s i).
Proof. reflexivity. Qed.

Lemma ro_dx : forall l h s, ro h l = true -> dx (drun l s) = dx s.
Proof.
  induction l as [|i t IH]; intros h s H; [reflexivity|].
  rewrite drun_cons. destruct s as [[x r] k]. destruct i as [[|]| | | |]; cbn in H; try discriminate.
  - apply andb_prop in H as [_ H]. rewrite (IH _ _ H). reflexivity.
  - apply andb_prop in H as [_ H]. rewrite (IH _ _ H). reflexivity.
  - apply andb_prop in H as [_ H]. rewrite (IH _ _ H). reflexivity.
  - apply andb_prop in H as [_ H]. rewrite (IH _ _ H). reflexivity.
Qed.

Lemma ro_op_id : forall o x, ro false o = true -> op_fun o x = x.
Proof. intros o x H. unfold op_fun. rewrite (ro_dx _ _ _ H). reflexivity. Qed.

Lemma serial_app : forall l1 l2 x, serial (l1 ++ l2) x = serial l2 (serial l1 x).
Proof. intros. unfold serial. apply fold_left_app. Qed.

Lemma serial_one : forall t o x, serial [(t, o)] x = op_fun o x.
Proof. reflexivity. Qed.

Lemma proj_app : forall t l1 l2, proj t (l1 ++ l2) = proj t l1 ++ proj t l2.
Proof. intros. unfold proj. rewrite filter_app, map_app. reflexivity. Qed.

Lemma proj_one_same : forall t o, proj t [(t, o)] = [o].
Proof. intros. unfold proj. cbn. rewrite Nat.eqb_refl. reflexivity. Qed.

Lemma proj_one_other : forall t u o, u <> t -> proj u [(t, o)] = [].
Proof. intros t u o H. unfold proj. cbn. destruct (Nat.eqb t u) eqn:E; [apply Nat.eqb_eq in E; congruence|reflexivity]. Qed.

(* ---------- the invariant ---------- *)
Local Arguments drun : simpl never.
Local Arguments op_fun : simpl never.
Local Arguments serial : simpl never.
(* the current invocation has not taken effect yet *)
Definition lin_pending (ts : tstate) : list op :=
  match hold ts, pc ts with
  | Some MW, _ => [cur ts]
  | None, Acq MW :: _ => [cur ts]
  | _, _ => []
  end.

Definition tinv (x0 : Z) (progs : nat -> prog) (l : list (nat * op)) (c : cfg) (t : nat) : Prop :=
  proj t l ++ lin_pending (thr c t) ++ todo (thr c t) = progs t /\
  match hold (thr c t) with
  | None => shape (pc (thr c t)) = true /\
            match pc (thr c t) with
            | Acq MW :: _ => pc (thr c t) = cur (thr c t) /\ reg (thr c t) = 0 /\ ok (thr c t) = true
            | _ => True
            end
  | Some MR => ro true (pc (thr c t)) = true
  | Some MW => wsec (pc (thr c t)) = true /\ writer c = Some t /\
               dx (drun (pc (thr c t)) (xv c, reg (thr c t), ok (thr c t))) = op_fun (cur (thr c t)) (serial l x0)
  end.

Definition inv (x0 : Z) (progs : nat -> prog) (c : cfg) : Prop :=
  exists l, (forall t, tinv x0 progs l c t) /\
            (forall t, writer c = Some t -> hold (thr c t) = Some MW) /\
            (writer c = None -> xv c = serial l x0).

Definition all_shape (progs : nat -> prog) : Prop := forall t o, In o (progs t) -> shape o = true.

Lemma tinv_other : forall x0 progs l l' c c' u,
  tinv x0 progs l c u -> thr c' u = thr c u -> proj u l' = proj u l ->
  (hold (thr c u) = Some MW -> writer c' = writer c /\ xv c' = xv c /\ serial l' x0 = serial l x0) ->
  tinv x0 progs l' c' u.
Proof.
  unfold tinv. intros x0 progs l l' c c' u [He Hh] Ht Hp Hc. rewrite Ht, Hp. split; [exact He|].
  destruct (hold (thr c u)) as [[|]|] eqn:Hd; auto.
  destruct (Hc eq_refl) as (A & B & C). rewrite A, B, C. exact Hh.
Qed.

Lemma set_thr_same : forall c t ts, set_thr c t ts t = ts.
Proof. intros. unfold set_thr. rewrite Nat.eqb_refl. reflexivity. Qed.

Lemma set_thr_other : forall c t ts u, u <> t -> set_thr c t ts u = thr c u.
Proof. intros c t ts u H. unfold set_thr. destruct (Nat.eqb u t) eqn:E; [apply Nat.eqb_eq in E; congruence|reflexivity]. Qed.

Lemma init_inv : forall x0 progs, inv x0 progs (init x0 progs).
Proof.
  intros x0 progs. exists []. split; [|split].
  - intro t. unfold tinv, init. cbn. split; [reflexivity|]. split; reflexivity.
  - intros t H. discriminate H.
  - reflexivity.
Qed.

(* a thread that is not the writer does not hold the lock in write mode *)
Lemma not_writer : forall x0 progs l c u,
  tinv x0 progs l c u -> writer c <> Some u -> hold (thr c u) <> Some MW.
Proof.
  intros x0 progs l c u [_ H] Hw Hd. rewrite Hd in H. destruct H as (_ & W & _). contradiction.
Qed.

Ltac other_threads Hall t :=
  let u := fresh "u" in let Hu := fresh "Hu" in let Hd := fresh "Hd" in
  intro u; destruct (Nat.eq_dec u t) as [->|Hu];
  [| eapply tinv_other; [apply Hall | cbn; apply set_thr_other; exact Hu | |] ].

Lemma step_inv : forall x0 progs, all_shape progs ->
  forall c t c', inv x0 progs c -> step c t = Some c' -> inv x0 progs c'.
Proof.
  intros x0 progs Hshape c t c' (l & Hall & Hw & Hx) Hstep.
  pose proof (Hall t) as Ht. unfold tinv in Ht. destruct Ht as [Heq Hst].
  unfold step in Hstep.
  destruct (pc (thr c t)) as [|i rest] eqn:Hpc.
  - (* a new invocation begins *)
    destruct (todo (thr c t)) as [|o more] eqn:Htodo; [discriminate|]. inversion Hstep; subst c'; clear Hstep.
    assert (Hhold : hold (thr c t) = None).
    { destruct (hold (thr c t)) as [[|]|]; auto; cbn in Hst; [discriminate | destruct Hst; discriminate]. }
    assert (Hlp : lin_pending (thr c t) = []). { unfold lin_pending. rewrite Hhold, Hpc. reflexivity. }
    rewrite Hlp in Heq. cbn in Heq.
    assert (Hso : shape o = true). { apply (Hshape t). rewrite <- Heq. apply in_or_app. right. left. reflexivity. }
    destruct o as [|i b].
    + (* empty invocation: takes effect at once, changes nothing *)
      exists (l ++ [(t, [])]). split; [|split].
      * intro u. destruct (Nat.eq_dec u t) as [->|Hu].
        -- unfold tinv. cbn. rewrite set_thr_same. cbn. rewrite Hhold. cbn. split.
           ++ rewrite proj_app, proj_one_same. unfold lin_pending. cbn. rewrite <- app_assoc. exact Heq.
           ++ split; reflexivity.
        -- eapply tinv_other; [apply Hall | cbn; apply set_thr_other; exact Hu | |].
           ++ rewrite proj_app, proj_one_other by exact Hu. apply app_nil_r.
           ++ intros _. cbn. rewrite serial_app, serial_one. unfold op_fun, drun. cbn. auto.
      * intros u H. cbn in H |- *. destruct (Nat.eq_dec u t) as [->|Hu].
        -- rewrite (Hw t H) in Hhold. discriminate.
        -- rewrite set_thr_other by exact Hu. apply Hw. exact H.
      * intro H. cbn in H |- *. rewrite serial_app, serial_one. unfold op_fun, drun. cbn. apply Hx. exact H.
    + destruct (match i with Acq MW => true | _ => false end) eqn:Hi.
      * (* starts with the write-mode section: not in effect yet *)
        destruct i as [[|]| | | |]; try discriminate Hi.
        exists l. split; [|split].
        -- intro u. destruct (Nat.eq_dec u t) as [->|Hu].
           ++ unfold tinv. cbn. rewrite set_thr_same. cbn. try rewrite Hhold. split.
              ** unfold lin_pending. cbn. exact Heq.
              ** split; [exact Hso|]. repeat split.
           ++ eapply tinv_other; [apply Hall | cbn; apply set_thr_other; exact Hu | reflexivity |]. intros _. cbn. auto.
        -- intros u H. cbn in H |- *. destruct (Nat.eq_dec u t) as [->|Hu].
           ++ rewrite (Hw t H) in Hhold. discriminate.
           ++ rewrite set_thr_other by exact Hu. apply Hw. exact H.
        -- exact Hx.
      * (* read-only invocation: in effect at once, changes nothing *)
        assert (Hro : ro false (i :: b) = true).
        { destruct i as [[|]| | | |]; try discriminate Hi; exact Hso. }
        exists (l ++ [(t, i :: b)]). split; [|split].
        -- intro u. destruct (Nat.eq_dec u t) as [->|Hu].
           ++ unfold tinv. cbn. rewrite set_thr_same. cbn. try rewrite Hhold. split.
              ** rewrite proj_app, proj_one_same. unfold lin_pending. cbn.
                 destruct i as [[|]| | | |]; try discriminate Hi; rewrite <- app_assoc; exact Heq.
              ** split; [exact Hso|]. destruct i as [[|]| | | |]; try discriminate Hi; exact I.
           ++ eapply tinv_other; [apply Hall | cbn; apply set_thr_other; exact Hu | |].
              ** rewrite proj_app, proj_one_other by exact Hu. apply app_nil_r.
              ** intros _. cbn. rewrite serial_app, serial_one. rewrite (ro_op_id _ _ Hro). auto.
        -- intros u H. cbn in H |- *. destruct (Nat.eq_dec u t) as [->|Hu].
           ++ rewrite (Hw t H) in Hhold. discriminate.
           ++ rewrite set_thr_other by exact Hu. apply Hw. exact H.
        -- intro H. cbn in H |- *. rewrite serial_app, serial_one. rewrite (ro_op_id _ _ Hro). apply Hx. exact H.
  - destruct i as [m| | |g|f].
    + (* Acq *)
      destruct (hold (thr c t)) as [hm|] eqn:Hhold; [discriminate|].
      destruct Hst as [Hsh Hfresh].
      destruct m.
      * (* read mode *)
        destruct (writer c) as [w|] eqn:Hwr; [discriminate|]. inversion Hstep; subst c'; clear Hstep.
        exists l. split; [|split].
        -- intro u. destruct (Nat.eq_dec u t) as [->|Hu].
           ++ unfold tinv. cbn. rewrite set_thr_same. cbn. split.
              ** unfold lin_pending in *. cbn. rewrite Hhold, Hpc in Heq. exact Heq.
              ** cbn in Hsh. exact Hsh.
           ++ eapply tinv_other; [apply Hall | cbn; apply set_thr_other; exact Hu | reflexivity |].
              intro Hd. exfalso. eapply not_writer; [apply (Hall u) | rewrite Hwr; discriminate | exact Hd].
        -- intros u H. discriminate H.
        -- intros _. cbn. apply Hx. reflexivity.
      * (* write mode *)
        destruct (writer c) as [w|] eqn:Hwr; [discriminate|].
        destruct (readers c); [|discriminate]. inversion Hstep; subst c'; clear Hstep.
        destruct Hfresh as (Hcur & Hreg & Hok).
        exists l. split; [|split].
        -- intro u. destruct (Nat.eq_dec u t) as [->|Hu].
           ++ unfold tinv. cbn. rewrite set_thr_same. cbn. split.
              ** unfold lin_pending in *. cbn. rewrite Hhold, Hpc in Heq. exact Heq.
              ** split; [exact Hsh|]. split; [reflexivity|].
                 rewrite Hreg, Hok, <- Hcur, (Hx eq_refl). unfold op_fun. reflexivity.
           ++ eapply tinv_other; [apply Hall | cbn; apply set_thr_other; exact Hu | reflexivity |].
              intro Hd. exfalso. eapply not_writer; [apply (Hall u) | rewrite Hwr; discriminate | exact Hd].
        -- intros u H. cbn in H |- *. inversion H; subst u. rewrite set_thr_same. reflexivity.
        -- intro H. discriminate H.
    + (* Rel *)
      destruct (hold (thr c t)) as [[|]|] eqn:Hhold; [| |discriminate].
      * (* end of a read-mode section *)
        inversion Hstep; subst c'; clear Hstep. cbn in Hst.
        exists l. split; [|split].
        -- intro u. destruct (Nat.eq_dec u t) as [->|Hu].
           ++ unfold tinv. cbn. rewrite set_thr_same. cbn. split.
              ** unfold lin_pending in *. cbn. rewrite Hhold in Heq.
                 pose proof (ro_not_acqw _ _ Hst) as Hn. destruct rest as [|[[|]| | | |] r']; try contradiction; exact Heq.
              ** split; [apply ro_shape; exact Hst|].
                 pose proof (ro_not_acqw _ _ Hst) as Hn. destruct rest as [|[[|]| | | |] r']; try contradiction; exact I.
           ++ eapply tinv_other; [apply Hall | cbn; apply set_thr_other; exact Hu | reflexivity |]. intros _. cbn. auto.
        -- intros u H. cbn in H |- *. destruct (Nat.eq_dec u t) as [->|Hu].
           ++ rewrite (Hw t H) in Hhold. discriminate.
           ++ rewrite set_thr_other by exact Hu. apply Hw. exact H.
        -- exact Hx.
      * (* end of the write-mode section: the invocation takes effect *)
        inversion Hstep; subst c'; clear Hstep. cbn in Hst. destruct Hst as (Hro & Hwt & Hdx).
        rewrite drun_cons in Hdx. cbn [dstep] in Hdx. rewrite (ro_dx _ _ _ Hro) in Hdx. cbn [dx fst] in Hdx.
        exists (l ++ [(t, cur (thr c t))]). split; [|split].
        -- intro u. destruct (Nat.eq_dec u t) as [->|Hu].
           ++ unfold tinv. cbn. rewrite set_thr_same. cbn. split.
              ** rewrite proj_app, proj_one_same. unfold lin_pending in *. cbn. rewrite Hhold in Heq.
                 pose proof (ro_not_acqw _ _ Hro) as Hn.
                 destruct rest as [|[[|]| | | |] r']; try contradiction; rewrite <- app_assoc; exact Heq.
              ** split; [apply ro_shape; exact Hro|].
                 pose proof (ro_not_acqw _ _ Hro) as Hn. destruct rest as [|[[|]| | | |] r']; try contradiction; exact I.
           ++ eapply tinv_other; [apply Hall | cbn; apply set_thr_other; exact Hu | |].
              ** rewrite proj_app, proj_one_other by exact Hu. apply app_nil_r.
              ** intro Hd. exfalso. eapply not_writer; [apply (Hall u) | rewrite Hwt; congruence | exact Hd].
        -- intros u H. discriminate H.
        -- intros _. cbn. rewrite serial_app, serial_one. exact Hdx.
    + (* Load *)
      inversion Hstep; subst c'; clear Hstep.
      destruct (hold (thr c t)) as [[|]|] eqn:Hhold.
      * cbn in Hst. exists l. split; [|split].
        -- intro u. destruct (Nat.eq_dec u t) as [->|Hu].
           ++ unfold tinv. cbn. rewrite set_thr_same. cbn. try rewrite Hhold. split.
              ** unfold lin_pending in *. cbn. try rewrite Hhold in *. exact Heq.
              ** exact Hst.
           ++ eapply tinv_other; [apply Hall | cbn; apply set_thr_other; exact Hu | reflexivity |]. intros _. cbn. auto.
        -- intros u H. cbn in H |- *. destruct (Nat.eq_dec u t) as [->|Hu].
           ++ rewrite (Hw t H) in Hhold. discriminate.
           ++ rewrite set_thr_other by exact Hu. apply Hw. exact H.
        -- exact Hx.
      * cbn in Hst. destruct Hst as (Hws & Hwt & Hdx). rewrite drun_cons in Hdx. cbn [dstep] in Hdx.
        exists l. split; [|split].
        -- intro u. destruct (Nat.eq_dec u t) as [->|Hu].
           ++ unfold tinv. cbn. rewrite set_thr_same. cbn. try rewrite Hhold. split.
              ** unfold lin_pending in *. cbn. try rewrite Hhold in *. exact Heq.
              ** split; [exact Hws|]. split; [exact Hwt|exact Hdx].
           ++ eapply tinv_other; [apply Hall | cbn; apply set_thr_other; exact Hu | reflexivity |]. intros _. cbn. auto.
        -- intros u H. cbn in H |- *. destruct (Nat.eq_dec u t) as [->|Hu].
           ++ rewrite set_thr_same. reflexivity.
           ++ rewrite set_thr_other by exact Hu. apply Hw. exact H.
        -- exact Hx.
      * destruct Hst as [Hsh _]. cbn in Hsh. discriminate.
    + (* Check *)
      inversion Hstep; subst c'; clear Hstep.
      destruct (hold (thr c t)) as [[|]|] eqn:Hhold.
      * cbn in Hst. exists l. split; [|split].
        -- intro u. destruct (Nat.eq_dec u t) as [->|Hu].
           ++ unfold tinv. cbn. rewrite set_thr_same. cbn. try rewrite Hhold. split.
              ** unfold lin_pending in *. cbn. try rewrite Hhold in *. exact Heq.
              ** exact Hst.
           ++ eapply tinv_other; [apply Hall | cbn; apply set_thr_other; exact Hu | reflexivity |]. intros _. cbn. auto.
        -- intros u H. cbn in H |- *. destruct (Nat.eq_dec u t) as [->|Hu].
           ++ rewrite (Hw t H) in Hhold. discriminate.
           ++ rewrite set_thr_other by exact Hu. apply Hw. exact H.
        -- exact Hx.
      * cbn in Hst. destruct Hst as (Hws & Hwt & Hdx). rewrite drun_cons in Hdx. cbn [dstep] in Hdx.
        exists l. split; [|split].
        -- intro u. destruct (Nat.eq_dec u t) as [->|Hu].
           ++ unfold tinv. cbn. rewrite set_thr_same. cbn. try rewrite Hhold. split.
              ** unfold lin_pending in *. cbn. try rewrite Hhold in *. exact Heq.
              ** split; [exact Hws|]. split; [exact Hwt|exact Hdx].
           ++ eapply tinv_other; [apply Hall | cbn; apply set_thr_other; exact Hu | reflexivity |]. intros _. cbn. auto.
        -- intros u H. cbn in H |- *. destruct (Nat.eq_dec u t) as [->|Hu].
           ++ rewrite set_thr_same. reflexivity.
           ++ rewrite set_thr_other by exact Hu. apply Hw. exact H.
        -- exact Hx.
      * destruct Hst as [Hsh _]. cbn in Hsh. discriminate.
    + (* Store *)
      inversion Hstep; subst c'; clear Hstep.
      destruct (hold (thr c t)) as [[|]|] eqn:Hhold.
      * cbn in Hst. discriminate.
      * cbn in Hst. destruct Hst as (Hws & Hwt & Hdx). rewrite drun_cons in Hdx. cbn [dstep] in Hdx.
        exists l. split; [|split].
        -- intro u. destruct (Nat.eq_dec u t) as [->|Hu].
           ++ unfold tinv. cbn. rewrite set_thr_same. cbn. try rewrite Hhold. split.
              ** unfold lin_pending in *. cbn. try rewrite Hhold in *. exact Heq.
              ** split; [exact Hws|]. split; [exact Hwt|exact Hdx].
           ++ eapply tinv_other; [apply Hall | cbn; apply set_thr_other; exact Hu | reflexivity |].
              intro Hd. exfalso. eapply not_writer; [apply (Hall u) | rewrite Hwt; congruence | exact Hd].
        -- intros u H. cbn in H |- *. destruct (Nat.eq_dec u t) as [->|Hu].
           ++ rewrite set_thr_same. reflexivity.
           ++ rewrite set_thr_other by exact Hu. apply Hw. exact H.
        -- intro H. cbn in H. rewrite H in Hwt. discriminate.
      * destruct Hst as [Hsh _]. cbn in Hsh. discriminate.
Qed.

Lemma run_inv : forall x0 progs, all_shape progs ->
  forall sched c, inv x0 progs c -> inv x0 progs (run sched c).
Proof.
  intros x0 progs Hs. induction sched as [|t s IH]; intros c Hc; [exact Hc|].
  cbn. apply IH. unfold step_or_skip. destruct (step c t) as [c'|] eqn:E; [|exact Hc].
  eapply step_inv; eassumption.
Qed.

Lemma disciplined_all_shape : forall progs, disciplined progs -> all_shape progs.
Proof. intros progs H t o Hin. destruct (H t o Hin). apply discipline_shape; assumption. Qed.

Lemma firstn_length_app : forall (A : Type) (a b : list A), firstn (length a) (a ++ b) = a.
Proof. induction a as [|x a IH]; intro b; cbn; [reflexivity|]. rewrite IH. reflexivity. Qed.

Lemma in_proj : forall t o l, In (t, o) l -> In o (proj t l).
Proof.
  intros t o l H. unfold proj. apply (in_map snd _ (t, o)). apply filter_In. split; [exact H|]. cbn. apply Nat.eqb_refl.
Qed.

(* ---------- main theorem ---------- *)
(* Every reachable state in which no writer is inside its section: x is the result of executing, one after the other,
   a list l of invocations that is an interleaving of prefixes of the threads' programs. *)
Theorem nosplit_serializable : forall x0 progs, disciplined progs -> forall sched,
  let c := run sched (init x0 progs) in
  writer c = None ->
  exists l, xv c = serial l x0 /\ forall t, exists k, proj t l = firstn k (progs t).
Proof.
  intros x0 progs Hd sched c Hw.
  destruct (run_inv x0 progs (disciplined_all_shape _ Hd) sched _ (init_inv x0 progs)) as (l & Hall & _ & Hx).
  exists l. split; [apply Hx; exact Hw|]. intro t. destruct (Hall t) as [He _].
  exists (length (proj t l)). rewrite <- He. symmetry. apply firstn_length_app.
Qed.

(* Final states: the serial order contains every invocation of every thread, each thread's in its own order. *)
Theorem nosplit_final : forall x0 progs, disciplined progs -> forall sched,
  let c := run sched (init x0 progs) in
  finished c ->
  exists l, xv c = serial l x0 /\ forall t, proj t l = progs t.
Proof.
  intros x0 progs Hd sched c Hf.
  destruct (run_inv x0 progs (disciplined_all_shape _ Hd) sched _ (init_inv x0 progs)) as (l & Hall & Hw & Hx).
  fold c in Hall, Hw, Hx.
  assert (Hnone : forall t, hold (thr c t) = None).
  { intro t. destruct (Hall t) as [_ Hs]. destruct (Hf t) as [Hpc _]. rewrite Hpc in Hs.
    destruct (hold (thr c t)) as [[|]|]; auto; cbn in Hs; [discriminate | destruct Hs; discriminate]. }
  exists l. split.
  - apply Hx. destruct (writer c) as [u|] eqn:E; [|reflexivity]. pose proof (Hw u eq_refl) as Hh. rewrite (Hnone u) in Hh. discriminate.
  - intro t. destruct (Hall t) as [He _]. destruct (Hf t) as [Hpc Htd].
    unfold lin_pending in He. rewrite (Hnone t), Hpc, Htd in He. cbn in He. rewrite app_nil_r in He. exact He.
Qed.

Lemma serial_pred : forall (P : Z -> Prop) l x,
  (forall p, In p l -> forall y, P y -> P (op_fun (snd p) y)) -> P x -> P (serial l x).
Proof.
  intros P. induction l as [|p l IH]; intros x Hl Hx; [exact Hx|].
  change (serial (p :: l) x) with (serial l (op_fun (snd p) x)). apply IH.
  - intros q Hq. apply Hl. right. exact Hq.
  - apply Hl; [left; reflexivity|exact Hx].
Qed.

Lemma prefix_in : forall (A : Type) k (l : list A) x, In x (firstn k l) -> In x l.
Proof. intros A k l x H. rewrite <- (firstn_skipn k l). apply in_or_app. left. exact H. Qed.

(* A predicate every invocation preserves when run alone holds whenever no writer is inside its section. *)
Theorem nosplit_invariant : forall (P : Z -> Prop) x0 progs, disciplined progs ->
  P x0 -> (forall t o x, In o (progs t) -> P x -> P (op_fun o x)) ->
  forall sched, let c := run sched (init x0 progs) in writer c = None -> P (xv c).
Proof.
  intros P x0 progs Hd H0 Hp sched c Hw.
  destruct (nosplit_serializable x0 progs Hd sched Hw) as (l & Hx & Hpre). fold c in Hx. rewrite Hx.
  apply serial_pred; [|exact H0]. intros [t o] Hin y Hy. cbn. apply (Hp t); [|exact Hy].
  destruct (Hpre t) as [k Hk]. apply (prefix_in _ k). rewrite <- Hk. apply in_proj. exact Hin.
Qed.

(* ---------- commutative increments: no lost update ---------- *)
Lemma serial_additive : forall (delta : op -> Z) l x,
  (forall p, In p l -> forall y, op_fun (snd p) y = y + delta (snd p)) ->
  serial l x = x + sumZ (map (fun p => delta (snd p)) l).
Proof.
  intros delta. induction l as [|p l IH]; intros x H; cbn [map sumZ]; [unfold serial; cbn; lia|].
  change (serial (p :: l) x) with (serial l (op_fun (snd p) x)).
  rewrite IH by (intros q Hq; apply H; right; exact Hq).
  rewrite (H p (or_introl eq_refl)). lia.
Qed.

Lemma sumZ_app : forall a b, sumZ (a ++ b) = sumZ a + sumZ b.
Proof. induction a as [|x a IH]; intro b; cbn; [reflexivity|]. rewrite IH. lia. Qed.

Lemma sumZ_concat : forall ls, sumZ (concat ls) = sumZ (map sumZ ls).
Proof. induction ls as [|l ls IH]; cbn; [reflexivity|]. rewrite sumZ_app, IH. reflexivity. Qed.

Lemma sum_indicator : forall d t0 n s, (s <= t0 < s + n)%nat ->
  sumZ (map (fun t => if Nat.eqb t0 t then d else 0) (seq s n)) = d.
Proof.
  intros d t0. induction n as [|n IH]; intros s H; [lia|]. cbn [seq map sumZ].
  destruct (Nat.eqb t0 s) eqn:E.
  - apply Nat.eqb_eq in E. subst s.
    assert (Hz : forall m s', (t0 < s')%nat -> sumZ (map (fun t => if Nat.eqb t0 t then d else 0) (seq s' m)) = 0).
    { induction m as [|m IHm]; intros s' Hs; [reflexivity|]. cbn [seq map sumZ].
      destruct (Nat.eqb t0 s') eqn:E'; [apply Nat.eqb_eq in E'; lia|]. rewrite IHm by lia. lia. }
    rewrite Hz by lia. lia.
  - apply Nat.eqb_neq in E. rewrite IH by lia. lia.
Qed.

Lemma proj_cons : forall a t0 o l, proj a ((t0, o) :: l) = if Nat.eqb t0 a then o :: proj a l else proj a l.
Proof. intros. unfold proj. cbn [filter fst]. destruct (Nat.eqb t0 a); reflexivity. Qed.

Lemma sum_buckets : forall (delta : op -> Z) n l, (forall p, In p l -> (fst p < n)%nat) ->
  sumZ (map (fun p => delta (snd p)) l) = sumZ (map (fun t => sumZ (map delta (proj t l))) (seq 0 n)).
Proof.
  intros delta n. induction l as [|[t0 o] l IH]; intro H.
  - cbn. induction (seq 0 n) as [|a s IHs]; [reflexivity|]. cbn. rewrite <- IHs. reflexivity.
  - cbn [map sumZ snd]. rewrite IH by (intros q Hq; apply H; right; exact Hq).
    assert (Hlt : (t0 < n)%nat) by (apply (H (t0, o)); left; reflexivity).
    rewrite <- (sum_indicator (delta o) t0 n 0) at 1 by lia.
    generalize (seq 0 n). intro s. induction s as [|a s IHs]; [reflexivity|]. cbn [map sumZ].
    rewrite <- IHs, proj_cons. destruct (Nat.eqb t0 a) eqn:E; cbn [map sumZ]; lia.
Qed.

(* all invocations are additive (delta o added to x whatever x is): after all threads have finished x is the
   initial value plus the sum of all deltas - no update is lost, whatever the schedule *)
Theorem nosplit_sum : forall (delta : op -> Z) x0 progs n, disciplined progs ->
  (forall t, (n <= t)%nat -> progs t = []) ->
  (forall t o x, In o (progs t) -> op_fun o x = x + delta o) ->
  forall sched, let c := run sched (init x0 progs) in
  finished c -> xv c = x0 + sumZ (map delta (concat (map progs (seq 0 n)))).
Proof.
  intros delta x0 progs n Hd Hn Hadd sched c Hf.
  destruct (nosplit_final x0 progs Hd sched Hf) as (l & Hx & Hp). fold c in Hx. rewrite Hx.
  assert (Hin : forall p, In p l -> In (snd p) (progs (fst p))).
  { intros [t o] H. cbn. rewrite <- Hp. apply in_proj. exact H. }
  rewrite (serial_additive delta) by (intros p H y; apply (Hadd (fst p)); apply Hin; exact H).
  f_equal. rewrite (sum_buckets delta n).
  - rewrite concat_map, sumZ_concat, map_map, map_map. apply f_equal. apply map_ext. intro t. rewrite Hp. reflexivity.
  - intros p H. destruct (Nat.lt_ge_cases (fst p) n) as [|Hge]; [assumption|].
    pose proof (Hin p H) as Hi. rewrite (Hn _ Hge) in Hi. destruct Hi.
Qed.

Lemma op_fun_inc : forall d x, op_fun (inc d) x = x + d.
Proof. reflexivity. Qed.
Lemma op_fun_ginc : forall mx d x, op_fun (ginc mx d) x = if x + d <=? mx then x + d else x.
Proof. reflexivity. Qed.
Lemma op_fun_peek : forall x, op_fun peek x = x.
Proof. reflexivity. Qed.

Lemma nth_seq_map : forall (A : Type) (l : list A) d, map (fun t => nth t l d) (seq 0 (length l)) = l.
Proof.
  intros A l d. induction l as [|a l IH]; [reflexivity|]. cbn [length seq map nth]. f_equal.
  rewrite <- seq_shift, map_map. exact IH.
Qed.

(* increments and decrements, each inside ONE write-mode section (Queue.IncAllocatedResource / DecAllocatedResource from
   any number of goroutines): the final value is the initial value plus the sum of all deltas *)
Theorem atomic_increments_sum : forall x0 (ps : list (list Z)) sched,
  let c := run sched (init x0 (progs_of (map (map inc) ps))) in
  finished c -> xv c = x0 + sumZ (concat ps).
Proof.
  intros x0 ps sched. cbv zeta. intro Hf.
  set (progs := progs_of (map (map inc) ps)) in *.
  assert (Hshape : forall t o, In o (progs t) -> exists d, o = inc d).
  { intros t o H. unfold progs, progs_of in H.
    destruct (Nat.lt_ge_cases t (length (map (map inc) ps))) as [Hlt|Hge].
    - change (nth t (map (map inc) ps) []) with (nth t (map (map inc) ps) (map inc [])) in H.
      rewrite map_nth in H. apply in_map_iff in H as (d & Hd & _). exists d. auto.
    - rewrite nth_overflow in H by exact Hge. destruct H. }
  pose (delta := fun o : op => op_fun o 0).
  rewrite (nosplit_sum delta x0 progs (length ps)); [| | | |exact Hf].
  - f_equal. unfold progs, progs_of.
    replace (length ps) with (length (map (map inc) ps)) by apply map_length.
    rewrite nth_seq_map, concat_map, map_map. f_equal. f_equal. rewrite <- (map_id ps) at 2. apply map_ext.
    intro row. rewrite map_map. unfold delta.
    induction row as [|d r IH]; [reflexivity|]. cbn [map]. rewrite IH, op_fun_inc, Z.add_0_l. reflexivity.
  - intros t o H. destruct (Hshape t o H) as [d ->]. split; reflexivity.
  - intros t Ht. unfold progs, progs_of. apply nth_overflow. rewrite map_length. exact Ht.
  - intros t o x H. destruct (Hshape t o H) as [d ->]. unfold delta. rewrite !op_fun_inc. lia.
Qed.

(* guarded increments (check and store in ONE write-mode section: the limit check of a queue), unguarded decrements
   and readers: the maximum is never exceeded, whatever the schedule and the number of threads *)
Theorem atomic_guard_invariant : forall mx x0 progs, x0 <= mx ->
  (forall t o, In o (progs t) -> (exists d, o = ginc mx d) \/ (exists d, 0 <= d /\ o = inc (- d)) \/ o = peek) ->
  forall sched, let c := run sched (init x0 progs) in writer c = None -> xv c <= mx.
Proof.
  intros mx x0 progs H0 Hops sched c Hw.
  apply (nosplit_invariant (fun x => x <= mx) x0 progs); [|exact H0| |exact Hw].
  - intros t o H. destruct (Hops t o H) as [[d ->]|[[d [_ ->]]| ->]]; split; reflexivity.
  - intros t o x H Hx. destruct (Hops t o H) as [[d ->]|[[d [Hd ->]]| ->]].
    + rewrite op_fun_ginc. destruct (x + d <=? mx) eqn:E; [apply Z.leb_le in E; exact E|exact Hx].
    + rewrite op_fun_inc. lia.
    + rewrite op_fun_peek. exact Hx.
Qed.

(* ---------- the hypotheses are satisfiable and the theorem is not vacuous ---------- *)
Definition ex_progs : nat -> prog := progs_of [[ginc 10 6; peek]; [ginc 10 6; inc (-2)]; [peek; ginc 10 3]].
Example ex_disciplined : disciplined ex_progs.
Proof.
  intros t o H. unfold ex_progs, progs_of in H.
  destruct t as [|[|[|t]]]; cbn in H.
  1-3: repeat (destruct H as [<-|H]; [split; reflexivity|]); destruct H.
  destruct t; destruct H.
Qed.
(* a schedule interleaving the three threads instruction by instruction; the second guarded increment is refused *)
Definition ex_sched : list nat := concat (repeat [0; 1; 2]%nat 20).
Example ex_run : let c := run ex_sched (init 0 ex_progs) in
  xv c = 7 /\ writer c = None /\ pc (thr c 0%nat) = [] /\ todo (thr c 1%nat) = [] /\ todo (thr c 2%nat) = [].
Proof. vm_compute. repeat split. Qed.

(* ---------- with a split section the conclusions fail ---------- *)
(* the discipline is kept (every access under the lock: nothing for a race detector), only the monitor's relation differs *)
Lemma sinc_disciplined_but_split : forall d, locked None (sinc d) = true /\ has_split (sinc d) = true.
Proof. intro d. split; reflexivity. Qed.
Lemma cinc_disciplined_but_split : forall mx d, locked None (cinc mx d) = true /\ has_split (cinc mx d) = true.
Proof. intros. split; reflexivity. Qed.

Definition two (o1 o2 : op) : nat -> prog := progs_of [[o1]; [o2]].
(* both threads run the first (read-mode) section, then both run the second (write-mode) section *)
Definition split_sched : list nat := [0; 0; 0; 0; 1; 1; 1; 1; 0; 0; 0; 1; 1; 1; 0; 1]%nat.

Lemma two_finished : forall c : cfg,
  (forall t, pc (thr c (S (S t))) = [] /\ todo (thr c (S (S t))) = []) ->
  pc (thr c 0%nat) = [] -> todo (thr c 0%nat) = [] -> pc (thr c 1%nat) = [] -> todo (thr c 1%nat) = [] -> finished c.
Proof. intros c H A B C D [|[|t]]; [split; assumption|split; assumption|]. apply H. Qed.

(* stale store: the final value is not the value of any serial order (3 in both orders): one increment is lost *)
Theorem split_lost_update_refuted :
  exists sched, let c := run sched (init 0 (two (sinc 1) (sinc 2))) in
    finished c /\ xv c = 2 /\
    serial [(0%nat, sinc 1); (1%nat, sinc 2)] 0 = 3 /\ serial [(1%nat, sinc 2); (0%nat, sinc 1)] 0 = 3.
Proof.
  exists split_sched. cbv zeta. split; [|vm_compute; repeat split].
  apply two_finished; [intro t; vm_compute; destruct t; split; reflexivity|..]; vm_compute; reflexivity.
Qed.

(* check-then-act: both threads pass the check against the maximum 10 in their read-mode sections, both add *)
Theorem split_guard_refuted :
  exists sched, let c := run sched (init 0 (two (cinc 10 6) (cinc 10 6))) in
    finished c /\ xv c = 12 /\ ~ xv c <= 10.
Proof.
  exists [0; 0; 0; 0; 0; 1; 1; 1; 1; 1; 0; 0; 0; 0; 1; 1; 1; 1]%nat. cbv zeta. split; [|vm_compute; split; [reflexivity|intro H; apply H; reflexivity]].
  apply two_finished; [intro t; vm_compute; destruct t; split; reflexivity|..]; vm_compute; reflexivity.
Qed.
