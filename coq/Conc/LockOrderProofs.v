(* C14 (a): proofs about the lock-order machine (Conc/LockOrder.v). *)
From Coq Require Import List NArith PArith Bool Arith Lia FMapPositive.
From YK Require Import Conc.LockOrder.
Import ListNotations.
Set Default Timeout 60.

(* ---------- the boolean check is sound ---------- *)
Lemma acyclic_rank : forall E, acyclic E = true ->
  forall a b, In (a, b) E -> rank E a < rank E b.
Proof.
  intros E H a b Hin. unfold acyclic in H. rewrite forallb_forall in H.
  specialize (H (a, b) Hin). cbn [fst snd] in H. apply Nat.ltb_lt in H. exact H.
Qed.

Lemma path_rank : forall E (rk : lock -> nat),
  (forall a b, In (a, b) E -> rk a < rk b) ->
  forall a b, path E a b -> rk a < rk b.
Proof.
  intros E rk Hrk a b Hp. induction Hp as [a b Hin | a b c Hin Hp IH].
  - apply Hrk; exact Hin.
  - specialize (Hrk a b Hin). lia.
Qed.

Theorem acyclic_sound : forall E, acyclic E = true -> ~ has_cycle E.
Proof.
  intros E H [a Hp].
  pose proof (path_rank E (rank E) (acyclic_rank E H) a a Hp) as Hlt. lia.
Qed.

(* a certified cycle refutes the check (used for the cycle the harness reports in a replay) *)
Lemma chain_in_path : forall E first c a, chain_in E first (a :: c) = true -> path E a first.
Proof.
  intros E first c. induction c as [|b t IH]; intros a H.
  - cbn in H. apply existsb_exists in H. destruct H as [[x y] [Hin Heq]]. cbn [fst snd] in Heq.
    apply andb_true_iff in Heq. destruct Heq as [H1 H2].
    apply N.eqb_eq in H1. apply N.eqb_eq in H2. subst x y. apply PathEdge. exact Hin.
  - change (chain_in E first (a :: b :: t)) with
      (existsb (fun e => N.eqb (fst e) a && N.eqb (snd e) b) E && chain_in E first (b :: t)) in H.
    apply andb_true_iff in H. destruct H as [He Hc].
    apply existsb_exists in He. destruct He as [[x y] [Hin Heq]]. cbn [fst snd] in Heq.
    apply andb_true_iff in Heq. destruct Heq as [H1 H2].
    apply N.eqb_eq in H1. apply N.eqb_eq in H2. subst x y.
    apply PathStep with (b := b). exact Hin. apply IH. exact Hc.
Qed.

Theorem is_cycle_sound : forall E c, is_cycle E c = true -> has_cycle E.
Proof.
  intros E c H. destruct c as [|a t]. discriminate H.
  exists a. apply chain_in_path with (c := t). exact H.
Qed.

Corollary is_cycle_not_acyclic : forall E c, is_cycle E c = true -> acyclic E = false.
Proof.
  intros E c H. destruct (acyclic E) eqn:Ha; [|reflexivity].
  exfalso. apply (acyclic_sound E Ha). apply is_cycle_sound with (c := c). exact H.
Qed.

Corollary cycle_certified : forall E c, is_cycle E c = true -> acyclic E = false /\ has_cycle E.
Proof. intros E c H. split. exact (is_cycle_not_acyclic E c H). exact (is_cycle_sound E c H). Qed.

(* ---------- invariants of the machine ---------- *)
Section Proofs.
  Variable E : list tedge.
  Variable role_of : thread -> role.
  Variable can_grant : state -> thread -> lock -> Prop.

  (* whatever a thread waits for was requested under the locks it holds, and is not one of them *)
  Definition inv (s : state) : Prop :=
    forall t l, waiting (s t) = Some l -> allowed E (role_of t) (held (s t)) l /\ ~ In l (held (s t)).

  Lemma upd_same : forall s t x, upd s t x t = x.
  Proof. intros. unfold upd. rewrite Nat.eqb_refl. reflexivity. Qed.
  Lemma upd_other : forall s t x u, u <> t -> upd s t x u = s u.
  Proof. intros s t x u H. unfold upd. apply Nat.eqb_neq in H. rewrite H. reflexivity. Qed.

  Lemma inv_init : inv init.
  Proof. intros t l H. cbn in H. discriminate H. Qed.

  Lemma inv_step : forall s s', inv s -> step E role_of can_grant s s' -> inv s'.
  Proof.
    intros s s' Hinv Hst. destruct Hst as [s t l Hw Hn Hal | s t l Hw Hg | s t l Hw Hin];
      intros u m Hu; destruct (Nat.eq_dec u t) as [->|Hne].
    - rewrite upd_same in *. cbn in *. injection Hu as <-. split; assumption.
    - rewrite upd_other in * by exact Hne. apply Hinv. exact Hu.
    - rewrite upd_same in Hu. cbn in Hu. discriminate Hu.
    - rewrite upd_other in * by exact Hne. apply Hinv. exact Hu.
    - rewrite upd_same in Hu. cbn in Hu. discriminate Hu.
    - rewrite upd_other in * by exact Hne. apply Hinv. exact Hu.
  Qed.

  Lemma inv_reachable : forall s, reachable E role_of can_grant s -> inv s.
  Proof.
    intros s Hr. induction Hr as [|s s' Hr IH Hst]. apply inv_init. apply inv_step with (s := s); assumption.
  Qed.

  (* ---------- what the refined check gives per edge ---------- *)
  Lemma order_ok_edge : forall single rk, order_ok single rk E = true ->
    forall r a b, In (r, (a, b)) E ->
      rk a < rk b \/
      (rk a = rk b /\ single r = true /\
       forall r' a' b', In (r', (a', b')) E -> rk a' = rk b' -> rk a' = rk a -> r' = r).
  Proof.
    intros single rk H r a b Hin. unfold order_ok in H. rewrite forallb_forall in H.
    specialize (H (r, (a, b)) Hin). unfold flat, tfrom, tto in H. cbn [fst snd] in H.
    destruct (Nat.ltb (rk a) (rk b)) eqn:Hlt.
    - left. apply Nat.ltb_lt. exact Hlt.
    - right. destruct (Nat.eqb (rk a) (rk b)) eqn:Heq; [cbn [negb] in H | cbv [negb] in H; discriminate H].
      destruct (single r) eqn:Hs; [cbn [negb] in H | cbv [negb] in H; discriminate H].
      apply Nat.eqb_eq in Heq. split. exact Heq. split. reflexivity.
      intros r' a' b' Hin' Hflat Hlev. rewrite forallb_forall in H.
      specialize (H (r', (a', b')) Hin'). cbn [fst snd] in H.
      apply Nat.eqb_eq in Hflat. rewrite Hflat in H. apply Nat.eqb_eq in Hlev. rewrite Hlev in H.
      apply N.eqb_eq in H. exact H.
  Qed.

  Definition wrank (rk : lock -> nat) (s : state) (t : thread) : nat :=
    match waiting (s t) with Some l => rk l | None => 0 end.

  Lemma max_member : forall (f : thread -> nat) (D : list thread), D <> [] ->
    exists t, In t D /\ forall u, In u D -> f u <= f t.
  Proof.
    intros f D. induction D as [|a D IH]; intros Hne. congruence.
    destruct D as [|b D'].
    - exists a. split. left; reflexivity. intros u [<-|[]]. lia.
    - destruct IH as [t [Hin Hmax]]. discriminate.
      destruct (le_lt_dec (f a) (f t)) as [Hle|Hlt].
      + exists t. split. right; exact Hin. intros u [<-|Hu]. exact Hle. apply Hmax; exact Hu.
      + exists a. split. left; reflexivity. intros u [<-|Hu]. lia. specialize (Hmax u Hu). lia.
  Qed.

  (* roles declared single have at most one thread *)
  Definition singles_respected (single : role -> bool) : Prop :=
    forall t u, single (role_of t) = true -> role_of u = role_of t -> u = t.

  (* the core argument: take the member of D that waits for the lock of highest rank; the thread holding that
     lock waits on the same level, so its edge is a level edge of a single role; the next holder in the chain
     then has the same single role, hence is the same thread, which would wait for a lock it holds *)
  Lemma ranked_no_deadlocked : forall single rk s,
    order_ok single rk E = true -> singles_respected single -> inv s -> forall D, ~ deadlocked s D.
  Proof.
    intros single rk s Hok Hsing Hinv D [Hne Hall].
    destruct (max_member (wrank rk s) D Hne) as [t [Hin Hmax]].
    destruct (Hall t Hin) as [u [Hu [l [Hwt Hheld]]]].
    destruct (Hall u Hu) as [v [Hv [m [Hwu Hheldv]]]].
    destruct (Hall v Hv) as [x [_ [k [Hwv _]]]].
    destruct (Hinv u m Hwu) as [Halu Hnotu].
    destruct (Hinv v k Hwv) as [Halv _].
    pose proof (Halu l Hheld) as He1.   (* (role u, (l, m)) *)
    pose proof (Halv m Hheldv) as He2.  (* (role v, (m, k)) *)
    pose proof (Hmax u Hu) as Hmu. pose proof (Hmax v Hv) as Hmv.
    unfold wrank in Hmu, Hmv. rewrite Hwt in Hmu, Hmv. rewrite Hwu in Hmu. rewrite Hwv in Hmv.
    destruct (order_ok_edge single rk Hok _ _ _ He1) as [Hlt|[Heq1 [Hs1 Huniq]]]; [lia|].
    destruct (order_ok_edge single rk Hok _ _ _ He2) as [Hlt|[Heq2 _]]; [lia|].
    assert (Hrole : role_of v = role_of u).
    { apply (Huniq _ _ _ He2). exact Heq2. lia. }
    assert (Hvu : v = u) by (apply Hsing; assumption).
    subst v. apply Hnotu. exact Hheldv.
  Qed.

  Theorem order_ok_no_deadlocked_set : forall single rk,
    order_ok single rk E = true -> singles_respected single ->
    forall s, reachable E role_of can_grant s -> forall D, ~ deadlocked s D.
  Proof.
    intros single rk Hok Hsing s Hr D. apply ranked_no_deadlocked with (single := single) (rk := rk); try assumption.
    apply inv_reachable; exact Hr.
  Qed.

  Lemma wait_cycle_deadlocked : forall s c, wait_cycle s c -> deadlocked s c.
  Proof.
    intros s c [Hne Hall]. split. exact Hne.
    intros t Hin. destruct (In_nth c t 0 Hin) as [i [Hi Hnth]].
    exists (nth (S i mod length c) c 0). split.
    - apply nth_In. apply Nat.mod_upper_bound. lia.
    - rewrite <- Hnth. apply Hall. exact Hi.
  Qed.

  Theorem order_ok_no_deadlock : forall single rk,
    order_ok single rk E = true -> singles_respected single ->
    forall s, reachable E role_of can_grant s -> forall c, ~ wait_cycle s c.
  Proof.
    intros single rk Hok Hsing s Hr c Hc.
    apply (order_ok_no_deadlocked_set single rk Hok Hsing s Hr c). apply wait_cycle_deadlocked. exact Hc.
  Qed.

  Corollary order_ok_no_deadlock_both : forall single rk,
    order_ok single rk E = true -> singles_respected single ->
    forall s, reachable E role_of can_grant s -> (forall D, ~ deadlocked s D) /\ (forall c, ~ wait_cycle s c).
  Proof.
    intros single rk Hok Hsing s Hr. split.
    - apply (order_ok_no_deadlocked_set single rk Hok Hsing s Hr).
    - apply (order_ok_no_deadlock single rk Hok Hsing s Hr).
  Qed.

  (* the plain check is the special case without single roles *)
  Lemma acyclic_order_ok : acyclic (untag E) = true -> order_ok (fun _ => false) (rank (untag E)) E = true.
  Proof.
    intro Ha. unfold order_ok. apply forallb_forall. intros [r [a b]] Hin. unfold tfrom, tto. cbn [fst snd].
    assert (Hlt : rank (untag E) a < rank (untag E) b).
    { apply acyclic_rank. exact Ha. unfold untag. apply in_map_iff. exists (r, (a, b)). split. reflexivity. exact Hin. }
    apply Nat.ltb_lt in Hlt. rewrite Hlt. reflexivity.
  Qed.

  Lemma no_singles_respected : singles_respected (fun _ => false).
  Proof. intros t u H. discriminate H. Qed.

  Theorem acyclic_no_deadlocked_set : acyclic (untag E) = true ->
    forall s, reachable E role_of can_grant s -> forall D, ~ deadlocked s D.
  Proof.
    intros Ha. apply order_ok_no_deadlocked_set with (single := fun _ => false) (rk := rank (untag E)).
    apply acyclic_order_ok; exact Ha. apply no_singles_respected.
  Qed.

  (* the theorem of the design: with an acyclic nesting relation no reachable state has a wait-for cycle *)
  Theorem acyclic_no_deadlock : acyclic (untag E) = true ->
    forall s, reachable E role_of can_grant s -> forall c, ~ wait_cycle s c.
  Proof.
    intros Ha s Hr c Hc. apply (acyclic_no_deadlocked_set Ha s Hr c). apply wait_cycle_deadlocked. exact Hc.
  Qed.
End Proofs.

(* ---------- progress: a blocked configuration can always move ---------- *)
Section Progress.
  Variable E : list tedge.
  Variable role_of : thread -> role.
  Variable can_grant : state -> thread -> lock -> Prop.
  Hypothesis grant_free : forall s t l, free s l -> can_grant s t l.

  (* only the threads below n are active *)
  Definition bounded (n : nat) (s : state) : Prop := forall t, n <= t -> s t = idle.

  Definition holder_below (s : state) (l : lock) (n : nat) : option thread :=
    find (fun u => existsb (N.eqb l) (held (s u))) (seq 0 n).

  Lemma holder_below_some : forall s l n u, holder_below s l n = Some u -> u < n /\ In l (held (s u)).
  Proof.
    intros s l n u H. unfold holder_below in H. apply find_some in H. destruct H as [Hin Hex].
    apply in_seq in Hin. split. lia.
    apply existsb_exists in Hex. destruct Hex as [x [Hx Heq]]. apply N.eqb_eq in Heq. subst x. exact Hx.
  Qed.

  Lemma holder_below_none : forall s l n, bounded n s -> holder_below s l n = None -> free s l.
  Proof.
    intros s l n Hb H u Hin. unfold holder_below in H.
    destruct (le_lt_dec n u) as [Hge|Hlt].
    - rewrite (Hb u Hge) in Hin. cbn in Hin. exact Hin.
    - pose proof (find_none _ _ H u) as Hn. cbn beta in Hn.
      assert (Hs : In u (seq 0 n)) by (apply in_seq; lia).
      specialize (Hn Hs). apply Bool.not_true_iff_false in Hn. apply Hn.
      apply existsb_exists. exists l. split. exact Hin. apply N.eqb_refl.
  Qed.

  Definition is_waiting (s : state) (t : thread) : Prop := exists l, waiting (s t) = Some l.

  (* scan a list of waiting threads: either a step is enabled, or each of them waits for a lock held by an
     active thread that waits as well *)
  Lemma scan_waiting : forall n s, bounded n s -> forall L,
    (forall t, In t L -> is_waiting s t) ->
    (exists s', unblock can_grant s s') \/
    (forall t, In t L -> exists u, u < n /\ is_waiting s u /\ waits_for s t u).
  Proof.
    intros n s Hb L. induction L as [|t L IH]; intros HL.
    - right. intros t [].
    - destruct IH as [Hstep|Hrest].
      + intros x Hx. apply HL. right; exact Hx.
      + left; exact Hstep.
      + destruct (HL t (or_introl eq_refl)) as [l Hl].
        destruct (holder_below s l n) as [u|] eqn:Hh.
        * apply holder_below_some in Hh. destruct Hh as [Hun Hheld].
          destruct (waiting (s u)) as [m|] eqn:Hwu.
          -- right. intros x [<-|Hx].
             ++ exists u. split. exact Hun. split. exists m; exact Hwu. exists l. split; assumption.
             ++ apply Hrest. exact Hx.
          -- left. eexists. apply UnblockRelease with (t := u) (l := l). exact Hwu. exact Hheld.
        * left. eexists. apply UnblockGrant with (t := t) (l := l). exact Hl.
          apply grant_free. apply holder_below_none with (n := n); assumption.
  Qed.

  Lemma unblock_step : forall s s', unblock can_grant s s' -> step E role_of can_grant s s'.
  Proof.
    intros s s' H. destruct H as [s t l Hw Hg | s t l Hw Hin].
    - apply StepGrant; assumption.
    - apply StepRelease; assumption.
  Qed.

  (* progress: in a reachable state with finitely many active threads, if some thread waits then a step is
     enabled that is not a new request: a waiting thread can be granted its (free) lock, or a thread that is
     not waiting can release a lock *)
  Theorem order_ok_progress : forall single rk,
    order_ok single rk E = true -> singles_respected role_of single ->
    forall n s, reachable E role_of can_grant s -> bounded n s ->
    (exists t, waiting (s t) <> None) ->
    exists s', unblock can_grant s s'.
  Proof.
    intros single rk Hok Hsing n s Hr Hb [t0 Hw0].
    set (W := filter (fun t => match waiting (s t) with Some _ => true | None => false end) (seq 0 n)).
    assert (HW : forall t, In t W <-> (t < n /\ is_waiting s t)).
    { intro t. unfold W. rewrite filter_In, in_seq. split.
      - intros [Hlt Hm]. split. lia. destruct (waiting (s t)) as [l|] eqn:Hwt. exists l; exact Hwt. discriminate.
      - intros [Hlt [l Hl]]. split. lia. rewrite Hl. reflexivity. }
    assert (Ht0 : In t0 W).
    { apply HW. destruct (le_lt_dec n t0) as [Hge|Hlt].
      - rewrite (Hb t0 Hge) in Hw0. cbn in Hw0. congruence.
      - split. exact Hlt. destruct (waiting (s t0)) as [l|] eqn:Hwt. exists l; exact Hwt. congruence. }
    destruct (scan_waiting n s Hb W) as [Hstep|Hdead].
    - intros t Ht. apply HW in Ht. apply Ht.
    - exact Hstep.
    - exfalso. apply (order_ok_no_deadlocked_set E role_of can_grant single rk Hok Hsing s Hr W).
      split. intro He. rewrite He in Ht0. exact Ht0.
      intros t Ht. destruct (Hdead t Ht) as [u [Hun [Hwu Hwf]]].
      exists u. split. apply HW. split; assumption. exact Hwf.
  Qed.

  Theorem acyclic_progress : acyclic (untag E) = true ->
    forall n s, reachable E role_of can_grant s -> bounded n s ->
    (exists t, waiting (s t) <> None) ->
    exists s', unblock can_grant s s'.
  Proof.
    intro Ha. apply order_ok_progress with (single := fun _ => false) (rk := rank (untag E)).
    apply acyclic_order_ok; exact Ha. apply no_singles_respected.
  Qed.
End Progress.

(* ---------- examples: the hypotheses are satisfiable, and they matter ---------- *)
Definition excl_grant (s : state) (t : thread) (l : lock) : Prop := free s l.

(* the check accepts DAGs (diamond with a shortcut, sources behind sinks) and rejects cycles, including a
   cycle that is only reachable behind an acyclic prefix *)
Example acyclic_ex1 : acyclic [(1,2); (2,3); (1,3); (4,2); (3,5); (4,5)]%N = true.
Proof. vm_compute. reflexivity. Qed.
Example acyclic_ex2 : acyclic [(1,2); (2,3); (3,4); (4,2)]%N = false.
Proof. vm_compute. reflexivity. Qed.
Example acyclic_ex3 : acyclic [(7,7)]%N = false.
Proof. vm_compute. reflexivity. Qed.
Example acyclic_ex4 : acyclic [] = true.
Proof. vm_compute. reflexivity. Qed.
Example is_cycle_ex : is_cycle [(1,2); (2,3); (3,4); (4,2)]%N [2; 3; 4]%N = true.
Proof. vm_compute. reflexivity. Qed.

Ltac solve_not_in := cbn; intuition discriminate.

(* an acyclic relation with a reachable state in which a thread really waits (thread 0 holds 1 and 2,
   thread 1 holds nothing and waits for 1): the theorem applies and the state can move *)
Definition exE : list tedge := [(0, (1,2)); (0, (2,3)); (0, (1,3))]%N.
Definition one_role : thread -> role := fun _ => 0%N.
Example ex_reachable_waiting :
  acyclic (untag exE) = true /\
  exists s, reachable exE one_role excl_grant s /\ waiting (s 1) = Some 1%N /\ held (s 0) = [2; 1]%N /\
            waits_for s 1 0.
Proof.
  split. vm_compute; reflexivity.
  eexists. split.
  - eapply ReachStep. eapply ReachStep. eapply ReachStep. eapply ReachStep. eapply ReachStep. apply ReachInit.
    + apply StepRequest with (t := 0) (l := 1%N). reflexivity. solve_not_in. intros h [].
    + apply StepGrant with (t := 0) (l := 1%N). reflexivity. intros u Hin. unfold upd in Hin.
      destruct (Nat.eqb u 0); cbn in Hin; exact Hin.
    + apply StepRequest with (t := 0) (l := 2%N). reflexivity. solve_not_in.
      intros h Hh. cbn in Hh. destruct Hh as [<-|[]]. cbn. tauto.
    + apply StepGrant with (t := 0) (l := 2%N). reflexivity. intros u Hin. unfold upd in Hin.
      destruct (Nat.eqb u 0); cbn in Hin; intuition discriminate.
    + apply StepRequest with (t := 1) (l := 1%N). reflexivity. solve_not_in. intros h [].
  - cbn. split. reflexivity. split. reflexivity. exists 1%N. cbn. split. reflexivity. tauto.
Qed.

(* without acyclicity the machine does deadlock: the classic inversion *)
Definition badE : list tedge := [(0, (1,2)); (0, (2,1))]%N.
Example cyclic_can_deadlock :
  acyclic (untag badE) = false /\ exists s, reachable badE one_role excl_grant s /\ wait_cycle s [0; 1].
Proof.
  split. vm_compute; reflexivity.
  eexists. split.
  - eapply ReachStep. eapply ReachStep. eapply ReachStep. eapply ReachStep. eapply ReachStep. eapply ReachStep. apply ReachInit.
    + apply StepRequest with (t := 0) (l := 1%N). reflexivity. solve_not_in. intros h [].
    + apply StepGrant with (t := 0) (l := 1%N). reflexivity. intros u Hin. unfold upd in Hin.
      destruct (Nat.eqb u 0); cbn in Hin; exact Hin.
    + apply StepRequest with (t := 1) (l := 2%N). reflexivity. solve_not_in. intros h [].
    + apply StepGrant with (t := 1) (l := 2%N). reflexivity. intros u Hin. unfold upd in Hin.
      destruct (Nat.eqb u 1); [|destruct (Nat.eqb u 0)]; cbn in Hin; intuition discriminate.
    + apply StepRequest with (t := 0) (l := 2%N). reflexivity. solve_not_in.
      intros h Hh. cbn in Hh. destruct Hh as [<-|[]]. cbn. tauto.
    + apply StepRequest with (t := 1) (l := 1%N). reflexivity. solve_not_in.
      intros h Hh. cbn in Hh. destruct Hh as [<-|[]]. cbn. tauto.
  - split. discriminate. intros i Hi. cbn in Hi.
    destruct i as [|[|i]]; [| |lia].
    + exists 2%N. cbn. split. reflexivity. tauto.
    + exists 1%N. cbn. split. reflexivity. tauto.
Qed.

(* the refined check: the scheduling loop (role 1, single) nests application locks in both orders (as observed
   on the real scheduler: tryAllocate of one application reads the allocations of the others when it looks
   for preemption victims); the plain check rejects the relation, the refined one accepts it with a rank that
   puts both application locks (5, 6) on one level ... *)
Definition schedE : list tedge := [(1, (5,6)); (1, (6,5)); (2, (4,5)); (1, (5,7)); (2, (6,7))]%N.
Definition sched_rank (l : lock) : nat := match l with 4%N => 0 | 5%N => 1 | 6%N => 1 | _ => 2 end.
Example order_ok_single_role :
  acyclic (untag schedE) = false /\ order_ok (N.eqb 1) sched_rank schedE = true.
Proof. split; vm_compute; reflexivity. Qed.
(* ... but not when the role is not declared single, nor when a second role contributes a level edge *)
Example order_ok_needs_single : order_ok (fun _ => false) sched_rank schedE = false.
Proof. vm_compute; reflexivity. Qed.
Example order_ok_two_roles :
  order_ok (fun _ => true) sched_rank [(1, (5,6)); (2, (6,5))]%N = false.
Proof. vm_compute; reflexivity. Qed.
