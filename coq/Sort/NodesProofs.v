(* Node collection: the sorted view and the map view agree after every operation, the iterators
   visit every registered node exactly once, cached scores are current unless the last
   score-changing Node method on that node does not notify the listeners. *)
From Coq Require Import List ZArith NArith Bool Lia Permutation.
From YK Require Import Sort.Nodes Sort.Spec.
Import ListNotations.
Open Scope Z_scope.
Set Default Timeout 60.

(* ---------------------------------------------------------------- the key order *)
Lemma klt_spec a b : klt a b = true <-> (fst a < fst b \/ (fst a = fst b /\ (snd a < snd b)%N)).
Proof.
  unfold klt. rewrite orb_true_iff, andb_true_iff, negb_true_iff, !Z.ltb_lt, Z.ltb_ge, N.ltb_lt. lia.
Qed.
Lemma klt_irrefl a : klt a a = false.
Proof. destruct (klt a a) eqn:E; auto. apply klt_spec in E. lia. Qed.
Lemma klt_trans a b c : klt a b = true -> klt b c = true -> klt a c = true.
Proof. rewrite !klt_spec. lia. Qed.
Lemma klt_total a b : klt a b = false -> klt b a = false -> a = b.
Proof.
  intros H1 H2. destruct a as [x i], b as [y j].
  assert (~ (x < y \/ (x = y /\ (i < j)%N))) by (rewrite <- (klt_spec (x, i) (y, j)); congruence).
  assert (~ (y < x \/ (y = x /\ (j < i)%N))) by (rewrite <- (klt_spec (y, j) (x, i)); congruence).
  f_equal; lia.
Qed.

Definition lb (x : key) (t : list key) : Prop := forall y, In y t -> klt x y = true.
Lemma ksorted_cons a t : ksorted (a :: t) = true <-> lb a t /\ ksorted t = true.
Proof.
  revert a. induction t as [|b r IH]; intros a.
  - simpl. split; [intros _; split; [intros y []|reflexivity]|reflexivity].
  - change (ksorted (a :: b :: r)) with (klt a b && ksorted (b :: r)).
    rewrite andb_true_iff. split.
    + intros [H1 H2]. split; [|exact H2]. intros y [->|Hy]; [exact H1|].
      apply (klt_trans a b y H1). apply (proj1 (IH b) H2). exact Hy.
    + intros [H1 H2]. split; [apply H1; left; reflexivity|exact H2].
Qed.
Lemma ksorted_NoDup t : ksorted t = true -> NoDup t.
Proof.
  induction t as [|a r IH]; intros H; [constructor|].
  apply ksorted_cons in H as [H1 H2]. constructor; auto.
  intros I. specialize (H1 a I). rewrite klt_irrefl in H1. discriminate.
Qed.

Lemma tinsert_in x t y : In y (tinsert x t) -> y = x \/ In y t.
Proof.
  induction t as [|a r IH]; simpl; [intros [->|[]]; auto|].
  destruct (klt x a); [simpl; intuition|]. destruct (klt a x); simpl; intuition.
Qed.
Lemma tinsert_sorted x t : ksorted t = true -> ksorted (tinsert x t) = true.
Proof.
  induction t as [|a r IH]; intros H; [reflexivity|].
  apply ksorted_cons in H as [H1 H2]. simpl.
  destruct (klt x a) eqn:E1.
  - apply ksorted_cons. split.
    + intros y [->|Hy]; [exact E1|]. apply (klt_trans x a y E1), H1, Hy.
    + apply ksorted_cons. auto.
  - destruct (klt a x) eqn:E2.
    + apply ksorted_cons. split; [|auto].
      intros y Hy. apply tinsert_in in Hy as [->|Hy]; auto.
    + rewrite (klt_total x a E1 E2). apply ksorted_cons. auto.
Qed.
Lemma tinsert_perm x t : ksorted t = true -> ~ In x t -> Permutation (tinsert x t) (x :: t).
Proof.
  induction t as [|a r IH]; intros H Hn; [reflexivity|].
  apply ksorted_cons in H as [H1 H2]. simpl.
  destruct (klt x a) eqn:E1; [reflexivity|].
  destruct (klt a x) eqn:E2.
  - rewrite IH; [apply perm_swap|auto|]. intros I. apply Hn. right. exact I.
  - exfalso. apply Hn. left. symmetry. apply klt_total; auto.
Qed.
Lemma filter_sorted (f : key -> bool) t : ksorted t = true -> ksorted (filter f t) = true.
Proof.
  induction t as [|a r IH]; intros H; [reflexivity|].
  apply ksorted_cons in H as [H1 H2]. simpl. destruct (f a); auto.
  apply ksorted_cons. split; auto. intros y Hy. apply filter_In in Hy as [Hy _]. auto.
Qed.
Lemma tdelete_notin x t : ~ In x (tdelete x t).
Proof.
  unfold tdelete. intros I. apply filter_In in I as [_ I]. rewrite klt_irrefl in I. discriminate.
Qed.
Lemma tdelete_perm x t : ksorted t = true -> In x t -> Permutation t (x :: tdelete x t).
Proof.
  induction t as [|a r IH]; intros H I; [destruct I|].
  apply ksorted_cons in H as [H1 H2]. unfold tdelete. simpl.
  destruct (klt x a || klt a x) eqn:E.
  - destruct I as [->|I]; [rewrite klt_irrefl in E; discriminate|].
    rewrite (IH H2 I) at 1. apply perm_swap.
  - apply orb_false_iff in E as [E1 E2]. rewrite (klt_total x a E1 E2).
    constructor. replace (filter _ r) with r; [reflexivity|].
    symmetry. clear IH I. induction r as [|b s IHs]; [reflexivity|]. simpl.
    rewrite (H1 b (or_introl eq_refl)). simpl. f_equal. apply IHs.
    + intros y Hy. apply H1. right. exact Hy.
    + apply ksorted_cons in H2. tauto.
Qed.

(* ---------------------------------------------------------------- association lists *)
Definition keys {V} (l : list (N * V)) : list N := map fst l.
Lemma alookup_in {V} k (l : list (N * V)) v : alookup k l = Some v -> In (k, v) l.
Proof.
  induction l as [|[k' v'] t IH]; simpl; [discriminate|].
  destruct (N.eqb_spec k k'); [intros [= ->]; subst; auto|auto].
Qed.
Lemma alookup_none {V} k (l : list (N * V)) : alookup k l = None <-> ~ In k (keys l).
Proof.
  induction l as [|[k' v'] t IH]; simpl; [tauto|].
  destruct (N.eqb_spec k k'); [subst; split; [discriminate|tauto]|]. rewrite IH. intuition.
Qed.
Lemma in_alookup {V} k v (l : list (N * V)) : NoDup (keys l) -> In (k, v) l -> alookup k l = Some v.
Proof.
  induction l as [|[k' v'] t IH]; simpl; intros Hn I; [destruct I|].
  inversion Hn as [|? ? Hk Ht]; subst.
  destruct I as [[= -> ->]|I]; [rewrite N.eqb_refl; reflexivity|].
  destruct (N.eqb_spec k k'); [subst; exfalso; apply Hk; apply (in_map fst) in I; exact I|auto].
Qed.
Lemma alookup_aset_same {V} k (v : V) l : alookup k (aset k v l) = Some v.
Proof.
  induction l as [|[k' v'] t IH]; simpl; [rewrite N.eqb_refl; reflexivity|].
  destruct (N.eqb_spec k k'); simpl; [rewrite N.eqb_refl; reflexivity|].
  destruct (N.eqb_spec k k'); [contradiction|exact IH].
Qed.
Lemma alookup_aset_other {V} k k' (v : V) l : k' <> k -> alookup k' (aset k v l) = alookup k' l.
Proof.
  intros Hne. induction l as [|[k2 v2] t IH]; simpl.
  - destruct (N.eqb_spec k' k); [contradiction|reflexivity].
  - destruct (N.eqb_spec k k2); simpl.
    + subst. destruct (N.eqb_spec k' k2); [contradiction|reflexivity].
    + destruct (N.eqb_spec k' k2); [reflexivity|exact IH].
Qed.
Lemma alookup_adel_other {V} k k' (l : list (N * V)) : k' <> k -> alookup k' (adel k l) = alookup k' l.
Proof.
  intros Hne. induction l as [|[k2 v2] t IH]; simpl; [reflexivity|].
  destruct (N.eqb_spec k k2); simpl.
  - subst. destruct (N.eqb_spec k' k2); [contradiction|reflexivity].
  - destruct (N.eqb_spec k' k2); [reflexivity|exact IH].
Qed.
Lemma adel_keys_incl {V} k (l : list (N * V)) x : In x (keys (adel k l)) -> In x (keys l).
Proof.
  induction l as [|[k2 v2] t IH]; simpl; [tauto|].
  destruct (N.eqb k k2); simpl; intuition.
Qed.
Lemma adel_NoDup {V} k (l : list (N * V)) : NoDup (keys l) -> NoDup (keys (adel k l)) /\ ~ In k (keys (adel k l)).
Proof.
  induction l as [|[k2 v2] t IH]; simpl; intros H; [split; [constructor|tauto]|].
  inversion H as [|? ? Hk Ht]; subst.
  destruct (N.eqb_spec k k2); simpl.
  - subst. split; auto.
  - destruct (IH Ht) as [I1 I2]. split.
    + constructor; auto. intros I. apply Hk. eapply adel_keys_incl. exact I.
    + intuition.
Qed.
Lemma adel_perm {V} k (c : V) l : alookup k l = Some c -> Permutation l ((k, c) :: adel k l).
Proof.
  induction l as [|[k2 v2] t IH]; simpl; [discriminate|].
  destruct (N.eqb_spec k k2); [intros [= ->]; subst; reflexivity|].
  intros H. rewrite (IH H) at 1. apply perm_swap.
Qed.
Lemma aset_perm_upd {V} k (c v : V) l : alookup k l = Some c -> Permutation (aset k v l) ((k, v) :: adel k l).
Proof.
  induction l as [|[k2 v2] t IH]; simpl; [discriminate|].
  destruct (N.eqb_spec k k2); [intros _; reflexivity|].
  intros H. rewrite (IH H). apply perm_swap.
Qed.
Lemma aset_perm_new {V} k (v : V) l : alookup k l = None -> Permutation (aset k v l) ((k, v) :: l).
Proof.
  induction l as [|[k2 v2] t IH]; simpl; [reflexivity|].
  destruct (N.eqb_spec k k2); [discriminate|].
  intros H. rewrite (IH H). apply perm_swap.
Qed.
Lemma aset_keys_NoDup {V} k (v : V) l : NoDup (keys l) -> NoDup (keys (aset k v l)).
Proof.
  intros H. destruct (alookup k l) as [c|] eqn:E.
  - apply (Permutation_NoDup (l := k :: keys (adel k l))).
    + symmetry. apply (Permutation_map fst (aset_perm_upd k c v l E)).
    + destruct (adel_NoDup k l H). constructor; auto.
  - apply (Permutation_NoDup (l := k :: keys l)).
    + symmetry. apply (Permutation_map fst (aset_perm_new k v l E)).
    + constructor; auto. apply alookup_none. exact E.
Qed.

(* ---------------------------------------------------------------- views agree *)
Definition swap (kv : N * Z) : key := (snd kv, fst kv).
Definition Inv (c : coll) : Prop :=
  NoDup (keys (c_refs c)) /\ ksorted (c_tree c) = true /\ Permutation (c_tree c) (map swap (c_refs c)).

Lemma swap_in_keys v id refs : In (v, id) (map swap refs) -> In id (keys refs).
Proof.
  intros I. apply in_map_iff in I as [[k x] [E I]]. unfold swap in E. simpl in E.
  injection E as -> ->. apply (in_map fst) in I. exact I.
Qed.

Lemma inv_insert refs tree id s :
  NoDup (keys refs) -> ksorted tree = true -> Permutation tree (map swap refs) -> alookup id refs = None ->
  Inv (mkColl 0 (aset id s refs) (tinsert (s, id) tree) []).
Proof.
  intros Hn Hs Hp Hl. repeat split; simpl.
  - apply aset_keys_NoDup. exact Hn.
  - apply tinsert_sorted. exact Hs.
  - rewrite tinsert_perm; auto.
    + rewrite (Permutation_map swap (aset_perm_new id s refs Hl)). simpl. constructor. exact Hp.
    + intros I. apply (Permutation_in _ Hp) in I. apply swap_in_keys in I.
      apply alookup_none in Hl. contradiction.
Qed.

Lemma inv_delete refs tree id c :
  NoDup (keys refs) -> ksorted tree = true -> Permutation tree (map swap refs) -> alookup id refs = Some c ->
  NoDup (keys (adel id refs)) /\ ksorted (tdelete (c, id) tree) = true /\
  Permutation (tdelete (c, id) tree) (map swap (adel id refs)).
Proof.
  intros Hn Hs Hp Hl. destruct (adel_NoDup id refs Hn) as [N1 N2]. repeat split; auto.
  - apply filter_sorted. exact Hs.
  - assert (In (c, id) tree) as I.
    { apply (Permutation_in _ (Permutation_sym Hp)). apply (in_map swap _ (id, c)). apply alookup_in. exact Hl. }
    apply (Permutation_cons_inv (a := (c, id))).
    rewrite <- (tdelete_perm (c, id) tree Hs I), Hp.
    apply (Permutation_map swap (adel_perm id c refs Hl)).
Qed.

Lemma inv_node_updated c id : Inv c -> Inv (node_updated c id).
Proof.
  intros [Hn [Hs Hp]]. unfold node_updated.
  destruct (alookup id (c_refs c)) as [cached|] eqn:E1; [|repeat split; auto].
  destruct (alookup id (c_objs c)) as [o|] eqn:E2; [|repeat split; auto].
  destruct (cached =? score (c_pol c) o) eqn:E3; [repeat split; auto|].
  destruct (inv_delete _ _ id cached Hn Hs Hp E1) as [N1 [S1 P1]].
  destruct (adel_NoDup id (c_refs c) Hn) as [_ N2].
  repeat split; simpl.
  - apply aset_keys_NoDup. exact Hn.
  - apply tinsert_sorted. exact S1.
  - rewrite tinsert_perm; auto.
    + rewrite (Permutation_map swap (aset_perm_upd id cached (score (c_pol c) o) (c_refs c) E1)).
      simpl. constructor. exact P1.
    + intros I. apply (Permutation_in _ P1) in I. apply swap_in_keys in I. contradiction.
Qed.

Lemma inv_rebuild (refs : list (N * Z)) : forall acc,
  NoDup (keys refs) -> ksorted acc = true -> (forall v id, In (v, id) acc -> ~ In id (keys refs)) ->
  ksorted (fold_left (fun t kv => tinsert (snd kv, fst kv) t) refs acc) = true /\
  Permutation (fold_left (fun t kv => tinsert (snd kv, fst kv) t) refs acc) (acc ++ map swap refs).
Proof.
  induction refs as [|[id v] r IH]; intros acc Hn Hs Hd; simpl.
  - rewrite app_nil_r. auto.
  - inversion Hn as [|? ? Hk Hr]; subst.
    assert (~ In (v, id) acc) as Hni by (intros I; apply (Hd v id I); left; reflexivity).
    destruct (IH (tinsert (v, id) acc)) as [S1 P1]; auto.
    + apply tinsert_sorted. exact Hs.
    + intros v' id' I. apply tinsert_in in I as [[= -> ->]|I]; [exact Hk|].
      intros X. apply (Hd v' id' I). right. exact X.
    + split; [exact S1|]. rewrite P1, (tinsert_perm (v, id) acc Hs Hni).
      change (swap (id, v)) with (v, id). simpl. apply Permutation_middle.
Qed.

Lemma inv_step c o : Inv c -> Inv (step c o).
Proof.
  intros HI. pose proof HI as [Hn [Hs Hp]]. destruct o as [id n|id|id k scores reserved|p]; simpl.
  - unfold registered. destruct (alookup id (c_refs c)) eqn:E; [exact HI|].
    destruct (inv_insert (c_refs c) (c_tree c) id
                (score (c_pol c) match alookup id (c_objs c) with Some x => x | None => n end) Hn Hs Hp E) as [A [B C]].
    repeat split; assumption.
  - destruct (alookup id (c_refs c)) as [cached|] eqn:E; [|exact HI].
    destruct (inv_delete _ _ id cached Hn Hs Hp E) as [A [B C]]. repeat split; assumption.
  - destruct (alookup id (c_objs c)) as [old|]; [|exact HI].
    destruct (notifies k); [apply inv_node_updated|]; repeat split; assumption.
  - set (refs := map _ (c_refs c)).
    assert (keys refs = keys (c_refs c)) as Ek.
    { unfold refs, keys. rewrite map_map. reflexivity. }
    destruct (inv_rebuild refs []) as [S1 P1]; try reflexivity.
    + rewrite Ek. exact Hn.
    + intros v id [].
    + repeat split; simpl; auto. rewrite Ek. exact Hn.
Qed.

Lemma inv_init p : Inv (init p).
Proof. repeat split; simpl; constructor. Qed.
Lemma inv_run p ops : Inv (run p ops).
Proof.
  unfold run. generalize (inv_init p). generalize (init p).
  induction ops as [|o t IH]; intros c H; simpl; auto using inv_step.
Qed.

(* views_agree: the tree is the sorted permutation of the map view, after every operation *)
Theorem views_agree p ops :
  let c := run p ops in
  NoDup (map fst (c_refs c)) /\ ksorted (c_tree c) = true /\
  Permutation (c_tree c) (map (fun kv => (snd kv, fst kv)) (c_refs c)).
Proof. exact (inv_run p ops). Qed.

(* ---------------------------------------------------------------- iterate once *)
Lemma count_id_notin k l : ~ In k l -> count_id k l = 0%nat.
Proof.
  induction l as [|x t IH]; simpl; intros H; [reflexivity|].
  destruct (N.eqb_spec x k); [subst; tauto|]. apply IH. tauto.
Qed.
Lemma count_id_NoDup k l : NoDup l -> In k l -> count_id k l = 1%nat.
Proof.
  induction l as [|x t IH]; simpl; intros Hn I; [destruct I|].
  inversion Hn; subst. destruct (N.eqb_spec x k).
  - subst. rewrite count_id_notin; auto.
  - destruct I; [contradiction|]. simpl. apply IH; auto.
Qed.
Lemma ids_eqb_refl l : ids_eqb l l = true.
Proof. induction l; simpl; auto. rewrite N.eqb_refl. auto. Qed.
Lemma memN_In k l : memN k l = true <-> In k l.
Proof.
  unfold memN. rewrite existsb_exists. split.
  - intros [x [I E]]. apply N.eqb_eq in E. subst. exact I.
  - intros I. exists k. split; auto. apply N.eqb_refl.
Qed.

Lemma full_iter_perm c : Inv c -> Permutation (full_iter c) (keys (c_refs c)).
Proof.
  intros [_ [_ Hp]]. unfold full_iter, keys. rewrite (Permutation_map snd Hp), map_map. reflexivity.
Qed.

Theorem iterate_once p ops :
  let c := run p ops in
  visits_once (map fst (c_refs c)) (full_iter c) = true /\
  unreserved_ok (is_reserved c) (full_iter c) (unreserved_iter c) = true.
Proof.
  intros c. pose proof (inv_run p ops) as HI. fold c in HI.
  pose proof (full_iter_perm c HI) as Hp. destruct HI as [Hn _].
  split.
  - unfold visits_once. apply andb_true_iff. split; apply forallb_forall; intros id I.
    + apply Nat.eqb_eq. apply count_id_NoDup.
      * apply (Permutation_NoDup (Permutation_sym Hp)). exact Hn.
      * apply (Permutation_in _ (Permutation_sym Hp)). exact I.
    + apply memN_In. apply (Permutation_in _ Hp). exact I.
  - unfold unreserved_ok, unreserved_iter. apply ids_eqb_refl.
Qed.

(* ---------------------------------------------------------------- cached scores are current *)
Definition Cur (c : coll) (d : list N) : Prop :=
  forall id v, alookup id (c_refs c) = Some v -> ~ In id d ->
               exists o, alookup id (c_objs c) = Some o /\ v = score (c_pol c) o.

Lemma filter_neq_in id x d : In x (filter (fun y => negb (N.eqb y id)) d) <-> (In x d /\ x <> id).
Proof.
  rewrite filter_In, negb_true_iff, N.eqb_neq. tauto.
Qed.

Lemma cur_node_updated c d id :
  Cur c (filter (fun y => negb (N.eqb y id)) d) \/ True ->
  (forall id' v, id' <> id -> alookup id' (c_refs c) = Some v -> ~ In id' d ->
                 exists o, alookup id' (c_objs c) = Some o /\ v = score (c_pol c) o) ->
  (forall v, alookup id (c_refs c) = Some v -> exists o, alookup id (c_objs c) = Some o) ->
  Cur (node_updated c id) (filter (fun y => negb (N.eqb y id)) d).
Proof.
  intros _ Hoth Hobj id' v Hl Hd.
  rewrite filter_neq_in in Hd.
  unfold node_updated in *.
  destruct (alookup id (c_refs c)) as [cached|] eqn:E1.
  2:{ destruct (N.eq_dec id' id) as [->|Hne]; [congruence|]. apply Hoth; auto; tauto. }
  destruct (Hobj cached eq_refl) as [o Eo]. rewrite Eo in *.
  destruct (cached =? score (c_pol c) o) eqn:E3.
  - destruct (N.eq_dec id' id) as [->|Hne].
    + exists o. split; auto. apply Z.eqb_eq in E3. congruence.
    + apply Hoth; auto; tauto.
  - simpl in *. destruct (N.eq_dec id' id) as [->|Hne].
    + rewrite alookup_aset_same in Hl. injection Hl as <-. exists o. auto.
    + rewrite alookup_aset_other in Hl by auto. apply Hoth; auto; tauto.
Qed.

Definition HasObj (c : coll) : Prop :=
  forall id v, alookup id (c_refs c) = Some v -> exists o, alookup id (c_objs c) = Some o.

Lemma hasobj_node_updated c id : HasObj c -> HasObj (node_updated c id).
Proof.
  intros H. unfold node_updated.
  destruct (alookup id (c_refs c)) as [cached|] eqn:E1; auto.
  destruct (alookup id (c_objs c)) as [o|] eqn:E2; auto.
  destruct (cached =? score (c_pol c) o); auto.
  intros id' v Hl. simpl in *. destruct (N.eq_dec id' id) as [->|Hne]; [eauto|].
  rewrite alookup_aset_other in Hl by auto. eauto.
Qed.

Lemma score_mk_reserved p o r : score p (mkNode (n_scores o) r) = score p o.
Proof. reflexivity. Qed.

Lemma cur_step c d o : Inv c -> HasObj c -> Cur c d ->
  HasObj (step c o) /\ Cur (step c o) (dirty_step c d o).
Proof.
  intros [Hn _] Ho Hc. unfold HasObj, Cur in *. destruct o as [id n|id|id k scores reserved|p]; simpl.
  - unfold registered. destruct (alookup id (c_refs c)) eqn:E; [auto|].
    set (obj := match alookup id (c_objs c) with Some x => x | None => n end).
    split.
    + intros id' v Hl. simpl in *. destruct (N.eq_dec id' id) as [->|Hne].
      * rewrite alookup_aset_same. eauto.
      * rewrite alookup_aset_other in Hl by auto. rewrite alookup_aset_other by auto. eauto.
    + intros id' v Hl Hd. simpl in *. destruct (N.eq_dec id' id) as [->|Hne].
      * rewrite alookup_aset_same in Hl. rewrite alookup_aset_same. injection Hl as <-. eauto.
      * rewrite alookup_aset_other in Hl by auto. rewrite alookup_aset_other by auto. apply Hc; auto.
        intros I. apply Hd. apply filter_neq_in. auto.
  - destruct (alookup id (c_refs c)) as [cached|] eqn:E.
    + split.
      * intros id' v Hl. simpl in *. destruct (N.eq_dec id' id) as [->|Hne].
        { exfalso. apply alookup_in in Hl. apply (in_map fst) in Hl.
          destruct (adel_NoDup id (c_refs c) Hn) as [_ X]. apply X. exact Hl. }
        rewrite alookup_adel_other in Hl by auto. eauto.
      * intros id' v Hl Hd. simpl in *. destruct (N.eq_dec id' id) as [->|Hne].
        { exfalso. apply alookup_in in Hl. apply (in_map fst) in Hl.
          destruct (adel_NoDup id (c_refs c) Hn) as [_ X]. apply X. exact Hl. }
        rewrite alookup_adel_other in Hl by auto. apply Hc; auto.
        intros I. apply Hd. apply filter_neq_in. auto.
    + split; auto. intros id' v Hl Hd. apply Hc; auto.
      intros I. apply Hd. apply filter_neq_in. split; auto. intros ->. congruence.
  - destruct (alookup id (c_objs c)) as [old|] eqn:Eo.
    2:{ split; auto. intros id' v Hl Hd. apply Hc; auto.
        destruct (notifies k).
        - intros I. apply Hd. apply filter_neq_in. split; auto. intros ->.
          destruct (Ho id v Hl) as [o X]. congruence.
        - destruct (effect_of k); auto. intros I. apply Hd. right. exact I. }
    set (new := match effect_of k with ENone => old | EScores => mkNode scores (n_reserved old)
                                  | EReserved => mkNode (n_scores old) reserved end).
    set (c1 := mkColl (c_pol c) (c_refs c) (c_tree c) (aset id new (c_objs c))).
    assert (Ho1 : HasObj c1).
    { intros id' v Hl. simpl in *. destruct (N.eq_dec id' id) as [->|Hne].
      - rewrite alookup_aset_same. eauto.
      - rewrite alookup_aset_other by auto. eauto. }
    destruct (notifies k) eqn:Nk.
    + split; [apply hasobj_node_updated; exact Ho1|].
      apply cur_node_updated; auto.
      * intros id' v Hne Hl Hd. simpl in *. rewrite alookup_aset_other by auto. apply Hc; auto.
      * intros v Hl. simpl. rewrite alookup_aset_same. eauto.
    + split; [exact Ho1|].
      intros id' v Hl Hd. simpl in *. destruct (N.eq_dec id' id) as [->|Hne].
      * rewrite alookup_aset_same. exists new. split; auto.
        unfold new. destruct (effect_of k) eqn:Ek.
        { destruct (Hc id v Hl Hd) as [o [X Y]]. congruence. }
        { exfalso. apply Hd. left. reflexivity. }
        { destruct (Hc id v Hl Hd) as [o [X Y]]. rewrite score_mk_reserved. congruence. }
      * rewrite alookup_aset_other by auto. apply Hc; auto.
        destruct (effect_of k); auto. intros I. apply Hd. right. exact I.
  - split.
    + intros id v Hl. simpl in *.
      assert (In id (keys (c_refs c))) as I.
      { apply alookup_in in Hl. apply (in_map fst) in Hl. unfold keys in *. rewrite map_map in Hl. exact Hl. }
      destruct (alookup id (c_refs c)) as [v0|] eqn:E; [eauto|]. apply alookup_none in E. contradiction.
    + intros id v Hl _. simpl in *.
      apply alookup_in in Hl. apply in_map_iff in Hl as [[id0 v0] [E I]]. simpl in E.
      injection E as -> <-.
      assert (alookup id (c_refs c) = Some v0) as L by (apply in_alookup; auto).
      destruct (Ho id v0 L) as [o Eo]. rewrite Eo. eauto.
Qed.

Lemma run_g_fst p ops : fst (run_g p ops) = run p ops.
Proof.
  unfold run_g, run. generalize (init p) ([] : list N).
  induction ops as [|o t IH]; intros c d; [reflexivity|].
  cbn [fold_left]. unfold step_g at 2. cbn [fst snd]. apply IH.
Qed.

Lemma cur_run p ops :
  let cd := run_g p ops in Inv (fst cd) /\ HasObj (fst cd) /\ Cur (fst cd) (snd cd).
Proof.
  unfold run_g.
  assert (forall ops c d, Inv c -> HasObj c -> Cur c d ->
            Inv (fst (fold_left step_g ops (c, d))) /\ HasObj (fst (fold_left step_g ops (c, d))) /\
            Cur (fst (fold_left step_g ops (c, d))) (snd (fold_left step_g ops (c, d)))) as H.
  { clear. induction ops as [|o t IH]; intros c d HI Ho Hc; simpl; auto.
    destruct (cur_step c d o HI Ho Hc). apply IH; auto using inv_step. }
  apply H; [apply inv_init| |]; intros id v Hl; simpl in Hl; discriminate.
Qed.

(* score_current: a registered node whose last score-changing method notified the listeners
   (it is not in the dirty set computed from the history) has cached score = current score *)
Theorem score_current p ops id :
  let cd := run_g p ops in
  registered (fst cd) id = true -> ~ In id (snd cd) -> is_current (fst cd) id = true.
Proof.
  intros cd Hr Hd. destruct (cur_run p ops) as [_ [_ Hc]]. fold cd in Hc.
  unfold registered in Hr. unfold is_current, current_score.
  destruct (alookup id (c_refs (fst cd))) as [v|] eqn:E; [|discriminate].
  destruct (Hc id v E Hd) as [o [Eo Ev]]. rewrite Eo. simpl. apply Z.eqb_eq. exact Ev.
Qed.

(* histories in which every score-changing Node method notifies: nothing is ever stale *)
Definition op_notifies (o : cop) : bool :=
  match o with
  | ONode _ k _ _ => notifies k || match effect_of k with EScores => false | _ => true end
  | _ => true
  end.
Lemma dirty_nil p ops : forallb op_notifies ops = true -> snd (run_g p ops) = [].
Proof.
  unfold run_g. generalize (init p).
  induction ops as [|o t IH]; intros c H; [reflexivity|].
  simpl in H. apply andb_true_iff in H as [H1 H2].
  cbn [fold_left]. unfold step_g at 2. cbn [fst snd].
  replace (dirty_step c [] o) with ([] : list N); [apply IH; exact H2|].
  destruct o as [id n|id|id k scores reserved|q]; simpl; auto.
  - destruct (registered c id); reflexivity.
  - simpl in H1. destruct (notifies k); [reflexivity|]. destruct (effect_of k); [reflexivity|discriminate|reflexivity].
Qed.
Corollary score_current_notifying p ops id :
  forallb op_notifies ops = true -> is_current (run p ops) id = true.
Proof.
  intros H. pose proof (score_current p ops id) as S. cbv zeta in S.
  rewrite (dirty_nil p ops H), run_g_fst in S.
  destruct (registered (run p ops) id) eqn:R; [apply S; auto|].
  unfold registered in R. unfold is_current. destruct (alookup id (c_refs (run p ops))); [discriminate|reflexivity].
Qed.

(* ... and then the iteration order follows the current scores *)
Theorem order_current p ops :
  forallb op_notifies ops = true ->
  let c := run p ops in
  order_by (fun id => match current_score c id with Some v => v | None => 0 end) (full_iter c) = true.
Proof.
  intros H c. pose proof (inv_run p ops) as [Hn [Hs Hp]]. fold c in Hn, Hs, Hp.
  unfold order_by, full_iter. rewrite map_map.
  replace (map _ (c_tree c)) with (c_tree c); [exact Hs|].
  rewrite <- (map_id (c_tree c)) at 1. apply map_ext_in. intros [v id] I. simpl.
  apply (Permutation_in _ Hp) in I. apply in_map_iff in I as [[id0 v0] [E I]].
  unfold swap in E. simpl in E. injection E as -> ->.
  assert (alookup id (c_refs c) = Some v) as L by (apply in_alookup; auto).
  pose proof (score_current_notifying p ops id H) as C. fold c in C.
  unfold is_current in C. rewrite L in C.
  destruct (current_score c id) as [w|]; [|discriminate]. apply Z.eqb_eq in C. subst. reflexivity.
Qed.

(* without the proviso the clause is false (finding C19-foreign-stale): a foreign allocation
   changes the score of node 1 from 0 to 50, the collection still holds 0 and iterates 1 before 2 *)
Theorem score_current_foreign_refuted :
  exists ops id, let c := run 0 ops in
    registered c id = true /\ is_current c id = false /\
    order_by (fun id => match current_score c id with Some v => v | None => 0 end) (full_iter c) = false.
Proof.
  exists [OAdd 1 (mkNode [0] false); OAdd 2 (mkNode [0] false);
          ONode 2 KAlloc [10] false; ONode 1 KForeignAdd [50] false], 1%N.
  vm_compute. auto.
Qed.

Example score_current_example :
  let ops := [OAdd 1 (mkNode [0; 100] false); OAdd 2 (mkNode [0; 100] false); ONode 2 KAlloc [10; 90] false;
              ONode 1 KReserve [] true; OPolicy 1; ONode 1 KSetCapacity [5; 95] true; ORemove 2] in
  forallb op_notifies ops = true /\ full_iter (run 0 ops) = [1%N] /\ unreserved_iter (run 0 ops) = [] /\
  c_refs (run 0 ops) = [(1%N, 95)].
Proof. vm_compute. auto. Qed.
