(* Generic sorting definitions used by the C19 model (definitions only; proofs in SortProofs.v).

   [ssort lt]   stable insertion sort (the canonical stable sorted permutation for a strict weak
                order, theorem stable_sort_unique).
   [go_isort lt] Go's insertionSortLessFunc (sort/zsortfunc.go) for a comparator that only looks
                at the two elements: for i := 1..n-1 the element data[i] is swapped to the left
                while less(data[j], data[j-1]).  sort.SliceStable runs exactly this for n <= 20
                (one block; blockSize = 20), whatever the comparator is.
   [go_isort_pos] the same loop for a closure that ALSO reads a side array by slice index
                (less(i,j) looks at data[i], side[i], data[j], side[j]; only data is swapped) —
                this is what the pinned sortQueuesBy*Fairness closures did with fairMaxResources. *)
From Coq Require Import List Bool Arith.
Import ListNotations.

Section Sort.
  Context {A : Type}.
  Variable lt : A -> A -> bool.

  Fixpoint insert (x : A) (l : list A) : list A :=
    match l with
    | [] => [x]
    | y :: t => if lt y x then y :: insert x t else x :: y :: t
    end.
  Definition ssort (l : list A) : list A := fold_right insert [] l.

  (* no inversion: no later element is strictly before an earlier one *)
  Fixpoint sortedb (l : list A) : bool :=
    match l with
    | [] => true
    | a :: t => forallb (fun b => negb (lt b a)) t && sortedb t
    end.

  Definition equivb (a b : A) : bool := negb (lt a b) && negb (lt b a).
End Sort.

(* Go's insertion sort, element x = data[i] moves left past y while less(x, y):
   on the reversed prefix this is insertion with the flipped comparator. *)
Definition flip_lt {A} (lt : A -> A -> bool) : A -> A -> bool := fun a b => lt b a.
Definition go_isort {A} (lt : A -> A -> bool) (l : list A) : list A :=
  rev (ssort (flip_lt lt) (rev l)).

(* strict weak order on the elements satisfying P *)
Definition swo_on {A} (P : A -> Prop) (lt : A -> A -> bool) : Prop :=
  (forall a, P a -> lt a a = false) /\
  (forall a b c, P a -> P b -> P c -> lt a b = true -> lt b c = true -> lt a c = true) /\
  (forall a b c, P a -> P b -> P c ->
     lt a b = false -> lt b a = false -> lt b c = false -> lt c b = false ->
     lt a c = false /\ lt c a = false).
Definition swo {A} (lt : A -> A -> bool) : Prop := swo_on (fun _ => True) lt.

(* ---- positional variant (side array read by index) ---- *)
Section Pos.
  Context {A B : Type}.
  Variable less : A -> B -> A -> B -> bool.     (* less (data[i]) (side[i]) (data[j]) (side[j]) *)
  Variable dA : A. Variable dB : B.

  Fixpoint swap_adj (j : nat) (l : list A) : list A :=      (* swap l[j] and l[j+1] *)
    match j, l with
    | O, a :: b :: t => b :: a :: t
    | S j', a :: t => a :: swap_adj j' t
    | _, _ => l
    end.
  (* for j := i; j > 0 && less(j, j-1); j-- { swap(j, j-1) } *)
  Fixpoint bubble (side : list B) (j : nat) (data : list A) : list A :=
    match j with
    | O => data
    | S j' =>
        if less (nth j data dA) (nth j side dB) (nth j' data dA) (nth j' side dB)
        then bubble side j' (swap_adj j' data) else data
    end.
  Definition go_isort_pos (side : list B) (data : list A) : list A :=
    fold_left (fun d i => bubble side i d) (seq 1 (length data - 1)) data.
End Pos.
