(* Property level statements for C19 about the sorters: permutation invariance. *)
From Coq Require Import List ZArith NArith Bool Lia Permutation Floats.SpecFloat.
From YK Require Import Base.Int64 Base.F64 Base.Res Sort.Sort Sort.SortProofs Sort.Cmp Sort.CmpProofs
  Sort.ShareProofs Sort.Spec.
Import ListNotations.
Set Default Timeout 60.

(* for a strict weak order, whatever permutation of the candidates is presented, every pair the
   order distinguishes comes out in the same relative order *)
Theorem perm_invariant_on {A} (P : A -> Prop) (lt : A -> A -> bool) :
  swo_on P lt -> forall l l' a b, Forall P l -> Permutation l l' ->
  In a l -> In b l -> lt a b = true -> precedes a b (ssort lt l').
Proof.
  intros Hswo l l' a b HP Hp Ia Ib Hab.
  assert (HP' : Forall P l') by (eapply Permutation_Forall; eauto).
  assert (Hs : Permutation l (ssort lt l')).
  { rewrite Hp. symmetry. apply ssort_perm. }
  repeat split.
  - apply (Permutation_in _ Hs Ia).
  - apply (Permutation_in _ Hs Ib).
  - intros [s1 [s2 [s3 E]]].
    pose proof (ssort_sorted lt P Hswo l' HP') as S. rewrite E in S.
    apply sortedb_no_inversion in S. congruence.
Qed.
Theorem perm_invariant {A} (lt : A -> A -> bool) :
  swo lt -> forall l l' a b, Permutation l l' -> In a l -> In b l -> lt a b = true ->
  precedes a b (ssort lt l').
Proof.
  intros H l l' a b. apply (perm_invariant_on (fun _ => True) lt H). apply Forall_forall. auto.
Qed.
(* the executable form used by the oracle *)
Theorem perm_respects {A} (P : A -> Prop) (lt : A -> A -> bool) :
  swo_on P lt -> forall l l', Forall P l -> Permutation l l' -> respects lt (ssort lt l') = true.
Proof.
  intros Hswo l l' HP Hp. apply (ssort_sorted lt P Hswo). eapply Permutation_Forall; eauto.
Qed.

Lemma sortQueue_unfold st cp l :
  sortQueue st cp l = if N.eqb st 1 || cp then go_isort (queue_lt st cp) l else l.
Proof. unfold sortQueue, queue_lt. destruct (N.eqb st 1), cp; reflexivity. Qed.

(* ---- the sorters as the code runs them (sort.SliceStable, n <= 20: one insertion block) ---- *)
Theorem sortApps_is_ssort which g l :
  (which <? 4)%N = true -> Forall (fun a => app_ok which g a = true) l ->
  sortApps which g l = ssort (app_lt which g) l.
Proof.
  intros Hw HP. unfold sortApps. rewrite Hw.
  apply (go_isort_ssort _ _ l (swo_app which g) HP).
Qed.
Theorem sortApps_perm_invariant which g l l' a b :
  (which <? 4)%N = true -> Forall (fun a => app_ok which g a = true) l -> Permutation l l' ->
  In a l -> In b l -> app_lt which g a b = true -> precedes a b (sortApps which g l').
Proof.
  intros Hw HP Hp Ia Ib Hab.
  rewrite sortApps_is_ssort; auto; [|eapply Permutation_Forall; eauto].
  apply (perm_invariant_on _ _ (swo_app which g) l l'); auto.
Qed.

Theorem sortQueue_prio_perm_invariant st l l' a b :
  N.eqb st 1 = false -> Permutation l l' -> In a l -> In b l -> qByPrio a b = true ->
  precedes a b (sortQueue st true l').
Proof.
  intros Hst Hp Ia Ib Hab. unfold sortQueue. rewrite Hst.
  rewrite (go_isort_ssort (fun _ => True) qByPrio l' swo_qByPrio); [|apply Forall_forall; auto].
  apply (perm_invariant qByPrio swo_qByPrio l l'); auto.
Qed.

(* ---- fair queue sort: the part of the order that survives the broken tie-break ----
   Insertion with a comparator [lt] that refines a strict weak order [klt] (klt a b -> lt a b,
   lt a b -> not klt b a) keeps the list sorted for [klt], whatever else [lt] does. *)
Section Coarse.
  Context {A : Type}.
  Variables (P : A -> Prop) (klt lt : A -> A -> bool).
  Hypothesis Hk : swo_on P klt.
  Hypothesis Hsub : forall a b, P a -> P b -> klt a b = true -> lt a b = true.
  Hypothesis Hcompat : forall a b, P a -> P b -> lt a b = true -> klt b a = false.

  Lemma insert_sorted_coarse x l : P x -> Forall P l -> sortedb klt l = true -> sortedb klt (insert lt x l) = true.
  Proof.
    intros Px. induction l as [|y t IH]; intros HP Hs; simpl; [reflexivity|].
    inversion HP as [|? ? Py HPt]; subst.
    simpl in Hs. apply andb_true_iff in Hs as [Hy Ht].
    destruct (lt y x) eqn:Hyx; simpl.
    - rewrite forallb_insert, Hy, (IH HPt Ht), (Hcompat y x Py Px Hyx). reflexivity.
    - assert (klt y x = false) as Kyx.
      { destruct (klt y x) eqn:E; auto. rewrite (Hsub y x Py Px E) in Hyx. discriminate. }
      rewrite Kyx, Hy, Ht. simpl. rewrite andb_true_r.
      apply forallb_forall. intros z Hz.
      rewrite forallb_forall in Hy. specialize (Hy z Hz). apply negb_true_iff in Hy.
      rewrite Forall_forall in HPt.
      rewrite (swo_negtrans klt P Hk z y x (HPt z Hz) Py Px Hy Kyx). reflexivity.
  Qed.
  Lemma ssort_sorted_coarse l : Forall P l -> sortedb klt (ssort lt l) = true /\ Forall P (ssort lt l).
  Proof.
    induction l as [|x t IH]; intros HP; [split; [reflexivity|constructor]|].
    inversion HP; subst. destruct (IH H2) as [S F].
    change (ssort lt (x :: t)) with (insert lt x (ssort lt t)). split.
    - apply insert_sorted_coarse; auto.
    - eapply Permutation_Forall; [symmetry; apply insert_perm|]. constructor; auto.
  Qed.
End Coarse.

Lemma go_isort_sorted_coarse {A} (P : A -> Prop) (klt lt : A -> A -> bool) l :
  swo_on P klt -> (forall a b, P a -> P b -> klt a b = true -> lt a b = true) ->
  (forall a b, P a -> P b -> lt a b = true -> klt b a = false) ->
  Forall P l -> sortedb klt (go_isort lt l) = true.
Proof.
  intros Hk H1 H2 HP. unfold go_isort. apply sortedb_rev_flip.
  apply (ssort_sorted_coarse P (flip_lt klt) (flip_lt lt)).
  - apply swo_on_flip. exact Hk.
  - unfold flip_lt. auto.
  - unfold flip_lt. auto.
  - apply Forall_forall. intros x Hx. rewrite Forall_forall in HP. apply HP, in_rev, Hx.
Qed.

Lemma comp_cases (l r : f64) : not_nan l -> not_nan r ->
  let comp := if f_gtb l r then 1%Z else if f_ltb l r then (-1)%Z else 0%Z in
  (f_ltb l r = true -> comp = (-1)%Z) /\ ((comp <? 0)%Z = true -> f_ltb r l = false) /\
  (comp = 0%Z -> f_ltb r l = false /\ f_ltb l r = false).
Proof.
  intros Nl Nr. unfold f_gtb. change (SFltb r l) with (f_ltb r l). cbv zeta.
  destruct (f_ltb r l) eqn:E1, (f_ltb l r) eqn:E2; repeat split; try discriminate; auto.
  rewrite (fl_asym r l Nr Nl E1) in E2. discriminate.
Qed.

Lemma queue_lt_refines st cp a b :
  (queue_keys_lt st cp a b = true -> queue_lt st cp a b = true) /\
  (queue_lt st cp a b = true -> queue_keys_lt st cp b a = false).
Proof.
  unfold queue_keys_lt, queue_lt.
  pose proof (getFairShare_not_nan (q_alloc a) (q_guar a) (q_fmax a)) as Na.
  pose proof (getFairShare_not_nan (q_alloc b) (q_guar b) (q_fmax b)) as Nb.
  destruct (N.eqb st 1); [|destruct cp; [|split; [discriminate|reflexivity]]].
  - destruct cp.
    + unfold qPrioFairKeys, qPrioFair, qPrioFairX, CompUsageRatioSeparately, qshare.
      destruct (comp_cases _ _ Na Nb) as [C1 [C2 C3]]. cbv zeta in *.
      set (comp := if f_gtb _ _ then 1%Z else if f_ltb _ _ then (-1)%Z else 0%Z) in *.
      destruct (Z.ltb_spec (qprio b) (qprio a)), (Z.ltb_spec (qprio a) (qprio b)); try lia;
        split; try reflexivity; try discriminate.
      * intros HH. rewrite (C1 HH). reflexivity.
      * destruct (Z.eqb_spec comp 0) as [E|E]; [intros _; apply (C3 E)|intros HH; apply C2, HH].
    + unfold qFairPrioKeys, qFairPrio, qFairPrioX, CompUsageRatioSeparately, qshare.
      destruct (comp_cases _ _ Na Nb) as [C1 [C2 C3]]. cbv zeta in *.
      set (comp := if f_gtb _ _ then 1%Z else if f_ltb _ _ then (-1)%Z else 0%Z) in *.
      set (ls := getFairShare (q_alloc a) (q_guar a) (q_fmax a)) in *.
      set (rs := getFairShare (q_alloc b) (q_guar b) (q_fmax b)) in *.
      split.
      * destruct (f_ltb ls rs) eqn:E1; [intros _; rewrite (C1 eq_refl); reflexivity|].
        destruct (f_ltb rs ls) eqn:E2; [discriminate|].
        intros HH. assert (comp = 0%Z) as ->.
        { unfold comp, f_gtb. change (SFltb rs ls) with (f_ltb rs ls). rewrite ?E2, ?E1. reflexivity. }
        simpl. rewrite HH. reflexivity.
      * destruct (Z.eqb_spec comp 0) as [E|E].
        { destruct (C3 E) as [X Y]. rewrite X, Y.
          destruct (Z.ltb_spec (qprio b) (qprio a)), (Z.ltb_spec (qprio a) (qprio b)); try lia; auto; discriminate. }
        intros HH. rewrite (C2 HH).
        destruct (f_ltb ls rs) eqn:E1; [reflexivity|].
        exfalso. unfold comp in HH. destruct (f_gtb ls rs); discriminate.
  - unfold qByPrio. split; auto. intros HH. apply Z.ltb_lt in HH. apply Z.ltb_ge. lia.
Qed.

(* PARTIAL.  Full statement (refuted, see fair_sort_order_dependent_refuted): for every pair with
   queue_lt st cp a b = true, a precedes b in sortQueue st cp l' for every permutation l' of l.
   Proved: the same for every pair the policy distinguishes by PRIORITY or FAIR SHARE
   (queue_keys_lt); what is missing is exactly the pairs ordered only by the pending tie-break. *)
Theorem sortQueue_perm_invariant_partial st cp l l' a b :
  Permutation l l' -> In a l -> In b l -> queue_keys_lt st cp a b = true ->
  precedes a b (sortQueue st cp l').
Proof.
  intros Hp Ia Ib Hab.
  assert (Hperm : Permutation l (sortQueue st cp l')).
  { rewrite Hp. unfold sortQueue, go_isort.
    destruct (N.eqb st 1), cp; try reflexivity;
      (transitivity (rev l'); [apply Permutation_rev|];
       etransitivity; [symmetry; apply ssort_perm|apply Permutation_rev]). }
  assert (Hs : sortedb (queue_keys_lt st cp) (sortQueue st cp l') = true).
  { unfold sortQueue, queue_keys_lt in *.
    pose proof (fun a b => proj1 (queue_lt_refines st cp a b)) as R1.
    pose proof (fun a b => proj2 (queue_lt_refines st cp a b)) as R2.
    unfold queue_keys_lt, queue_lt in R1, R2.
    destruct (N.eqb st 1), cp.
    - apply (go_isort_sorted_coarse (fun _ => True) qPrioFairKeys qPrioFair l' swo_qPrioFairKeys); [intros; apply R1; auto|intros; apply R2; auto|apply Forall_forall; auto].
    - apply (go_isort_sorted_coarse (fun _ => True) qFairPrioKeys qFairPrio l' swo_qFairPrioKeys); [intros; apply R1; auto|intros; apply R2; auto|apply Forall_forall; auto].
    - apply (go_isort_sorted_coarse (fun _ => True) qByPrio qByPrio l' swo_qByPrio); [intros; apply R1; auto|intros; apply R2; auto|apply Forall_forall; auto].
    - discriminate. }
  repeat split.
  - apply (Permutation_in _ Hperm Ia).
  - apply (Permutation_in _ Hperm Ib).
  - intros [s1 [s2 [s3 E]]]. rewrite E in Hs. apply sortedb_no_inversion in Hs. congruence.
Qed.

(* when the pending tie-break never has to decide, the whole output is the stable sort *)
Theorem sortQueue_plain_is_ssort st cp l :
  (forall a b, In a l -> In b l -> queue_lt st cp a b = queue_keys_lt st cp a b) ->
  (N.eqb st 1 || cp = true) ->
  sortQueue st cp l = ssort (queue_keys_lt st cp) l.
Proof.
  intros Heq Hsorts.
  assert (E : sortQueue st cp l = go_isort (queue_lt st cp) l).
  { unfold sortQueue, queue_lt. destruct (N.eqb st 1), cp; try reflexivity. discriminate. }
  rewrite E.
  set (P := fun a => In a l).
  assert (Hswo : swo_on P (queue_lt st cp)).
  { apply (swo_on_ext P (queue_keys_lt st cp)); [intros; symmetry; apply Heq; auto|].
    apply (swo_on_weaken (fun _ => True)); auto. apply swo_queue_keys. }
  assert (HP : Forall P l) by (apply Forall_forall; auto).
  rewrite (go_isort_ssort P _ l Hswo HP).
  (* ssort depends on the comparator only through the elements of the list *)
  assert (G : forall m, incl m l -> ssort (queue_lt st cp) m = ssort (queue_keys_lt st cp) m).
  { induction m as [|x t IH]; intros Hi; [reflexivity|].
    change (ssort ?f (x :: t)) with (insert f x (ssort f t)).
    rewrite IH by (intros y Hy; apply Hi; right; exact Hy).
    assert (Hin : incl (ssort (queue_keys_lt st cp) t) l).
    { intros y Hy. apply Hi. right. eapply Permutation_in; [apply ssort_perm|exact Hy]. }
    assert (Hx : In x l) by (apply Hi; left; reflexivity).
    revert Hin. generalize (ssort (queue_keys_lt st cp) t).
    induction l0 as [|y r IHr]; intros Hin; [reflexivity|]. simpl.
    rewrite (Heq y x) by (auto; apply Hin; left; reflexivity).
    destruct (queue_keys_lt st cp y x); [|reflexivity].
    f_equal. apply IHr. intros z Hz. apply Hin. right. exact Hz. }
  apply G. apply incl_refl.
Qed.

(* ---- the pinned code (before fix c513988): fairMaxResources read by slice index ---- *)
Definition pa := mkQ 1 false 0 0 (Some [(0%N, 50%Z)]) None (Some [(0%N, 1%Z)]) (Some [(0%N, 1000%Z)]).
Definition pb := mkQ 2 false 0 0 (Some [(0%N, 10%Z)]) None (Some [(0%N, 1%Z)]) (Some [(0%N, 10%Z)]).
Definition pc := mkQ 3 false 0 0 (Some [(0%N, 30%Z)]) None (Some [(0%N, 1%Z)]) (Some [(0%N, 100%Z)]).
Theorem sortQueue_pinned_refuted :
  qFairPrio pc pb = true /\                                        (* c (30 %) sorts before b (100 %) *)
  map q_id (sortQueue_pinned 1 false [pb; pa; pc]) = [1; 2; 3]%N /\  (* ... but here b came out before c *)
  map q_id (sortQueue_pinned 1 false [pa; pb; pc]) = [1; 3; 2]%N /\
  (* the current code gives the same order for all six permutations *)
  forallb (fun l => ids_eqb (map q_id (sortQueue 1 false l)) [1; 3; 2]%N)
          [[pa; pb; pc]; [pa; pc; pb]; [pb; pa; pc]; [pb; pc; pa]; [pc; pa; pb]; [pc; pb; pa]] = true.
Proof. vm_compute. auto. Qed.

Example perm_invariant_example :
  let l := [mkA 1 (Some [(0%N, 10%Z)]) None 0 5; mkA 2 (Some [(0%N, 10%Z)]) None 1 5; mkA 3 None None 1 1]%Z in
  Forall (fun a => app_ok 2 None a = true) l /\ swo (app_lt 2 None) /\
  map a_id (sortApps 2 None l) = [3; 2; 1]%N /\ map a_id (sortApps 2 None (rev l)) = [3; 2; 1]%N.
Proof.
  cbv zeta. split; [repeat constructor|]. split; [exact swo_aSubPrio|]. vm_compute. auto.
Qed.

(* hypotheses of sortQueue_plain_is_ssort / sortQueue_perm_invariant_partial on a non-trivial set:
   three queues with different shares (5 %, 100 %, 30 %), equal pending *)
Example sortQueue_plain_example :
  let l := [pa; pb; pc] in
  (forall a b, In a l -> In b l -> queue_lt 1 false a b = queue_keys_lt 1 false a b) /\
  queue_keys_lt 1 false pc pb = true /\
  map q_id (sortQueue 1 false l) = [1; 3; 2]%N /\ map q_id (ssort (queue_keys_lt 1 false) l) = [1; 3; 2]%N.
Proof.
  cbv zeta. split; [|vm_compute; auto].
  intros a b Ha Hb. simpl in Ha, Hb.
  destruct Ha as [<-|[<-|[<-|[]]]], Hb as [<-|[<-|[<-|[]]]]; vm_compute; reflexivity.
Qed.
