(* Predicates of property C19, used both by the theorems (Props/C19.v: the model satisfies them)
   and by the oracle (Oracles/SortCheck.v: evaluated on what the implementation returned).
   Definitions only. *)
From Coq Require Import List ZArith NArith Bool.
From YK Require Import Base.Int64 Base.F64 Base.Res Sort.Sort Sort.Cmp Sort.Nodes.
Import ListNotations.

(* ---- order of candidates ---- *)
(* "b occurs somewhere before a" *)
Definition occurs_before {A} (b a : A) (s : list A) : Prop :=
  exists s1 s2 s3, s = s1 ++ b :: s2 ++ a :: s3.
(* a is tried before b: both are there and no occurrence of b precedes an occurrence of a *)
Definition precedes {A} (a b : A) (s : list A) : Prop :=
  In a s /\ In b s /\ ~ occurs_before b a s.
(* the executable form: the output has no pair in the wrong order (Sort.sortedb) *)
Definition respects {A} (lt : A -> A -> bool) (out : list A) : bool := sortedb lt out.

(* positions (j < i) of the pairs that are in the wrong order *)
Fixpoint inversions_from {A} (lt : A -> A -> bool) (i : nat) (a : A) (j : nat) (t : list A) : list (nat * nat) :=
  match t with
  | [] => []
  | b :: r => (if lt b a then [(i, j)] else []) ++ inversions_from lt i a (S j) r
  end.
Fixpoint inversions_at {A} (lt : A -> A -> bool) (i : nat) (l : list A) : list (nat * nat) :=
  match l with
  | [] => []
  | a :: t => inversions_from lt i a (S i) t ++ inversions_at lt (S i) t
  end.
Definition inversions {A} (lt : A -> A -> bool) (l : list A) : list (nat * nat) := inversions_at lt 0 l.

(* ---- known finding C19-pending-tiebreak: signature of a violating output ----
   every pair in the wrong order has equal priority and equal fair share (it is ordered only by the
   pending tie-break StrictlyGreaterThan(Sub(l.pending, r.pending), Zero)), and is separated in the
   output by a candidate with the same priority and share whose pending is incomparable with one
   of the two (the tie-break is a partial order, not a strict weak order) *)
Definition keys_equiv (klt : queue -> queue -> bool) (a b : queue) : bool :=
  negb (klt a b) && negb (klt b a).
Definition tb_incomparable (a b : queue) : bool :=
  negb (pendingTB (q_pend a) (q_pend b)) && negb (pendingTB (q_pend b) (q_pend a)).
Definition slice {A} (i j : nat) (l : list A) : list A := firstn (j - i - 1) (skipn (S i) l).   (* strictly between *)
Definition pending_window (lt klt : queue -> queue -> bool) (out : list queue) : bool :=
  forallb (fun ij =>
             let a := nth (fst ij) out dummyQ in let b := nth (snd ij) out dummyQ in
             keys_equiv klt a b &&
             existsb (fun c => keys_equiv klt a c && keys_equiv klt b c &&
                               (tb_incomparable a c || tb_incomparable b c))
                     (slice (fst ij) (snd ij) out))
          (inversions lt out).

(* ---- domain of the share based application orders: no NaN and no negative share ---- *)
Definition share_ok (s : f64) : bool := negb (f_is_nan s) && negb (f_ltb s f_zero).
Definition app_ok (which : N) (g : ores) (a : app) : bool :=
  if (which <? 2)%N then forallb share_ok (GetShares (a_alloc a) g) else true.

(* ---- asks ---- *)
Definition req_sorted (s : list ask) : bool := sortedb askBefore s.
(* the asks that were inserted and not removed (histories never insert a key that is present) *)
Definition spec_step (s : list ask) (o : req_op) : list ask :=
  match o with
  | RIns a => a :: s
  | RRem k => req_remove k s
  end.
Definition spec_asks (ops : list req_op) : list ask := fold_left spec_step ops [].
Fixpoint count_id (k : N) (l : list N) : nat :=
  match l with [] => 0 | x :: t => (if N.eqb x k then 1 else 0) + count_id k t end.
Definition same_ids (a b : list N) : bool :=
  forallb (fun k => Nat.eqb (count_id k a) (count_id k b)) (a ++ b).
Definition wf_req_step (s : list ask) (o : req_op) : bool :=
  match o with RIns a => negb (existsb (fun x => N.eqb (k_id x) (k_id a)) s) | RRem _ => true end.
Fixpoint wf_req (s : list ask) (ops : list req_op) : bool :=
  match ops with
  | [] => true
  | o :: t => wf_req_step s o && wf_req (spec_step s o) t
  end.

(* ---- node iteration ---- *)
Definition memN (k : N) (l : list N) : bool := existsb (N.eqb k) l.
(* every registered node exactly once, nothing else *)
Definition visits_once (registered full : list N) : bool :=
  forallb (fun id => Nat.eqb (count_id id full) 1) registered && forallb (fun id => memN id registered) full.
Fixpoint ids_eqb (a b : list N) : bool :=
  match a, b with
  | [], [] => true
  | x :: s, y :: t => N.eqb x y && ids_eqb s t
  | _, _ => false
  end.
(* the unreserved view skips exactly the reserved nodes *)
Definition unreserved_ok (reserved : N -> bool) (full unres : list N) : bool :=
  ids_eqb unres (filter (fun id => negb (reserved id)) full).
(* the order follows the given scores (ascending score, then node id) *)
Definition order_by (sc : N -> Z) (full : list N) : bool :=
  ksorted (map (fun id => (sc id, id)) full).
