(* The comparators of pkg/scheduler/objects/sorters.go, Allocation.LessThan, the sorted ask list
   of sorted_asks.go and Queue.GetFairMaxResource, transcribed (definitions only).
   Resources, fair shares and float comparisons come from Base/Res.v, Base/F64.v. *)
From Coq Require Import List ZArith NArith Bool.
From YK Require Import Base.Int64 Base.F64 Base.Res Sort.Sort.
Import ListNotations.
Open Scope Z_scope.

(* ---------------------------------------------------------------- queues *)
Record queue := mkQ {
  q_id : N;
  q_fence : bool;        (* priority policy: fence / default *)
  q_off : Z;             (* priorityOffset  (int32) *)
  q_cur : Z;             (* currentPriority (int32) *)
  q_alloc : ores; q_guar : ores; q_pend : ores;
  q_fmax : ores          (* the fair max of THIS queue (GetFairMaxResource) *)
}.

Definition MINP : Z := - 2^31.
Definition MAXP : Z := 2^31 - 1.
(* priorityValueByPolicy(policy, offset, priority) *)
Definition prioValue (fence : bool) (off cur : Z) : Z :=
  if cur =? MINP then cur else
  if fence then off else
  let r := off + cur in
  if MAXP <? r then MAXP else if r <? MINP then MINP else r.
Definition qprio (q : queue) : Z := prioValue (q_fence q) (q_off q) (q_cur q).

(* resources.StrictlyGreaterThan(resources.Sub(l.pending, r.pending), resources.Zero) *)
Definition pendingTB (l r : ores) : bool := StrictlyGreaterThan (Some (Sub l r)) (Some []).

(* the share a queue is ranked by: getFairShare(allocated, guaranteed, fairMax) *)
Definition qshare (q : queue) (fm : ores) : f64 := getFairShare (q_alloc q) (q_guar q) fm.

Definition qByPrio (l r : queue) : bool := qprio r <? qprio l.

(* closures of sortQueuesByPriorityAndFairness / sortQueuesByFairnessAndPriority, with the two
   fair-max values the closure reads passed explicitly *)
Definition qPrioFairX (l : queue) (lf : ores) (r : queue) (rf : ores) : bool :=
  let lp := qprio l in let rp := qprio r in
  if rp <? lp then true else if lp <? rp then false else
  let comp := CompUsageRatioSeparately (q_alloc l) (q_guar l) lf (q_alloc r) (q_guar r) rf in
  if comp =? 0 then pendingTB (q_pend l) (q_pend r) else comp <? 0.
Definition qFairPrioX (l : queue) (lf : ores) (r : queue) (rf : ores) : bool :=
  let comp := CompUsageRatioSeparately (q_alloc l) (q_guar l) lf (q_alloc r) (q_guar r) rf in
  if comp =? 0 then
    let lp := qprio l in let rp := qprio r in
    if rp <? lp then true else if lp <? rp then false else
    pendingTB (q_pend l) (q_pend r)
  else comp <? 0.

(* current code (after the fix): the fair max is looked up by queue *)
Definition qPrioFair (l r : queue) : bool := qPrioFairX l (q_fmax l) r (q_fmax r).
Definition qFairPrio (l r : queue) : bool := qFairPrioX l (q_fmax l) r (q_fmax r).
(* the comparators without the pending tie-break (the strict-weak-order part) *)
Definition qPrioFairKeys (l r : queue) : bool :=
  let lp := qprio l in let rp := qprio r in
  if rp <? lp then true else if lp <? rp then false else
  f_ltb (qshare l (q_fmax l)) (qshare r (q_fmax r)).
Definition qFairPrioKeys (l r : queue) : bool :=
  let ls := qshare l (q_fmax l) in let rs := qshare r (q_fmax r) in
  if f_ltb ls rs then true else if f_ltb rs ls then false else qprio r <? qprio l.

(* sortQueue(queues, fairMax, sortType, considerPriority); sortType 1 = fair (policies.FairSortPolicy),
   everything else only sorts by priority when asked to. n <= 20: one insertion block. *)
Definition sortQueue (sortType : N) (considerPriority : bool) (qs : list queue) : list queue :=
  if N.eqb sortType 1 then
    if considerPriority then go_isort qPrioFair qs else go_isort qFairPrio qs
  else if considerPriority then go_isort qByPrio qs else qs.
Definition queue_lt (sortType : N) (considerPriority : bool) : queue -> queue -> bool :=
  if N.eqb sortType 1 then (if considerPriority then qPrioFair else qFairPrio)
  else if considerPriority then qByPrio else fun _ _ => false.
Definition queue_keys_lt (sortType : N) (considerPriority : bool) : queue -> queue -> bool :=
  if N.eqb sortType 1 then (if considerPriority then qPrioFairKeys else qFairPrioKeys)
  else if considerPriority then qByPrio else fun _ _ => false.

(* pinned code: the closure read fairMaxResources[i] by slice index while the queues moved *)
Definition dummyQ : queue := mkQ 0 false 0 0 None None None None.
Definition sortQueue_pinned (sortType : N) (considerPriority : bool) (qs : list queue) : list queue :=
  let side := map q_fmax qs in
  if N.eqb sortType 1 then
    if considerPriority then go_isort_pos qPrioFairX dummyQ None side qs
    else go_isort_pos qFairPrioX dummyQ None side qs
  else if considerPriority then go_isort qByPrio qs else qs.

(* Queue.internalGetFairMaxResource(limit): out := limit.Clone(); if max or out is empty return out;
   child max wins every collision *)
Definition fairMaxOf (limit mx : ores) : ores :=
  if IsEmpty mx || IsEmpty limit then limit else
  Some (fold_left (fun out kv => set (fst kv) (snd kv) out) (oget mx) (oget limit)).
(* Queue.sortQueues(): children that are not stopped and have pending > 0 *)
Definition queueCandidate (stopped : bool) (q : queue) : bool :=
  negb stopped && StrictlyGreaterThanZero (q_pend q).

(* ---------------------------------------------------------------- applications *)
Record app := mkA { a_id : N; a_alloc : ores; a_pend : ores; a_prio : Z; a_sub : Z }.

Definition aFairPrio (g : ores) (l r : app) : bool :=
  let comp := CompUsageRatio (a_alloc l) (a_alloc r) g in
  if negb (comp =? 0) then comp <? 0 else a_prio r <? a_prio l.
Definition aPrioFair (g : ores) (l r : app) : bool :=
  if a_prio r <? a_prio l then true else if a_prio l <? a_prio r then false else
  CompUsageRatio (a_alloc l) (a_alloc r) g <? 0.
Definition aSubPrio (l r : app) : bool :=
  if a_sub l <? a_sub r then true else if a_sub r <? a_sub l then false else a_prio r <? a_prio l.
Definition aPrioSub (l r : app) : bool :=
  if a_prio r <? a_prio l then true else if a_prio l <? a_prio r then false else a_sub l <? a_sub r.

(* which: 0 fairness+priority, 1 priority+fairness, 2 submission+priority, 3 priority+submission *)
Definition app_lt (which : N) (g : ores) : app -> app -> bool :=
  match which with
  | 0%N => aFairPrio g | 1%N => aPrioFair g | 2%N => aSubPrio | 3%N => aPrioSub
  | _ => fun _ _ => false
  end.
(* sortApplications(apps, sortType, considerPriority, global): 0 fifo, 1 fair, others unsorted *)
Definition app_which (sortType : N) (considerPriority : bool) : N :=
  match sortType with
  | 1%N => if considerPriority then 1%N else 0%N
  | 0%N => if considerPriority then 3%N else 2%N
  | _ => 4%N
  end.
Definition appCandidate (a : app) : bool := StrictlyGreaterThanZero (a_pend a).
Definition sortApps (which : N) (g : ores) (l : list app) : list app :=
  if (which <? 4)%N then go_isort (app_lt which g) l else l.

(* ---------------------------------------------------------------- asks *)
Record ask := mkAsk { k_id : N; k_prio : Z; k_time : Z }.
(* Allocation.LessThan *)
Definition LessThan (a o : ask) : bool :=
  if k_prio a =? k_prio o then (k_time o <? k_time a) || (k_time a =? k_time o)
  else k_prio a <? k_prio o.
(* the strict order the list is kept in: priority descending, creation time ascending *)
Definition askBefore (a b : ask) : bool :=
  if k_prio b <? k_prio a then true else if k_prio a <? k_prio b then false else k_time a <? k_time b.

(* sort.Search(n, f): binary search, i, j := 0, n; h := (i+j)/2; if !f(h) i = h+1 else j = h *)
Fixpoint search_go (fuel : nat) (f : nat -> bool) (i j : nat) : nat :=
  match fuel with
  | O => i
  | S fu => if Nat.ltb i j then
              let h := Nat.div (i + j) 2 in
              if f h then search_go fu f i h else search_go fu f (S h) j
            else i
  end.
Definition dummyAsk : ask := mkAsk 0 0 0.
Definition insertAt {A} (i : nat) (x : A) (l : list A) : list A := firstn i l ++ x :: skipn i l.
Definition req_insert (a : ask) (s : list ask) : list ask :=
  let size := length s in
  if Nat.ltb 0 size && LessThan a (nth (size - 1) s dummyAsk) then insertAt size a s
  else insertAt (search_go (S size) (fun i => LessThan (nth i s dummyAsk) a) 0 size) a s.
Fixpoint req_remove (k : N) (s : list ask) : list ask :=
  match s with
  | [] => []
  | a :: t => if N.eqb (k_id a) k then t else a :: req_remove k t
  end.
Inductive req_op := RIns (a : ask) | RRem (k : N).
Definition req_step (s : list ask) (o : req_op) : list ask :=
  match o with RIns a => req_insert a s | RRem k => req_remove k s end.
Definition req_run (ops : list req_op) : list ask := fold_left req_step ops [].
