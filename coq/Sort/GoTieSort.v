(* Tie theorems for the comparators of pkg/scheduler/objects (sorters.go closures, queue priority,
   Allocation.LessThan): the definitions GENERATED from the Go source (Generated/GoObjects.v) equal
   the hand-written comparators of Sort/Cmp.v that the C19 theorems are about.
   A Go object is abstracted to the model record by reading exactly the fields the comparator reads
   ([absQ], [absA], [absK]); ids and resource fields, which these comparators do not look at, are
   filled with a constant.  int32 priorities carry their range as hypotheses where the Go code computes
   in int64/int32 (priorityValueByPolicy); the closures index the slice being sorted: the tie holds for
   every pair of valid indices holding non-nil objects (anything else panics in Go and in the translation). *)
From Coq Require Import List ZArith NArith Bool Lia ZifyBool ZifyN ZifyNat.
From YK Require Import Base.Int64 Base.F64 Base.Res Sort.Sort Sort.Cmp
  Generated.GoPrelude Generated.GoResources Generated.GoObjects Base.GoTieLib.
Import ListNotations.
Open Scope Z_scope.

Definition i32 (z : Z) : Prop := MINP <= z <= MAXP.

Lemma wrap64_small z : - 2^63 <= z < 2^63 -> wrap64 z = z.
Proof. intros H. unfold wrap64. rewrite Z.mod_small; lia. Qed.
Lemma wrap32_small z : - 2^31 <= z < 2^31 -> wrap32 z = z.
Proof. intros H. unfold wrap32. rewrite Z.mod_small; lia. Qed.

(* ---- priorityValueByPolicy / Queue.getCurrentPriority ---- *)
Theorem gotie_priorityValueByPolicy policy off cur : i32 off -> i32 cur ->
  GoObjects.priorityValueByPolicy policy off cur = Cmp.prioValue (policy =? 1) off cur.
Proof.
  unfold i32, MINP, MAXP. intros Ho Hc.
  unfold GoObjects.priorityValueByPolicy, Cmp.prioValue, MINP, MAXP. cbv zeta.
  change (-2147483648) with (- 2 ^ 31). change 2147483647 with (2 ^ 31 - 1).
  destruct (cur =? - 2 ^ 31); [reflexivity|].
  destruct (policy =? 1); [reflexivity|].
  rewrite (wrap64_small (off + cur)) by lia.
  destruct (Z.ltb_spec (2 ^ 31 - 1) (off + cur)); [reflexivity|].
  destruct (Z.ltb_spec (off + cur) (- 2 ^ 31)); [reflexivity|].
  apply wrap32_small. lia.
Qed.

Definition absQ (sq : GoObjects.Queue) : Cmp.queue :=
  Cmp.mkQ 0%N (Queue_priorityPolicy sq =? 1) (Queue_priorityOffset sq) (Queue_currentPriority sq)
          None None None None.
Definition q_ok (sq : GoObjects.Queue) : Prop := i32 (Queue_priorityOffset sq) /\ i32 (Queue_currentPriority sq).

Theorem gotie_getCurrentPriority sq : q_ok sq -> GoObjects.getCurrentPriority sq = Cmp.qprio (absQ sq).
Proof. intros [Ho Hc]. unfold GoObjects.getCurrentPriority, Cmp.qprio, absQ; cbn. now apply gotie_priorityValueByPolicy. Qed.
Theorem gotie_GetCurrentPriority sq : q_ok sq -> GoObjects.GetCurrentPriority sq = Cmp.qprio (absQ sq).
Proof. exact (gotie_getCurrentPriority sq). Qed.

(* ---- slices of object pointers ---- *)
Lemma slice_get_nth {A} (l : list A) (i : nat) (x : A) :
  nth_error l i = Some x -> slice_get l (Z.of_nat i) = GOk x.
Proof.
  intros H. unfold slice_get. replace (Z.of_nat i <? 0) with false by lia.
  now rewrite Nat2Z.id, H.
Qed.

(* ---- sortQueuesByPriority: less(i, j) ---- *)
Theorem gotie_sortQueuesByPriority_less (queues : list (option GoObjects.Queue)) i j l r :
  nth_error queues i = Some (Some l) -> nth_error queues j = Some (Some r) -> q_ok l -> q_ok r ->
  GoObjects.sortQueuesByPriority_lit1 queues (Z.of_nat i) (Z.of_nat j) = GOk (Cmp.qByPrio (absQ l) (absQ r)).
Proof.
  intros Hi Hj Hl Hr. unfold GoObjects.sortQueuesByPriority_lit1.
  rewrite (slice_get_nth _ _ _ Hi), (slice_get_nth _ _ _ Hj). cbn [gbind deref]. cbv zeta.
  rewrite (gotie_GetCurrentPriority l Hl), (gotie_GetCurrentPriority r Hr). reflexivity.
Qed.

(* ---- application sorters: submission time / priority ---- *)
Definition absA (sa : GoObjects.Application) : Cmp.app :=
  Cmp.mkA 0%N None None (Application_askMaxPriority sa) (Application_submissionTime sa).

Theorem gotie_GetAskMaxPriority sa : GoObjects.GetAskMaxPriority sa = Cmp.a_prio (absA sa).
Proof. reflexivity. Qed.
Theorem gotie_GetSubmissionTime sa : GoObjects.GetSubmissionTime sa = Cmp.a_sub (absA sa).
Proof. reflexivity. Qed.

Theorem gotie_sortApplicationsBySubmissionTimeAndPriority_less (apps : list (option GoObjects.Application)) i j l r :
  nth_error apps i = Some (Some l) -> nth_error apps j = Some (Some r) ->
  GoObjects.sortApplicationsBySubmissionTimeAndPriority_lit1 apps (Z.of_nat i) (Z.of_nat j) =
  GOk (Cmp.aSubPrio (absA l) (absA r)).
Proof.
  intros Hi Hj. unfold GoObjects.sortApplicationsBySubmissionTimeAndPriority_lit1, Cmp.aSubPrio.
  rewrite (slice_get_nth _ _ _ Hi), (slice_get_nth _ _ _ Hj). cbn [gbind deref]. cbv zeta.
  rewrite !gotie_GetSubmissionTime, !gotie_GetAskMaxPriority.
  destruct (a_sub (absA l) <? a_sub (absA r)); [reflexivity|].
  destruct (a_sub (absA r) <? a_sub (absA l)); reflexivity.
Qed.

Theorem gotie_sortApplicationsByPriorityAndSubmissionTime_less (apps : list (option GoObjects.Application)) i j l r :
  nth_error apps i = Some (Some l) -> nth_error apps j = Some (Some r) ->
  GoObjects.sortApplicationsByPriorityAndSubmissionTime_lit1 apps (Z.of_nat i) (Z.of_nat j) =
  GOk (Cmp.aPrioSub (absA l) (absA r)).
Proof.
  intros Hi Hj. unfold GoObjects.sortApplicationsByPriorityAndSubmissionTime_lit1, Cmp.aPrioSub.
  rewrite (slice_get_nth _ _ _ Hi), (slice_get_nth _ _ _ Hj). cbn [gbind deref]. cbv zeta.
  rewrite !gotie_GetSubmissionTime, !gotie_GetAskMaxPriority.
  destruct (a_prio (absA r) <? a_prio (absA l)); [reflexivity|].
  destruct (a_prio (absA l) <? a_prio (absA r)); reflexivity.
Qed.

(* a nil element or an index out of range panics (sort.SliceStable never produces one) *)
Theorem gotie_sortQueuesByPriority_less_panics (queues : list (option GoObjects.Queue)) i j :
  nth_error queues i = None \/ nth_error queues i = Some None ->
  GoObjects.sortQueuesByPriority_lit1 queues (Z.of_nat i) (Z.of_nat j) = GPanic.
Proof.
  intros H. unfold GoObjects.sortQueuesByPriority_lit1, slice_get.
  replace (Z.of_nat i <? 0) with false by lia. rewrite Nat2Z.id.
  destruct H as [-> | ->]; [reflexivity|]. cbn [gbind].
  replace (Z.of_nat j <? 0) with false by lia.
  destruct (nth_error queues (Z.to_nat (Z.of_nat j))); reflexivity.
Qed.

(* ---- Allocation.LessThan ---- *)
Definition absK (a : GoObjects.Allocation) : Cmp.ask :=
  Cmp.mkAsk 0%N (Allocation_priority a) (Allocation_createTime a).

Theorem gotie_LessThan a o : GoObjects.LessThan a (Some o) = GOk (Cmp.LessThan (absK a) (absK o)).
Proof.
  unfold GoObjects.LessThan, Cmp.LessThan, absK; cbn [deref gbind k_prio k_time].
  destruct (Allocation_priority a =? Allocation_priority o); [|reflexivity].
  destruct (Allocation_createTime o <? Allocation_createTime a); reflexivity.
Qed.
Theorem gotie_LessThan_nil a : GoObjects.LessThan a None = GPanic.
Proof. reflexivity. Qed.

(* recalculatePriority: currentPriority := max over the stored priorities (MinInt32 when there is none) *)
Theorem gotie_recalculatePriority sq :
  let items := if Queue_isLeaf sq then Queue_appPriorities sq else Queue_childPriorities sq in
  let curr := fold_left (fun c kv => Z.max (snd kv) c) items (-2147483648) in
  GoObjects.recalculatePriority sq =
  (set_Queue_currentPriority sq curr,
   GoObjects.priorityValueByPolicy (Queue_priorityPolicy sq) (Queue_priorityOffset sq) curr).
Proof.
  unfold GoObjects.recalculatePriority. cbv zeta.
  assert (E : forall (l : list (N * Z)) c,
            fold_left (fun (curr : Z) '(_, v) => Z.max v curr) l c = fold_left (fun c kv => Z.max (snd kv) c) l c).
  { induction l as [|[k v] t IH]; intros c; cbn; [reflexivity|apply IH]. }
  destruct (Queue_isLeaf sq); rewrite E; destruct sq; reflexivity.
Qed.
