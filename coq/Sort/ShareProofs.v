(* The share based application orders (CompUsageRatio = compareShares over GetShares) are strict
   weak orders on applications whose shares are neither NaN nor negative.
   Hypothesis check: GetShares divides float64(v) by float64(total[k]) only when both are non-zero,
   so no NaN arises from int64 inputs; negative shares need a negative allocated quantity or a
   negative total, which the scheduler never produces for an application (see notes/sort.md). *)
From Coq Require Import List ZArith NArith Bool Lia Floats.SpecFloat.
From YK Require Import Base.Int64 Base.F64 Base.Res Sort.Sort Sort.SortProofs Sort.Cmp Sort.CmpProofs Sort.Spec.
Import ListNotations.
Open Scope Z_scope.
Set Default Timeout 60.

Definition okf (x : f64) : Prop := not_nan x /\ f_ltb x f_zero = false.
Definition okl (l : list f64) : Prop := Forall okf l.

Lemma zero_not_nan : not_nan f_zero. Proof. reflexivity. Qed.
Lemma fl_irrefl x : not_nan x -> f_ltb x x = false.
Proof. apply (swo_irrefl f_ltb not_nan swo_f_ltb). Qed.
Lemma fl_asym x y : not_nan x -> not_nan y -> f_ltb x y = true -> f_ltb y x = false.
Proof. apply (swo_asym f_ltb not_nan swo_f_ltb). Qed.
Lemma fl_negtrans x y z : not_nan x -> not_nan y -> not_nan z ->
  f_ltb x y = false -> f_ltb y z = false -> f_ltb x z = false.
Proof. apply (swo_negtrans f_ltb not_nan swo_f_ltb). Qed.

Lemma cs_cons x t1 y t2 :
  cmpSharesRev (x :: t1) (y :: t2) = if f_ltb y x then 1 else if f_ltb x y then -1 else cmpSharesRev t1 t2.
Proof. reflexivity. Qed.
Lemma cs_nil_r l : cmpSharesRev l [] = leftoverSign l.
Proof. destruct l; reflexivity. Qed.
Lemma cs_nil_l r : cmpSharesRev [] r = - leftoverSign r.
Proof. destruct r; reflexivity. Qed.
Lemma leftover_cons x t :
  leftoverSign (x :: t) = if f_ltb f_zero x then 1 else if f_ltb x f_zero then -1 else leftoverSign t.
Proof. reflexivity. Qed.
Lemma leftover_range l : okl l -> leftoverSign l = 0 \/ leftoverSign l = 1.
Proof.
  induction 1 as [|x t [Hn Hx] _ IH]; [left; reflexivity|].
  rewrite leftover_cons, Hx. destruct (f_ltb f_zero x); auto.
Qed.

Lemma cs_refl l : okl l -> cmpSharesRev l l = 0.
Proof.
  induction 1 as [|x t [Hn Hx] _ IH]; [reflexivity|].
  rewrite cs_cons, (fl_irrefl x Hn). exact IH.
Qed.

Lemma cs_antisym l : forall r, okl l -> okl r -> cmpSharesRev l r = - cmpSharesRev r l.
Proof.
  induction l as [|x t1 IH]; intros r Hl Hr.
  - rewrite cs_nil_l, cs_nil_r. reflexivity.
  - destruct r as [|y t2]; [rewrite cs_nil_l, cs_nil_r; lia|].
    inversion Hl as [|? ? [Nx _] Ht1]; inversion Hr as [|? ? [Ny _] Ht2]; subst.
    rewrite !cs_cons.
    destruct (f_ltb y x) eqn:E1, (f_ltb x y) eqn:E2; try lia.
    + rewrite (fl_asym y x Ny Nx E1) in E2. discriminate.
    + apply IH; auto.
Qed.

Lemma cs_le_cons x t1 y t2 :
  cmpSharesRev (x :: t1) (y :: t2) <= 0 <->
  f_ltb y x = false /\ (f_ltb x y = true \/ (f_ltb x y = false /\ cmpSharesRev t1 t2 <= 0)).
Proof.
  rewrite cs_cons. destruct (f_ltb y x), (f_ltb x y); split; intros H; try lia; try tauto;
    try (destruct H as [H _]; discriminate);
    try (destruct H as [_ [H|[H _]]]; discriminate).
Qed.
Lemma leftover_le x t : okf x -> (leftoverSign (x :: t) <= 0 <-> f_ltb f_zero x = false /\ leftoverSign t <= 0).
Proof.
  intros [_ Hx]. rewrite leftover_cons, Hx. destruct (f_ltb f_zero x); split; intros H; try lia; try tauto;
    try (destruct H; discriminate).
Qed.

Lemma cs_le_trans a : forall b c, okl a -> okl b -> okl c ->
  cmpSharesRev a b <= 0 -> cmpSharesRev b c <= 0 -> cmpSharesRev a c <= 0.
Proof.
  induction a as [|x ta IH]; intros b c Ha Hb Hc H1 H2.
  - rewrite cs_nil_l. destruct (leftover_range c Hc); lia.
  - inversion Ha as [|? ? Ox Hta]; subst. pose proof Ox as [Nx Xz].
    destruct b as [|y tb].
    + rewrite cs_nil_r in H1. apply (leftover_le x ta Ox) in H1 as [Zx Lta].
      destruct c as [|z tc]; [rewrite cs_nil_r; apply (leftover_le x ta Ox); auto|].
      inversion Hc as [|? ? [Nz Zz] Htc]; subst.
      apply cs_le_cons. split.
      { apply (fl_negtrans z f_zero x); auto using zero_not_nan. }
      destruct (f_ltb x z) eqn:E; [left; reflexivity|right; split; [reflexivity|]].
      apply (IH [] tc); auto.
      * rewrite cs_nil_r. exact Lta.
      * rewrite cs_nil_l. destruct (leftover_range tc Htc); lia.
    + inversion Hb as [|? ? Oy Htb]; subst. pose proof Oy as [Ny Yz].
      apply cs_le_cons in H1 as [Hyx H1].
      destruct c as [|z tc].
      * rewrite cs_nil_r in H2. apply (leftover_le y tb Oy) in H2 as [Zy Ltb].
        rewrite cs_nil_r. apply (leftover_le x ta Ox). split.
        { apply (fl_negtrans f_zero y x); auto using zero_not_nan. }
        destruct H1 as [Hxy|[Hxy Hab]].
        { exfalso. rewrite (fl_negtrans x f_zero y) in Hxy; auto using zero_not_nan. discriminate. }
        assert (cmpSharesRev ta [] <= 0) as X.
        { apply (IH tb []); auto. rewrite cs_nil_r. exact Ltb. }
        rewrite cs_nil_r in X. exact X.
      * inversion Hc as [|? ? [Nz Zz] Htc]; subst.
        apply cs_le_cons in H2 as [Hzy H2]. apply cs_le_cons. split.
        { apply (fl_negtrans z y x); auto. }
        destruct (f_ltb x z) eqn:E; [left; reflexivity|right; split; [reflexivity|]].
        destruct H1 as [Hxy|[Hxy Hab]].
        { exfalso. rewrite (fl_negtrans x z y) in Hxy; auto. discriminate. }
        destruct H2 as [Hyz|[Hyz Hbc]].
        { exfalso. rewrite (fl_negtrans y x z) in Hyz; auto. discriminate. }
        apply (IH tb tc); auto.
Qed.

(* ---- the order on applications ---- *)
Definition app_okP (g : ores) (a : app) : Prop := okl (GetShares (a_alloc a) g).
Definition shLt (g : ores) (a b : app) : bool := CompUsageRatio (a_alloc a) (a_alloc b) g <? 0.

Lemma okl_rev l : okl l -> okl (rev l).
Proof. unfold okl. intros H. apply Forall_forall. intros x Hx. rewrite Forall_forall in H. apply H, in_rev, Hx. Qed.

Lemma app_ok_okP which g a : (which <? 2)%N = true -> app_ok which g a = true -> app_okP g a.
Proof.
  unfold app_ok, app_okP, okl. intros -> H. apply Forall_forall. intros x Hx.
  rewrite forallb_forall in H. specialize (H x Hx). unfold share_ok in H.
  apply andb_true_iff in H as [H1 H2]. apply negb_true_iff in H1, H2. split; assumption.
Qed.

Lemma CU_unfold g a b :
  CompUsageRatio (a_alloc a) (a_alloc b) g =
  cmpSharesRev (rev (GetShares (a_alloc a) g)) (rev (GetShares (a_alloc b) g)).
Proof. reflexivity. Qed.

Lemma swo_shLt g : swo_on (app_okP g) (shLt g).
Proof.
  unfold shLt. repeat split.
  - intros a Pa. rewrite CU_unfold, cs_refl; [reflexivity|apply okl_rev, Pa].
  - intros a b c Pa Pb Pc. rewrite !CU_unfold, !Z.ltb_lt. intros H1 H2.
    pose proof (okl_rev _ Pa) as Ra. pose proof (okl_rev _ Pb) as Rb. pose proof (okl_rev _ Pc) as Rc.
    assert (cmpSharesRev (rev (GetShares (a_alloc a) g)) (rev (GetShares (a_alloc c) g)) <= 0) as L
        by (apply (cs_le_trans _ _ _ Ra Rb Rc); lia).
    destruct (Z.eq_dec (cmpSharesRev (rev (GetShares (a_alloc a) g)) (rev (GetShares (a_alloc c) g))) 0) as [E|E]; [|lia].
    exfalso.
    assert (cmpSharesRev (rev (GetShares (a_alloc c) g)) (rev (GetShares (a_alloc b) g)) <= 0) as L2.
    { apply (cs_le_trans _ _ _ Rc Ra Rb); [rewrite (cs_antisym _ _ Rc Ra); lia|lia]. }
    rewrite (cs_antisym _ _ Rc Rb) in L2. lia.
  - rewrite !CU_unfold, !Z.ltb_ge in *.
    pose proof (okl_rev _ H) as Ra. pose proof (okl_rev _ H0) as Rb. pose proof (okl_rev _ H1) as Rc.
    rewrite (cs_antisym _ _ Ra Rc).
    assert (cmpSharesRev (rev (GetShares (a_alloc c) g)) (rev (GetShares (a_alloc a) g)) <= 0); [|lia].
    apply (cs_le_trans _ _ _ Rc Rb Ra); [rewrite (cs_antisym _ _ Rc Rb)|rewrite (cs_antisym _ _ Rb Ra)]; lia.
  - rewrite !CU_unfold, !Z.ltb_ge in *.
    pose proof (okl_rev _ H) as Ra. pose proof (okl_rev _ H0) as Rb. pose proof (okl_rev _ H1) as Rc.
    rewrite (cs_antisym _ _ Rc Ra).
    assert (cmpSharesRev (rev (GetShares (a_alloc a) g)) (rev (GetShares (a_alloc c) g)) <= 0); [|lia].
    apply (cs_le_trans _ _ _ Ra Rb Rc); [rewrite (cs_antisym _ _ Ra Rb)|rewrite (cs_antisym _ _ Rb Rc)]; lia.
Qed.

Lemma swo_aprio g : swo_on (app_okP g) (by_key a_prio (fun a b => b <? a)).
Proof.
  apply (swo_on_weaken (fun _ => True)); [auto|].
  exact (swo_by_key (fun _ => True) (fun _ => True) a_prio _ (fun _ _ => I) swo_Zgt).
Qed.

Theorem swo_aFairPrio g : swo_on (app_okP g) (aFairPrio g).
Proof.
  apply (swo_on_ext _ (lex (shLt g) (by_key a_prio (fun a b => b <? a)))).
  - intros a b Pa Pb. unfold lex, aFairPrio, shLt, by_key.
    rewrite (CU_unfold g b a), (cs_antisym _ _ (okl_rev _ Pb) (okl_rev _ Pa)), <- (CU_unfold g a b).
    destruct (Z.eqb_spec (CompUsageRatio (a_alloc a) (a_alloc b) g) 0) as [E|E]; simpl.
    + rewrite E. reflexivity.
    + destruct (Z.ltb_spec (CompUsageRatio (a_alloc a) (a_alloc b) g) 0); simpl; [reflexivity|].
      destruct (Z.ltb_spec (- CompUsageRatio (a_alloc a) (a_alloc b) g) 0); simpl; [reflexivity|lia].
  - apply swo_lex; [apply swo_shLt|apply swo_aprio].
Qed.
Theorem swo_aPrioFair g : swo_on (app_okP g) (aPrioFair g).
Proof.
  apply (swo_on_ext _ (lex (by_key a_prio (fun a b => b <? a)) (shLt g))).
  - intros a b _ _. unfold lex, aPrioFair, shLt, by_key.
    destruct (a_prio b <? a_prio a); [reflexivity|]. simpl. destruct (a_prio a <? a_prio b); reflexivity.
  - apply swo_lex; [apply swo_aprio|apply swo_shLt].
Qed.

(* all four application orders, on the domain the oracle uses *)
Theorem swo_app which g : swo_on (fun a => app_ok which g a = true) (app_lt which g).
Proof.
  destruct which as [|[p|p|]]; simpl.
  - apply (swo_on_weaken (app_okP g)); [intros a; apply app_ok_okP; reflexivity|apply swo_aFairPrio].
  - destruct p; apply (swo_on_weaken (fun _ => True)); auto;
      try (repeat split; intros; try reflexivity; discriminate).
    exact swo_aPrioSub.
  - destruct p; apply (swo_on_weaken (fun _ => True)); auto;
      try (repeat split; intros; try reflexivity; discriminate).
    exact swo_aSubPrio.
  - apply (swo_on_weaken (app_okP g)); [intros a; apply app_ok_okP; reflexivity|apply swo_aPrioFair].
Qed.
