(* Model of baseNodeCollection (pkg/scheduler/objects/node_collection.go), its listener
   protocol with Node (node.go: which methods call notifyListeners) and the two tree iterators
   (node_iterator.go).  Definitions only; proofs in NodesProofs.v.

   Scores.  Only the ORDER of node scores matters here, so a score enters the model as an integer
   key: the harness hands over the order-preserving image of the float64 the real ScoreNode returns
   (NaN excluded; see notes/sort.md).  A Node object is abstracted to (its score under every
   policy the history uses, whether it has a reservation): [n_scores] is a harness-supplied table
   of the external function ScoreNode, re-read from the real node after every node operation.

   google/btree is abstracted to a list kept strictly ascending by (score, nodeID), the order of
   nodeRef.Less; ReplaceOrInsert / Delete act on the item that is equal under that order. *)
From Coq Require Import List ZArith NArith Bool.
Import ListNotations.
Open Scope Z_scope.

Record node := mkNode { n_scores : list Z; n_reserved : bool }.
Definition score (p : nat) (n : node) : Z := nth p (n_scores n) 0.

Definition key := (Z * N)%type.                     (* nodeRef: (nodeScore, NodeID) *)
Definition klt (a b : key) : bool :=                (* nodeRef.Less *)
  (fst a <? fst b) || (negb (fst b <? fst a) && (snd a <? snd b)%N).
Fixpoint tinsert (x : key) (t : list key) : list key :=          (* ReplaceOrInsert *)
  match t with
  | [] => [x]
  | y :: r => if klt x y then x :: t else if klt y x then y :: tinsert x r else x :: r
  end.
Definition tdelete (x : key) (t : list key) : list key :=         (* Delete *)
  filter (fun y => klt x y || klt y x) t.

Fixpoint alookup {V} (k : N) (l : list (N * V)) : option V :=
  match l with [] => None | (k', v) :: t => if N.eqb k k' then Some v else alookup k t end.
Fixpoint aset {V} (k : N) (v : V) (l : list (N * V)) : list (N * V) :=
  match l with
  | [] => [(k, v)]
  | (k', v') :: t => if N.eqb k k' then (k, v) :: t else (k', v') :: aset k v t
  end.
Fixpoint adel {V} (k : N) (l : list (N * V)) : list (N * V) :=
  match l with [] => [] | (k', v') :: t => if N.eqb k k' then t else (k', v') :: adel k t end.

Record coll := mkColl {
  c_pol : nat;                  (* nc.nsp: index of the policy in force *)
  c_refs : list (N * Z);        (* nc.nodes: NodeID -> cached nodeScore *)
  c_tree : list key;            (* nc.sortedNodes *)
  c_objs : list (N * node) }.   (* the Node objects (registered or not) and their current state *)

Definition init (p : nat) : coll := mkColl p [] [] [].

(* the Node methods the histories use; [notifies] is read off node.go *)
Inductive nkind :=
| KAlloc | KAllocFail           (* TryAddAllocation / AddAllocation of a scheduler allocation *)
| KRelease | KReleaseMissing    (* RemoveAllocation of a scheduler allocation / of an unknown key *)
| KForeignAdd | KForeignRemove | KForeignUpdate
| KSetCapacity | KSetCapacitySame
| KSetOccupied | KUpdateAllocated | KSetSchedulable
| KReserve | KUnreserve | KReplace
| KNoop.                        (* any call that returned early: failed Reserve, unknown key, ... *)
Definition notifies (k : nkind) : bool :=
  match k with
  | KAlloc => true               (* addAllocationInternal: result && !foreign *)
  | KAllocFail => false
  | KRelease => true             (* RemoveAllocation: alloc != nil && !alloc.IsForeign() *)
  | KReleaseMissing => false
  | KForeignAdd => false | KForeignRemove => false
  | KForeignUpdate => false      (* UpdateForeignAllocation never calls notifyListeners *)
  | KSetCapacity => true         (* delta != nil *)
  | KSetCapacitySame => false
  | KSetOccupied => true         (* deferred unconditionally *)
  | KUpdateAllocated => false    (* UpdateAllocatedResource never calls notifyListeners *)
  | KSetSchedulable => true
  | KReserve => false | KUnreserve => false
  | KReplace => true
  | KNoop => false
  end.
(* what the method does to the abstract node state *)
Inductive effect := ENone | EScores | EReserved.
Definition effect_of (k : nkind) : effect :=
  match k with
  | KAllocFail | KReleaseMissing | KSetCapacitySame | KSetSchedulable | KNoop => ENone
  | KReserve | KUnreserve => EReserved
  | _ => EScores
  end.

Inductive cop :=
| OAdd (id : N) (n : node)         (* AddNode(the object with that id; n = its state if it is new) *)
| ORemove (id : N)
| ONode (id : N) (k : nkind) (scores : list Z) (reserved : bool)
| OPolicy (p : nat).

(* NodeUpdated(node) *)
Definition node_updated (c : coll) (id : N) : coll :=
  match alookup id (c_refs c), alookup id (c_objs c) with
  | Some cached, Some o =>
      let updated := score (c_pol c) o in
      if cached =? updated then c
      else mkColl (c_pol c) (aset id updated (c_refs c))
                  (tinsert (updated, id) (tdelete (cached, id) (c_tree c))) (c_objs c)
  | _, _ => c
  end.

Definition registered (c : coll) (id : N) : bool :=
  match alookup id (c_refs c) with Some _ => true | None => false end.

Definition step (c : coll) (o : cop) : coll :=
  match o with
  | OAdd id n =>
      if registered c id then c else
      let obj := match alookup id (c_objs c) with Some x => x | None => n end in
      let s := score (c_pol c) obj in
      mkColl (c_pol c) (aset id s (c_refs c)) (tinsert (s, id) (c_tree c)) (aset id obj (c_objs c))
  | ORemove id =>
      match alookup id (c_refs c) with
      | None => c
      | Some cached => mkColl (c_pol c) (adel id (c_refs c)) (tdelete (cached, id) (c_tree c)) (c_objs c)
      end
  | ONode id k scores reserved =>
      match alookup id (c_objs c) with
      | None => c
      | Some old =>
          let new := match effect_of k with
                     | ENone => old
                     | EScores => mkNode scores (n_reserved old)
                     | EReserved => mkNode (n_scores old) reserved
                     end in
          let c1 := mkColl (c_pol c) (c_refs c) (c_tree c) (aset id new (c_objs c)) in
          (* listeners = the collection, exactly while the node is registered *)
          if notifies k then node_updated c1 id else c1
      end
  | OPolicy p =>
      (* SetNodeSortingPolicy: clear the tree, re-score and re-insert every nodeRef *)
      let refs := map (fun kv => (fst kv, match alookup (fst kv) (c_objs c) with
                                           | Some x => score p x | None => snd kv end)) (c_refs c) in
      mkColl p refs (fold_left (fun t kv => tinsert (snd kv, fst kv) t) refs []) (c_objs c)
  end.
Definition run (p : nat) (ops : list cop) : coll := fold_left step ops (init p).

(* the two iterators: Ascend over a clone of the tree, accept() evaluated on the node *)
Definition full_iter (c : coll) : list N := map snd (c_tree c).
Definition is_reserved (c : coll) (id : N) : bool :=
  match alookup id (c_objs c) with Some o => n_reserved o | None => false end.
Definition unreserved_iter (c : coll) : list N :=
  filter (fun id => negb (is_reserved c id)) (full_iter c).

(* ---- specification side ---- *)
(* nodes whose cached score may be out of date: the last score-changing method called on them
   since their score was last computed does not notify the listeners *)
Definition dirty_step (c : coll) (d : list N) (o : cop) : list N :=
  match o with
  | OAdd id _ => if registered c id then d else filter (fun x => negb (N.eqb x id)) d
  | ORemove id => filter (fun x => negb (N.eqb x id)) d
  | ONode id k _ _ =>
      if notifies k then filter (fun x => negb (N.eqb x id)) d
      else match effect_of k with EScores => id :: d | _ => d end
  | OPolicy _ => []
  end.
Definition step_g (cd : coll * list N) (o : cop) : coll * list N :=
  (step (fst cd) o, dirty_step (fst cd) (snd cd) o).
Definition run_g (p : nat) (ops : list cop) : coll * list N := fold_left step_g ops (init p, []).

Definition current_score (c : coll) (id : N) : option Z :=
  option_map (score (c_pol c)) (alookup id (c_objs c)).
Definition is_current (c : coll) (id : N) : bool :=
  match alookup id (c_refs c), current_score c id with
  | Some a, Some b => a =? b
  | None, _ => true
  | _, _ => false
  end.

Fixpoint ksorted (t : list key) : bool :=           (* strictly ascending *)
  match t with
  | [] => true
  | a :: r => match r with [] => true | b :: _ => klt a b && ksorted r end
  end.
