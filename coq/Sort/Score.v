(* The node score itself (nodesorting.go: absResourceUsage, fairness / bin packing ScoreNode;
   node.go: GetResourceUsageShares) over IEEE-754 binary64, and the order-preserving integer image
   of a float64 the harness uses as score key.  Definitions only.  The node collection model
   (Nodes.v) does not depend on this file: it takes scores as opaque keys; this file ties those
   keys to the node's capacity and available resources in the correspondence run.

   Go iterates the shares map in runtime order and adds float64 terms; with at most two weighted
   resource types the sum does not depend on that order (0+a+b = 0+b+a), which is what the
   generators use. *)
From Coq Require Import List ZArith NArith Bool Floats.SpecFloat.
From YK Require Import Base.Int64 Base.F64 Base.Res.
Import ListNotations.
Open Scope Z_scope.

Record policy := mkPol {
  p_kind : N;                            (* 0 fairness, 1 bin packing, other: no policy (nil) *)
  p_weights : list (tid * Z) }.          (* configured resource weights; empty = not configured *)

(* defaultResourceWeights(): vcore (tid 0) and memory (tid 1) weigh 1.0 *)
Definition defaultWeights : list (tid * Z) := [(0%N, 1); (1%N, 1)].
Definition weightsOf (p : policy) : list (tid * f64) :=
  map (fun kv => (fst kv, f_of_Z (snd kv)))
      (match p_weights p with [] => defaultWeights | w => w end).

(* Node.GetResourceUsageShares: 1 - available[k] / total[k] for every type of the capacity *)
Definition usageShares (total avail : ores) : list (tid * f64) :=
  match total with
  | None => []
  | Some t => map (fun kv => (fst kv, f_sub f_one (f_div (f_of_Z (getz (oget avail) (fst kv))) (f_of_Z (snd kv))))) t
  end.

Fixpoint wlookup (k : tid) (w : list (tid * f64)) : option f64 :=
  match w with [] => None | (k', v) :: t => if N.eqb k k' then Some v else wlookup k t end.

Definition absResourceUsage (w : list (tid * f64)) (shares : list (tid * f64)) : f64 :=
  let '(usage, tw) :=
    fold_left (fun acc kv =>
                 let '(u, t) := acc in
                 match wlookup (fst kv) w with
                 | None => acc
                 | Some wt => if f_eqb wt f_zero then acc else
                              if f_is_nan (snd kv) then acc else
                              (f_add u (f_mul (snd kv) wt), f_add t wt)
                 end) shares (f_zero, f_zero) in
  if f_eqb tw f_zero then f_zero else f_div usage tw.

Definition scoreNode (p : policy) (total avail : ores) : f64 :=
  match p_kind p with
  | 0%N => absResourceUsage (weightsOf p) (usageShares total avail)
  | 1%N => f_sub f_one (absResourceUsage (weightsOf p) (usageShares total avail))
  | _ => f_zero
  end.

(* IEEE-754 binary64 bit pattern of a canonical SpecFloat *)
Definition f_bits (x : f64) : option Z :=
  match x with
  | S754_nan => None
  | S754_zero s => Some (if s then 2^63 else 0)
  | S754_infinity s => Some ((if s then 2^63 else 0) + 2047 * 2^52)
  | S754_finite s m e =>
      let m := Zpos m in
      Some ((if s then 2^63 else 0) + (if m <? 2^52 then m else (e + 1075) * 2^52 + (m - 2^52)))
  end.
(* the harness key: -0 = +0; negative floats: ^bits, others: bits | 1<<63 *)
Definition score_key (x : f64) : option Z :=
  if f_is_zero x then Some (2^63) else
  match f_bits x with
  | None => None
  | Some b => Some (if b <? 2^63 then b + 2^63 else 2^64 - 1 - b)
  end.
