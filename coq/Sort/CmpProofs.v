(* Which comparators of sorters.go are strict weak orders.
   - combinators: lexicographic product and ordering by a key preserve strict weak orders;
   - float64 "<" (SpecFloat SFltb) is a strict weak order on the non-NaN floats;
   - getFairShare never returns NaN, so the queue orders WITHOUT the pending tie-break are strict
     weak orders on all queues; with the tie-break they are not (witness);
   - the two time/priority application orders and the ask order are strict weak orders. *)
From Coq Require Import List ZArith NArith Bool Lia Floats.SpecFloat.
From YK Require Import Base.Int64 Base.F64 Base.Res Sort.Sort Sort.SortProofs Sort.Cmp.
Import ListNotations.
Open Scope Z_scope.
Set Default Timeout 60.

(* ---------------------------------------------------------------- combinators *)
Definition lex {A} (lt1 lt2 : A -> A -> bool) (a b : A) : bool := lt1 a b || (negb (lt1 b a) && lt2 a b).
Definition by_key {A K} (f : A -> K) (ltK : K -> K -> bool) (a b : A) : bool := ltK (f a) (f b).

Lemma swo_on_ext {A} (P : A -> Prop) (lt lt' : A -> A -> bool) :
  (forall a b, P a -> P b -> lt a b = lt' a b) -> swo_on P lt -> swo_on P lt'.
Proof.
  intros E [H1 [H2 H3]]. repeat split.
  - intros a Pa. rewrite <- E; auto.
  - intros a b c Pa Pb Pc. rewrite <- !E; auto. apply H2; auto.
  - rewrite <- !E in *; auto. destruct (H3 a b c) as [X _]; auto.
  - rewrite <- !E in *; auto. destruct (H3 a b c) as [_ X]; auto.
Qed.
Lemma swo_on_weaken {A} (P Q : A -> Prop) (lt : A -> A -> bool) :
  (forall a, Q a -> P a) -> swo_on P lt -> swo_on Q lt.
Proof.
  intros I [H1 [H2 H3]]. repeat split; intros.
  - auto.
  - eapply H2 with (b := b); auto.
  - destruct (H3 a b c) as [X _]; auto.
  - destruct (H3 a b c) as [_ X]; auto.
Qed.
Lemma swo_by_key {A K} (P : A -> Prop) (Q : K -> Prop) (f : A -> K) (ltK : K -> K -> bool) :
  (forall a, P a -> Q (f a)) -> swo_on Q ltK -> swo_on P (by_key f ltK).
Proof.
  intros I [H1 [H2 H3]]. unfold by_key. repeat split; intros.
  - auto.
  - eapply H2 with (b := f b); auto.
  - destruct (H3 (f a) (f b) (f c)) as [X _]; auto.
  - destruct (H3 (f a) (f b) (f c)) as [_ X]; auto.
Qed.

Section Lex.
  Context {A : Type}.
  Variables (P : A -> Prop) (lt1 lt2 : A -> A -> bool).
  Hypothesis S1 : swo_on P lt1.
  Hypothesis S2 : swo_on P lt2.

  Lemma lex_true a b : lex lt1 lt2 a b = true <-> lt1 a b = true \/ (lt1 b a = false /\ lt2 a b = true).
  Proof.
    unfold lex. rewrite orb_true_iff, andb_true_iff, negb_true_iff. tauto.
  Qed.
  Lemma lex_false a b : lex lt1 lt2 a b = false <-> lt1 a b = false /\ (lt1 b a = true \/ lt2 a b = false).
  Proof.
    unfold lex. rewrite orb_false_iff, andb_false_iff, negb_false_iff. tauto.
  Qed.

  Lemma swo_lex : swo_on P (lex lt1 lt2).
  Proof.
    repeat split.
    - intros a Pa. apply lex_false. rewrite (swo_irrefl lt1 P S1 a Pa), (swo_irrefl lt2 P S2 a Pa). auto.
    - intros a b c Pa Pb Pc H1 H2. apply lex_true in H1, H2. apply lex_true.
      destruct H1 as [H1|[H1 H1']], H2 as [H2|[H2 H2']].
      + left. eapply (swo_trans lt1 P S1) with (b := b); auto.
      + left. destruct (lt1 a c) eqn:E; auto. exfalso.
        rewrite (swo_negtrans lt1 P S1 a c b Pa Pc Pb E H2) in H1. discriminate.
      + left. destruct (lt1 a c) eqn:E; auto. exfalso.
        rewrite (swo_negtrans lt1 P S1 b a c Pb Pa Pc H1 E) in H2. discriminate.
      + right. split.
        * apply (swo_negtrans lt1 P S1 c b a); auto.
        * eapply (swo_trans lt2 P S2) with (b := b); auto.
    - apply lex_false in H2, H3, H4, H5. apply lex_false.
      destruct H2 as [A1 A2], H3 as [B1 B2], H4 as [C1 C2], H5 as [D1 D2].
      assert (lt2 a b = false) by (destruct A2; congruence).
      assert (lt2 b a = false) by (destruct B2; congruence).
      assert (lt2 b c = false) by (destruct C2; congruence).
      assert (lt2 c b = false) by (destruct D2; congruence).
      split.
      + apply (swo_negtrans lt1 P S1 a b c); auto.
      + right. apply (swo_negtrans lt2 P S2 a b c); auto.
    - apply lex_false in H2, H3, H4, H5. apply lex_false.
      destruct H2 as [A1 A2], H3 as [B1 B2], H4 as [C1 C2], H5 as [D1 D2].
      assert (lt2 a b = false) by (destruct A2; congruence).
      assert (lt2 b a = false) by (destruct B2; congruence).
      assert (lt2 b c = false) by (destruct C2; congruence).
      assert (lt2 c b = false) by (destruct D2; congruence).
      split.
      + apply (swo_negtrans lt1 P S1 c b a); auto.
      + right. apply (swo_negtrans lt2 P S2 c b a); auto.
  Qed.
End Lex.

(* ---------------------------------------------------------------- integers *)
Lemma swo_Zlt : swo Z.ltb.
Proof.
  repeat split; intros; rewrite ?Z.ltb_lt, ?Z.ltb_ge in *; lia.
Qed.
Lemma swo_Zgt : swo (fun a b : Z => b <? a).
Proof.
  repeat split; intros; rewrite ?Z.ltb_lt, ?Z.ltb_ge in *; lia.
Qed.

(* ---------------------------------------------------------------- float64 < *)
Definition not_nan (x : f64) : Prop := f_is_nan x = false.

Definition frank (x : f64) : Z * Z * Z :=
  match x with
  | S754_infinity true => (-2, 0, 0)
  | S754_finite true m e => (-1, - e, - Zpos m)
  | S754_zero _ => (0, 0, 0)
  | S754_finite false m e => (1, e, Zpos m)
  | S754_infinity false => (2, 0, 0)
  | S754_nan => (3, 0, 0)
  end.
Definition lex3 (a b : Z * Z * Z) : Prop :=
  fst (fst a) < fst (fst b) \/
  (fst (fst a) = fst (fst b) /\ (snd (fst a) < snd (fst b) \/ (snd (fst a) = snd (fst b) /\ snd a < snd b))).

Lemma f_ltb_rank x y : not_nan x -> not_nan y -> (f_ltb x y = true <-> lex3 (frank x) (frank y)).
Proof.
  unfold not_nan, f_ltb, SFltb, lex3.
  destruct x as [sx|sx| |sx mx ex], y as [sy|sy| |sy my ey]; simpl; try discriminate; intros _ _;
    try (destruct sx); try (destruct sy); simpl; try (split; [discriminate|lia]); try (split; [reflexivity|lia]);
    try (split; [intros _; lia|reflexivity]).
  - replace (Pcompare mx my Eq) with (Pos.compare mx my) by reflexivity.
    destruct (Z.compare_spec ex ey); destruct (Pos.compare_spec mx my); simpl; split; try discriminate; try reflexivity; try lia.
  - replace (Pcompare mx my Eq) with (Pos.compare mx my) by reflexivity.
    destruct (Z.compare_spec ex ey); destruct (Pos.compare_spec mx my); simpl; split; try discriminate; try reflexivity; try lia.
Qed.

Lemma swo_f_ltb : swo_on not_nan f_ltb.
Proof.
  repeat split.
  - intros a Na. destruct (f_ltb a a) eqn:E; auto. apply (f_ltb_rank a a Na Na) in E. unfold lex3 in E. lia.
  - intros a b c Na Nb Nc H1 H2. apply (f_ltb_rank _ _ Na Nb) in H1. apply (f_ltb_rank _ _ Nb Nc) in H2.
    apply (f_ltb_rank _ _ Na Nc). unfold lex3 in *. lia.
  - destruct (f_ltb a c) eqn:E; auto. exfalso.
    apply (f_ltb_rank _ _ H H1) in E.
    assert (~ lex3 (frank a) (frank b)) by (rewrite <- (f_ltb_rank _ _ H H0); congruence).
    assert (~ lex3 (frank b) (frank a)) by (rewrite <- (f_ltb_rank _ _ H0 H); congruence).
    assert (~ lex3 (frank b) (frank c)) by (rewrite <- (f_ltb_rank _ _ H0 H1); congruence).
    assert (~ lex3 (frank c) (frank b)) by (rewrite <- (f_ltb_rank _ _ H1 H0); congruence).
    unfold lex3 in *. lia.
  - destruct (f_ltb c a) eqn:E; auto. exfalso.
    apply (f_ltb_rank _ _ H1 H) in E.
    assert (~ lex3 (frank a) (frank b)) by (rewrite <- (f_ltb_rank _ _ H H0); congruence).
    assert (~ lex3 (frank b) (frank a)) by (rewrite <- (f_ltb_rank _ _ H0 H); congruence).
    assert (~ lex3 (frank b) (frank c)) by (rewrite <- (f_ltb_rank _ _ H0 H1); congruence).
    assert (~ lex3 (frank c) (frank b)) by (rewrite <- (f_ltb_rank _ _ H1 H0); congruence).
    unfold lex3 in *. lia.
Qed.

Lemma f_ltb_nan_r x y : f_ltb x y = true -> not_nan y.
Proof. unfold f_ltb, SFltb, not_nan. destruct x, y; simpl; try discriminate; reflexivity. Qed.
Lemma f_ltb_nan_l x y : f_ltb x y = true -> not_nan x.
Proof. unfold f_ltb, SFltb, not_nan. destruct x, y; simpl; try discriminate; reflexivity. Qed.

(* ---------------------------------------------------------------- getFairShare is never NaN *)
Lemma getFairShare_not_nan a g f : not_nan (getFairShare a g f).
Proof.
  unfold getFairShare. destruct a as [a|]; [|reflexivity].
  assert (H : forall mx, not_nan mx ->
    not_nan (fold_left (fun mx kv =>
                   if snd kv <? 0 then mx else
                   let '(s, found) := shareFairDenom (fst kv) (snd kv) g in
                   let '(s, found) := if found then (s, found) else shareFairDenom (fst kv) (snd kv) f in
                   if found && f_gtb s mx then s else mx) a mx)).
  { induction a as [|kv t IH]; intros mx Hm; simpl; [exact Hm|].
    apply IH. destruct (snd kv <? 0); [exact Hm|].
    destruct (shareFairDenom (fst kv) (snd kv) g) as [s found].
    destruct (if found then (s, found) else shareFairDenom (fst kv) (snd kv) f) as [s' found'].
    destruct (found' && f_gtb s' mx) eqn:E; [|exact Hm].
    apply andb_true_iff in E as [_ E]. unfold f_gtb in E. eapply f_ltb_nan_r. exact E. }
  apply H. reflexivity.
Qed.

(* ---------------------------------------------------------------- queues *)
Theorem swo_qByPrio : swo qByPrio.
Proof. exact (swo_by_key (fun _ => True) (fun _ => True) qprio (fun a b => b <? a) (fun _ _ => I) swo_Zgt). Qed.

Definition qshare' (q : queue) : f64 := qshare q (q_fmax q).
Lemma swo_qshare : swo (by_key qshare' f_ltb).
Proof.
  apply (swo_by_key (fun _ => True) not_nan qshare' f_ltb); [|exact swo_f_ltb].
  intros a _. apply getFairShare_not_nan.
Qed.

Theorem swo_qPrioFairKeys : swo qPrioFairKeys.
Proof.
  apply (swo_on_ext _ (lex qByPrio (by_key qshare' f_ltb))).
  - intros a b _ _. unfold lex, qPrioFairKeys, qByPrio, by_key, qshare'.
    destruct (qprio b <? qprio a); [reflexivity|]. simpl. destruct (qprio a <? qprio b); reflexivity.
  - apply swo_lex; [exact swo_qByPrio|exact swo_qshare].
Qed.
Theorem swo_qFairPrioKeys : swo qFairPrioKeys.
Proof.
  apply (swo_on_ext _ (lex (by_key qshare' f_ltb) qByPrio)).
  - intros a b _ _. unfold lex, qFairPrioKeys, qByPrio, by_key, qshare'.
    destruct (f_ltb (qshare a (q_fmax a)) (qshare b (q_fmax b))); [reflexivity|]. simpl.
    destruct (f_ltb (qshare b (q_fmax b)) (qshare a (q_fmax a))); reflexivity.
  - apply swo_lex; [exact swo_qshare|exact swo_qByPrio].
Qed.
Theorem swo_queue_keys st cp : swo (queue_keys_lt st cp).
Proof.
  unfold queue_keys_lt. destruct (N.eqb st 1), cp;
    auto using swo_qPrioFairKeys, swo_qFairPrioKeys, swo_qByPrio.
  repeat split; intros; try reflexivity; discriminate.
Qed.

(* the full fair comparators: the pending tie-break breaks transitivity of incomparability.
   x, y, z have equal priority and equal share; pending x = (2,2), y = (1,1), z = (3,0) *)
Definition wq (id : N) (pend : res) : queue :=
  mkQ id false 0 0 (Some [(0%N, 10)]) None (Some pend) (Some [(0%N, 100)]).
Definition wx := wq 1 [(0%N, 2); (1%N, 2)].
Definition wy := wq 2 [(0%N, 1); (1%N, 1)].
Definition wz := wq 3 [(0%N, 3); (1%N, 0)].

Lemma not_swo_witness {A} (lt : A -> A -> bool) x y z :
  lt y z = false -> lt z y = false -> lt z x = false -> lt x z = false -> lt x y = true -> ~ swo lt.
Proof.
  intros H1 H2 H3 H4 H5 [_ [_ H]]. destruct (H y z x I I I H1 H2 H3 H4) as [_ X]. congruence.
Qed.
Theorem qPrioFair_not_swo_refuted : ~ swo qPrioFair.
Proof. apply (not_swo_witness qPrioFair wx wy wz); vm_compute; reflexivity. Qed.
Theorem qFairPrio_not_swo_refuted : ~ swo qFairPrio.
Proof. apply (not_swo_witness qFairPrio wx wy wz); vm_compute; reflexivity. Qed.
(* ... and the output of the sort depends on the order of the input: x sorts before y, yet *)
Theorem fair_sort_order_dependent_refuted :
  qPrioFair wx wy = true /\
  map q_id (sortQueue 1 true [wy; wz; wx]) = [2; 3; 1]%N /\       (* y before x *)
  map q_id (sortQueue 1 true [wy; wx; wz]) = [1; 2; 3]%N.         (* x before y *)
Proof. vm_compute. auto. Qed.

(* ---------------------------------------------------------------- applications (time / priority) *)
Theorem swo_aSubPrio : swo aSubPrio.
Proof.
  apply (swo_on_ext _ (lex (by_key a_sub Z.ltb) (by_key a_prio (fun a b => b <? a)))).
  - intros a b _ _. unfold lex, aSubPrio, by_key.
    destruct (a_sub a <? a_sub b); [reflexivity|]. simpl. destruct (a_sub b <? a_sub a); reflexivity.
  - apply swo_lex.
    + exact (swo_by_key (fun _ => True) (fun _ => True) a_sub Z.ltb (fun _ _ => I) swo_Zlt).
    + exact (swo_by_key (fun _ => True) (fun _ => True) a_prio _ (fun _ _ => I) swo_Zgt).
Qed.
Theorem swo_aPrioSub : swo aPrioSub.
Proof.
  apply (swo_on_ext _ (lex (by_key a_prio (fun a b => b <? a)) (by_key a_sub Z.ltb))).
  - intros a b _ _. unfold lex, aPrioSub, by_key.
    destruct (a_prio b <? a_prio a); [reflexivity|]. simpl. destruct (a_prio a <? a_prio b); reflexivity.
  - apply swo_lex.
    + exact (swo_by_key (fun _ => True) (fun _ => True) a_prio _ (fun _ _ => I) swo_Zgt).
    + exact (swo_by_key (fun _ => True) (fun _ => True) a_sub Z.ltb (fun _ _ => I) swo_Zlt).
Qed.

(* ---------------------------------------------------------------- asks *)
Theorem swo_askBefore : swo askBefore.
Proof.
  apply (swo_on_ext _ (lex (by_key k_prio (fun a b => b <? a)) (by_key k_time Z.ltb))).
  - intros a b _ _. unfold lex, askBefore, by_key.
    destruct (k_prio b <? k_prio a); [reflexivity|]. simpl. destruct (k_prio a <? k_prio b); reflexivity.
  - apply swo_lex.
    + exact (swo_by_key (fun _ => True) (fun _ => True) k_prio _ (fun _ _ => I) swo_Zgt).
    + exact (swo_by_key (fun _ => True) (fun _ => True) k_time Z.ltb (fun _ _ => I) swo_Zlt).
Qed.
(* Allocation.LessThan is the complement of the strict order the list is kept in *)
Lemma LessThan_askBefore a b : LessThan a b = negb (askBefore a b).
Proof.
  unfold LessThan, askBefore.
  destruct (Z.eqb_spec (k_prio a) (k_prio b)) as [E|E].
  - rewrite E, Z.ltb_irrefl.
    destruct (Z.ltb_spec (k_time b) (k_time a)), (Z.ltb_spec (k_time a) (k_time b)), (Z.eqb_spec (k_time a) (k_time b)); simpl; try reflexivity; lia.
  - destruct (Z.ltb_spec (k_prio b) (k_prio a)), (Z.ltb_spec (k_prio a) (k_prio b)); simpl; try reflexivity; lia.
Qed.
